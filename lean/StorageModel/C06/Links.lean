import StorageModel.C06.Model
import StorageModel.C03.Refine
/-
  C06: invariants of the two link-collection components (plain and ref-counted), independent of
  the rest of the state.
-/
namespace StorageModel.C06
open StorageModel
open StorageModel.C03 (Map Id Err setInsert setErase setOf mem_setInsert mem_setErase)

/-! ### plain link collections -/

/-- link buckets are symmetric and live only inside existing entities -/
structure LinkInv (p : LinkPair) (aEx bEx : Id → Bool) : Prop where
  sym : ∀ j b, b ∈ (p.fwd.lookup j).getD [] ↔ j ∈ (p.bwd.lookup b).getD []
  bwdDom : ∀ b l, p.bwd.lookup b = some l → bEx b = true
  fwdDom : ∀ j l, p.fwd.lookup j = some l → aEx j = true

theorem LinkInv.empty (aEx bEx : Id → Bool) : LinkInv LinkPair.empty aEx bEx := by
  constructor <;> simp [LinkPair.empty]

theorem LinkInv.mono {p : LinkPair} {aEx bEx aEx' bEx' : Id → Bool} (h : LinkInv p aEx bEx)
    (ha : ∀ j, aEx j = true → aEx' j = true) (hb : ∀ j, bEx j = true → bEx' j = true) : LinkInv p aEx' bEx' :=
  ⟨h.sym, fun b l hl => hb b (h.bwdDom b l hl), fun j l hl => ha j (h.fwdDom j l hl)⟩

namespace LinkPair

theorem unlink_pres {p : LinkPair} {aEx bEx : Id → Bool} {a b : Id} (hi : LinkInv p aEx bEx) (ha : aEx a = true) :
    LinkInv (p.unlink bEx a b) aEx bEx ∧ ((p.unlink bEx a b).fwd.lookup a).isSome = true := by
  unfold unlink
  simp only
  cases hb : bEx b with
  | false =>
    simp only
    refine ⟨⟨?_, hi.bwdDom, ?_⟩, by simp⟩
    · intro j b'
      have h1 := hi.sym j b'
      simp only [Map.lookup_insert]
      have : p.bwd.lookup b = none := by
        cases hm : p.bwd.lookup b with
        | none => rfl
        | some l => have := hi.bwdDom b l hm; simp [hb] at this
      by_cases hj : j = a
      · subst hj; simp only [if_true, Option.getD_some, mem_setErase]
        by_cases hbb : b' = b
        · subst hbb; simp [this]
        · simp [hbb, h1]
      · simp [hj, h1]
    · intro j l; simp only [Map.lookup_insert]; split
      · next h => subst h; intro _; exact ha
      · exact hi.fwdDom j l
  | true =>
    cases hm : p.bwd.lookup b with
    | none =>
      simp only
      refine ⟨⟨?_, hi.bwdDom, ?_⟩, by simp⟩
      · intro j b'
        have h1 := hi.sym j b'
        simp only [Map.lookup_insert]
        by_cases hj : j = a
        · subst hj; simp only [if_true, Option.getD_some, mem_setErase]
          by_cases hbb : b' = b
          · subst hbb; simp [hm]
          · simp [hbb, h1]
        · simp [hj, h1]
      · intro j l; simp only [Map.lookup_insert]; split
        · next h => subst h; intro _; exact ha
        · exact hi.fwdDom j l
    | some ms =>
      simp only
      refine ⟨⟨?_, ?_, ?_⟩, by simp⟩
      · intro j b'
        have h1 := hi.sym j b'
        simp only [Map.lookup_insert]
        by_cases hj : j = a <;> by_cases hbb : b' = b
        · subst hj; subst hbb; simp
        · subst hj; simp [hbb, h1]
        · subst hbb; simp [hj, h1, hm]
        · simp [hj, hbb, h1]
      · intro b' l; simp only [Map.lookup_insert]; split
        · next h => subst h; intro _; exact hb
        · exact hi.bwdDom b' l
      · intro j l; simp only [Map.lookup_insert]; split
        · next h => subst h; intro _; exact ha
        · exact hi.fwdDom j l

theorem link_pres {p p' : LinkPair} {aEx bEx : Id → Bool} {a b : Id} (hi : LinkInv p aEx bEx) (ha : aEx a = true)
    (h : p.link bEx a b = .ok p') : LinkInv p' aEx bEx ∧ bEx b = true := by
  unfold link at h
  simp only at h
  cases hb : bEx b with
  | false => simp [hb] at h
  | true =>
    simp only [hb, if_true] at h
    cases h
    refine ⟨⟨?_, ?_, ?_⟩, rfl⟩
    · intro j b'
      have h1 := hi.sym j b'
      simp only [Map.lookup_insert]
      by_cases hj : j = a <;> by_cases hbb : b' = b
      · subst hj; subst hbb; simp
      · subst hj; simp [hbb, h1]
      · subst hbb; simp [hj, h1]
      · simp [hj, hbb, h1]
    · intro b' l; simp only [Map.lookup_insert]; split
      · next h => subst h; intro _; exact hb
      · exact hi.bwdDom b' l
    · intro j l; simp only [Map.lookup_insert]; split
      · next h => subst h; intro _; exact ha
      · exact hi.fwdDom j l

theorem unlink_fold_pres {aEx bEx : Id → Bool} (a : Id) (ks : List Id) {p : LinkPair} (hi : LinkInv p aEx bEx)
    (ha : aEx a = true) : LinkInv (ks.foldl (fun p k => p.unlink bEx a k) p) aEx bEx := by
  induction ks generalizing p with
  | nil => exact hi
  | cons k rest ih => exact ih (unlink_pres (b := k) hi ha).1

theorem linkAll_pres {aEx bEx : Id → Bool} (a : Id) (ks : List Id) {p p' : LinkPair} (hi : LinkInv p aEx bEx)
    (ha : aEx a = true) (h : linkAll bEx a ks p = .ok p') :
    LinkInv p' aEx bEx ∧ ∀ k, k ∈ ks → bEx k = true := by
  induction ks generalizing p with
  | nil => simp only [linkAll] at h; cases h; exact ⟨hi, by simp⟩
  | cons k rest ih =>
    simp only [linkAll] at h
    cases hk : p.link bEx a k with
    | error e => simp [hk] at h
    | ok p1 =>
      simp only [hk] at h
      obtain ⟨h1, h2⟩ := link_pres hi ha hk
      obtain ⟨g1, g2⟩ := ih h1 h
      refine ⟨g1, ?_⟩
      intro k' hk'
      simp only [List.mem_cons] at hk'
      rcases hk' with rfl | hk'
      · exact h2
      · exact g2 k' hk'

theorem setLinks_pres {p p' : LinkPair} {aEx bEx : Id → Bool} {a : Id} {req : List Id} (hi : LinkInv p aEx bEx)
    (ha : aEx a = true) (h : p.setLinks bEx a req = .ok p') : LinkInv p' aEx bEx := by
  unfold setLinks at h
  simp only at h
  have hi0 : LinkInv ({ p with fwd := p.fwd.insert a ((p.fwd.lookup a).getD []) } : LinkPair) aEx bEx := by
    refine ⟨?_, hi.bwdDom, ?_⟩
    · intro j b
      have := hi.sym j b
      simp only [Map.lookup_insert]
      by_cases hj : j = a
      · subst hj; simpa using this
      · simpa [hj] using this
    · intro j l; simp only [Map.lookup_insert]; split
      · next hj => subst hj; intro _; exact ha
      · exact hi.fwdDom j l
  exact (linkAll_pres a _ (unlink_fold_pres a _ hi0 ha) ha h).1

/-- effect of `cleanFwd`: `fwd` untouched; the id leaves the `bwd` buckets of everything it linked to -/
theorem cleanFwd_fold (bEx : Id → Bool) (id : Id) (ks : List Id) (p : LinkPair)
    (hdom : ∀ b l, p.bwd.lookup b = some l → bEx b = true) :
    let p' := ks.foldl (cleanFwdStep bEx id) p
    p'.fwd = p.fwd ∧
    (∀ b j, j ∈ (p'.bwd.lookup b).getD [] ↔ (j ∈ (p.bwd.lookup b).getD [] ∧ ¬ (j = id ∧ b ∈ ks))) ∧
    (∀ b, (p'.bwd.lookup b).isSome = (p.bwd.lookup b).isSome) := by
  induction ks generalizing p with
  | nil => simp
  | cons k rest ih =>
    simp only [List.foldl_cons]
    have hstep : (cleanFwdStep bEx id p k).fwd = p.fwd ∧
        (∀ b j, j ∈ ((cleanFwdStep bEx id p k).bwd.lookup b).getD [] ↔ (j ∈ (p.bwd.lookup b).getD [] ∧ ¬ (j = id ∧ b = k))) ∧
        (∀ b, ((cleanFwdStep bEx id p k).bwd.lookup b).isSome = (p.bwd.lookup b).isSome) := by
      unfold cleanFwdStep
      cases hg : p.bwd.lookup k with
      | none =>
        have hnone : ∀ b j, j ∈ (p.bwd.lookup b).getD [] ↔ (j ∈ (p.bwd.lookup b).getD [] ∧ ¬ (j = id ∧ b = k)) := by
          intro b j
          by_cases hb : b = k
          · subst hb; simp [hg]
          · simp [hb]
        cases bEx k <;> exact ⟨rfl, hnone, fun _ => rfl⟩
      | some ms =>
        have hex := hdom k ms hg
        simp only [hex]
        refine ⟨by simp, ?_, ?_⟩
        · intro b j
          simp only [Map.lookup_insert]
          by_cases hbk : b = k
          · subst hbk; simp [hg, and_comm]
          · simp [hbk]
        · intro b; simp only [Map.lookup_insert]; split
          · next hbk => subst hbk; simp [hg]
          · rfl
    obtain ⟨s1, s2, s3⟩ := hstep
    have hdom' : ∀ b l, (cleanFwdStep bEx id p k).bwd.lookup b = some l → bEx b = true := by
      intro b l hl
      have := s3 b
      rw [hl] at this
      cases hh : p.bwd.lookup b with
      | none => simp [hh] at this
      | some l' => exact hdom b l' hh
    obtain ⟨t1, t2, t3⟩ := ih (cleanFwdStep bEx id p k) hdom'
    refine ⟨t1.trans s1, ?_, ?_⟩
    · intro b j; rw [t2, s2]; simp only [List.mem_cons]; grind
    · intro b; rw [t3, s3]

/-- deleting the owner of a `fwd` bucket: after `cleanFwd` and dropping the bucket the invariant
    holds for every existence predicate that no longer contains the id -/
theorem cleanFwd_drop_inv {p : LinkPair} {aEx bEx aEx' : Id → Bool} {id : Id} (hi : LinkInv p aEx bEx)
    (ha : ∀ j, aEx j = true → j ≠ id → aEx' j = true) :
    LinkInv { fwd := (p.cleanFwd bEx id).fwd.erase id, bwd := (p.cleanFwd bEx id).bwd } aEx' bEx := by
  obtain ⟨c1, c2, c3⟩ := cleanFwd_fold bEx id ((p.fwd.lookup id).getD []) p hi.bwdDom
  unfold cleanFwd
  refine ⟨?_, ?_, ?_⟩
  · intro j b
    rw [c2, c1]; simp only [Map.lookup_erase]
    have hs := hi.sym j b
    by_cases hj : j = id
    · subst hj; simp only [if_true, Option.getD_none, List.not_mem_nil, false_iff]
      intro ⟨h1, h2⟩; exact h2 (by simpa using hs.2 h1)
    · simp only [hj, if_false, false_and, not_false_eq_true, and_true]; exact hs
  · intro b l hl
    have := c3 b; rw [hl] at this
    cases hh : p.bwd.lookup b with
    | none => simp [hh] at this
    | some l' => exact hi.bwdDom b l' hh
  · intro j l; rw [c1]; simp only [Map.lookup_erase]; split
    · simp
    · next hne => intro hl; exact ha j (hi.fwdDom j l hl) hne

theorem cleanBwd_fold (aEx : Id → Bool) (id : Id) (ks : List Id) (p : LinkPair)
    (hdom : ∀ j l, p.fwd.lookup j = some l → aEx j = true) :
    let p' := ks.foldl (cleanBwdStep aEx id) p
    p'.bwd = p.bwd ∧
    (∀ j b, b ∈ (p'.fwd.lookup j).getD [] ↔ (b ∈ (p.fwd.lookup j).getD [] ∧ ¬ (b = id ∧ j ∈ ks))) ∧
    (∀ j, (p'.fwd.lookup j).isSome = (p.fwd.lookup j).isSome) := by
  induction ks generalizing p with
  | nil => simp
  | cons k rest ih =>
    simp only [List.foldl_cons]
    have hstep : (cleanBwdStep aEx id p k).bwd = p.bwd ∧
        (∀ j b, b ∈ ((cleanBwdStep aEx id p k).fwd.lookup j).getD [] ↔ (b ∈ (p.fwd.lookup j).getD [] ∧ ¬ (b = id ∧ j = k))) ∧
        (∀ j, ((cleanBwdStep aEx id p k).fwd.lookup j).isSome = (p.fwd.lookup j).isSome) := by
      unfold cleanBwdStep
      cases hg : p.fwd.lookup k with
      | none =>
        have hnone : ∀ j b, b ∈ (p.fwd.lookup j).getD [] ↔ (b ∈ (p.fwd.lookup j).getD [] ∧ ¬ (b = id ∧ j = k)) := by
          intro j b
          by_cases hj : j = k
          · subst hj; simp [hg]
          · simp [hj]
        cases aEx k <;> exact ⟨rfl, hnone, fun _ => rfl⟩
      | some gs =>
        have hex := hdom k gs hg
        simp only [hex]
        refine ⟨by simp, ?_, ?_⟩
        · intro j b
          simp only [Map.lookup_insert]
          by_cases hj : j = k
          · subst hj; simp [hg, and_comm]
          · simp [hj]
        · intro j; simp only [Map.lookup_insert]; split
          · next hj => subst hj; simp [hg]
          · rfl
    obtain ⟨s1, s2, s3⟩ := hstep
    have hdom' : ∀ j l, (cleanBwdStep aEx id p k).fwd.lookup j = some l → aEx j = true := by
      intro j l hl
      have := s3 j
      rw [hl] at this
      cases hh : p.fwd.lookup j with
      | none => simp [hh] at this
      | some l' => exact hdom j l' hh
    obtain ⟨t1, t2, t3⟩ := ih (cleanBwdStep aEx id p k) hdom'
    refine ⟨t1.trans s1, ?_, ?_⟩
    · intro j b; rw [t2, s2]; simp only [List.mem_cons]; grind
    · intro j; rw [t3, s3]

theorem cleanBwd_drop_inv {p : LinkPair} {aEx bEx bEx' : Id → Bool} {id : Id} (hi : LinkInv p aEx bEx)
    (hb : ∀ j, bEx j = true → j ≠ id → bEx' j = true) :
    LinkInv { fwd := (p.cleanBwd aEx id).fwd, bwd := (p.cleanBwd aEx id).bwd.erase id } aEx bEx' := by
  obtain ⟨c1, c2, c3⟩ := cleanBwd_fold aEx id ((p.bwd.lookup id).getD []) p hi.fwdDom
  unfold cleanBwd
  refine ⟨?_, ?_, ?_⟩
  · intro j b
    rw [c2, c1]; simp only [Map.lookup_erase]
    have hs := hi.sym j b
    by_cases hbb : b = id
    · subst hbb; simp only [if_true, Option.getD_none, List.not_mem_nil, iff_false]
      intro ⟨h1, h2⟩; exact h2 (by simpa using hs.1 h1)
    · simp only [hbb, if_false, false_and, not_false_eq_true, and_true]; exact hs
  · intro b l; rw [c1]; simp only [Map.lookup_erase]; split
    · simp
    · next hne => intro hl; exact hb b (hi.bwdDom b l hl) hne
  · intro j l hl
    have := c3 j; rw [hl] at this
    cases hh : p.fwd.lookup j with
    | none => simp [hh] at this
    | some l' => exact hi.fwdDom j l' hh

end LinkPair


/-! ### ref-counted link collections -/

/-- the count stored for `y` in the bucket of `x` -/
def cnt (m : Map Id Counts) (x y : Id) : Option Nat := ((m.lookup x).getD []).lookup y

/-- both sides hold the same count for every pair; buckets live only inside existing entities -/
structure RcInv (r : RcPair) (aEx bEx : Id → Bool) : Prop where
  agree : ∀ a b, cnt r.fwd a b = cnt r.bwd b a
  fwdDom : ∀ a c, r.fwd.lookup a = some c → aEx a = true
  bwdDom : ∀ b c, r.bwd.lookup b = some c → bEx b = true

theorem RcInv.empty (aEx bEx : Id → Bool) : RcInv RcPair.empty aEx bEx := by
  constructor <;> simp [RcPair.empty, cnt]

theorem RcInv.mono {r : RcPair} {aEx bEx aEx' bEx' : Id → Bool} (h : RcInv r aEx bEx)
    (ha : ∀ j, aEx j = true → aEx' j = true) (hb : ∀ j, bEx j = true → bEx' j = true) : RcInv r aEx' bEx' :=
  ⟨h.agree, fun a c hl => ha a (h.fwdDom a c hl), fun b c hl => hb b (h.bwdDom b c hl)⟩

def incVal : Option Nat → Nat
  | some v => v + 1
  | none => 1

def decVal : Option Nat → Option Nat
  | none => none
  | some v => if v - 1 > 0 then some (v - 1) else none

def decRes : Option Nat → Int
  | none => -1
  | some v => (v : Int) - 1

theorem lookup_bInc (c : Counts) (k k' : Id) :
    (bInc c k).1.lookup k' = if k' = k then some (incVal (c.lookup k)) else c.lookup k' := by
  unfold bInc incVal
  simp only [Map.lookup_insert]
  cases c.lookup k <;> rfl

theorem lookup_bDec (c : Counts) (k k' : Id) :
    (bDec c k).1.lookup k' = if k' = k then decVal (c.lookup k) else c.lookup k' := by
  unfold bDec decVal
  cases h : c.lookup k with
  | none => simp only; split
            · next hk => subst hk; exact h
            · rfl
  | some v =>
    simp only
    split
    · simp only [Map.lookup_insert]
    · simp only [Map.lookup_erase]

theorem snd_bDec (c : Counts) (k : Id) : (bDec c k).2 = decRes (c.lookup k) := by
  unfold bDec decRes
  cases c.lookup k with
  | none => rfl
  | some v => simp only; split <;> rfl

theorem lookup_bSet (c : Counts) (k k' : Id) (n : Nat) :
    (bSet c k n).lookup k' = if k' = k then (if n = 0 then none else some n) else c.lookup k' := by
  unfold bSet
  by_cases hn : n = 0
  · simp only [hn, if_true]
    cases h : (c.lookup k).isSome with
    | true => simp only [if_true, Map.lookup_erase]
    | false =>
      simp only [Bool.false_eq_true, if_false]
      split
      · next hk => subst hk; simpa using h
      · rfl
  · simp only [hn, if_false, Map.lookup_insert]

/-- updating the two buckets of one pair with the same new value keeps the sides in agreement -/
theorem agree_update {r : RcPair} (hag : ∀ a b, cnt r.fwd a b = cnt r.bwd b a) {a b : Id} {fa fb : Counts}
    {v : Option Nat} (hfa : ∀ y, fa.lookup y = if y = b then v else cnt r.fwd a y)
    (hfb : ∀ x, fb.lookup x = if x = a then v else cnt r.bwd b x) :
    ∀ a' b', cnt (r.fwd.insert a fa) a' b' = cnt (r.bwd.insert b fb) b' a' := by
  intro a' b'
  have := hag a' b'
  unfold cnt at *
  simp only [Map.lookup_insert]
  by_cases h1 : a' = a <;> by_cases h2 : b' = b
  · subst h1; subst h2; simp [hfa, hfb]
  · subst h1; simp only [if_true, Option.getD_some, hfa, h2, if_false]; exact this
  · subst h2; simp only [h1, if_false, if_true, Option.getD_some, hfb]; exact this
  · simp only [h1, h2, if_false]; exact this

/-- creating the (empty) `fwd` bucket changes no count -/
theorem cnt_touch (m : Map Id Counts) (a : Id) (x y : Id) :
    cnt (m.insert a ((m.lookup a).getD [])) x y = cnt m x y := by
  unfold cnt
  simp only [Map.lookup_insert]
  split
  · next h => subst h; simp
  · rfl

namespace RcPair

theorem inc_pres {r r' : RcPair} {aEx bEx : Id → Bool} {a b : Id} (hi : RcInv r aEx bEx)
    (h : r.inc aEx bEx a b = .ok r') : RcInv r' aEx bEx := by
  unfold inc at h
  cases ha : aEx a with
  | false => simp [ha] at h
  | true =>
    simp only [ha, Bool.not_true, Bool.false_eq_true, if_false] at h
    cases hb : bEx b with
    | false => simp [hb] at h
    | true =>
      simp only [hb, Bool.not_true, Bool.false_eq_true, if_false] at h
      split at h
      · cases h
      · cases h
        refine ⟨?_, ?_, ?_⟩
        · apply agree_update hi.agree (v := some (incVal (cnt r.fwd a b)))
          · intro y; rw [lookup_bInc]; rfl
          · intro x; rw [lookup_bInc]; simp only [cnt]; rw [show ((r.bwd.lookup b).getD []).lookup a = cnt r.bwd b a from rfl, ← hi.agree]; rfl
        · intro a' c; simp only [Map.lookup_insert]; split
          · next h => subst h; intro _; exact ha
          · exact hi.fwdDom a' c
        · intro b' c; simp only [Map.lookup_insert]; split
          · next h => subst h; intro _; exact hb
          · exact hi.bwdDom b' c

theorem set_pres {r r' : RcPair} {aEx bEx : Id → Bool} {a b : Id} {n : Nat} (hi : RcInv r aEx bEx)
    (h : r.set aEx bEx a b n = .ok r') : RcInv r' aEx bEx := by
  unfold set at h
  cases ha : aEx a with
  | false => simp [ha] at h
  | true =>
    simp only [ha, Bool.not_true, Bool.false_eq_true, if_false] at h
    cases hb : bEx b with
    | false => simp [hb] at h
    | true =>
      simp only [hb, Bool.not_true, Bool.false_eq_true, if_false] at h
      cases h
      refine ⟨?_, ?_, ?_⟩
      · apply agree_update hi.agree (v := if n = 0 then none else some n)
        · intro y; rw [lookup_bSet]; rfl
        · intro x; rw [lookup_bSet]; rfl
      · intro a' c; simp only [Map.lookup_insert]; split
        · next h => subst h; intro _; exact ha
        · exact hi.fwdDom a' c
      · intro b' c; simp only [Map.lookup_insert]; split
        · next h => subst h; intro _; exact hb
        · exact hi.bwdDom b' c

theorem dec_pres {r r' : RcPair} {aEx bEx : Id → Bool} {a b : Id} (hi : RcInv r aEx bEx)
    (h : r.dec aEx bEx a b = .ok r') : RcInv r' aEx bEx := by
  unfold dec at h
  cases ha : aEx a with
  | false => simp [ha] at h
  | true =>
    simp only [ha, Bool.not_true, Bool.false_eq_true, if_false] at h
    have hfd : ∀ a' c, (r.fwd.insert a (bDec ((r.fwd.lookup a).getD []) b).1).lookup a' = some c → aEx a' = true := by
      intro a' c; simp only [Map.lookup_insert]; split
      · next h => subst h; intro _; exact ha
      · exact hi.fwdDom a' c
    -- when the other side has no bucket, this side has no entry either
    have hnone : r.bwd.lookup b = none → cnt r.fwd a b = none := by
      intro hb; rw [hi.agree]; simp [cnt, hb]
    have hsame : cnt r.fwd a b = none → ∀ a' b', cnt (r.fwd.insert a (bDec ((r.fwd.lookup a).getD []) b).1) a' b' = cnt r.fwd a' b' := by
      intro hn a' b'
      unfold cnt
      simp only [Map.lookup_insert]
      split
      · next h =>
        subst h
        simp only [Option.getD_some, lookup_bDec]
        split
        · next h2 => subst h2; show decVal (cnt r.fwd a' b') = cnt r.fwd a' b'; rw [hn]; rfl
        · rfl
      · rfl
    cases hb : bEx b with
    | false =>
      simp only [hb] at h
      split at h
      · cases h
      · next hx =>
        cases h
        have hbn : r.bwd.lookup b = none := by
          cases hl : r.bwd.lookup b with
          | none => rfl
          | some c => have := hi.bwdDom b c hl; simp [hb] at this
        have hn := hnone hbn
        exact ⟨fun a' b' => by rw [hsame hn]; exact hi.agree a' b', hfd, hi.bwdDom⟩
    | true =>
      cases hbw : r.bwd.lookup b with
      | none =>
        simp only [hb, hbw] at h
        split at h
        · cases h
        · next hx =>
          cases h
          have hn := hnone hbw
          exact ⟨fun a' b' => by rw [hsame hn]; exact hi.agree a' b', hfd, hi.bwdDom⟩
      | some cb =>
        simp only [hb, hbw] at h
        split at h
        · cases h
        · cases h
          refine ⟨?_, hfd, ?_⟩
          · apply agree_update hi.agree (v := decVal (cnt r.fwd a b))
            · intro y; rw [lookup_bDec]; rfl
            · intro x; rw [lookup_bDec]
              have : cb.lookup a = cnt r.bwd b a := by simp [cnt, hbw]
              rw [this, ← hi.agree]
              split
              · rfl
              · simp [cnt, hbw]
          · intro b' c; simp only [Map.lookup_insert]; split
            · next h => subst h; intro _; exact hb
            · exact hi.bwdDom b' c

/-- effect of `cleanFwd`: `fwd` untouched; the id's entry leaves the `bwd` buckets of all its keys -/
theorem cleanFwd_fold (bEx : Id → Bool) (id : Id) (ks : List Id) (r : RcPair)
    (hdom : ∀ b c, r.bwd.lookup b = some c → bEx b = true) :
    let r' := ks.foldl (cleanFwdStep bEx id) r
    r'.fwd = r.fwd ∧
    (∀ b j, cnt r'.bwd b j = if j = id ∧ b ∈ ks then none else cnt r.bwd b j) ∧
    (∀ b, (r'.bwd.lookup b).isSome = (r.bwd.lookup b).isSome) := by
  induction ks generalizing r with
  | nil => simp
  | cons k rest ih =>
    simp only [List.foldl_cons]
    have hstep : (cleanFwdStep bEx id r k).fwd = r.fwd ∧
        (∀ b j, cnt (cleanFwdStep bEx id r k).bwd b j = if j = id ∧ b = k then none else cnt r.bwd b j) ∧
        (∀ b, ((cleanFwdStep bEx id r k).bwd.lookup b).isSome = (r.bwd.lookup b).isSome) := by
      unfold cleanFwdStep
      cases hg : r.bwd.lookup k with
      | none =>
        have hnone : ∀ b j, cnt r.bwd b j = if j = id ∧ b = k then none else cnt r.bwd b j := by
          intro b j
          split
          · next h => obtain ⟨_, rfl⟩ := h; simp [cnt, hg]
          · rfl
        cases bEx k <;> exact ⟨rfl, hnone, fun _ => rfl⟩
      | some cb =>
        have hex := hdom k cb hg
        simp only [hex]
        refine ⟨by simp, ?_, ?_⟩
        · intro b j
          unfold cnt
          simp only [Map.lookup_insert]
          by_cases hbk : b = k
          · subst hbk; simp only [if_true, Option.getD_some, Map.lookup_erase, hg, and_true]
          · simp [hbk]
        · intro b; simp only [Map.lookup_insert]; split
          · next hbk => subst hbk; simp [hg]
          · rfl
    obtain ⟨s1, s2, s3⟩ := hstep
    have hdom' : ∀ b c, (cleanFwdStep bEx id r k).bwd.lookup b = some c → bEx b = true := by
      intro b c hl
      have := s3 b
      rw [hl] at this
      cases hh : r.bwd.lookup b with
      | none => simp [hh] at this
      | some c' => exact hdom b c' hh
    obtain ⟨t1, t2, t3⟩ := ih (cleanFwdStep bEx id r k) hdom'
    refine ⟨t1.trans s1, ?_, ?_⟩
    · intro b j; rw [t2, s2]; simp only [List.mem_cons]; grind
    · intro b; rw [t3, s3]

theorem cleanFwd_drop_inv {r : RcPair} {aEx bEx aEx' : Id → Bool} {id : Id} (hi : RcInv r aEx bEx)
    (ha : ∀ j, aEx j = true → j ≠ id → aEx' j = true) :
    RcInv { fwd := (r.cleanFwd bEx id).fwd.erase id, bwd := (r.cleanFwd bEx id).bwd } aEx' bEx := by
  obtain ⟨c1, c2, c3⟩ := cleanFwd_fold bEx id (Map.keys ((r.fwd.lookup id).getD [])) r hi.bwdDom
  unfold cleanFwd
  refine ⟨?_, ?_, ?_⟩
  · intro a b
    rw [c2]
    have hs := hi.agree a b
    by_cases hj : a = id
    · subst hj
      have h0 : cnt ((List.foldl (cleanFwdStep bEx a) r (Map.keys ((r.fwd.lookup a).getD []))).fwd.erase a) a b = none := by
        simp [cnt]
      rw [h0]
      split
      · rfl
      · next hn =>
        have : b ∉ Map.keys ((r.fwd.lookup a).getD []) := fun hm => hn ⟨rfl, hm⟩
        rw [Map.mem_keys_iff] at this
        rw [← hs]
        show none = ((r.fwd.lookup a).getD []).lookup b
        cases hl : ((r.fwd.lookup a).getD []).lookup b with
        | none => rfl
        | some v => simp [hl] at this
    · have : cnt ((List.foldl (cleanFwdStep bEx id) r (Map.keys ((r.fwd.lookup id).getD []))).fwd.erase id) a b = cnt r.fwd a b := by
        rw [c1]; simp [cnt, hj]
      rw [this]
      simp only [hj, false_and, if_false]
      exact hs
  · intro a c; rw [c1]; simp only [Map.lookup_erase]; split
    · simp
    · next hne => intro hl; exact ha a (hi.fwdDom a c hl) hne
  · intro b c hl
    have := c3 b; rw [hl] at this
    cases hh : r.bwd.lookup b with
    | none => simp [hh] at this
    | some c' => exact hi.bwdDom b c' hh

theorem cleanBwd_fold (aEx : Id → Bool) (id : Id) (ks : List Id) (r : RcPair)
    (hdom : ∀ a c, r.fwd.lookup a = some c → aEx a = true) :
    let r' := ks.foldl (cleanBwdStep aEx id) r
    r'.bwd = r.bwd ∧
    (∀ a j, cnt r'.fwd a j = if j = id ∧ a ∈ ks then none else cnt r.fwd a j) ∧
    (∀ a, (r'.fwd.lookup a).isSome = (r.fwd.lookup a).isSome) := by
  induction ks generalizing r with
  | nil => simp
  | cons k rest ih =>
    simp only [List.foldl_cons]
    have hstep : (cleanBwdStep aEx id r k).bwd = r.bwd ∧
        (∀ a j, cnt (cleanBwdStep aEx id r k).fwd a j = if j = id ∧ a = k then none else cnt r.fwd a j) ∧
        (∀ a, ((cleanBwdStep aEx id r k).fwd.lookup a).isSome = (r.fwd.lookup a).isSome) := by
      unfold cleanBwdStep
      cases hg : r.fwd.lookup k with
      | none =>
        have hnone : ∀ a j, cnt r.fwd a j = if j = id ∧ a = k then none else cnt r.fwd a j := by
          intro a j
          split
          · next h => obtain ⟨_, rfl⟩ := h; simp [cnt, hg]
          · rfl
        cases aEx k <;> exact ⟨rfl, hnone, fun _ => rfl⟩
      | some ca =>
        have hex := hdom k ca hg
        simp only [hex]
        refine ⟨by simp, ?_, ?_⟩
        · intro a j
          unfold cnt
          simp only [Map.lookup_insert]
          by_cases hak : a = k
          · subst hak; simp only [if_true, Option.getD_some, Map.lookup_erase, hg, and_true]
          · simp [hak]
        · intro a; simp only [Map.lookup_insert]; split
          · next hak => subst hak; simp [hg]
          · rfl
    obtain ⟨s1, s2, s3⟩ := hstep
    have hdom' : ∀ a c, (cleanBwdStep aEx id r k).fwd.lookup a = some c → aEx a = true := by
      intro a c hl
      have := s3 a
      rw [hl] at this
      cases hh : r.fwd.lookup a with
      | none => simp [hh] at this
      | some c' => exact hdom a c' hh
    obtain ⟨t1, t2, t3⟩ := ih (cleanBwdStep aEx id r k) hdom'
    refine ⟨t1.trans s1, ?_, ?_⟩
    · intro a j; rw [t2, s2]; simp only [List.mem_cons]; grind
    · intro a; rw [t3, s3]

theorem cleanBwd_drop_inv {r : RcPair} {aEx bEx bEx' : Id → Bool} {id : Id} (hi : RcInv r aEx bEx)
    (hb : ∀ j, bEx j = true → j ≠ id → bEx' j = true) :
    RcInv { fwd := (r.cleanBwd aEx id).fwd, bwd := (r.cleanBwd aEx id).bwd.erase id } aEx bEx' := by
  obtain ⟨c1, c2, c3⟩ := cleanBwd_fold aEx id (Map.keys ((r.bwd.lookup id).getD [])) r hi.fwdDom
  unfold cleanBwd
  refine ⟨?_, ?_, ?_⟩
  · intro a b
    rw [c2]
    have hs := hi.agree a b
    by_cases hj : b = id
    · subst hj
      have h0 : cnt ((List.foldl (cleanBwdStep aEx b) r (Map.keys ((r.bwd.lookup b).getD []))).bwd.erase b) b a = none := by
        simp [cnt]
      rw [h0]
      split
      · rfl
      · next hn =>
        have : a ∉ Map.keys ((r.bwd.lookup b).getD []) := fun hm => hn ⟨rfl, hm⟩
        rw [Map.mem_keys_iff] at this
        rw [hs]
        show ((r.bwd.lookup b).getD []).lookup a = none
        cases hl : ((r.bwd.lookup b).getD []).lookup a with
        | none => rfl
        | some v => simp [hl] at this
    · have : cnt ((List.foldl (cleanBwdStep aEx id) r (Map.keys ((r.bwd.lookup id).getD []))).bwd.erase id) b a = cnt r.bwd b a := by
        rw [c1]; simp [cnt, hj]
      rw [this]
      simp only [hj, false_and, if_false]
      exact hs
  · intro a c hl
    have := c3 a; rw [hl] at this
    cases hh : r.fwd.lookup a with
    | none => simp [hh] at this
    | some c' => exact hi.fwdDom a c' hh
  · intro b c; rw [c1]; simp only [Map.lookup_erase]; split
    · simp
    · next hne => intro hl; exact hb b (hi.bwdDom b c hl) hne

end RcPair


/-! ### a store linked with itself through one symbol -/

structure SelfInv (m : SelfMap) (ex : Id → Bool) : Prop where
  sym : ∀ a b, b ∈ (m.lookup a).getD [] ↔ a ∈ (m.lookup b).getD []
  dom : ∀ a l, m.lookup a = some l → ex a = true

theorem selfUnlink_pres {m : SelfMap} {ex : Id → Bool} {a b : Id} (hi : SelfInv m ex) (ha : ex a = true) :
    SelfInv (selfUnlink m ex a b) ex ∧ ((selfUnlink m ex a b).lookup a).isSome = true := by
  unfold selfUnlink
  simp only
  have hsym := hi.sym
  have hdom := hi.dom
  cases hb : ex b with
  | false =>
    simp only
    have hbn : m.lookup b = none := by
      cases hm : m.lookup b with
      | none => rfl
      | some l => have := hdom b l hm; simp [hb] at this
    have hab : a ≠ b := by rintro rfl; simp [ha] at hb
    refine ⟨⟨?_, ?_⟩, by simp⟩
    · intro j b'
      have h1 := hsym j b'
      have h2 := hsym a b
      simp only [Map.lookup_insert]
      by_cases hj : j = a <;> by_cases hbb : b' = a <;> simp [hj, hbb] <;> grind
    · intro j l; simp only [Map.lookup_insert]; split
      · next h => subst h; intro _; exact ha
      · exact hdom j l
  | true =>
    cases hm : (m.insert a (setErase b ((m.lookup a).getD []))).lookup b with
    | none =>
      simp only
      have hab : a ≠ b := by rintro rfl; simp at hm
      have hbn : m.lookup b = none := by simpa [Map.lookup_insert, Ne.symm hab] using hm
      refine ⟨⟨?_, ?_⟩, by simp⟩
      · intro j b'
        have h1 := hsym j b'
        have h2 := hsym a b
        simp only [Map.lookup_insert]
        by_cases hj : j = a <;> by_cases hbb : b' = a <;> simp [hj, hbb] <;> grind
      · intro j l; simp only [Map.lookup_insert]; split
        · next h => subst h; intro _; exact ha
        · exact hdom j l
    | some ms =>
      simp only
      refine ⟨⟨?_, ?_⟩, ?_⟩
      · intro j b'
        have h1 := hsym j b'
        have h2 := hsym a b
        have h3 := hsym j a
        have h4 := hsym j b
        have h5 := hsym b' a
        have h6 := hsym b' b
        simp only [Map.lookup_insert] at hm ⊢
        by_cases hab : b = a
        · subst hab
          simp only [if_true, Option.some.injEq] at hm
          subst hm
          by_cases hj : j = b <;> by_cases hbb : b' = b <;> simp [hj, hbb] <;> grind
        · simp only [hab, if_false] at hm
          by_cases hj : j = a <;> by_cases hbb : b' = a <;> by_cases hj2 : j = b <;> by_cases hbb2 : b' = b <;>
            simp [hj, hbb, hj2, hbb2, hm, hab, Ne.symm hab] <;> grind
      · intro j l; simp only [Map.lookup_insert]; split
        · next h => subst h; intro _; exact hb
        · split
          · next h => subst h; intro _; exact ha
          · exact hdom j l
      · simp only [Map.lookup_insert]; split <;> simp

theorem selfLink_pres {m m' : SelfMap} {ex : Id → Bool} {a b : Id} (hi : SelfInv m ex) (ha : ex a = true)
    (h : selfLink m ex a b = .ok m') : SelfInv m' ex ∧ ex b = true := by
  unfold selfLink at h
  simp only at h
  have hsym := hi.sym
  have hdom := hi.dom
  cases hb : ex b with
  | false => simp [hb] at h
  | true =>
    simp only [hb, if_true] at h
    cases h
    refine ⟨⟨?_, ?_⟩, rfl⟩
    · intro j b'
      have h1 := hsym j b'
      have h2 := hsym a b
      simp only [Map.lookup_insert]
      by_cases hab : b = a
      · subst hab
        by_cases hj : j = b <;> by_cases hbb : b' = b <;> simp [hj, hbb] <;> grind
      · by_cases hj : j = a <;> by_cases hbb : b' = a <;> by_cases hj2 : j = b <;> by_cases hbb2 : b' = b <;>
          simp [hj, hbb, hj2, hbb2, hab, Ne.symm hab] <;> grind
    · intro j l; simp only [Map.lookup_insert]; split
      · next h => subst h; intro _; exact hb
      · split
        · next h => subst h; intro _; exact ha
        · exact hdom j l



theorem SelfInv.empty (ex : Id → Bool) : SelfInv ([] : SelfMap) ex := by constructor <;> simp

theorem SelfInv.mono {m : SelfMap} {ex ex' : Id → Bool} (h : SelfInv m ex) (he : ∀ j, ex j = true → ex' j = true) :
    SelfInv m ex' := ⟨h.sym, fun a l hl => he a (h.dom a l hl)⟩

theorem selfTouch_pres {m : SelfMap} {ex : Id → Bool} {a : Id} (hi : SelfInv m ex) (ha : ex a = true) :
    SelfInv (selfTouch m a) ex := by
  unfold selfTouch
  refine ⟨?_, ?_⟩
  · intro j b
    have := hi.sym j b
    simp only [Map.lookup_insert]
    by_cases hj : j = a <;> by_cases hb : b = a <;> simp [hj, hb] <;> grind
  · intro j l; simp only [Map.lookup_insert]; split
    · next h => subst h; intro _; exact ha
    · exact hi.dom j l

theorem selfUnlink_fold_pres {ex : Id → Bool} (a : Id) (ks : List Id) {m : SelfMap} (hi : SelfInv m ex) (ha : ex a = true) :
    SelfInv (ks.foldl (fun m k => selfUnlink m ex a k) m) ex := by
  induction ks generalizing m with
  | nil => exact hi
  | cons k rest ih => exact ih (selfUnlink_pres (b := k) hi ha).1

theorem selfLinkAll_pres {ex : Id → Bool} (a : Id) (ks : List Id) {m m' : SelfMap} (hi : SelfInv m ex) (ha : ex a = true)
    (h : selfLinkAll ex a ks m = .ok m') : SelfInv m' ex := by
  induction ks generalizing m with
  | nil => simp only [selfLinkAll] at h; cases h; exact hi
  | cons k rest ih =>
    simp only [selfLinkAll] at h
    cases hk : selfLink m ex a k with
    | error e => simp [hk] at h
    | ok m1 => simp only [hk] at h; exact ih (selfLink_pres hi ha hk).1 h

theorem selfAdd_pres {m m' : SelfMap} {ex : Id → Bool} {a : Id} {ks : List Id} (hi : SelfInv m ex)
    (h : selfAdd m ex a ks = .ok m') : SelfInv m' ex := by
  unfold selfAdd at h
  cases ha : ex a with
  | false => simp [ha] at h
  | true => simp only [ha, Bool.not_true, Bool.false_eq_true, if_false] at h
            exact selfLinkAll_pres a ks (selfTouch_pres hi ha) ha h

theorem selfRemove_pres {m m' : SelfMap} {ex : Id → Bool} {a : Id} {ks : List Id} (hi : SelfInv m ex)
    (h : selfRemove m ex a ks = .ok m') : SelfInv m' ex := by
  unfold selfRemove at h
  cases ha : ex a with
  | false => simp [ha] at h
  | true => simp only [ha, Bool.not_true, Bool.false_eq_true, if_false] at h
            cases h; exact selfUnlink_fold_pres a ks (selfTouch_pres hi ha) ha

theorem selfSet_pres {m m' : SelfMap} {ex : Id → Bool} {a : Id} {req : List Id} (hi : SelfInv m ex)
    (h : selfSet m ex a req = .ok m') : SelfInv m' ex := by
  unfold selfSet at h
  cases ha : ex a with
  | false => simp [ha] at h
  | true => simp only [ha, Bool.not_true, Bool.false_eq_true, if_false] at h
            exact selfLinkAll_pres a _ (selfUnlink_fold_pres a _ (selfTouch_pres hi ha) ha) ha h

/-- effect of the clean loop: the id leaves the buckets of the listed keys; bucket existence is kept -/
theorem selfClean_fold (ex : Id → Bool) (id : Id) (ks : List Id) (m : SelfMap)
    (hdom : ∀ b l, m.lookup b = some l → ex b = true) :
    let m' := ks.foldl (selfCleanStep ex id) m
    (∀ b j, j ∈ (m'.lookup b).getD [] ↔ (j ∈ (m.lookup b).getD [] ∧ ¬ (j = id ∧ b ∈ ks))) ∧
    (∀ b, (m'.lookup b).isSome = (m.lookup b).isSome) := by
  induction ks generalizing m with
  | nil => simp
  | cons k rest ih =>
    simp only [List.foldl_cons]
    have hstep : (∀ b j, j ∈ ((selfCleanStep ex id m k).lookup b).getD [] ↔ (j ∈ (m.lookup b).getD [] ∧ ¬ (j = id ∧ b = k))) ∧
        (∀ b, ((selfCleanStep ex id m k).lookup b).isSome = (m.lookup b).isSome) := by
      unfold selfCleanStep
      cases hg : m.lookup k with
      | none =>
        have hnone : ∀ b j, j ∈ (m.lookup b).getD [] ↔ (j ∈ (m.lookup b).getD [] ∧ ¬ (j = id ∧ b = k)) := by
          intro b j
          by_cases hb : b = k
          · subst hb; simp [hg]
          · simp [hb]
        cases ex k <;> exact ⟨hnone, fun _ => rfl⟩
      | some ms =>
        have hex := hdom k ms hg
        simp only [hex]
        refine ⟨?_, ?_⟩
        · intro b j
          simp only [Map.lookup_insert]
          by_cases hbk : b = k
          · subst hbk; simp [hg, and_comm]
          · simp [hbk]
        · intro b; simp only [Map.lookup_insert]; split
          · next hbk => subst hbk; simp [hg]
          · rfl
    obtain ⟨s2, s3⟩ := hstep
    have hdom' : ∀ b l, (selfCleanStep ex id m k).lookup b = some l → ex b = true := by
      intro b l hl
      have := s3 b
      rw [hl] at this
      cases hh : m.lookup b with
      | none => simp [hh] at this
      | some l' => exact hdom b l' hh
    obtain ⟨t2, t3⟩ := ih (selfCleanStep ex id m k) hdom'
    refine ⟨?_, ?_⟩
    · intro b j; rw [t2, s2]; simp only [List.mem_cons]; grind
    · intro b; rw [t3, s3]

theorem selfClean_drop_inv {m : SelfMap} {ex ex' : Id → Bool} {id : Id} (hi : SelfInv m ex)
    (he : ∀ j, ex j = true → j ≠ id → ex' j = true) : SelfInv ((selfClean m ex id).erase id) ex' := by
  obtain ⟨c2, c3⟩ := selfClean_fold ex id ((m.lookup id).getD []) m hi.dom
  unfold selfClean
  refine ⟨?_, ?_⟩
  · intro a b
    have hs := hi.sym a b
    have hs2 := hi.sym id b
    have hs3 := hi.sym id a
    simp only [Map.lookup_erase]
    by_cases ha : a = id <;> by_cases hb : b = id
    · simp [ha, hb]
    · subst ha
      simp only [if_true, Option.getD_none, List.not_mem_nil, hb, if_false, false_iff]
      rw [c2]; grind
    · subst hb
      simp only [if_true, Option.getD_none, List.not_mem_nil, ha, if_false, iff_false]
      rw [c2]; grind
    · simp only [ha, hb, if_false]
      rw [c2, c2]; grind
  · intro a l; simp only [Map.lookup_erase]; split
    · simp
    · next hne =>
      intro hl
      have := c3 a; rw [hl] at this
      cases hh : m.lookup a with
      | none => simp [hh] at this
      | some l' => exact he a (hi.dom a l' hh) hne

/-- members of a bucket are existing entities -/
theorem SelfInv.member {m : SelfMap} {ex : Id → Bool} (h : SelfInv m ex) {a b : Id} {l : List Id}
    (hl : m.lookup a = some l) (hb : b ∈ l) : ex b = true := by
  have h1 := (h.sym a b).1 (by simp [hl, hb])
  cases hm : m.lookup b with
  | none => simp [hm] at h1
  | some ms => exact h.dom b ms hm



/-! ### a store linked with itself through two symbols -/

/-- deleting an entity of a collection that links a store with itself through TWO symbols: both of
    its buckets are cleaned (`EntityDeleted` of either collection) and dropped -/
theorem LinkPair.cleanBoth_drop_inv {p : LinkPair} {ex ex' : Id → Bool} {id : Id} (hi : LinkInv p ex ex)
    (he : ∀ j, ex j = true → j ≠ id → ex' j = true) :
    LinkInv { fwd := ((p.cleanFwd ex id).cleanBwd ex id).fwd.erase id,
              bwd := ((p.cleanFwd ex id).cleanBwd ex id).bwd.erase id } ex' ex' := by
  obtain ⟨c1, c2, c3⟩ := LinkPair.cleanFwd_fold ex id ((p.fwd.lookup id).getD []) p hi.bwdDom
  have hp1 : p.cleanFwd ex id = ((p.fwd.lookup id).getD []).foldl (LinkPair.cleanFwdStep ex id) p := rfl
  rw [← hp1] at c1 c2 c3
  have hdom1 : ∀ j l, (p.cleanFwd ex id).fwd.lookup j = some l → ex j = true := by
    intro j l; rw [c1]; exact hi.fwdDom j l
  obtain ⟨d1, d2, d3⟩ := LinkPair.cleanBwd_fold ex id (((p.cleanFwd ex id).bwd.lookup id).getD []) (p.cleanFwd ex id) hdom1
  have hp2 : (p.cleanFwd ex id).cleanBwd ex id =
      (((p.cleanFwd ex id).bwd.lookup id).getD []).foldl (LinkPair.cleanBwdStep ex id) (p.cleanFwd ex id) := rfl
  rw [← hp2] at d1 d2 d3
  refine ⟨?_, ?_, ?_⟩
  · intro j b
    have hs := hi.sym j b
    have hs1 := hi.sym id b
    have hs2 := hi.sym j id
    have hs3 := hi.sym id id
    simp only [Map.lookup_erase]
    by_cases hj : j = id <;> by_cases hb : b = id
    · simp [hj, hb]
    · subst hj
      simp only [if_true, Option.getD_none, List.not_mem_nil, hb, if_false, false_iff]
      rw [d1, c2]; grind
    · subst hb
      simp only [if_true, Option.getD_none, List.not_mem_nil, hj, if_false, iff_false]
      rw [d2, c1, c2]; grind
    · simp only [hj, hb, if_false]
      rw [d2, d1, c2, c1]; grind
  · intro b l; simp only [Map.lookup_erase]; split
    · simp
    · next hne =>
      rw [d1]; intro hl
      have := c3 b; rw [hl] at this
      cases hh : p.bwd.lookup b with
      | none => simp [hh] at this
      | some l' => exact he b (hi.bwdDom b l' hh) hne
  · intro j l; simp only [Map.lookup_erase]; split
    · simp
    · next hne =>
      intro hl
      have := d3 j; rw [hl, c1] at this
      cases hh : p.fwd.lookup j with
      | none => simp [hh] at this
      | some l' => exact he j (hi.fwdDom j l' hh) hne

end StorageModel.C06
