import StorageModel.C12.Readings
/-
  C12 — lemmas behind the individual clauses: the intended reading as "or of ands", chains and
  bracketings of one connective, redundant parentheses.
-/
namespace StorageModel.C12
variable {α : Type}

/-! ### the intended reading is: some `or`-piece has all its `and`-units true -/

def evalOpt (env : α → Bool) : Option (U α) → Bool
  | none => false
  | some r => r.eval env

theorem evalOpt_some (env : α → Bool) (r : U α) : evalOpt env (some r) = r.eval env := rfl

theorem eval_comb (env : α → Bool) (x : U α × Option (U α)) :
    (comb x).eval env = (x.1.eval env || evalOpt env x.2) := by
  obtain ⟨g, _ | r⟩ := x <;> simp [comb, evalOpt, U.eval]

theorem pieces_readGo (env : α → Bool) (w : W α) :
    ∃ p ps, w.pieces = p :: ps ∧ w.readGo.1.eval env = p.all (Unit'.val env) ∧
      evalOpt env w.readGo.2 = ps.any (fun q => q.all (Unit'.val env)) := by
  induction w with
  | atom a => exact ⟨_, _, rfl, by simp [W.readGo, U.eval, Unit'.val], by simp [W.readGo, evalOpt]⟩
  | grp g _ =>
    exact ⟨_, _, rfl, by simp [W.readGo, Unit'.val, W.readS], by simp [W.readGo, evalOpt]⟩
  | not w _ =>
    exact ⟨_, _, rfl, by simp [W.readGo, Unit'.val, W.readS, U.eval], by simp [W.readGo, evalOpt]⟩
  | atomOp a o w ih =>
    obtain ⟨p, ps, hp, h1, h2⟩ := ih
    cases o with
    | or =>
      refine ⟨_, _, rfl, by simp [W.readGo, U.eval, Unit'.val], ?_⟩
      show evalOpt env (some (comb w.readGo)) = _
      rw [evalOpt_some, eval_comb, h1, h2, hp, List.any_cons]
    | and =>
      refine ⟨.atom a :: p, ps, by simp [W.pieces, hp], ?_, ?_⟩
      · simp [W.readGo, U.eval, h1, Unit'.val]
      · simpa [W.readGo] using h2
  | grpOp g o w _ ih =>
    obtain ⟨p, ps, hp, h1, h2⟩ := ih
    cases o with
    | or =>
      refine ⟨_, _, rfl, by simp [W.readGo, Unit'.val, W.readS], ?_⟩
      show evalOpt env (some (comb w.readGo)) = _
      rw [evalOpt_some, eval_comb, h1, h2, hp, List.any_cons]
    | and =>
      refine ⟨.grp g :: p, ps, by simp [W.pieces, hp], ?_, ?_⟩
      · simp [W.readGo, U.eval, h1, Unit'.val, W.readS]
      · simpa [W.readGo] using h2

theorem readS_eval_pieces (env : α → Bool) (w : W α) :
    w.readS.eval env = w.pieces.any (fun p => p.all (Unit'.val env)) := by
  obtain ⟨p, ps, hp, h1, h2⟩ := pieces_readGo env w
  rw [W.readS, eval_comb, hp, h1, h2]
  simp

/-! ### chains and bracketings of a single connective -/

/-- a unit written on its own -/
inductive UnitW (α : Type) where
  | atom (a : Atom α)
  | grp (g : W α)

def UnitW.toW : UnitW α → W α
  | .atom a => .atom a
  | .grp g => .grp g

/-- `u op w` -/
def UnitW.cons (u : UnitW α) (o : Op) (w : W α) : W α :=
  match u with
  | .atom a => .atomOp a o w
  | .grp g => .grpOp g o w

/-- value of a unit under the parser's reading -/
def UnitW.valM (env : α → Bool) (u : UnitW α) : Bool := u.toW.readM.eval env

/-- the flat chain `u₁ op u₂ op … op uₙ` -/
def chain (o : Op) : UnitW α → List (UnitW α) → W α
  | u, [] => u.toW
  | u, v :: vs => u.cons o (chain o v vs)

/-- a bracketing of a chain: binary tree over units -/
inductive BT (α : Type) where
  | leaf (u : UnitW α)
  | node (l r : BT α)

def BT.leaves : BT α → List (UnitW α)
  | .leaf u => [u]
  | .node l r => l.leaves ++ r.leaves

/-- every inner node written with its own pair of parentheses -/
def BT.toUnit (o : Op) : BT α → UnitW α
  | .leaf u => u
  | .node l r => .grp ((l.toUnit o).cons o (r.toUnit o).toW)

/-- the bracketed chain as a query (no parentheses around the whole) -/
def BT.toW (o : Op) : BT α → W α
  | .leaf u => u.toW
  | .node l r => (l.toUnit o).cons o (r.toUnit o).toW

def foldOp (o : Op) (bs : List Bool) : Bool :=
  match o with
  | .and => bs.all id
  | .or => bs.any id

theorem foldOp_append (o : Op) (a b : List Bool) :
    foldOp o (a ++ b) = (match o with | .and => foldOp o a && foldOp o b | .or => foldOp o a || foldOp o b) := by
  cases o <;> simp [foldOp]

theorem cons_readM (u : UnitW α) (o : Op) (w : W α) :
    (u.cons o w).readM = .bin o u.toW.readM w.readM := by
  cases u <;> rfl

theorem chain_eval (env : α → Bool) (o : Op) (u : UnitW α) (us : List (UnitW α)) :
    (chain o u us).readM.eval env = foldOp o ((u :: us).map (UnitW.valM env)) := by
  induction us generalizing u with
  | nil => cases o <;> simp [chain, foldOp, UnitW.valM]
  | cons v vs ih =>
    simp only [chain, cons_readM]
    cases o <;> simp [U.eval, ih v, foldOp, UnitW.valM]

theorem toUnit_valM (env : α → Bool) (o : Op) (t : BT α) :
    (t.toUnit o).valM env = foldOp o (t.leaves.map (UnitW.valM env)) := by
  induction t with
  | leaf u => cases o <;> simp [BT.toUnit, BT.leaves, foldOp]
  | node l r ihl ihr =>
    simp only [BT.toUnit, BT.leaves, List.map_append, foldOp_append]
    simp only [UnitW.valM, UnitW.toW, W.readM, cons_readM] at *
    cases o <;> simp [U.eval, ihl, ihr]

theorem bracket_eval (env : α → Bool) (o : Op) (t : BT α) :
    (t.toW o).readM.eval env = foldOp o (t.leaves.map (UnitW.valM env)) := by
  cases t with
  | leaf u => cases o <;> simp [BT.toW, BT.leaves, foldOp, UnitW.valM]
  | node l r =>
    have hl := toUnit_valM env o l
    have hr := toUnit_valM env o r
    simp only [BT.toW, BT.leaves, List.map_append, foldOp_append, cons_readM]
    simp only [UnitW.valM] at hl hr
    cases o <;> simp [U.eval, hl, hr]

/-! the same for the intended reading (= the reading of the current code) -/

/-- value of a unit under the intended reading -/
def UnitW.valS (env : α → Bool) (u : UnitW α) : Bool := u.toW.readS.eval env

theorem toW_noTopOr (u : UnitW α) : u.toW.hasTopOr = false := by cases u <;> rfl

theorem cons_readS_or (u : UnitW α) (w : W α) :
    (u.cons .or w).readS = .bin .or u.toW.readS w.readS := by
  cases u <;> rfl

theorem cons_readS_and (u : UnitW α) (w : W α) (h : w.hasTopOr = false) :
    (u.cons .and w).readS = .bin .and u.toW.readS w.readS := by
  cases u with
  | atom a => exact readS_atomOp_and_noOr a w h
  | grp g => exact readS_grpOp_and_noOr g w h

theorem cons_and_hasTopOr (u : UnitW α) (w : W α) : (u.cons .and w).hasTopOr = w.hasTopOr := by
  cases u <;> rfl

theorem chain_and_noTopOr (u : UnitW α) (us : List (UnitW α)) : (chain .and u us).hasTopOr = false := by
  induction us generalizing u with
  | nil => exact toW_noTopOr u
  | cons v vs ih => simp only [chain, cons_and_hasTopOr, ih v]

theorem chain_evalS (env : α → Bool) (o : Op) (u : UnitW α) (us : List (UnitW α)) :
    (chain o u us).readS.eval env = foldOp o ((u :: us).map (UnitW.valS env)) := by
  induction us generalizing u with
  | nil => cases o <;> simp [chain, foldOp, UnitW.valS]
  | cons v vs ih =>
    cases o with
    | or => simp [chain, cons_readS_or, U.eval, ih v, foldOp, UnitW.valS]
    | and =>
      simp only [chain]
      rw [cons_readS_and u _ (chain_and_noTopOr v vs)]
      simp [U.eval, ih v, foldOp, UnitW.valS]

theorem toUnit_valS (env : α → Bool) (o : Op) (t : BT α) :
    (t.toUnit o).valS env = foldOp o (t.leaves.map (UnitW.valS env)) := by
  induction t with
  | leaf u => cases o <;> simp [BT.toUnit, BT.leaves, foldOp]
  | node l r ihl ihr =>
    simp only [BT.leaves, List.map_append, foldOp_append]
    simp only [UnitW.valS] at ihl ihr
    show ((l.toUnit o).cons o (r.toUnit o).toW).readS.eval env = _
    cases o with
    | or => simp [cons_readS_or, U.eval, ihl, ihr]
    | and =>
      rw [cons_readS_and _ _ (toW_noTopOr _)]
      simp [U.eval, ihl, ihr]

theorem bracket_evalS (env : α → Bool) (o : Op) (t : BT α) :
    (t.toW o).readS.eval env = foldOp o (t.leaves.map (UnitW.valS env)) := by
  cases t with
  | leaf u => cases o <;> simp [BT.toW, BT.leaves, foldOp, UnitW.valS]
  | node l r =>
    have hl := toUnit_valS env o l
    have hr := toUnit_valS env o r
    simp only [UnitW.valS] at hl hr
    simp only [BT.toW, BT.leaves, List.map_append, foldOp_append]
    cases o with
    | or => simp [cons_readS_or, U.eval, hl, hr]
    | and =>
      rw [cons_readS_and _ _ (toW_noTopOr _)]
      simp [U.eval, hl, hr]

/-! ### redundant parentheses -/

/-- `RP b w w'`: `w'` is `w` with one more pair of parentheses that is redundant under the
    intended reading: around a whole (sub-)query (`b = true` only: allowed at the root, inside
    parentheses, under `not`, as right operand of `or`), around a single unit, or around the
    right operand of `and` when that operand contains no unparenthesised `or`. -/
inductive RP : Bool → W α → W α → Prop where
  | whole (w : W α) : RP true w (.grp w)
  | atomUnit (b : Bool) (a : Atom α) (o : Op) (w : W α) : RP b (.atomOp a o w) (.grpOp (.atom a) o w)
  | grpUnit (b : Bool) (g : W α) (o : Op) (w : W α) : RP b (.grpOp g o w) (.grpOp (.grp g) o w)
  | inGrp (b : Bool) (g g' : W α) : RP true g g' → RP b (.grp g) (.grp g')
  | inNot (b : Bool) (w w' : W α) : RP true w w' → RP b (.not w) (.not w')
  | inLeft (b : Bool) (g g' : W α) (o : Op) (w : W α) : RP true g g' → RP b (.grpOp g o w) (.grpOp g' o w)
  | atomOrTail (b : Bool) (a : Atom α) (w w' : W α) : RP true w w' → RP b (.atomOp a .or w) (.atomOp a .or w')
  | grpOrTail (b : Bool) (g : W α) (w w' : W α) : RP true w w' → RP b (.grpOp g .or w) (.grpOp g .or w')
  | atomAndTail (b : Bool) (a : Atom α) (w w' : W α) : RP false w w' → RP b (.atomOp a .and w) (.atomOp a .and w')
  | grpAndTail (b : Bool) (g : W α) (w w' : W α) : RP false w w' → RP b (.grpOp g .and w) (.grpOp g .and w')
  | atomAndWrap (b : Bool) (a : Atom α) (w : W α) : w.hasTopOr = false →
      RP b (.atomOp a .and w) (.atomOp a .and (.grp w))
  | grpAndWrap (b : Bool) (g : W α) (w : W α) : w.hasTopOr = false →
      RP b (.grpOp g .and w) (.grpOp g .and (.grp w))

/-- the parser's reading does not see any of these parentheses -/
theorem RP.readM_eq {b : Bool} {w w' : W α} (h : RP b w w') : w.readM = w'.readM := by
  induction h with
  | whole w => rfl
  | atomUnit b a o w => rfl
  | grpUnit b g o w => rfl
  | inGrp b g g' _ ih => simpa [W.readM] using ih
  | inNot b w w' _ ih => simp [W.readM, ih]
  | inLeft b g g' o w _ ih => simp [W.readM, ih]
  | atomOrTail b a w w' _ ih => simp [W.readM, ih]
  | grpOrTail b g w w' _ ih => simp [W.readM, ih]
  | atomAndTail b a w w' _ ih => simp [W.readM, ih]
  | grpAndTail b g w w' _ ih => simp [W.readM, ih]
  | atomAndWrap b a w _ => rfl
  | grpAndWrap b g w _ => rfl

/-- they are indeed redundant under the intended reading (and keep the level's shape when the
    pair is not around the whole) -/
theorem RP.readGo_eq {b : Bool} {w w' : W α} (h : RP b w w') :
    w.readS = w'.readS ∧ (b = false → w.readGo = w'.readGo) := by
  induction h with
  | whole w => exact ⟨rfl, by simp⟩
  | atomUnit b a o w => cases o <;> exact ⟨rfl, fun _ => rfl⟩
  | grpUnit b g o w => cases o <;> exact ⟨rfl, fun _ => rfl⟩
  | inGrp b g g' _ ih =>
    have h1 : comb g.readGo = comb g'.readGo := ih.1
    exact ⟨by simpa using ih.1, fun _ => by simp [W.readGo, h1]⟩
  | inNot b w w' _ ih =>
    have h1 : comb w.readGo = comb w'.readGo := ih.1
    exact ⟨by simp [ih.1], fun _ => by simp [W.readGo, h1]⟩
  | inLeft b g g' o w _ ih =>
    have h1 : comb g.readGo = comb g'.readGo := ih.1
    have : (W.grpOp g o w).readGo = (W.grpOp g' o w).readGo := by cases o <;> simp [W.readGo, h1]
    exact ⟨by simp [W.readS, this], fun _ => this⟩
  | atomOrTail b a w w' _ ih =>
    have h1 : comb w.readGo = comb w'.readGo := ih.1
    have : (W.atomOp a .or w).readGo = (W.atomOp a .or w').readGo := by simp [W.readGo, h1]
    exact ⟨by simp [W.readS, this], fun _ => this⟩
  | grpOrTail b g w w' _ ih =>
    have h1 : comb w.readGo = comb w'.readGo := ih.1
    have : (W.grpOp g .or w).readGo = (W.grpOp g .or w').readGo := by simp [W.readGo, h1]
    exact ⟨by simp [W.readS, this], fun _ => this⟩
  | atomAndTail b a w w' _ ih =>
    have h1 := ih.2 rfl
    have : (W.atomOp a .and w).readGo = (W.atomOp a .and w').readGo := by simp [W.readGo, h1]
    exact ⟨by simp [W.readS, this], fun _ => this⟩
  | grpAndTail b g w w' _ ih =>
    have h1 := ih.2 rfl
    have : (W.grpOp g .and w).readGo = (W.grpOp g .and w').readGo := by simp [W.readGo, h1]
    exact ⟨by simp [W.readS, this], fun _ => this⟩
  | atomAndWrap b a w hn =>
    have h0 := readGo_snd_of_noTopOr w hn
    have : (W.atomOp a .and w).readGo = (W.atomOp a .and (.grp w)).readGo := by
      simp [W.readGo, h0, comb_none _ h0]
    exact ⟨by simp [W.readS, this], fun _ => this⟩
  | grpAndWrap b g w hn =>
    have h0 := readGo_snd_of_noTopOr w hn
    have : (W.grpOp g .and w).readGo = (W.grpOp g .and (.grp w)).readGo := by
      simp [W.readGo, h0, comb_none _ h0]
    exact ⟨by simp [W.readS, this], fun _ => this⟩

end StorageModel.C12
