import StorageModel.C12.Clauses
/-
  C12 — redundant parentheses, complete list.  `Paren b w w'`: `w'` is `w` with one more pair of
  parentheses around a sub-expression of the intended reading:
    * the whole (sub-)query: the query itself, a parenthesised level, the operand of `not`,
      the right operand of `or`, the right operand of `and` when it contains no `or` of its level;
    * a single unit;
    * a run `u₁ op … op uₖ` of units at the start of a level or after any operator, followed by
      `or` (then the run may be any union of whole `and`-groups — after an `and`: one group) or
      followed by `and` (then the run lies inside one `and`-group: it contains no `or` of its
      level); a run does not end in a `not` (which would take what follows as its operand).
  `Paren.sem_eq`: the intended value never changes (and the split of the level into "first
  and-group / rest" is kept whenever the pair is not around the whole, which is what makes the
  statement compositional).
-/
namespace StorageModel.C12
variable {α : Type}

/-- value of the first `and`-group and of what follows its `or` -/
def sem (env : α → Bool) (w : W α) : Bool × Bool := (w.readGo.1.eval env, evalOpt env w.readGo.2)

/-- intended value -/
def val (env : α → Bool) (w : W α) : Bool := w.readS.eval env

theorem val_eq (env : α → Bool) (w : W α) : val env w = ((sem env w).1 || (sem env w).2) := by
  simp [val, sem, W.readS, eval_comb]

@[simp] theorem sem_atom (env : α → Bool) (a : Atom α) : sem env (.atom a) = (a.eval env, false) := rfl
@[simp] theorem sem_grp (env : α → Bool) (g : W α) : sem env (.grp g) = (val env g, false) := rfl
@[simp] theorem sem_not (env : α → Bool) (w : W α) : sem env (.not w) = (!val env w, false) := rfl
@[simp] theorem sem_atomOp_or (env : α → Bool) (a : Atom α) (w : W α) :
    sem env (.atomOp a .or w) = (a.eval env, val env w) := rfl
@[simp] theorem sem_atomOp_and (env : α → Bool) (a : Atom α) (w : W α) :
    sem env (.atomOp a .and w) = (a.eval env && (sem env w).1, (sem env w).2) := rfl
@[simp] theorem sem_grpOp_or (env : α → Bool) (g w : W α) :
    sem env (.grpOp g .or w) = (val env g, val env w) := rfl
@[simp] theorem sem_grpOp_and (env : α → Bool) (g w : W α) :
    sem env (.grpOp g .and w) = (val env g && (sem env w).1, (sem env w).2) := rfl

theorem sem_snd_of_noTopOr (env : α → Bool) (w : W α) (h : w.hasTopOr = false) : (sem env w).2 = false := by
  simp [sem, readGo_snd_of_noTopOr w h, evalOpt]

def W.endsInNot : W α → Bool
  | .atom _ => false
  | .grp _ => false
  | .not _ => true
  | .atomOp _ _ w => w.endsInNot
  | .grpOp _ _ w => w.endsInNot

theorem sem_append_or (env : α → Bool) (v w : W α) (hn : v.endsInNot = false) :
    sem env (W.append v .or w) = ((sem env v).1, ((sem env v).2 || val env w)) := by
  induction v with
  | atom a => simp [W.append]
  | grp g _ => simp [W.append]
  | not x _ => simp [W.endsInNot] at hn
  | atomOp a o v ih =>
    have ih' := ih (by simpa [W.endsInNot] using hn)
    cases o with
    | or => simp [W.append, val_eq, ih', Bool.or_assoc]
    | and => simp [W.append, ih']
  | grpOp g o v _ ih =>
    have ih' := ih (by simpa [W.endsInNot] using hn)
    cases o with
    | or => simp [W.append, val_eq env (W.append v .or w), val_eq env v, ih', Bool.or_assoc]
    | and => simp [W.append, ih']

theorem sem_append_and (env : α → Bool) (v w : W α) (hn : v.endsInNot = false) (ho : v.hasTopOr = false) :
    sem env (W.append v .and w) = (((sem env v).1 && (sem env w).1), (sem env w).2) := by
  induction v with
  | atom a => simp [W.append]
  | grp g _ => simp [W.append]
  | not x _ => simp [W.endsInNot] at hn
  | atomOp a o v ih =>
    cases o with
    | or => simp [W.hasTopOr] at ho
    | and =>
      have ih' := ih (by simpa [W.endsInNot] using hn) (by simpa [W.hasTopOr] using ho)
      simp [W.append, ih', Bool.and_assoc]
  | grpOp g o v _ ih =>
    cases o with
    | or => simp [W.hasTopOr] at ho
    | and =>
      have ih' := ih (by simpa [W.endsInNot] using hn) (by simpa [W.hasTopOr] using ho)
      simp [W.append, ih', Bool.and_assoc]

/-- one more pair of parentheses around a sub-expression of the intended reading; `b = true`:
    the pair may be around the whole of `w` (not allowed for the right operand of `and`) -/
inductive Paren : Bool → W α → W α → Prop where
  | whole (w : W α) : Paren true w (.grp w)
  | atomUnit (b : Bool) (a : Atom α) (o : Op) (w : W α) : Paren b (.atomOp a o w) (.grpOp (.atom a) o w)
  | grpUnit (b : Bool) (g : W α) (o : Op) (w : W α) : Paren b (.grpOp g o w) (.grpOp (.grp g) o w)
  | runOr (v w : W α) : v.endsInNot = false → Paren true (W.append v .or w) (.grpOp v .or w)
  | runOrIn (b : Bool) (v w : W α) : v.endsInNot = false → v.hasTopOr = false →
      Paren b (W.append v .or w) (.grpOp v .or w)
  | runAnd (b : Bool) (v w : W α) : v.endsInNot = false → v.hasTopOr = false →
      Paren b (W.append v .and w) (.grpOp v .and w)
  | inGrp (b : Bool) (g g' : W α) : Paren true g g' → Paren b (.grp g) (.grp g')
  | inNot (b : Bool) (w w' : W α) : Paren true w w' → Paren b (.not w) (.not w')
  | inLeft (b : Bool) (g g' : W α) (o : Op) (w : W α) : Paren true g g' → Paren b (.grpOp g o w) (.grpOp g' o w)
  | atomOrTail (b : Bool) (a : Atom α) (w w' : W α) : Paren true w w' → Paren b (.atomOp a .or w) (.atomOp a .or w')
  | grpOrTail (b : Bool) (g : W α) (w w' : W α) : Paren true w w' → Paren b (.grpOp g .or w) (.grpOp g .or w')
  | atomAndTail (b : Bool) (a : Atom α) (w w' : W α) : Paren false w w' → Paren b (.atomOp a .and w) (.atomOp a .and w')
  | grpAndTail (b : Bool) (g : W α) (w w' : W α) : Paren false w w' → Paren b (.grpOp g .and w) (.grpOp g .and w')
  | atomAndWrap (b : Bool) (a : Atom α) (w : W α) : w.hasTopOr = false →
      Paren b (.atomOp a .and w) (.atomOp a .and (.grp w))
  | grpAndWrap (b : Bool) (g : W α) (w : W α) : w.hasTopOr = false →
      Paren b (.grpOp g .and w) (.grpOp g .and (.grp w))

theorem Paren.sem_eq {b : Bool} {w w' : W α} (h : Paren b w w') (env : α → Bool) :
    val env w = val env w' ∧ (b = false → sem env w = sem env w') := by
  induction h with
  | whole w => exact ⟨rfl, by simp⟩
  | atomUnit b a o w => cases o <;> exact ⟨rfl, fun _ => rfl⟩
  | grpUnit b g o w => cases o <;> exact ⟨rfl, fun _ => rfl⟩
  | runOr v w hn =>
    refine ⟨?_, by simp⟩
    rw [val_eq, val_eq, sem_append_or env v w hn, sem_grpOp_or, val_eq env v]
    simp [Bool.or_assoc]
  | runOrIn b v w hn ho =>
    have h2 := sem_snd_of_noTopOr env v ho
    have : sem env (W.append v .or w) = sem env (.grpOp v .or w) := by
      rw [sem_append_or env v w hn, sem_grpOp_or, val_eq env v, h2]
      simp
    exact ⟨by rw [val_eq, val_eq, this], fun _ => this⟩
  | runAnd b v w hn ho =>
    have h2 := sem_snd_of_noTopOr env v ho
    have : sem env (W.append v .and w) = sem env (.grpOp v .and w) := by
      rw [sem_append_and env v w hn ho, sem_grpOp_and, val_eq env v, h2]
      simp
    exact ⟨by rw [val_eq, val_eq, this], fun _ => this⟩
  | inGrp b g g' _ ih =>
    have : sem env (.grp g) = sem env (.grp g') := by simp [ih.1]
    exact ⟨by rw [val_eq, val_eq, this], fun _ => this⟩
  | inNot b w w' _ ih =>
    have : sem env (.not w) = sem env (.not w') := by simp [ih.1]
    exact ⟨by rw [val_eq, val_eq, this], fun _ => this⟩
  | inLeft b g g' o w _ ih =>
    have : sem env (.grpOp g o w) = sem env (.grpOp g' o w) := by cases o <;> simp [ih.1]
    exact ⟨by rw [val_eq, val_eq, this], fun _ => this⟩
  | atomOrTail b a w w' _ ih =>
    have : sem env (.atomOp a .or w) = sem env (.atomOp a .or w') := by simp [ih.1]
    exact ⟨by rw [val_eq, val_eq, this], fun _ => this⟩
  | grpOrTail b g w w' _ ih =>
    have : sem env (.grpOp g .or w) = sem env (.grpOp g .or w') := by simp [ih.1]
    exact ⟨by rw [val_eq, val_eq, this], fun _ => this⟩
  | atomAndTail b a w w' _ ih =>
    have : sem env (.atomOp a .and w) = sem env (.atomOp a .and w') := by simp [ih.2 rfl]
    exact ⟨by rw [val_eq, val_eq, this], fun _ => this⟩
  | grpAndTail b g w w' _ ih =>
    have : sem env (.grpOp g .and w) = sem env (.grpOp g .and w') := by simp [ih.2 rfl]
    exact ⟨by rw [val_eq, val_eq, this], fun _ => this⟩
  | atomAndWrap b a w hn =>
    have h2 := sem_snd_of_noTopOr env w hn
    have : sem env (.atomOp a .and w) = sem env (.atomOp a .and (.grp w)) := by
      simp [val_eq env w, h2]
    exact ⟨by rw [val_eq, val_eq, this], fun _ => this⟩
  | grpAndWrap b g w hn =>
    have h2 := sem_snd_of_noTopOr env w hn
    have : sem env (.grpOp g .and w) = sem env (.grpOp g .and (.grp w)) := by
      simp [val_eq env w, h2]
    exact ⟨by rw [val_eq, val_eq, this], fun _ => this⟩

end StorageModel.C12
