import StorageModel.C12.Proofs
/-
  C12 — the two readings compared: exact condition under which the reading of the generated
  parser (`readM`) is the intended one (`readS`); the intended reading as "or of ands".
-/
namespace StorageModel.C12
variable {α : Type}

theorem readGo_snd_of_noTopOr (w : W α) (h : w.hasTopOr = false) : w.readGo.2 = none := by
  induction w with
  | atom a => rfl
  | grp g _ => rfl
  | not w _ => rfl
  | atomOp a o w ih => cases o <;> simp_all [W.hasTopOr, W.readGo]
  | grpOp g o w _ ih => cases o <;> simp_all [W.hasTopOr, W.readGo]

theorem readGo_snd_of_topOr (w : W α) (h : w.hasTopOr = true) : ∃ r, w.readGo.2 = some r := by
  induction w with
  | atom a => simp [W.hasTopOr] at h
  | grp g _ => simp [W.hasTopOr] at h
  | not w _ => simp [W.hasTopOr] at h
  | atomOp a o w ih => cases o <;> simp_all [W.hasTopOr, W.readGo]
  | grpOp g o w _ ih => cases o <;> simp_all [W.hasTopOr, W.readGo]

theorem comb_none (x : U α × Option (U α)) (h : x.2 = none) : comb x = x.1 := by
  obtain ⟨g, r⟩ := x
  simp only at h
  subst h
  rfl

theorem comb_some (x : U α × Option (U α)) (r : U α) (h : x.2 = some r) : comb x = .bin .or x.1 r := by
  obtain ⟨g, r'⟩ := x
  simp only at h
  subst h
  rfl

/-! equations of the intended reading -/
@[simp] theorem readS_atom (a : Atom α) : (W.atom a).readS = .atom a := rfl
@[simp] theorem readS_grp (g : W α) : (W.grp g).readS = g.readS := rfl
@[simp] theorem readS_not (w : W α) : (W.not w).readS = .not w.readS := rfl
@[simp] theorem readS_atomOp_or (a : Atom α) (w : W α) :
    (W.atomOp a .or w).readS = .bin .or (.atom a) w.readS := rfl
@[simp] theorem readS_grpOp_or (g w : W α) :
    (W.grpOp g .or w).readS = .bin .or g.readS w.readS := rfl

theorem readS_atomOp_and_noOr (a : Atom α) (w : W α) (h : w.hasTopOr = false) :
    (W.atomOp a .and w).readS = .bin .and (.atom a) w.readS := by
  have hn := readGo_snd_of_noTopOr w h
  show comb (_, _) = _
  rw [comb_none _ (by simpa using hn), W.readS, comb_none _ hn]

theorem readS_grpOp_and_noOr (g w : W α) (h : w.hasTopOr = false) :
    (W.grpOp g .and w).readS = .bin .and g.readS w.readS := by
  have hn := readGo_snd_of_noTopOr w h
  show comb (_, _) = _
  rw [comb_none _ (by simpa using hn)]
  show U.bin .and g.readS w.readGo.1 = U.bin .and g.readS (comb w.readGo)
  rw [comb_none _ hn]

/-- `a and <level with an or>`: `a` joins the first and-group only -/
theorem readS_atomOp_and_or (a : Atom α) (w : W α) (h : w.hasTopOr = true) :
    ∃ r, w.readS = .bin .or w.readGo.1 r ∧
      (W.atomOp a .and w).readS = .bin .or (.bin .and (.atom a) w.readGo.1) r := by
  obtain ⟨r, hr⟩ := readGo_snd_of_topOr w h
  refine ⟨r, comb_some _ r hr, ?_⟩
  show comb (_, _) = _
  rw [comb_some _ r (by simpa using hr)]

theorem readS_grpOp_and_or (g w : W α) (h : w.hasTopOr = true) :
    ∃ r, w.readS = .bin .or w.readGo.1 r ∧
      (W.grpOp g .and w).readS = .bin .or (.bin .and g.readS w.readGo.1) r := by
  obtain ⟨r, hr⟩ := readGo_snd_of_topOr w h
  refine ⟨r, comb_some _ r hr, ?_⟩
  show comb (_, _) = _
  rw [comb_some _ r (by simpa using hr)]
  rfl

/-- **ordered ⇒ same tree.** -/
theorem readM_eq_readS_of_ordered (w : W α) (h : w.ordered = true) : w.readM = w.readS := by
  induction w with
  | atom a => rfl
  | grp g ih => simpa [W.readM] using ih (by simpa [W.ordered] using h)
  | not w ih => simpa [W.readM] using ih (by simpa [W.ordered] using h)
  | atomOp a o w ih =>
    cases o with
    | or => simpa [W.readM] using ih (by simpa [W.ordered] using h)
    | and =>
      simp only [W.ordered, Bool.and_eq_true, Bool.not_eq_true'] at h
      rw [readS_atomOp_and_noOr a w h.1, W.readM, ih h.2]
  | grpOp g o w ihg ih =>
    cases o with
    | or =>
      simp only [W.ordered, Bool.and_eq_true] at h
      simp [W.readM, ihg h.1, ih h.2]
    | and =>
      simp only [W.ordered, Bool.and_eq_true, Bool.not_eq_true'] at h
      rw [readS_grpOp_and_noOr g w h.1.2, W.readM, ihg h.1.1, ih h.2]

/-- **same tree ⇒ ordered**: the condition is exact. -/
theorem ordered_of_readM_eq_readS (w : W α) (h : w.readM = w.readS) : w.ordered = true := by
  induction w with
  | atom a => rfl
  | grp g ih => exact ih (by simpa [W.readM] using h)
  | not w ih => exact ih (by simpa [W.readM] using h)
  | atomOp a o w ih =>
    cases o with
    | or => simpa [W.ordered] using ih (by simpa [W.readM] using h)
    | and =>
      cases hto : w.hasTopOr with
      | true =>
        obtain ⟨r, _, hr⟩ := readS_atomOp_and_or a w hto
        rw [hr] at h
        simp [W.readM] at h
      | false =>
        rw [readS_atomOp_and_noOr a w hto] at h
        simp only [W.readM, U.bin.injEq, true_and] at h
        simp [W.ordered, hto, ih h]
  | grpOp g o w ihg ih =>
    cases o with
    | or =>
      simp only [W.readM, readS_grpOp_or, U.bin.injEq, true_and] at h
      simp [W.ordered, ihg h.1, ih h.2]
    | and =>
      cases hto : w.hasTopOr with
      | true =>
        obtain ⟨r, _, hr⟩ := readS_grpOp_and_or g w hto
        rw [hr] at h
        simp [W.readM] at h
      | false =>
        rw [readS_grpOp_and_noOr g w hto] at h
        simp only [W.readM, U.bin.injEq, true_and] at h
        simp [W.ordered, hto, ihg h.1, ih h.2]


/-! ### typing does not depend on the grouping; evaluation of typed = evaluation of untyped -/

def U.allBool (isBool : α → Bool) : U α → Bool
  | .atom (.sym a) => isBool a
  | .atom (.const _) => true
  | .not e => e.allBool isBool
  | .bin _ l r => l.allBool isBool && r.allBool isBool

theorem transform_none_iff (isBool : α → Bool) (u : U α) :
    transform isBool u = none ↔ u.allBool isBool = false := by
  induction u with
  | atom a => cases a <;> simp [transform, U.allBool]
  | not e ih =>
    simp only [transform, U.allBool]
    cases h : transform isBool e <;> simp_all
  | bin o l r ihl ihr =>
    simp only [transform, U.allBool]
    cases hl : transform isBool l <;> cases hr : transform isBool r <;> cases o <;> simp_all

theorem transform_eval (isBool : α → Bool) (env : α → Bool) (u : U α) (t : T α)
    (h : transform isBool u = some t) : t.eval env = u.eval env := by
  induction u generalizing t with
  | atom a =>
    cases a with
    | sym x =>
      simp only [transform] at h
      split at h
      · simp at h; subst h; rfl
      · simp at h
    | const b => simp [transform] at h; subst h; rfl
  | not e ih =>
    simp only [transform] at h
    split at h
    · next e' he => simp at h; subst h; simp [T.eval, U.eval, ih e' he]
    · simp at h
  | bin o l r ihl ihr =>
    simp only [transform] at h
    split at h
    · next l' r' hl hr =>
      cases o with
      | and =>
        simp at h; subst h
        simp only [T.eval, U.eval, ihl l' hl, ihr r' hr]
        cases l.eval env <;> simp
      | or =>
        simp at h; subst h
        simp only [T.eval, U.eval, ihl l' hl, ihr r' hr]
        cases l.eval env <;> simp
    · simp at h

def W.allBool (isBool : α → Bool) : W α → Bool
  | .atom (.sym a) => isBool a
  | .atom (.const _) => true
  | .grp g => g.allBool isBool
  | .not w => w.allBool isBool
  | .atomOp (.sym a) _ w => isBool a && w.allBool isBool
  | .atomOp (.const _) _ w => w.allBool isBool
  | .grpOp g _ w => g.allBool isBool && w.allBool isBool

theorem allBool_readM (isBool : α → Bool) (w : W α) : w.readM.allBool isBool = w.allBool isBool := by
  induction w with
  | atom a => cases a <;> rfl
  | grp g ih => simpa [W.readM, W.allBool] using ih
  | not w ih => simpa [W.readM, W.allBool, U.allBool] using ih
  | atomOp a o w ih => cases a <;> simp [W.readM, W.allBool, U.allBool, ih]
  | grpOp g o w ihg ih => simp [W.readM, W.allBool, U.allBool, ihg, ih]

theorem allBool_readGo (isBool : α → Bool) (w : W α) :
    (w.readGo.1.allBool isBool && (match w.readGo.2 with | none => true | some r => r.allBool isBool))
      = w.allBool isBool ∧ w.readS.allBool isBool = w.allBool isBool := by
  induction w with
  | atom a => cases a <;> simp [W.readGo, W.readS, comb, W.allBool, U.allBool]
  | grp g ih => simp only [W.readGo, W.allBool, readS_grp]; simp [ih.2]; exact ih.2
  | not w ih =>
    simp only [W.readGo, W.allBool, readS_not, U.allBool]
    refine ⟨?_, ih.2⟩
    simp; exact ih.2
  | atomOp a o w ih =>
    have key : ∀ x : U α × Option (U α), (comb x).allBool isBool =
        (x.1.allBool isBool && (match x.2 with | none => true | some r => r.allBool isBool)) := by
      rintro ⟨g, _ | r⟩ <;> simp [comb, U.allBool]
    cases o with
    | or =>
      have h2 : w.readS.allBool isBool = w.allBool isBool := ih.2
      have h2' : (comb w.readGo).allBool isBool = w.allBool isBool := h2
      cases a <;> simp [W.readGo, W.allBool, U.allBool, h2, h2']
    | and =>
      have h1 := ih.1
      constructor
      · cases a <;> simp [W.readGo, W.allBool, U.allBool, ← h1, Bool.and_assoc]
      · show (comb (W.atomOp a .and w).readGo).allBool isBool = _
        rw [key]
        cases a <;> simp [W.readGo, W.allBool, U.allBool, ← h1, Bool.and_assoc]
  | grpOp g o w ihg ih =>
    have key : ∀ x : U α × Option (U α), (comb x).allBool isBool =
        (x.1.allBool isBool && (match x.2 with | none => true | some r => r.allBool isBool)) := by
      rintro ⟨g, _ | r⟩ <;> simp [comb, U.allBool]
    have hg : (comb g.readGo).allBool isBool = g.allBool isBool := ihg.2
    cases o with
    | or =>
      have h2' : (comb w.readGo).allBool isBool = w.allBool isBool := ih.2
      simp [W.readGo, W.allBool, U.allBool, hg, h2', ihg.2, ih.2]
    | and =>
      have h1 := ih.1
      constructor
      · simp [W.readGo, W.allBool, U.allBool, ← h1, hg, Bool.and_assoc]
      · show (comb (W.grpOp g .and w).readGo).allBool isBool = _
        rw [key]
        simp [W.readGo, W.allBool, U.allBool, ← h1, hg, Bool.and_assoc]

theorem allBool_readS (isBool : α → Bool) (w : W α) : w.readS.allBool isBool = w.allBool isBool :=
  (allBool_readGo isBool w).2

end StorageModel.C12
