import StorageModel.C12.Readings
/-
  C12 — what the TYPED tree is (the stage after parsing: `TypeTransformBool` of
  `BooleanLogicExprNode` / `UntypedNotExprNode`, ast/node_convert.go).

  `transform` builds one `AndExprNode` / `OrExprNode` / `NotExprNode` per untyped node and nothing
  else.  This file states what that means for the typed tree of a written skeleton, independent of
  how large the skeleton is and of how its sub-trees are related to each other (equal operands, the
  same atoms grouped differently, mirrored operands …):

    * `inorder`: the typed tree, read in order (left operand, connective, right operand; `not`
      before its operand), is the written token list with the parentheses removed
      (`transform_inorder`, `readS_inorder`): no atom, connective or `not` is dropped, duplicated,
      replaced or moved — the typed tree differs from the text only by the grouping, and the grouping is
      the intended one (`readS`);
    * `transform_bin` / `transform_not`: the typed tree of `l op r` is `op (typed l) (typed r)`, of
      `not e` is `not (typed e)` — for ALL operands, in particular for operands that print alike.

  `T.show` is `String()` of the typed nodes (`%v && %v`, `%v || %v`, `not (%v)`): it does not show
  the grouping of and/or (`show_forgets_grouping`), which is why the harness observes the tree
  with a Visitor, and why comparing operands by their `String()` is not a comparison of operands.
-/
namespace StorageModel.C12

variable {α : Type}

def Tok.isParen : Tok α → Bool
  | .lp => true
  | .rp => true
  | _ => false

/-- the written tokens of a skeleton without its parentheses -/
def W.flat : W α → List (Tok α)
  | .atom a => [.atom a]
  | .grp g => g.flat
  | .not w => .not :: w.flat
  | .atomOp a o w => .atom a :: .op o :: w.flat
  | .grpOp g o w => g.flat ++ .op o :: w.flat

theorem flat_eq_filter (w : W α) : w.flat = w.render.filter (fun t => !t.isParen) := by
  induction w with
  | atom a => rfl
  | grp g ih => simp [W.flat, W.render, Tok.isParen, ih]
  | not w ih => simp [W.flat, W.render, Tok.isParen, ih]
  | atomOp a o w ih => simp [W.flat, W.render, Tok.isParen, ih]
  | grpOp g o w ihg ih => simp [W.flat, W.render, Tok.isParen, ihg, ih]

/-- an untyped tree read in order -/
def U.inorder : U α → List (Tok α)
  | .atom a => [.atom a]
  | .not e => .not :: e.inorder
  | .bin o l r => l.inorder ++ .op o :: r.inorder

/-- a typed tree read in order -/
def T.inorder : T α → List (Tok α)
  | .atom a => [.atom a]
  | .not e => .not :: e.inorder
  | .and l r => l.inorder ++ .op .and :: r.inorder
  | .or l r => l.inorder ++ .op .or :: r.inorder

/-- `AndExprNode` / `OrExprNode` by connective -/
def T.bin : Op → T α → T α → T α
  | .and => .and
  | .or => .or

/-- Go's `&&` / `||` -/
def Op.apply : Op → Bool → Bool → Bool
  | .and, a, b => a && b
  | .or, a, b => a || b

theorem T.bin_eval (o : Op) (l r : T α) (env : α → Bool) :
    (T.bin o l r).eval env = o.apply (l.eval env) (r.eval env) := by
  cases o <;> simp only [T.bin, T.eval, Op.apply] <;> cases l.eval env <;> simp

/-! ### `TypeTransformBool` node by node -/

/-- `BooleanLogicExprNode.TypeTransformBool`: both operands are typed, the result is one
    `AndExprNode` / `OrExprNode` holding BOTH of them — whatever they look like. -/
theorem transform_bin (isBool : α → Bool) (o : Op) (l r : U α) :
    transform isBool (.bin o l r) =
      (transform isBool l).bind (fun l' => (transform isBool r).map (fun r' => T.bin o l' r')) := by
  simp only [transform]
  cases transform isBool l <;> cases transform isBool r <;> cases o <;> rfl

/-- `UntypedNotExprNode.TypeTransformBool`: one `NotExprNode` around the typed operand (a `not`
    around a `not` stays two negations). -/
theorem transform_not (isBool : α → Bool) (e : U α) :
    transform isBool (.not e) = (transform isBool e).map T.not := by
  simp only [transform]
  cases transform isBool e <;> rfl

/-- typing keeps the in-order reading: nothing is dropped, duplicated, replaced or moved -/
theorem transform_inorder (isBool : α → Bool) (u : U α) (t : T α) (h : transform isBool u = some t) :
    t.inorder = u.inorder := by
  induction u generalizing t with
  | atom a =>
    cases a with
    | sym x =>
      simp only [transform] at h
      split at h
      · simp at h; subst h; rfl
      · simp at h
    | const b => simp [transform] at h; subst h; rfl
  | not e ih =>
    rw [transform_not] at h
    cases he : transform isBool e with
    | none => simp [he] at h
    | some e' =>
      simp [he] at h; subst h
      simp [T.inorder, U.inorder, ih e' he]
  | bin o l r ihl ihr =>
    rw [transform_bin] at h
    cases hl : transform isBool l with
    | none => simp [hl] at h
    | some l' =>
      cases hr : transform isBool r with
      | none => simp [hl, hr] at h
      | some r' =>
        simp [hl, hr] at h; subst h
        cases o <;> simp [T.bin, T.inorder, U.inorder, ihl l' hl, ihr r' hr]

/-! ### the intended reading is a bracketing of the written text -/

/-- in-order reading of what follows the `or` after the first and-group -/
def orTail : Option (U α) → List (Tok α)
  | none => []
  | some r => .op .or :: r.inorder

/-- in-order reading of `(first and-group, what follows its or)` -/
def goInorder (x : U α × Option (U α)) : List (Tok α) := x.1.inorder ++ orTail x.2

theorem comb_inorder (x : U α × Option (U α)) : (comb x).inorder = goInorder x := by
  obtain ⟨g, r⟩ := x
  cases r <;> simp [comb, goInorder, orTail, U.inorder]

theorem readGo_inorder (w : W α) : goInorder w.readGo = w.flat := by
  induction w with
  | atom a => rfl
  | grp g ih =>
    show (comb g.readGo).inorder ++ [] = g.flat
    rw [comb_inorder, ih, List.append_nil]
  | not w ih =>
    show (Tok.not :: (comb w.readGo).inorder) ++ [] = Tok.not :: w.flat
    rw [comb_inorder, ih, List.append_nil]
  | atomOp a o w ih =>
    cases o with
    | or =>
      show [Tok.atom a] ++ (Tok.op Op.or :: (comb w.readGo).inorder) = Tok.atom a :: Tok.op Op.or :: w.flat
      rw [comb_inorder, ih]; rfl
    | and =>
      show ([Tok.atom a] ++ Tok.op Op.and :: w.readGo.1.inorder) ++ orTail w.readGo.2
        = Tok.atom a :: Tok.op Op.and :: w.flat
      rw [← ih]; simp [goInorder]
  | grpOp g o w ihg ih =>
    cases o with
    | or =>
      show (comb g.readGo).inorder ++ (Tok.op Op.or :: (comb w.readGo).inorder) = g.flat ++ Tok.op Op.or :: w.flat
      rw [comb_inorder, comb_inorder, ih, ihg]
    | and =>
      show ((comb g.readGo).inorder ++ Tok.op Op.and :: w.readGo.1.inorder) ++ orTail w.readGo.2
        = g.flat ++ Tok.op Op.and :: w.flat
      rw [comb_inorder, ihg, ← ih]; simp [goInorder]

/-- the intended reading, read in order, is the written text without its parentheses -/
theorem readS_inorder (w : W α) : w.readS.inorder = w.flat := by
  rw [W.readS, comb_inorder, readGo_inorder]

/-! ### `String()` of the typed nodes does not show the grouping -/

/-- `AndExprNode.String()` = `"%v && %v"`, `OrExprNode.String()` = `"%v || %v"`,
    `NotExprNode.String()` = `"not (%v)"`; atoms by a caller-supplied name -/
def T.show (name : Atom α → String) : T α → String
  | .atom a => name a
  | .not e => "not (" ++ e.show name ++ ")"
  | .and l r => l.show name ++ " && " ++ r.show name
  | .or l r => l.show name ++ " || " ++ r.show name

/-- Two typed trees over the same atoms and connectives in the same order print alike although
    they are different operands with different values: `p && (q || r)` and `(p && q) || r`. -/
theorem show_forgets_grouping (name : Atom α → String) (p q r : T α) :
    (T.and p (.or q r)).show name = (T.or (.and p q) r).show name := by
  simp [T.show, String.append_assoc]

example : (T.and (.atom (.const false)) (.or (.atom (.const true)) (.atom (.const true))) : T Nat).eval (fun _ => false)
    ≠ (T.or (.and (.atom (.const false)) (.atom (.const true))) (.atom (.const true)) : T Nat).eval (fun _ => false) := by
  decide

end StorageModel.C12
