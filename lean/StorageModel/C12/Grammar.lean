/-
  C12 — types of the data that /verif/extract/grammar.go regenerates from
  zitiql/ZitiQl.g4 (shape of the `boolExpr` alternatives, keyword token definitions) and from
  zitiql/zitiql_parser.go (the precedence numbers of the generated `boolExpr(_p int)`), from
  ast/bolt_listener.go (how the four listener methods are written) and from the typing /
  evaluation functions of package `ast` (`TransformShape`).
  The regenerated values live in StorageModel/Generated/Grammar.lean.
-/
namespace StorageModel.C12

/-- the two binary connectives -/
inductive Op where
  | and | or
  deriving DecidableEq, Repr, Inhabited

/-- Shape of one labelled alternative of the rule `boolExpr` in ZitiQl.g4, in file order.
    * `primary`    — does not start with `boolExpr` and contains no `boolExpr` (operation, BOOL, …)
    * `group`      — `LPAREN WS* boolExpr WS* RPAREN`
    * `prefixNot`  — `NOT WS+ boolExpr`
    * `binary o`   — `boolExpr WS+ o WS+ boolExpr`            (ANTLR's ordinary binary form)
    * `suffixLoop o` — `boolExpr (WS+ o WS+ boolExpr)+`       (the form the file uses today)
    * `other`      — anything the extractor does not recognise (breaks the table obligations) -/
inductive AltShape where
  | primary (label : String)
  | group (label : String)
  | prefixNot (label : String)
  | binary (o : Op) (label : String)
  | suffixLoop (o : Op) (label : String)
  | other (text : String)
  deriving DecidableEq, Repr

/-- The numbers that `func (p *ZitiQlParser) boolExpr(_p int)` in zitiql_parser.go contains:
    for AND / OR the `p.Precpred(ctx, k)` guard of the alternative (`prec`), the argument of the
    `p.boolExpr(k)` call that parses the right operand (`right`), whether that call sits in a
    generated `(...)+` loop (`loop`); the arguments of the `p.boolExpr(k)` calls of the NOT and
    Group alternatives; and the argument with which `query` enters the rule. -/
structure ParserNums where
  andPrec : Nat
  andRight : Nat
  andLoop : Bool
  orPrec : Nat
  orRight : Nat
  orLoop : Bool
  notLevel : Nat
  groupLevel : Nat
  startLevel : Nat
  deriving DecidableEq, Repr

def ParserNums.prec (c : ParserNums) : Op → Nat
  | .and => c.andPrec
  | .or => c.orPrec

def ParserNums.right (c : ParserNums) : Op → Nat
  | .and => c.andRight
  | .or => c.orRight

def ParserNums.isLoop (c : ParserNums) : Op → Bool
  | .and => c.andLoop
  | .or => c.orLoop

/-- How `ExitAndExpr` / `ExitOrExpr` of ast/bolt_listener.go are written (the extractor compares
    the printed method body, comments and layout removed, with the forms the model knows):
    * `plain`   — `right := popNode(); left := popNode(); push(&BooleanLogicExprNode{left, right, op})`
    * `reassoc` — (ExitAndExpr only) as `plain`, but when `right` is an OR node whose `grouped`
                  mark is not set: push `OR{AND{left, right.left}, right.right}` instead
    * `unknown` — anything else -/
inductive BinExit where
  | plain | reassoc | unknown
  deriving DecidableEq, Repr

/-- `ExitNotExpr`: `plain` = `expr := popNode(); push(&UntypedNotExprNode{expr})` -/
inductive UnExit where
  | plain | unknown
  deriving DecidableEq, Repr

/-- `ExitGroup` on ToBoltListener: `absent` (LoggingListener's no-op is inherited), `marks` =
    `if node, ok := peekStack().(*BooleanLogicExprNode); ok { node.grouped = true }` -/
inductive GroupExit where
  | absent | marks | unknown
  deriving DecidableEq, Repr

/-- the four listener methods that build the boolean structure, and the number of places in
    package `ast` (non-test files) that mention the field `.grouped` -/
structure ListenerShape where
  andExit : BinExit
  orExit : BinExit
  notExit : UnExit
  groupExit : GroupExit
  groupedUses : Nat
  deriving DecidableEq, Repr

/-- the listener of the pinned tree e54a121 (before fix c2dd0be) -/
def pinnedShape : ListenerShape :=
  { andExit := .plain, orExit := .plain, notExit := .plain, groupExit := .absent, groupedUses := 0 }

/-- the listener after fix c2dd0be: `ExitGroup` marks, `ExitAndExpr` re-associates; `.grouped`
    is written in `ExitGroup` and read in `ExitAndExpr`, nowhere else -/
def repairedShape : ListenerShape :=
  { andExit := .reassoc, orExit := .plain, notExit := .plain, groupExit := .marks, groupedUses := 2 }

/-- Whether a function body (go/printer text, comments and layout removed) is the one the model
    interprets (`plain`), is missing (`absent`), or is anything else (`unknown`). -/
inductive BodyForm where
  | plain | absent | unknown
  deriving DecidableEq, Repr

/-- What happens to the boolean structure AFTER the listener (typing and evaluation), as
    /verif/extract finds it in package `ast`:
    * `binTransform`  — `BooleanLogicExprNode.TypeTransformBool` (ast/node_convert.go): type both
                        operands, fail if one is not a BoolNode, return `&AndExprNode{left, right}` /
                        `&OrExprNode{left, right}` — nothing else (no simplification, no rewrite);
    * `notTransform`  — `UntypedNotExprNode.TypeTransformBool`: type the operand, fail if it is not a
                        BoolNode, return `&NotExprNode{expr: boolNode}`;
    * `andEval` / `orEval` / `notEval` — `EvalBool` of `AndExprNode` / `OrExprNode` / `NotExprNode`
                        (ast/node_expr.go): short-circuit conjunction / disjunction, negation;
    * `glue`          — `transformTypes` (node_convert.go), `transformBools`, `PostProcess` (helper.go)
                        and `untypedQueryNode.TypeTransformBool` (node_query.go): each child is
                        replaced by its typed form once, nothing is rewritten afterwards. -/
structure TransformShape where
  binTransform : BodyForm
  notTransform : BodyForm
  andEval : BodyForm
  orEval : BodyForm
  notEval : BodyForm
  glue : BodyForm
  deriving DecidableEq, Repr

/-- the typing / evaluation code that `transform` and `T.eval` (Skel.lean) follow -/
def plainTransform : TransformShape :=
  { binTransform := .plain, notTransform := .plain, andEval := .plain, orEval := .plain, notEval := .plain,
    glue := .plain }

/-- A keyword token of the lexer grammar as a sequence of letter fragments, each fragment being
    the set of characters it admits (`fragment A : [aA];`). -/
structure KeywordDef where
  name : String
  letters : List (List Char)
  deriving DecidableEq, Repr

end StorageModel.C12
