import StorageModel.C12.Grammar
/-
  C12 — executable model of what happens to the boolean skeleton of a filter:

    token skeleton ──parseE/loop/operands──▶ listener events ──listener stack──▶ untyped tree
        ──TypeTransformBool──▶ typed tree ──EvalBool──▶ truth value

  * `parseE / loop / operands` follow `func (p *ZitiQlParser) boolExpr(_p int)` of
    zitiql/zitiql_parser.go: a primary alternative (symbol, BOOL, `( boolExpr(groupLevel) )`,
    `NOT boolExpr(notLevel)`), then the left-recursion loop (decision 52): an operator is taken
    iff `p.Precpred(ctx, prec)` i.e. `_p ≤ prec`; its right operand is parsed by
    `p.boolExpr(right)`, in a generated `(...)+` loop when the grammar uses the suffix-loop
    form.  All numbers come from `ParserNums` (regenerated from the parser source).
    ANTLR's adaptive prediction resolves every ambiguity of this rule towards the lowest
    alternative, i.e. "continue the innermost loop" — the model does the same.
  * The parse tree is represented by the sequence of listener callbacks that
    `antlr.ParseTreeWalkerDefault.Walk` issues for it (children left to right, then the exit
    callback of the node): `VisitTerminal` of an IDENTIFIER / BOOL, `ExitGroup`, `ExitNotExpr`,
    `ExitAndExpr`, `ExitOrExpr`.
  * The listener is ast/bolt_listener.go.  Two versions are modelled; `untypedL` selects by the
    `ListenerShape` that /verif/extract regenerates from the method bodies:
      - `fixedStep` (current code, fix c2dd0be): `VisitTerminal` pushes; `ExitOrExpr` pops right
        then left and pushes a `BooleanLogicExprNode`; `ExitAndExpr` does the same, except that
        when the right operand is an OR node without the `grouped` mark it pushes
        `OR{AND{left, right.left}, right.right}`; `ExitGroup` sets `grouped` on the node on top
        of the stack if it is a `BooleanLogicExprNode`; `ExitNotExpr` pops one and pushes an
        `UntypedNotExprNode`; popping an empty stack sets the listener error;
      - `listenerStep` (pinned tree e54a121): no `ExitGroup`, plain `ExitAndExpr` — kept to
        document why the fix was needed.
    `ExitQueryStmt` takes the top of the stack as predicate (and leaves anything below it
    unnoticed).
  * `transform` is `BooleanLogicExprNode.TypeTransformBool` / `UntypedNotExprNode.TypeTransformBool`
    / `UntypedSymbolNode.TypeTransform` (ast/node_convert.go, ast/node_symbol.go): a symbol that is
    not of bool type makes the enclosing node fail with a type error.
  * `T.eval` is `AndExprNode/OrExprNode/NotExprNode/BoolSymbolNode/BoolConstNode.EvalBool`.
  * `queryT` selects by the `TransformShape` that /verif/extract regenerates from the bodies of the
    typing / evaluation methods: only the `plain` forms (no rewrite of the typed tree) are
    interpreted.  What the typed tree is, structurally, is stated in StorageModel/C12/Typed.lean
    (`inorder`: the typed tree read in order is the written text without its parentheses).

  Whitespace and keyword case are handled one level below (StorageModel/C12/Lex.lean).
-/
namespace StorageModel.C12

/-- an atom of a skeleton: a boolean symbol (or any operation, treated as opaque) or BOOL -/
inductive Atom (α : Type) where
  | sym (a : α)
  | const (b : Bool)
  deriving DecidableEq, Repr

/-- token skeleton: `ATOM | AND | OR | NOT | ( | )` -/
inductive Tok (α : Type) where
  | atom (a : Atom α)
  | op (o : Op)
  | not
  | lp
  | rp
  deriving DecidableEq, Repr

/-- listener callbacks that matter for the boolean structure, in walk order -/
inductive Ev (α : Type) where
  | atom (a : Atom α)      -- VisitTerminal(IDENTIFIER) / VisitTerminal(BOOL)
  | exitGroup              -- ExitGroup (LoggingListener's no-op)
  | exitNot                -- ExitNotExpr
  | exitBin (o : Op)       -- ExitAndExpr / ExitOrExpr
  deriving DecidableEq, Repr

variable {α : Type}

/-! ### the generated parser `boolExpr(_p)` -/

mutual
/-- `boolExpr(p)`: returns the walk-order callbacks of the sub-tree and the remaining tokens -/
def parseE (c : ParserNums) : Nat → Nat → List (Tok α) → Option (List (Ev α) × List (Tok α))
  | 0, _, _ => none
  | f + 1, p, ts =>
    match ts with
    | .atom a :: r => loop c f p [.atom a] r
    | .lp :: r =>
      match parseE c f c.groupLevel r with
      | some (evs, .rp :: r') => loop c f p (evs ++ [.exitGroup]) r'
      | _ => none
    | .not :: r =>
      match parseE c f c.notLevel r with
      | some (evs, r') => loop c f p (evs ++ [.exitNot]) r'
      | none => none
    | _ => none
/-- the `for _alt != 2` loop after the primary (decision 52): `left` are the callbacks of the
    expression parsed so far -/
def loop (c : ParserNums) : Nat → Nat → List (Ev α) → List (Tok α) → Option (List (Ev α) × List (Tok α))
  | 0, _, _, _ => none
  | f + 1, p, left, ts =>
    match ts with
    | .op o :: r =>
      if p ≤ c.prec o then          -- p.Precpred(ctx, prec o)
        match operands c f o left r with
        | some (evs, r') => loop c f p evs r'
        | none => none
      else some (left, ts)
    | _ => some (left, ts)
/-- the right operand(s) of one AndExpr/OrExpr context; the operator token has been consumed.
    In the suffix-loop form the generated code stays in the `(...)+` loop while the same
    operator follows (decisions 47 / 50), and issues a single exit callback at the end. -/
def operands (c : ParserNums) : Nat → Op → List (Ev α) → List (Tok α) → Option (List (Ev α) × List (Tok α))
  | 0, _, _, _ => none
  | f + 1, o, acc, ts =>
    match parseE c f (c.right o) ts with
    | none => none
    | some (evs, r1) =>
      match r1 with
      | .op o' :: r2 =>
        if c.isLoop o && o' == o then operands c f o (acc ++ evs) r2
        else some (acc ++ evs ++ [.exitBin o], r1)
      | _ => some (acc ++ evs ++ [.exitBin o], r1)
end

/-- fuel that is always enough (every call consumes a token within two steps) -/
def fuelFor (ts : List (Tok α)) : Nat := 2 * ts.length + 2

/-- `start: WS* query WS* EOF` with `query: boolExpr`: the whole token list must be one
    `boolExpr(startLevel)`; `none` = syntax error -/
def parseTokens (c : ParserNums) (ts : List (Tok α)) : Option (List (Ev α)) :=
  match parseE c (fuelFor ts) c.startLevel ts with
  | some (evs, []) => some evs
  | _ => none

/-! ### the listener of the pinned tree (ast/bolt_listener.go before fix c2dd0be) -/

/-- untyped nodes the listener builds -/
inductive U (α : Type) where
  | atom (a : Atom α)                 -- UntypedSymbolNode / BoolConstNode
  | not (e : U α)                     -- UntypedNotExprNode
  | bin (o : Op) (l r : U α)          -- BooleanLogicExprNode{left, right, op}
  deriving DecidableEq, Repr

/-- one callback on the listener's current stack (head = top); `none` = listener error
    ("stack is empty, cannot pop") -/
def listenerStep (st : List (U α)) : Ev α → Option (List (U α))
  | .atom a => some (.atom a :: st)
  | .exitGroup => some st
  | .exitNot =>
    match st with
    | e :: st' => some (.not e :: st')
    | [] => none
  | .exitBin o =>
    match st with
    | r :: l :: st' => some (.bin o l r :: st')   -- right := popNode(); left := popNode()
    | _ => none

def runListener : List (Ev α) → List (U α) → Option (List (U α))
  | [], st => some st
  | e :: es, st =>
    match listenerStep st e with
    | some st' => runListener es st'
    | none => none

/-- `ExitQueryStmt`: the predicate is whatever is on top of the stack (nothing: constant true) -/
def queryPredicate : List (U α) → U α
  | e :: _ => e
  | [] => .atom (.const true)

/-- zitiql.Parse + listener: the untyped predicate, `none` = error returned by ast.Parse -/
def untyped (c : ParserNums) (ts : List (Tok α)) : Option (U α) :=
  match parseTokens c ts with
  | none => none
  | some evs =>
    match runListener evs [] with
    | none => none
    | some st => some (queryPredicate st)

/-! ### the listener of the current code (fix c2dd0be) -/

/-- untyped nodes with the `grouped` mark of `BooleanLogicExprNode` -/
inductive UF (α : Type) where
  | atom (a : Atom α)
  | not (e : UF α)
  | bin (o : Op) (grouped : Bool) (l r : UF α)
  deriving DecidableEq, Repr

def UF.erase : UF α → U α
  | .atom a => .atom a
  | .not e => .not e.erase
  | .bin o _ l r => .bin o l.erase r.erase

/-- `ExitGroup`: `if node, ok := peekStack().(*BooleanLogicExprNode); ok { node.grouped = true }` -/
def markGrouped : UF α → UF α
  | .bin o _ l r => .bin o true l r
  | x => x

/-- `ExitAndExpr` after the two pops: re-associate `l and (q or r)` when the `or` was not written
    in parentheses -/
def rotAnd (l r : UF α) : UF α :=
  match r with
  | .bin .or false rl rr => .bin .or false (.bin .and false l rl) rr
  | _ => .bin .and false l r

def fixedStep (st : List (UF α)) : Ev α → Option (List (UF α))
  | .atom a => some (.atom a :: st)
  | .exitGroup =>
    match st with
    | e :: st' => some (markGrouped e :: st')
    | [] => some []                             -- peekStack() == nil: nothing to mark
  | .exitNot =>
    match st with
    | e :: st' => some (.not e :: st')
    | [] => none
  | .exitBin .or =>
    match st with
    | r :: l :: st' => some (.bin .or false l r :: st')
    | _ => none
  | .exitBin .and =>
    match st with
    | r :: l :: st' => some (rotAnd l r :: st')
    | _ => none

def runFixed : List (Ev α) → List (UF α) → Option (List (UF α))
  | [], st => some st
  | e :: es, st =>
    match fixedStep st e with
    | some st' => runFixed es st'
    | none => none

/-- zitiql.Parse + the current listener -/
def untypedFixed (c : ParserNums) (ts : List (Tok α)) : Option (U α) :=
  match parseTokens c ts with
  | none => none
  | some evs =>
    match runFixed evs [] with
    | none => none
    | some (e :: _) => some e.erase
    | some [] => some (.atom (.const true))

/-- the listener the extractor found in ast/bolt_listener.go; a shape the model has no
    interpretation for yields no result (and breaks obligation `listener_is_repaired`) -/
def untypedL (sh : ListenerShape) (c : ParserNums) (ts : List (Tok α)) : Option (U α) :=
  if sh = repairedShape then untypedFixed c ts
  else if sh = pinnedShape then untyped c ts
  else none

/-! ### typing and evaluation -/

/-- typed nodes (ast/node_expr.go) -/
inductive T (α : Type) where
  | atom (a : Atom α)
  | not (e : T α)
  | and (l r : T α)
  | or (l r : T α)
  deriving DecidableEq, Repr

/-- `TypeTransformBool`; `isBool a` = the symbol table says `a` is of bool type.  `none` = the
    "... is of type X, not bool" error. -/
def transform (isBool : α → Bool) : U α → Option (T α)
  | .atom (.sym a) => if isBool a then some (.atom (.sym a)) else none
  | .atom (.const b) => some (.atom (.const b))
  | .not e =>
    match transform isBool e with
    | some e' => some (.not e')
    | none => none
  | .bin o l r =>
    match transform isBool l, transform isBool r with
    | some l', some r' =>
      match o with
      | .and => some (.and l' r')
      | .or => some (.or l' r')
    | _, _ => none

def Atom.eval (env : α → Bool) : Atom α → Bool
  | .sym a => env a
  | .const b => b

/-- `EvalBool` of the typed nodes (Go's short-circuit evaluation of side-effect-free operands) -/
def T.eval (env : α → Bool) : T α → Bool
  | .atom a => a.eval env
  | .not e => !(e.eval env)
  | .and l r => if !(l.eval env) then false else r.eval env
  | .or l r => if l.eval env then true else r.eval env

/-- the same on untyped trees (used to state theorems before typing) -/
def U.eval (env : α → Bool) : U α → Bool
  | .atom a => a.eval env
  | .not e => !(e.eval env)
  | .bin .and l r => l.eval env && r.eval env
  | .bin .or l r => l.eval env || r.eval env

/-- outcome of `ast.Parse` on a skeleton -/
inductive Res (α : Type) where
  | parseError
  | typeError
  | ok (t : T α)
  deriving DecidableEq, Repr

/-- the whole pipeline of `ast.Parse` on a token skeleton -/
def query (sh : ListenerShape) (c : ParserNums) (isBool : α → Bool) (ts : List (Tok α)) : Res α :=
  match untypedL sh c ts with
  | none => .parseError
  | some u =>
    match transform isBool u with
    | none => .typeError
    | some t => .ok t

/-- `ast.Parse` with the typing / evaluation code that /verif/extract found in package `ast`
    (`TransformShape`: bodies of `BooleanLogicExprNode.TypeTransformBool`,
    `UntypedNotExprNode.TypeTransformBool`, `EvalBool` of the typed nodes, the `transformTypes` glue).
    `transform` / `T.eval` above follow the `plain` forms; for any other form the model has no
    interpretation and answers nothing (and obligation `transform_is_plain` breaks). -/
def queryT (tsh : TransformShape) (sh : ListenerShape) (c : ParserNums) (isBool : α → Bool)
    (ts : List (Tok α)) : Option (Res α) :=
  if tsh = plainTransform then some (query sh c isBool ts) else none

end StorageModel.C12
