import StorageModel.C12.Lex
/-
  C12 — the token skeleton of a text does not depend on how it is spelled: keyword letter case,
  amount and kind of whitespace (where the grammar has `WS*` / `WS+`).
-/
namespace StorageModel.C12

/-! ### words -/

def isWordChar (c : Char) : Bool := isLetter c || c == '_'

/-- `[A-Za-z][A-Za-z_]*` -/
def wordShape : List Char → Bool
  | [] => false
  | c :: w => isLetter c && w.all isWordChar

def notDangerous (w : List Char) : Bool := !dangerous true w && !dangerous false w

/-- an identifier atom the lexer-level theorem covers: a word that is neither a keyword nor a
    reserved word and would not be fused with a preceding `not` -/
def AtomWord (w : List Char) : Prop :=
  wordShape w = true ∧ classify expectedKeywords w = some (.atom (.sym w)) ∧ notDangerous w = true

def isWordTok : Tok (List Char) → Bool
  | .lp => false
  | .rp => false
  | _ => true

def isOpTok : Tok (List Char) → Bool
  | .op _ => true
  | _ => false

def isOpOrNot : Option (Tok (List Char)) → Bool
  | some (.op _) => true
  | some .not => true
  | _ => false

def prevIsWord : Option (Tok (List Char)) → Bool
  | some t => isWordTok t
  | none => false

/-- whitespace is needed between two words (lexically), before `and`/`or`, after `and`/`or`/`not` -/
def needWs (prev : Option (Tok (List Char))) (t : Tok (List Char)) : Bool :=
  (prevIsWord prev && isWordTok t) || isOpTok t || isOpOrNot prev

def TokOk : Tok (List Char) → Prop
  | .atom (.sym w) => AtomWord w
  | _ => True

def allWs (s : List Char) : Bool := s.all isWsChar

/-- a spelling the grammar admits -/
def SpellOk : Option (Tok (List Char)) → List (Tok (List Char) × Spell) → List Char → Prop
  | prev, [], trail => allWs trail = true ∧ (isOpOrNot prev = true → trail ≠ [])
  | prev, (t, sp) :: rest, trail =>
    allWs sp.pre = true ∧ (needWs prev t = true → sp.pre ≠ []) ∧ TokOk t ∧ SpellOk (some t) rest trail

/-! ### keyword spellings -/

theorem applyMask_norm : ∀ (w : List Char) (mask : List Bool),
    ∃ m : List Bool, m.length = w.length ∧ applyMask w mask = applyMask w m
  | [], _ => ⟨[], rfl, by cases ‹List Bool› <;> rfl⟩
  | c :: cs, [] => by
    obtain ⟨m, hm, h⟩ := applyMask_norm cs []
    exact ⟨false :: m, by simp [hm], by simp [applyMask, h]⟩
  | c :: cs, b :: bs => by
    obtain ⟨m, hm, h⟩ := applyMask_norm cs bs
    exact ⟨b :: m, by simp [hm], by simp [applyMask, h]⟩

/-- the three facts needed about a spelled keyword -/
def KwFacts (w : List Char) (t : Tok (List Char)) : Prop :=
  wordShape w = true ∧ classify expectedKeywords w = some t ∧ notDangerous w = true

instance (w : List Char) (t : Tok (List Char)) : Decidable (KwFacts w t) := by
  unfold KwFacts; infer_instance

theorem kw_and_bits : ∀ b1 b2 b3 : Bool, KwFacts (applyMask ['a','n','d'] [b1, b2, b3]) (.op .and) := by decide

theorem kw_and (mask : List Bool) : KwFacts (applyMask ['a','n','d'] mask) (.op .and) := by
  obtain ⟨m, hm, h⟩ := applyMask_norm ['a','n','d'] mask
  rw [h]
  match m, hm with
  | [b1, b2, b3], _ => exact kw_and_bits b1 b2 b3

theorem kw_or_bits : ∀ b1 b2 : Bool, KwFacts (applyMask ['o','r'] [b1, b2]) (.op .or) := by decide

theorem kw_or (mask : List Bool) : KwFacts (applyMask ['o','r'] mask) (.op .or) := by
  obtain ⟨m, hm, h⟩ := applyMask_norm ['o','r'] mask
  rw [h]
  match m, hm with
  | [b1, b2], _ => exact kw_or_bits b1 b2

theorem kw_not_bits : ∀ b1 b2 b3 : Bool, KwFacts (applyMask ['n','o','t'] [b1, b2, b3]) .not := by decide

theorem kw_not (mask : List Bool) : KwFacts (applyMask ['n','o','t'] mask) .not := by
  obtain ⟨m, hm, h⟩ := applyMask_norm ['n','o','t'] mask
  rw [h]
  match m, hm with
  | [b1, b2, b3], _ => exact kw_not_bits b1 b2 b3

theorem kw_true_bits : ∀ b1 b2 b3 b4 : Bool, KwFacts (applyMask ['t','r','u','e'] [b1, b2, b3, b4]) (.atom (.const true)) := by decide

theorem kw_true (mask : List Bool) : KwFacts (applyMask ['t','r','u','e'] mask) (.atom (.const true)) := by
  obtain ⟨m, hm, h⟩ := applyMask_norm ['t','r','u','e'] mask
  rw [h]
  match m, hm with
  | [b1, b2, b3, b4], _ => exact kw_true_bits b1 b2 b3 b4

theorem kw_false_bits : ∀ b1 b2 b3 b4 b5 : Bool, KwFacts (applyMask ['f','a','l','s','e'] [b1, b2, b3, b4, b5]) (.atom (.const false)) := by decide

theorem kw_false (mask : List Bool) : KwFacts (applyMask ['f','a','l','s','e'] mask) (.atom (.const false)) := by
  obtain ⟨m, hm, h⟩ := applyMask_norm ['f','a','l','s','e'] mask
  rw [h]
  match m, hm with
  | [b1, b2, b3, b4, b5], _ => exact kw_false_bits b1 b2 b3 b4 b5

/-- every word-like token is written as a word that classifies back to the token -/
theorem spell_word (t : Tok (List Char)) (mask : List Bool) (hw : isWordTok t = true) (ht : TokOk t) :
    KwFacts (spellTok t mask) t := by
  cases t with
  | atom a =>
    cases a with
    | sym w => exact ht
    | const b => cases b <;> simp only [spellTok] <;> first | exact kw_true mask | exact kw_false mask
  | op o => cases o <;> simp only [spellTok] <;> first | exact kw_and mask | exact kw_or mask
  | not => exact kw_not mask
  | lp => simp [isWordTok] at hw
  | rp => simp [isWordTok] at hw


/-! ### stage 1: characters → raw tokens -/

def wsRaws (n : Nat) : List Raw := List.replicate n .ws

def rawTok (t : Tok (List Char)) (mask : List Bool) : Raw :=
  match t with
  | .lp => .lp
  | .rp => .rp
  | t => .word (spellTok t mask)

/-- the raw tokens of a spelled skeleton -/
def rawOf : List (Tok (List Char) × Spell) → List Char → List Raw
  | [], trail => wsRaws trail.length
  | (t, sp) :: rest, trail => wsRaws sp.pre.length ++ rawTok t sp.mask :: rawOf rest trail

theorem ws_char_facts (c : Char) (h : isWsChar c = true) :
    isLetter c = false ∧ (c == '_') = false ∧ (c == '(') = false ∧ (c == ')') = false := by
  simp only [isWsChar, Bool.or_eq_true, beq_iff_eq] at h
  rcases h with ((h | h) | h) | h <;> subst h <;> decide

theorem lexGo_ws (pre R : List Char) (h : allWs pre = true) :
    lexGo (pre ++ R) [] = (lexGo R []).map (wsRaws pre.length ++ ·) := by
  induction pre with
  | nil => simp [wsRaws]
  | cons c pre ih =>
    simp only [allWs, List.all_cons, Bool.and_eq_true] at h
    obtain ⟨h1, h2, _, _⟩ := ws_char_facts c h.1
    have ih' := ih (by simpa [allWs] using h.2)
    simp only [List.cons_append, lexGo, extendsWord, h1, h2, Bool.false_and, Bool.or_false, h.1,
      if_true, Bool.false_eq_true, if_false, ih']
    cases lexGo R [] <;> simp [flush, wsRaws, List.replicate_succ]

/-- does the text stop a word here? -/
def startsDelim : List Char → Bool
  | [] => true
  | c :: _ => !isWordChar c

theorem lexGo_wordchars (w R cur : List Char) (hall : w.all isWordChar = true)
    (hstart : cur ≠ [] ∨ wordShape w = true ∨ w = []) :
    lexGo (w ++ R) cur = lexGo R (w.reverse ++ cur) := by
  induction w generalizing cur with
  | nil => simp
  | cons c w ih =>
    simp only [List.all_cons, Bool.and_eq_true] at hall
    have hext : extendsWord c cur = true := by
      simp only [extendsWord, Bool.or_eq_true, Bool.and_eq_true, Bool.not_eq_true', beq_iff_eq]
      rcases hstart with h | h | h
      · have : cur.isEmpty = false := by cases cur <;> simp_all
        have hc := hall.1
        simp only [isWordChar, Bool.or_eq_true, beq_iff_eq] at hc
        rcases hc with hc | hc
        · exact Or.inl hc
        · exact Or.inr ⟨hc, this⟩
      · simp only [wordShape, Bool.and_eq_true] at h
        exact Or.inl h.1
      · simp at h
    simp only [List.cons_append, lexGo, hext, if_true]
    rw [ih (c :: cur) hall.2 (Or.inl (by simp))]
    simp

theorem lexGo_flush (R cur : List Char) (hcur : cur ≠ []) (hd : startsDelim R = true) :
    lexGo R cur = (lexGo R []).map (.word cur.reverse :: ·) := by
  have hne : cur.isEmpty = false := by cases cur <;> simp_all
  cases R with
  | nil => simp [lexGo, flush, hne]
  | cons c cs =>
    simp only [startsDelim, isWordChar, Bool.not_eq_true', Bool.or_eq_false_iff, beq_eq_false_iff_ne] at hd
    have h1 : extendsWord c cur = false := by simp [extendsWord, hd.1, hd.2]
    have h2 : extendsWord c [] = false := by simp [extendsWord, hd.1]
    simp only [lexGo, h1, h2, Bool.false_eq_true, if_false]
    split
    · cases lexGo cs [] <;> simp [flush, hne]
    · split
      · cases lexGo cs [] <;> simp [flush, hne]
      · split
        · cases lexGo cs [] <;> simp [flush, hne]
        · rfl

theorem lexGo_word (w R : List Char) (hw : wordShape w = true) (hd : startsDelim R = true) :
    lexGo (w ++ R) [] = (lexGo R []).map (.word w :: ·) := by
  have hall : w.all isWordChar = true := by
    cases w with
    | nil => simp [wordShape] at hw
    | cons c w =>
      simp only [wordShape, Bool.and_eq_true] at hw
      simp [isWordChar, hw.1, hw.2]
  have hne : w ≠ [] := by cases w <;> simp_all [wordShape]
  rw [lexGo_wordchars w R [] hall (Or.inr (Or.inl hw)), List.append_nil,
    lexGo_flush R w.reverse (by simpa using hne) hd]
  simp

theorem startsDelim_ws (pre R : List Char) (h : allWs pre = true) (hne : pre ≠ []) :
    startsDelim (pre ++ R) = true := by
  cases pre with
  | nil => simp at hne
  | cons c pre =>
    simp only [allWs, List.all_cons, Bool.and_eq_true] at h
    obtain ⟨h1, h2, _, _⟩ := ws_char_facts c h.1
    simp [startsDelim, isWordChar, h1, h2]

theorem spellTok_paren_delim (t : Tok (List Char)) (mask : List Bool) (R : List Char)
    (h : isWordTok t = false) : startsDelim (spellTok t mask ++ R) = true := by
  cases t <;> simp_all [isWordTok, spellTok, startsDelim, isWordChar, isLetter] <;> decide

/-- after a word, a well-spelled continuation starts with a delimiter -/
theorem render_startsDelim (prev : Option (Tok (List Char))) (ts : List (Tok (List Char) × Spell))
    (trail : List Char) (h : SpellOk prev ts trail) (hp : prevIsWord prev = true) :
    startsDelim (renderChars ts trail) = true := by
  cases ts with
  | nil =>
    simp only [SpellOk] at h
    cases trail with
    | nil => rfl
    | cons c cs => simpa [renderChars] using startsDelim_ws (c :: cs) [] h.1 (by simp)
  | cons x rest =>
    obtain ⟨t, sp⟩ := x
    simp only [SpellOk] at h
    obtain ⟨hws, hneed, _, _⟩ := h
    simp only [renderChars]
    by_cases hpre : sp.pre = []
    · have : isWordTok t = false := by
        cases hwt : isWordTok t with
        | false => rfl
        | true => exact absurd hpre (hneed (by simp [needWs, hp, hwt]))
      simpa [hpre] using spellTok_paren_delim t sp.mask _ this
    · rw [List.append_assoc]; exact startsDelim_ws _ _ hws hpre

theorem lex_render (prev : Option (Tok (List Char))) (ts : List (Tok (List Char) × Spell))
    (trail : List Char) (h : SpellOk prev ts trail) :
    lexGo (renderChars ts trail) [] = some (rawOf ts trail) := by
  induction ts generalizing prev with
  | nil =>
    simp only [SpellOk] at h
    have := lexGo_ws trail [] h.1
    simpa [renderChars, rawOf, lexGo, flush] using this
  | cons x rest ih =>
    obtain ⟨t, sp⟩ := x
    simp only [SpellOk] at h
    obtain ⟨hws, _, htok, hrest⟩ := h
    have ihr := ih (some t) hrest
    simp only [renderChars, rawOf, List.append_assoc]
    rw [lexGo_ws _ _ hws]
    cases hwt : isWordTok t with
    | true =>
      have hk := spell_word t sp.mask hwt htok
      have hd := render_startsDelim (some t) rest trail hrest (by simpa [prevIsWord] using hwt)
      rw [lexGo_word _ _ hk.1 hd, ihr]
      cases t <;> simp_all [rawTok, isWordTok]
    | false =>
      cases t <;> simp_all [isWordTok, spellTok, rawTok, lexGo, extendsWord, isLetter, isWsChar, flush]
        <;> decide


/-! ### stage 2: raw tokens → token skeleton (whitespace discipline, classification) -/

theorem skelGo_ws (kws : List KeywordDef) (pw : Bool) (n : Nat) (X : List Raw) :
    skelGo kws pw (wsRaws n ++ X) = skelGo kws (if n = 0 then pw else true) X := by
  induction n generalizing pw with
  | zero => simp [wsRaws]
  | succ n ih =>
    simp only [wsRaws, List.replicate_succ, List.cons_append, skelGo]
    have := ih true
    simp only [wsRaws] at this
    rw [this]
    simp

theorem startsWithWs_rawOf (t : Tok (List Char)) (rest : List (Tok (List Char) × Spell)) (trail : List Char)
    (h : SpellOk (some t) rest trail) (ht : isOpOrNot (some t) = true) :
    startsWithWs (rawOf rest trail) = true := by
  cases rest with
  | nil =>
    simp only [SpellOk] at h
    have := h.2 ht
    cases trail with
    | nil => simp at this
    | cons c cs => simp [rawOf, wsRaws, List.replicate_succ, startsWithWs]
  | cons x rest =>
    obtain ⟨t', sp'⟩ := x
    simp only [SpellOk] at h
    have := h.2.1 (by simp [needWs, ht])
    cases hp : sp'.pre with
    | nil => exact absurd hp this
    | cons c cs => simp [rawOf, hp, wsRaws, List.replicate_succ, startsWithWs]

theorem notFollowOk_ws (n k : Nat) (X : List Raw) :
    notFollowOk n (wsRaws k ++ X) = notFollowOk (n + k) X := by
  induction k generalizing n with
  | zero => simp [wsRaws]
  | succ k ih =>
    simp only [wsRaws, List.replicate_succ, List.cons_append, notFollowOk]
    have := ih (n + 1)
    simp only [wsRaws] at this
    rw [this]
    congr 1
    omega

theorem dangerous_false (b : Bool) (w : List Char) (h : notDangerous w = true) : dangerous b w = false := by
  simp only [notDangerous, Bool.and_eq_true, Bool.not_eq_true'] at h
  cases b
  · exact h.2
  · exact h.1

theorem notFollowOk_rawOf (t : Tok (List Char)) (rest : List (Tok (List Char) × Spell)) (trail : List Char)
    (h : SpellOk (some t) rest trail) (n : Nat) : notFollowOk n (rawOf rest trail) = true := by
  cases rest with
  | nil =>
    have := notFollowOk_ws n trail.length []
    simp only [List.append_nil] at this
    simp [rawOf, this, notFollowOk]
  | cons x rest =>
    obtain ⟨t', sp'⟩ := x
    simp only [SpellOk] at h
    obtain ⟨_, _, htok, _⟩ := h
    simp only [rawOf]
    rw [notFollowOk_ws]
    cases hwt : isWordTok t' with
    | false => cases t' <;> simp_all [isWordTok, rawTok, notFollowOk]
    | true =>
      have hk := spell_word t' sp'.mask hwt htok
      have hd := dangerous_false (n + sp'.pre.length == 1) _ hk.2.2
      cases t' <;> simp_all [isWordTok, rawTok, notFollowOk]

theorem skel_render (prev : Option (Tok (List Char))) (ts : List (Tok (List Char) × Spell))
    (trail : List Char) (h : SpellOk prev ts trail) (pw : Bool) :
    skelGo expectedKeywords pw (rawOf ts trail) = some (ts.map (·.1)) := by
  induction ts generalizing prev pw with
  | nil =>
    have := skelGo_ws expectedKeywords pw trail.length []
    simp only [List.append_nil] at this
    simp [rawOf, this, skelGo]
  | cons x rest ih =>
    obtain ⟨t, sp⟩ := x
    have hfull := h
    simp only [SpellOk] at h
    obtain ⟨_, hneed, htok, hrest⟩ := h
    have ihr := ih (some t) hrest false
    simp only [rawOf, List.map_cons]
    rw [skelGo_ws]
    cases hwt : isWordTok t with
    | false => cases t <;> simp_all [isWordTok, rawTok, skelGo]
    | true =>
      have hk := spell_word t sp.mask hwt htok
      cases t with
      | lp => simp [isWordTok] at hwt
      | rp => simp [isWordTok] at hwt
      | atom a => simp [rawTok, skelGo, hk.2.1, ihr]
      | op o =>
        have hpre : sp.pre ≠ [] := hneed (by simp [needWs, isOpTok])
        have hlen : sp.pre.length ≠ 0 := by cases hp : sp.pre <;> simp_all
        have hsw := startsWithWs_rawOf (.op o) rest trail hrest rfl
        simp [rawTok, skelGo, hk.2.1, ihr, hlen, hsw]
      | not =>
        have hsw := startsWithWs_rawOf .not rest trail hrest rfl
        have hnf := notFollowOk_rawOf .not rest trail hrest 0
        simp [rawTok, skelGo, hk.2.1, ihr, hsw, hnf]

/-- **the token skeleton does not depend on the spelling** -/
theorem lexSkeleton_render (ts : List (Tok (List Char) × Spell)) (trail : List Char)
    (h : SpellOk none ts trail) :
    lexSkeleton expectedKeywords (renderChars ts trail) = some (ts.map (·.1)) := by
  simp [lexSkeleton, lexRaw, lex_render none ts trail h, skel_render none ts trail h false]

end StorageModel.C12
