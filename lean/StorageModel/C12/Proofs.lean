import StorageModel.C12.Spec
/-
  C12 — helper lemmas: the parser model on rendered skeletons (completeness), on arbitrary token
  lists (soundness), the listener as a stack machine, the two readings.
-/
namespace StorageModel.C12
variable {α : Type}

/-! ### configuration predicates -/

/-- entering `boolExpr` at level `p` lets both operators through (`Precpred` always true) -/
def LevelOk (c : ParserNums) (p : Nat) : Prop := p ≤ c.andPrec ∧ p ≤ c.orPrec

instance (c : ParserNums) (p : Nat) : Decidable (LevelOk c p) := by unfold LevelOk; infer_instance

/-- every level at which the generated code enters `boolExpr` is below both precedences: the
    precedence predicates never fail and each operator swallows the rest of its level -/
def Greedy (c : ParserNums) : Prop :=
  LevelOk c c.startLevel ∧ LevelOk c c.groupLevel ∧ LevelOk c c.notLevel ∧
  LevelOk c c.andRight ∧ LevelOk c c.orRight

instance (c : ParserNums) : Decidable (Greedy c) := by unfold Greedy; infer_instance

theorem LevelOk.prec {c : ParserNums} {p : Nat} (h : LevelOk c p) (o : Op) : p ≤ c.prec o := by
  cases o <;> simp [ParserNums.prec, h.1, h.2]

theorem Greedy.right {c : ParserNums} (h : Greedy c) (o : Op) : LevelOk c (c.right o) := by
  cases o
  · exact h.2.2.2.1
  · exact h.2.2.2.2

def headIsOp : List (Tok α) → Bool
  | .op _ :: _ => true
  | _ => false

/-! ### unfolding lemmas -/

theorem parseE_atom (c : ParserNums) (f p : Nat) (a : Atom α) (r : List (Tok α)) :
    parseE c (f + 1) p (.atom a :: r) = loop c f p [.atom a] r := by
  simp [parseE]

theorem parseE_lp (c : ParserNums) (f p : Nat) (r r' : List (Tok α)) (evs : List (Ev α))
    (h : parseE c f c.groupLevel r = some (evs, .rp :: r')) :
    parseE c (f + 1) p (.lp :: r) = loop c f p (evs ++ [.exitGroup]) r' := by
  simp [parseE, h]

theorem parseE_not (c : ParserNums) (f p : Nat) (r r' : List (Tok α)) (evs : List (Ev α))
    (h : parseE c f c.notLevel r = some (evs, r')) :
    parseE c (f + 1) p (.not :: r) = loop c f p (evs ++ [.exitNot]) r' := by
  simp [parseE, h]

theorem loop_stop (c : ParserNums) (f p : Nat) (left : List (Ev α)) (ts : List (Tok α))
    (h : headIsOp ts = false) : loop c (f + 1) p left ts = some (left, ts) := by
  cases ts with
  | nil => simp [loop]
  | cons t r => cases t <;> simp_all [loop, headIsOp]

theorem loop_op (c : ParserNums) (f p : Nat) (left evs : List (Ev α)) (o : Op) (r r' : List (Tok α))
    (hp : p ≤ c.prec o) (h : operands c f o left r = some (evs, r')) :
    loop c (f + 1) p left (.op o :: r) = loop c f p evs r' := by
  simp [loop, hp, h]

theorem operands_stop (c : ParserNums) (f : Nat) (o : Op) (acc evs : List (Ev α)) (ts r1 : List (Tok α))
    (hp : parseE c f (c.right o) ts = some (evs, r1)) (h : headIsOp r1 = false) :
    operands c (f + 1) o acc ts = some (acc ++ evs ++ [.exitBin o], r1) := by
  cases r1 with
  | nil => simp [operands, hp]
  | cons t r => cases t <;> simp_all [operands, headIsOp]


/-! ### completeness: a rendered skeleton is parsed, right-nested -/

theorem headIsOp_rp (r : List (Tok α)) : headIsOp (Tok.rp :: r) = false := rfl

/-- one operator + the rest of the level, from inside `loop` -/
theorem loop_op_render (c : ParserNums) (hg : Greedy c) (w : W α) (o : Op)
    (ih : ∀ (f p : Nat) (rest : List (Tok α)), LevelOk c p → headIsOp rest = false →
      2 * w.render.length ≤ f → parseE c f p (w.render ++ rest) = some (w.evM, rest))
    (f p : Nat) (left : List (Ev α)) (rest : List (Tok α)) (hp : LevelOk c p)
    (hr : headIsOp rest = false) (hf : 2 * w.render.length + 3 ≤ f) :
    loop c f p left (.op o :: (w.render ++ rest)) = some (left ++ w.evM ++ [.exitBin o], rest) := by
  obtain ⟨f1, rfl⟩ : ∃ f1, f = f1 + 3 := ⟨f - 3, by omega⟩
  have h1 := ih (f1 + 1) (c.right o) rest (hg.right o) hr (by omega)
  have h2 := operands_stop c (f1 + 1) o left w.evM (w.render ++ rest) rest h1 hr
  show loop c (f1 + 1 + 1 + 1) p left (.op o :: (w.render ++ rest)) = _
  rw [loop_op c (f1 + 1 + 1) p left _ o _ rest (hp.prec o) h2]
  exact loop_stop c (f1 + 1) p _ rest hr

theorem parseE_render (c : ParserNums) (hg : Greedy c) (w : W α) :
    ∀ (f p : Nat) (rest : List (Tok α)), LevelOk c p → headIsOp rest = false →
      2 * w.render.length ≤ f → parseE c f p (w.render ++ rest) = some (w.evM, rest) := by
  induction w with
  | atom a =>
    intro f p rest _ hr hf
    simp only [W.render, List.length_cons, List.length_nil] at hf
    obtain ⟨f1, rfl⟩ : ∃ f1, f = f1 + 2 := ⟨f - 2, by omega⟩
    simp only [W.render, W.evM, List.cons_append, List.nil_append]
    rw [parseE_atom]
    exact loop_stop c f1 p _ rest hr
  | grp g ih =>
    intro f p rest _ hr hf
    simp only [W.render, List.length_cons, List.length_append, List.length_nil] at hf
    obtain ⟨f1, rfl⟩ : ∃ f1, f = f1 + 2 := ⟨f - 2, by omega⟩
    have h1 := ih (f1 + 1) c.groupLevel (.rp :: rest) hg.2.1 (headIsOp_rp rest) (by omega)
    simp only [W.render, W.evM, List.cons_append, List.append_assoc, List.nil_append]
    rw [parseE_lp c (f1 + 1) p _ rest g.evM h1]
    exact loop_stop c f1 p _ rest hr
  | not w ih =>
    intro f p rest _ hr hf
    simp only [W.render, List.length_cons] at hf
    obtain ⟨f1, rfl⟩ : ∃ f1, f = f1 + 2 := ⟨f - 2, by omega⟩
    have h1 := ih (f1 + 1) c.notLevel rest hg.2.2.1 hr (by omega)
    simp only [W.render, W.evM, List.cons_append]
    rw [parseE_not c (f1 + 1) p _ rest w.evM h1]
    exact loop_stop c f1 p _ rest hr
  | atomOp a o w ih =>
    intro f p rest hp hr hf
    simp only [W.render, List.length_cons] at hf
    obtain ⟨f1, rfl⟩ : ∃ f1, f = f1 + 1 := ⟨f - 1, by omega⟩
    simp only [W.render, W.evM, List.cons_append]
    rw [parseE_atom]
    have := loop_op_render c hg w o ih f1 p [.atom a] rest hp hr (by omega)
    simpa using this
  | grpOp g o w ihg ih =>
    intro f p rest hp hr hf
    simp only [W.render, List.length_cons, List.length_append] at hf
    obtain ⟨f1, rfl⟩ : ∃ f1, f = f1 + 1 := ⟨f - 1, by omega⟩
    have h1 := ihg f1 c.groupLevel (.rp :: .op o :: (w.render ++ rest)) hg.2.1 (headIsOp_rp _) (by omega)
    simp only [W.render, W.evM, List.cons_append, List.append_assoc]
    rw [parseE_lp c f1 p _ (.op o :: (w.render ++ rest)) g.evM h1]
    have := loop_op_render c hg w o ih f1 p (g.evM ++ [.exitGroup]) rest hp hr (by omega)
    simpa using this

theorem parseTokens_render (c : ParserNums) (hg : Greedy c) (w : W α) :
    parseTokens c w.render = some w.evM := by
  have := parseE_render c hg w (fuelFor w.render) c.startLevel [] hg.1 rfl (by simp [fuelFor])
  simp only [List.append_nil] at this
  simp [parseTokens, this]


/-! ### the listener as a stack machine -/

theorem runListener_append (a b : List (Ev α)) (st : List (U α)) :
    runListener (a ++ b) st = (runListener a st).bind (runListener b) := by
  induction a generalizing st with
  | nil => simp [runListener]
  | cons e es ih =>
    simp only [List.cons_append, runListener]
    cases listenerStep st e with
    | none => simp
    | some st' => simp [ih]

theorem runListener_evM (w : W α) : ∀ st : List (U α), runListener w.evM st = some (w.readM :: st) := by
  induction w with
  | atom a => intro st; simp [W.evM, W.readM, runListener, listenerStep]
  | grp g ih => intro st; simp [W.evM, W.readM, runListener_append, ih, runListener, listenerStep]
  | not w ih => intro st; simp [W.evM, W.readM, runListener_append, ih, runListener, listenerStep]
  | atomOp a o w ih =>
    intro st
    simp [W.evM, W.readM, runListener, listenerStep, runListener_append, ih]
  | grpOp g o w ihg ih =>
    intro st
    simp [W.evM, W.readM, runListener, listenerStep, runListener_append, ihg, ih]

theorem untyped_render (c : ParserNums) (hg : Greedy c) (w : W α) :
    untyped c w.render = some w.readM := by
  simp [untyped, parseTokens_render c hg w, runListener_evM, queryPredicate]

/-! ### soundness: whatever the parser model accepts is a rendered skeleton (any numbers) -/

/-- `w0 op v` when `w0` is already a level: the operator attaches at the end of the spine -/
def W.append : W α → Op → W α → W α
  | .atom a, o, v => .atomOp a o v
  | .grp g, o, v => .grpOp g o v
  | .not w, o, v => .not (W.append w o v)
  | .atomOp a o' w, o, v => .atomOp a o' (W.append w o v)
  | .grpOp g o' w, o, v => .grpOp g o' (W.append w o v)

theorem render_append (w0 : W α) (o : Op) (v : W α) :
    (W.append w0 o v).render = w0.render ++ .op o :: v.render := by
  induction w0 with
  | atom a => simp [W.append, W.render]
  | grp g _ => simp [W.append, W.render]
  | not w ih => simp [W.append, W.render, ih]
  | atomOp a o' w ih => simp [W.append, W.render, ih]
  | grpOp g o' w _ ih => simp [W.append, W.render, ih]

theorem parse_sound_aux (c : ParserNums) (f : Nat) :
    (∀ (p : Nat) (ts : List (Tok α)) evs rest, parseE c f p ts = some (evs, rest) →
        ∃ w : W α, ts = w.render ++ rest) ∧
    (∀ (p : Nat) (left : List (Ev α)) (ts : List (Tok α)) evs rest,
        loop c f p left ts = some (evs, rest) → ∀ w0 : W α, ∃ w : W α, w0.render ++ ts = w.render ++ rest) ∧
    (∀ (o : Op) (acc : List (Ev α)) (ts : List (Tok α)) evs rest,
        operands c f o acc ts = some (evs, rest) →
        ∀ w0 : W α, ∃ w : W α, w0.render ++ .op o :: ts = w.render ++ rest) := by
  induction f with
  | zero => simp [parseE, loop, operands]
  | succ f ih =>
    obtain ⟨ihE, ihL, ihO⟩ := ih
    refine ⟨?_, ?_, ?_⟩
    · intro p ts evs rest h
      cases ts with
      | nil => simp [parseE] at h
      | cons t r =>
        cases t with
        | atom a =>
          rw [parseE_atom] at h
          obtain ⟨w, hw⟩ := ihL p _ r evs rest h (.atom a)
          exact ⟨w, by simpa [W.render] using hw⟩
        | op o => simp [parseE] at h
        | rp => simp [parseE] at h
        | lp =>
          simp only [parseE] at h
          split at h
          · next evs' r' hin =>
            obtain ⟨g, hg⟩ := ihE _ r evs' _ hin
            obtain ⟨w, hw⟩ := ihL p _ r' evs rest h (.grp g)
            refine ⟨w, ?_⟩
            rw [← hw, hg]
            simp [W.render]
          · simp at h
        | not =>
          simp only [parseE] at h
          split at h
          · next evs' r' hin =>
            obtain ⟨w1, hw1⟩ := ihE _ r evs' r' hin
            obtain ⟨w, hw⟩ := ihL p _ r' evs rest h (.not w1)
            refine ⟨w, ?_⟩
            rw [← hw, hw1]
            simp [W.render]
          · simp at h
    · intro p left ts evs rest h w0
      cases ts with
      | nil => simp [loop] at h; exact ⟨w0, by simp [h.2]⟩
      | cons t r =>
        cases t with
        | op o =>
          simp only [loop] at h
          split at h
          · split at h
            · next evs' r' hop =>
              obtain ⟨w1, hw1⟩ := ihO o left r evs' r' hop w0
              obtain ⟨w, hw⟩ := ihL p evs' r' evs rest h w1
              exact ⟨w, by rw [hw1, hw]⟩
            · simp at h
          · simp at h; exact ⟨w0, by rw [← h.2]⟩
        | atom a => simp [loop] at h; exact ⟨w0, by rw [← h.2]⟩
        | lp => simp [loop] at h; exact ⟨w0, by rw [← h.2]⟩
        | rp => simp [loop] at h; exact ⟨w0, by rw [← h.2]⟩
        | not => simp [loop] at h; exact ⟨w0, by rw [← h.2]⟩
    · intro o acc ts evs rest h w0
      simp only [operands] at h
      split at h
      · simp at h
      · next evs' r1 hin =>
        obtain ⟨w1, hw1⟩ := ihE _ ts evs' r1 hin
        have key : w0.render ++ .op o :: ts = (W.append w0 o w1).render ++ r1 := by
          rw [render_append, hw1]; simp
        split at h
        · next o' r2 =>
          split at h
          · next hcond =>
            have ho : o' = o := by
              simp only [Bool.and_eq_true, beq_iff_eq] at hcond
              exact hcond.2
            subst ho
            obtain ⟨w, hw⟩ := ihO o' _ r2 evs rest h (W.append w0 o' w1)
            exact ⟨w, by rw [key, hw]⟩
          · simp at h
            exact ⟨W.append w0 o w1, by rw [key, h.2]⟩
        · simp at h
          exact ⟨W.append w0 o w1, by rw [key, h.2]⟩

theorem parseTokens_sound (c : ParserNums) (ts : List (Tok α)) (evs : List (Ev α))
    (h : parseTokens c ts = some evs) : ∃ w : W α, ts = w.render := by
  simp only [parseTokens] at h
  split at h
  · next evs' hp =>
    obtain ⟨w, hw⟩ := (parse_sound_aux c (fuelFor ts)).1 _ ts evs' [] hp
    exact ⟨w, by simpa using hw⟩
  · simp at h

end StorageModel.C12

namespace StorageModel.C12

/-- ANTLR 4's numbering of a left-recursive rule with `n` alternatives: alternative `i`
    (1-based) has precedence `n - i + 1`; a binary alternative `e op e` guards with its
    precedence and parses its right operand one level higher; an alternative of the form
    `e (op e)+` is a *suffix* alternative for ANTLR — only the leading `e` is rewritten, the `e`
    inside the block is an ordinary rule reference, i.e. level 0, and the block becomes a loop;
    a prefix alternative parses its operand at its own precedence; a parenthesised `e` and the
    reference from another rule are level 0. -/
def antlrNumbers (alts : List AltShape) : Option ParserNums :=
  let n := alts.length
  let idx := fun (p : AltShape → Bool) => (alts.findIdx? p).map fun i => n - i
  let isOp := fun (o : Op) (a : AltShape) =>
    match a with
    | .binary o' _ => o' == o
    | .suffixLoop o' _ => o' == o
    | _ => false
  let isLoopAlt := fun (o : Op) => alts.any fun a =>
    match a with
    | .suffixLoop o' _ => o' == o
    | _ => false
  let isNot := fun (a : AltShape) => match a with | .prefixNot _ => true | _ => false
  let wellFormed := alts.all fun a => match a with | .other _ => false | _ => true
  match idx (isOp .and), idx (isOp .or), idx isNot with
  | some pa, some po, some pn =>
    if wellFormed then
      some { andPrec := pa, andRight := if isLoopAlt .and then 0 else pa + 1, andLoop := isLoopAlt .and,
             orPrec := po, orRight := if isLoopAlt .or then 0 else po + 1, orLoop := isLoopAlt .or,
             notLevel := pn, groupLevel := 0, startLevel := 0 }
    else none
  | _, _, _ => none

end StorageModel.C12
