import StorageModel.C12.Skel
/-
  C12 — the lexical level of the boolean skeleton: characters → raw tokens → token skeleton.

  Modelled fragment of zitiql/ZitiQl.g4 (lexer part):
    * `WS: [ \n\t\r]` — one WS token per character (the *parser* rules place `WS*` / `WS+`);
    * `LPAREN`, `RPAREN`;
    * words `[A-Za-z][A-Za-z_]*` (IDENTIFIER without `.` segments and quotes), split by
      maximal munch; a word that spells a keyword in any letter case (the case-insensitive
      letter fragments `fragment A : [aA]; …`, regenerated into `Generated.keywords`) is that
      keyword, because keyword rules precede IDENTIFIER; a word that spells another reserved
      keyword of the language (NULL, SORT, …) cannot be an atom;
    * `IN: (N O T WS)? I N`, `CONTAINS: (N O T WS+)? …` etc.: after `not` + whitespace a word
      beginning with `in` / `contains` / `icontains` / `between` is swallowed into an operator
      token by maximal munch — such input is rejected by the parser (`notFollowOk`).
  Whitespace discipline of the parser rules (`boolExpr (WS+ AND WS+ boolExpr)+`,
  `NOT WS+ boolExpr`, `LPAREN WS* boolExpr WS* RPAREN`, `start: WS* query WS* EOF`):
  whitespace may stand between any two tokens and at both ends; it must stand on both sides of
  `and` / `or` and after `not`.
  Any other character is outside the modelled fragment (`none`).
-/
namespace StorageModel.C12

inductive Raw where
  | ws
  | lp
  | rp
  | word (w : List Char)
  deriving DecidableEq, Repr

def isWsChar (c : Char) : Bool := c == ' ' || c == '\n' || c == '\t' || c == '\r'

def isLetter (c : Char) : Bool :=
  (c.toNat ≥ 97 && c.toNat ≤ 122) || (c.toNat ≥ 65 && c.toNat ≤ 90)

/-- may `c` extend the word read so far (`cur`, reversed)? -/
def extendsWord (c : Char) (cur : List Char) : Bool :=
  isLetter c || (c == '_' && !cur.isEmpty)

def flush (cur : List Char) (rest : List Raw) : List Raw :=
  if cur.isEmpty then rest else .word cur.reverse :: rest

/-- maximal-munch lexer; `cur` is the word being read, reversed -/
def lexGo : List Char → List Char → Option (List Raw)
  | [], cur => some (flush cur [])
  | c :: cs, cur =>
    if extendsWord c cur then lexGo cs (c :: cur)
    else if isWsChar c then (lexGo cs []).map fun r => flush cur (.ws :: r)
    else if c == '(' then (lexGo cs []).map fun r => flush cur (.lp :: r)
    else if c == ')' then (lexGo cs []).map fun r => flush cur (.rp :: r)
    else none

def lexRaw (s : List Char) : Option (List Raw) := lexGo s []

/-- ASCII lower case -/
def lowerChar (c : Char) : Char :=
  if c.toNat ≥ 65 && c.toNat ≤ 90 then Char.ofNat (c.toNat + 32) else c

def lowerWord (w : List Char) : List Char := w.map lowerChar

/-- does the word spell the keyword (each character in the corresponding fragment's set)? -/
def matchLetters : List (List Char) → List Char → Bool
  | [], [] => true
  | set :: sets, c :: cs => set.contains c && matchLetters sets cs
  | _, _ => false

def isKeyword (kws : List KeywordDef) (name : String) (w : List Char) : Bool :=
  kws.any fun k => k.name == name && matchLetters k.letters w

/-- other keywords of the language that are not atoms when they stand alone -/
def reservedWords : List (List Char) :=
  [['n','u','l','l'], ['s','o','r','t'], ['b','y'], ['s','k','i','p'], ['l','i','m','i','t'],
   ['n','o','n','e'], ['w','h','e','r','e'], ['f','r','o','m'], ['a','s','c'], ['d','e','s','c'],
   ['a','l','l','o','f'], ['a','n','y','o','f'], ['c','o','u','n','t'], ['i','s','e','m','p','t','y'],
   ['i','n'], ['c','o','n','t','a','i','n','s'], ['i','c','o','n','t','a','i','n','s'],
   ['b','e','t','w','e','e','n']]

/-- the skeleton token of a word; `none` = a reserved word (rejected in atom position) -/
def classify (kws : List KeywordDef) (w : List Char) : Option (Tok (List Char)) :=
  if isKeyword kws "AND" w then some (.op .and)
  else if isKeyword kws "OR" w then some (.op .or)
  else if isKeyword kws "NOT" w then some .not
  else if isKeyword kws "TRUE" w then some (.atom (.const true))
  else if isKeyword kws "FALSE" w then some (.atom (.const false))
  else if reservedWords.contains (lowerWord w) then none
  else some (.atom (.sym w))

def startsWithWs : List Raw → Bool
  | .ws :: _ => true
  | _ => false

def isPrefixCI (p : List Char) (w : List Char) : Bool := p.isPrefixOf (lowerWord w)

def kwIn : List Char := ['i','n']
def kwContains : List Char := ['c','o','n','t','a','i','n','s']
def kwIContains : List Char := ['i','c','o','n','t','a','i','n','s']
def kwBetween : List Char := ['b','e','t','w','e','e','n']

/-- would a word starting like this be fused with a preceding `not` + whitespace by the lexer? -/
def dangerous (oneWs : Bool) (w : List Char) : Bool :=
  (oneWs && isPrefixCI kwIn w) || isPrefixCI kwContains w || isPrefixCI kwIContains w ||
    isPrefixCI kwBetween w

/-- `r` is what follows a `not`: whitespace, then possibly a word.  The lexer would have fused
    `not` + whitespace + `in…` (exactly one whitespace character) / `contains…` / `icontains…` /
    `between…` into an operator token. -/
def notFollowOk : Nat → List Raw → Bool
  | n, .ws :: r => notFollowOk (n + 1) r
  | n, .word w :: _ => !dangerous (n == 1) w
  | _, _ => true

/-- whitespace discipline + classification; `prevWs` = the previous raw token was whitespace -/
def skelGo (kws : List KeywordDef) : Bool → List Raw → Option (List (Tok (List Char)))
  | _, [] => some []
  | _, .ws :: r => skelGo kws true r
  | _, .lp :: r => (skelGo kws false r).map (.lp :: ·)
  | _, .rp :: r => (skelGo kws false r).map (.rp :: ·)
  | pw, .word w :: r =>
    match classify kws w with
    | none => none
    | some (.op o) =>
      if pw && startsWithWs r then (skelGo kws false r).map (.op o :: ·) else none
    | some .not =>
      if startsWithWs r && notFollowOk 0 r then (skelGo kws false r).map (.not :: ·) else none
    | some t => (skelGo kws false r).map (t :: ·)

/-- characters → token skeleton (`none`: rejected, or outside the modelled fragment) -/
def lexSkeleton (kws : List KeywordDef) (s : List Char) : Option (List (Tok (List Char))) :=
  match lexRaw s with
  | none => none
  | some raws => skelGo kws false raws

/-! ### spellings -/

/-- the table the lexer grammar is expected to contain (and does: `keywords_are_expected`) -/
def expectedKeywords : List KeywordDef :=
  [⟨"AND", [['a', 'A'], ['n', 'N'], ['d', 'D']]⟩,
   ⟨"OR", [['o', 'O'], ['r', 'R']]⟩,
   ⟨"NOT", [['n', 'N'], ['o', 'O'], ['t', 'T']]⟩,
   ⟨"TRUE", [['t', 'T'], ['r', 'R'], ['u', 'U'], ['e', 'E']]⟩,
   ⟨"FALSE", [['f', 'F'], ['a', 'A'], ['l', 'L'], ['s', 'S'], ['e', 'E']]⟩]

def upperChar (c : Char) : Char :=
  if c.toNat ≥ 97 && c.toNat ≤ 122 then Char.ofNat (c.toNat - 32) else c

/-- write a lower-case keyword with the letters selected by `mask` in upper case -/
def applyMask : List Char → List Bool → List Char
  | [], _ => []
  | c :: cs, [] => c :: applyMask cs []
  | c :: cs, m :: ms => (if m then upperChar c else c) :: applyMask cs ms

/-- how one token is written: the whitespace in front of it and the letter-case mask -/
structure Spell where
  pre : List Char
  mask : List Bool
  deriving Repr

def spellTok (t : Tok (List Char)) (mask : List Bool) : List Char :=
  match t with
  | .atom (.sym w) => w
  | .atom (.const true) => applyMask ['t','r','u','e'] mask
  | .atom (.const false) => applyMask ['f','a','l','s','e'] mask
  | .op .and => applyMask ['a','n','d'] mask
  | .op .or => applyMask ['o','r'] mask
  | .not => applyMask ['n','o','t'] mask
  | .lp => ['(']
  | .rp => [')']

/-- the text of a token skeleton under a spelling (`trail` = whitespace at the end) -/
def renderChars : List (Tok (List Char) × Spell) → List Char → List Char
  | [], trail => trail
  | (t, sp) :: rest, trail => sp.pre ++ spellTok t sp.mask ++ renderChars rest trail

end StorageModel.C12
