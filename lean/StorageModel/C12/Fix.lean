import StorageModel.C12.Readings
/-
  C12 — the listener of the current code (fix c2dd0be: `ExitGroup` marks parenthesised boolean
  nodes, `ExitAndExpr` re-associates `l and (q or r)` to `(l and q) or r` unless the `or` was
  parenthesised; definitions in Skel.lean) builds exactly the intended reading from the
  callbacks the generated parser issues, for ANY skeleton (`fixed_listener_reads_intended`).
-/
namespace StorageModel.C12
variable {α : Type}

/-- what the repaired listener builds for a skeleton -/
def W.fixM : W α → UF α
  | .atom a => .atom a
  | .grp g => markGrouped g.fixM
  | .not w => .not w.fixM
  | .atomOp a .or w => .bin .or false (.atom a) w.fixM
  | .atomOp a .and w => rotAnd (.atom a) w.fixM
  | .grpOp g .or w => .bin .or false (markGrouped g.fixM) w.fixM
  | .grpOp g .and w => rotAnd (markGrouped g.fixM) w.fixM

def isOpenOr : UF α → Bool
  | .bin .or false _ _ => true
  | _ => false

theorem erase_markGrouped (x : UF α) : (markGrouped x).erase = x.erase := by
  cases x <;> rfl

theorem isOpenOr_markGrouped (x : UF α) : isOpenOr (markGrouped x) = false := by
  cases x with
  | bin o g l r => cases o <;> rfl
  | atom a => rfl
  | not e => rfl

theorem rotAnd_closed (l r : UF α) (h : isOpenOr r = false) : rotAnd l r = .bin .and false l r := by
  cases r with
  | atom a => rfl
  | not e => rfl
  | bin o g rl rr => cases o <;> cases g <;> simp_all [rotAnd, isOpenOr]

theorem fix_inv (w : W α) :
    w.fixM.erase = w.readS ∧
    (match w.readGo.2 with
     | none => isOpenOr w.fixM = false
     | some r => ∃ l' r', w.fixM = .bin .or false l' r' ∧ l'.erase = w.readGo.1 ∧ r'.erase = r) := by
  induction w with
  | atom a => exact ⟨rfl, rfl⟩
  | grp g ih => exact ⟨by simp [W.fixM, erase_markGrouped, ih.1], isOpenOr_markGrouped _⟩
  | not w ih => exact ⟨by simp [W.fixM, UF.erase, ih.1], rfl⟩
  | atomOp a o w ih =>
    cases o with
    | or =>
      refine ⟨by simp [W.fixM, UF.erase, ih.1], ?_⟩
      exact ⟨_, _, rfl, rfl, ih.1⟩
    | and =>
      cases hto : w.hasTopOr with
      | false =>
        have hn := readGo_snd_of_noTopOr w hto
        have h2 := ih.2
        rw [hn] at h2
        have hclosed : isOpenOr w.fixM = false := h2
        refine ⟨?_, ?_⟩
        · rw [readS_atomOp_and_noOr a w hto, W.fixM, rotAnd_closed _ _ hclosed]
          simp [UF.erase, ih.1]
        · show (match w.readGo.2 with | none => _ | some r => _)
          rw [hn]
          show isOpenOr (rotAnd _ _) = false
          rw [rotAnd_closed _ _ hclosed]; rfl
      | true =>
        obtain ⟨r, hr⟩ := readGo_snd_of_topOr w hto
        have h2 := ih.2
        rw [hr] at h2
        obtain ⟨l', r', hfix, hl, hrr⟩ := h2
        obtain ⟨r0, hS, hS2⟩ := readS_atomOp_and_or a w hto
        have hr0 : r0 = r := by
          have := comb_some _ r hr
          rw [← W.readS, hS] at this
          simpa using this
        subst hr0
        refine ⟨?_, ?_⟩
        · rw [hS2, W.fixM, hfix]
          simp [rotAnd, UF.erase, hl, hrr]
        · show (match w.readGo.2 with | none => _ | some r => _)
          rw [hr]
          exact ⟨_, r', by rw [W.fixM, hfix]; rfl, by simp [UF.erase, hl, W.readGo], hrr⟩
  | grpOp g o w ihg ih =>
    have hg : (markGrouped g.fixM).erase = g.readS := by rw [erase_markGrouped, ihg.1]
    cases o with
    | or =>
      refine ⟨by simp [W.fixM, UF.erase, ih.1, hg], ?_⟩
      exact ⟨_, _, rfl, hg, ih.1⟩
    | and =>
      cases hto : w.hasTopOr with
      | false =>
        have hn := readGo_snd_of_noTopOr w hto
        have h2 := ih.2
        rw [hn] at h2
        have hclosed : isOpenOr w.fixM = false := h2
        refine ⟨?_, ?_⟩
        · rw [readS_grpOp_and_noOr g w hto, W.fixM, rotAnd_closed _ _ hclosed]
          simp [UF.erase, ih.1, hg]
        · show (match w.readGo.2 with | none => _ | some r => _)
          rw [hn]
          show isOpenOr (rotAnd _ _) = false
          rw [rotAnd_closed _ _ hclosed]; rfl
      | true =>
        obtain ⟨r, hr⟩ := readGo_snd_of_topOr w hto
        have h2 := ih.2
        rw [hr] at h2
        obtain ⟨l', r', hfix, hl, hrr⟩ := h2
        obtain ⟨r0, hS, hS2⟩ := readS_grpOp_and_or g w hto
        have hr0 : r0 = r := by
          have := comb_some _ r hr
          rw [← W.readS, hS] at this
          simpa using this
        subst hr0
        refine ⟨?_, ?_⟩
        · rw [hS2, W.fixM, hfix]
          simp [rotAnd, UF.erase, hl, hrr, hg]
        · show (match w.readGo.2 with | none => _ | some r => _)
          rw [hr]
          refine ⟨_, r', by rw [W.fixM, hfix]; rfl, ?_, hrr⟩
          simp only [UF.erase, hl, hg]
          rfl

theorem runFixed_append (a b : List (Ev α)) (st : List (UF α)) :
    runFixed (a ++ b) st = (runFixed a st).bind (runFixed b) := by
  induction a generalizing st with
  | nil => simp [runFixed]
  | cons e es ih =>
    simp only [List.cons_append, runFixed]
    cases fixedStep st e with
    | none => simp
    | some st' => simp [ih]

theorem runFixed_evM (w : W α) : ∀ st : List (UF α), runFixed w.evM st = some (w.fixM :: st) := by
  induction w with
  | atom a => intro st; simp [W.evM, W.fixM, runFixed, fixedStep]
  | grp g ih => intro st; simp [W.evM, W.fixM, runFixed_append, ih, runFixed, fixedStep]
  | not w ih => intro st; simp [W.evM, W.fixM, runFixed_append, ih, runFixed, fixedStep]
  | atomOp a o w ih =>
    intro st
    cases o <;> simp [W.evM, W.fixM, runFixed, fixedStep, runFixed_append, ih]
  | grpOp g o w ihg ih =>
    intro st
    cases o <;> simp [W.evM, W.fixM, runFixed, fixedStep, runFixed_append, ihg, ih]

theorem fixed_listener_reads_intended (c : ParserNums) (hg : Greedy c) (w : W α) :
    untypedFixed c w.render = some w.readS := by
  simp [untypedFixed, parseTokens_render c hg w, runFixed_evM, (fix_inv w).1]

end StorageModel.C12
