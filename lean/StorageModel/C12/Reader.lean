import StorageModel.C12.Readings
/-
  C12 — the executable reader `parseW` used by the driver's spec mode is the inverse of `render`,
  and the parser model accepts exactly the token lists it accepts.
-/
namespace StorageModel.C12
variable {α : Type}

theorem parseW_render (w : W α) :
    ∀ (f : Nat) (rest : List (Tok α)), headIsOp rest = false → w.render.length < f →
      parseW f (w.render ++ rest) = some (w, rest) := by
  induction w with
  | atom a =>
    intro f rest hr hf
    obtain ⟨f1, rfl⟩ : ∃ f1, f = f1 + 1 := ⟨f - 1, by simp [W.render] at hf; omega⟩
    cases rest with
    | nil => simp [W.render, parseW]
    | cons t r => cases t <;> simp_all [W.render, parseW, headIsOp]
  | grp g ih =>
    intro f rest hr hf
    simp only [W.render, List.length_cons, List.length_append, List.length_nil] at hf
    obtain ⟨f1, rfl⟩ : ∃ f1, f = f1 + 1 := ⟨f - 1, by omega⟩
    have h1 := ih f1 (.rp :: rest) rfl (by omega)
    simp only [W.render, List.cons_append, List.append_assoc, List.nil_append]
    cases rest with
    | nil => simp [parseW, h1]
    | cons t r => cases t <;> simp_all [parseW, headIsOp]
  | not w ih =>
    intro f rest hr hf
    simp only [W.render, List.length_cons] at hf
    obtain ⟨f1, rfl⟩ : ∃ f1, f = f1 + 1 := ⟨f - 1, by omega⟩
    have h1 := ih f1 rest hr (by omega)
    simp [W.render, parseW, h1]
  | atomOp a o w ih =>
    intro f rest hr hf
    simp only [W.render, List.length_cons] at hf
    obtain ⟨f1, rfl⟩ : ∃ f1, f = f1 + 1 := ⟨f - 1, by omega⟩
    have h1 := ih f1 rest hr (by omega)
    simp [W.render, parseW, h1]
  | grpOp g o w ihg ih =>
    intro f rest hr hf
    simp only [W.render, List.length_cons, List.length_append] at hf
    obtain ⟨f1, rfl⟩ : ∃ f1, f = f1 + 1 := ⟨f - 1, by omega⟩
    have h1 := ihg f1 (.rp :: .op o :: (w.render ++ rest)) rfl (by omega)
    have h2 := ih f1 rest hr (by omega)
    simp only [W.render, List.cons_append, List.append_assoc]
    simp [parseW, h1, h2]

theorem readTokens_render' (w : W α) : readTokens w.render = some w := by
  have := parseW_render w (w.render.length + 1) [] rfl (by omega)
  simp only [List.append_nil] at this
  simp [readTokens, this]

theorem parseW_sound (f : Nat) : ∀ (ts : List (Tok α)) (w : W α) (rest : List (Tok α)),
    parseW f ts = some (w, rest) → ts = w.render ++ rest := by
  induction f with
  | zero => intro ts w rest h; simp [parseW] at h
  | succ f ih =>
    intro ts w rest h
    unfold parseW at h
    split at h
    · next r =>
      split at h
      · next w1 r' h1 =>
        simp at h
        obtain ⟨rfl, rfl⟩ := h
        simp [W.render, ih r w1 r' h1]
      · simp at h
    · next a o r =>
      split at h
      · next w1 r' h1 =>
        simp at h
        obtain ⟨rfl, rfl⟩ := h
        simp [W.render, ih r w1 r' h1]
      · simp at h
    · next a r _ =>
      simp at h
      obtain ⟨rfl, rfl⟩ := h
      simp [W.render]
    · next r =>
      split at h
      · next g o r' h1 =>
        split at h
        · next w1 r'' h2 =>
          simp at h
          obtain ⟨rfl, rfl⟩ := h
          simp [W.render, ih r g _ h1, ih r' w1 r'' h2]
        · simp at h
      · next g r' _ h1 =>
        simp at h
        obtain ⟨rfl, rfl⟩ := h
        simp [W.render, ih r g _ h1]
      · simp at h
    · simp at h

theorem readTokens_sound (ts : List (Tok α)) (w : W α) (h : readTokens ts = some w) : ts = w.render := by
  simp only [readTokens] at h
  split at h
  · next w' hp =>
    simp at h; subst h
    simpa using parseW_sound _ ts w' [] hp
  · simp at h

/-- the parser model and the reader accept the same token lists -/
theorem accept_agree' (c : ParserNums) (hg : Greedy c) (ts : List (Tok α)) :
    (untyped c ts).isSome = (readTokens ts).isSome := by
  cases hu : untyped c ts with
  | some u =>
    have : ∃ evs, parseTokens c ts = some evs := by
      simp only [untyped] at hu
      split at hu
      · simp at hu
      · next evs h => exact ⟨evs, h⟩
    obtain ⟨evs, hp⟩ := this
    obtain ⟨w, rfl⟩ := parseTokens_sound c ts evs hp
    simp [readTokens_render']
  | none =>
    cases hr : readTokens ts with
    | none => rfl
    | some w =>
      have := readTokens_sound ts w hr
      subst this
      rw [untyped_render c hg w] at hu
      simp at hu

end StorageModel.C12
