import StorageModel.C12.Clauses
/-
  C12 — the condition `ordered` is exact also semantically: a skeleton over pairwise distinct
  boolean symbols that is not `ordered` has a truth assignment on which the reading of the
  generated parser and the intended reading give different answers.
-/
namespace StorageModel.C12
set_option linter.unusedSectionVars false
variable {α : Type} [DecidableEq α]

def Atom.syms : Atom α → List α
  | .sym a => [a]
  | .const _ => []

def Atom.noConst : Atom α → Bool
  | .sym _ => true
  | .const _ => false

/-- the symbols of a skeleton, left to right -/
def W.syms : W α → List α
  | .atom a => a.syms
  | .grp g => g.syms
  | .not w => w.syms
  | .atomOp a _ w => a.syms ++ w.syms
  | .grpOp g _ w => g.syms ++ w.syms

def W.noConst : W α → Bool
  | .atom a => a.noConst
  | .grp g => g.noConst
  | .not w => w.noConst
  | .atomOp a _ w => a.noConst && w.noConst
  | .grpOp g _ w => g.noConst && w.noConst

/-- all atoms are symbols, no symbol occurs twice -/
def W.Distinct (w : W α) : Prop := w.noConst = true ∧ w.syms.Nodup

theorem Atom.eval_congr (a : Atom α) (env env' : α → Bool) (h : ∀ x ∈ a.syms, env x = env' x) :
    a.eval env = a.eval env' := by
  cases a with
  | sym x => exact h x (by simp [Atom.syms])
  | const b => rfl

/-- both readings only look at the symbols of the skeleton -/
theorem readings_congr (w : W α) (env env' : α → Bool) (h : ∀ x ∈ w.syms, env x = env' x) :
    w.readM.eval env = w.readM.eval env' ∧ w.readGo.1.eval env = w.readGo.1.eval env' ∧
      evalOpt env w.readGo.2 = evalOpt env' w.readGo.2 := by
  induction w with
  | atom a =>
    have := a.eval_congr env env' h
    exact ⟨by simpa [W.readM, U.eval] using this, by simpa [W.readGo, U.eval] using this, rfl⟩
  | grp g ih =>
    obtain ⟨h1, h2, h3⟩ := ih h
    refine ⟨h1, ?_, rfl⟩
    simp only [W.readGo, eval_comb, h2, h3]
  | not w ih =>
    obtain ⟨h1, h2, h3⟩ := ih h
    refine ⟨by simp [W.readM, U.eval, h1], ?_, rfl⟩
    simp only [W.readGo, U.eval, eval_comb, h2, h3]
  | atomOp a o w ih =>
    have ha := a.eval_congr env env' (fun x hx => h x (by simp [W.syms, hx]))
    obtain ⟨h1, h2, h3⟩ := ih (fun x hx => h x (by simp [W.syms, hx]))
    cases o with
    | and =>
      refine ⟨by simp [W.readM, U.eval, h1, ha], by simp [W.readGo, U.eval, h2, ha], by simpa [W.readGo] using h3⟩
    | or =>
      refine ⟨by simp [W.readM, U.eval, h1, ha], by simp [W.readGo, U.eval, ha], ?_⟩
      simp only [W.readGo, evalOpt_some, eval_comb, h2, h3]
  | grpOp g o w ihg ih =>
    obtain ⟨g1, g2, g3⟩ := ihg (fun x hx => h x (by simp [W.syms, hx]))
    obtain ⟨h1, h2, h3⟩ := ih (fun x hx => h x (by simp [W.syms, hx]))
    cases o with
    | and =>
      refine ⟨by simp [W.readM, U.eval, h1, g1], ?_, by simpa [W.readGo] using h3⟩
      simp only [W.readGo, U.eval, eval_comb, g2, g3, h2]
    | or =>
      refine ⟨by simp [W.readM, U.eval, h1, g1], ?_, ?_⟩
      · simp only [W.readGo, eval_comb, g2, g3]
      · simp only [W.readGo, evalOpt_some, eval_comb, h2, h3]

theorem readM_congr (w : W α) (env env' : α → Bool) (h : ∀ x ∈ w.syms, env x = env' x) :
    w.readM.eval env = w.readM.eval env' := (readings_congr w env env' h).1

theorem readS_congr (w : W α) (env env' : α → Bool) (h : ∀ x ∈ w.syms, env x = env' x) :
    w.readS.eval env = w.readS.eval env' := by
  obtain ⟨_, h2, h3⟩ := readings_congr w env env' h
  simp only [W.readS, eval_comb, h2, h3]

/-- `e1` on the symbols in `l`, `e2` elsewhere -/
def mix (l : List α) (e1 e2 : α → Bool) : α → Bool := fun x => if x ∈ l then e1 x else e2 x

theorem mix_on (l : List α) (e1 e2 : α → Bool) (x : α) (h : x ∈ l) : mix l e1 e2 x = e1 x := by
  simp [mix, h]

theorem mix_off (l : List α) (e1 e2 : α → Bool) (x : α) (h : x ∉ l) : mix l e1 e2 x = e2 x := by
  simp [mix, h]

/-- one symbol set to `b` -/
def setAt (a : α) (b : Bool) (e : α → Bool) : α → Bool := fun x => if x = a then b else e x

theorem distinct_grp {g : W α} (h : (W.grp g).Distinct) : g.Distinct := h
theorem distinct_not {w : W α} (h : (W.not w).Distinct) : w.Distinct := h

theorem distinct_atomOp {a : Atom α} {o : Op} {w : W α} (h : (W.atomOp a o w).Distinct) :
    ∃ x, a = .sym x ∧ x ∉ w.syms ∧ w.Distinct := by
  obtain ⟨h1, h2⟩ := h
  cases a with
  | const b => simp [W.noConst, Atom.noConst] at h1
  | sym x =>
    simp only [W.noConst, Atom.noConst, Bool.true_and] at h1
    simp only [W.syms, Atom.syms, List.cons_append, List.nil_append, List.nodup_cons] at h2
    exact ⟨x, rfl, h2.1, h1, h2.2⟩

theorem distinct_grpOp {g : W α} {o : Op} {w : W α} (h : (W.grpOp g o w).Distinct) :
    g.Distinct ∧ w.Distinct ∧ ∀ x ∈ w.syms, x ∉ g.syms := by
  obtain ⟨h1, h2⟩ := h
  simp only [W.noConst, Bool.and_eq_true] at h1
  simp only [W.syms, List.nodup_append] at h2
  exact ⟨⟨h1.1, h2.1⟩, ⟨h1.2, h2.2.1⟩, fun x hx hg => h2.2.2 x hg x hx rfl⟩

/-- both readings can be driven to any value at once -/
theorem controllable (w : W α) (hd : w.Distinct) (b : Bool) :
    ∃ env : α → Bool, w.readM.eval env = b ∧ w.readS.eval env = b := by
  induction w generalizing b with
  | atom a =>
    cases a with
    | const c => simp [W.Distinct, W.noConst, Atom.noConst] at hd
    | sym x => exact ⟨fun _ => b, rfl, rfl⟩
  | grp g ih => exact ih (distinct_grp hd) b
  | not w ih =>
    obtain ⟨env, h1, h2⟩ := ih (distinct_not hd) (!b)
    exact ⟨env, by simp [W.readM, U.eval, h1], by simp [U.eval, h2]⟩
  | atomOp a o w ih =>
    obtain ⟨x, rfl, hx, hw⟩ := distinct_atomOp hd
    obtain ⟨env, h1, h2⟩ := ih hw b
    have hagree : ∀ y ∈ w.syms, setAt x b env y = env y := by
      intro y hy
      have : y ≠ x := fun h => hx (h ▸ hy)
      simp [setAt, this]
    have e1 := readM_congr w _ _ hagree
    obtain ⟨_, g2, g3⟩ := readings_congr w _ _ hagree
    have hS : (w.readGo.1.eval env || evalOpt env w.readGo.2) = b := by
      rw [← h2, W.readS, eval_comb]
    refine ⟨setAt x b env, ?_, ?_⟩
    · cases o <;> simp [W.readM, U.eval, Atom.eval, setAt, e1, h1]
    · cases o with
      | or => simp [U.eval, Atom.eval, setAt, readS_congr w _ _ hagree, h2]
      | and =>
        simp only [W.readS, W.readGo, eval_comb, U.eval, Atom.eval, g2, g3]
        simp only [setAt, if_true]
        cases b <;> simp_all
  | grpOp g o w ihg ih =>
    obtain ⟨hg, hw, hdis⟩ := distinct_grpOp hd
    obtain ⟨e1, a1, a2⟩ := ihg hg b
    obtain ⟨e2, b1, b2⟩ := ih hw b
    let env := mix g.syms e1 e2
    have hag : ∀ y ∈ g.syms, env y = e1 y := fun y hy => mix_on _ _ _ y hy
    have haw : ∀ y ∈ w.syms, env y = e2 y := fun y hy => mix_off _ _ _ y (hdis y hy)
    have m1 := readM_congr g _ _ hag
    have s1 := readS_congr g _ _ hag
    have m2 := readM_congr w _ _ haw
    obtain ⟨_, g2, g3⟩ := readings_congr w _ _ haw
    have hS : (w.readGo.1.eval e2 || evalOpt e2 w.readGo.2) = b := by
      rw [← b2, W.readS, eval_comb]
    have s1' : (comb g.readGo).eval env = b := by
      have : g.readS.eval env = b := by rw [s1, a2]
      exact this
    refine ⟨env, ?_, ?_⟩
    · cases o <;> simp [W.readM, U.eval, m1, m2, a1, b1]
    · cases o with
      | or =>
        have : w.readS.eval env = b := by rw [readS_congr w _ _ haw, b2]
        have hg' : g.readS.eval env = b := by rw [s1, a2]
        simp [U.eval, this, hg']
      | and =>
        simp only [W.readS, W.readGo, eval_comb, U.eval, g2, g3, s1']
        cases b <;> simp_all

/-- when the level has an `or`, what follows it can be made true -/
theorem after_or_true (w : W α) (hd : w.Distinct) (ht : w.hasTopOr = true) :
    ∃ env : α → Bool, evalOpt env w.readGo.2 = true := by
  induction w with
  | atom a => simp [W.hasTopOr] at ht
  | grp g _ => simp [W.hasTopOr] at ht
  | not w _ => simp [W.hasTopOr] at ht
  | atomOp a o w ih =>
    obtain ⟨x, rfl, _, hw⟩ := distinct_atomOp hd
    cases o with
    | or =>
      obtain ⟨env, _, h2⟩ := controllable w hw true
      exact ⟨env, by simpa [W.readGo, evalOpt_some, W.readS] using h2⟩
    | and =>
      obtain ⟨env, h⟩ := ih hw (by simpa [W.hasTopOr] using ht)
      exact ⟨env, by simpa [W.readGo] using h⟩
  | grpOp g o w _ ih =>
    obtain ⟨_, hw, _⟩ := distinct_grpOp hd
    cases o with
    | or =>
      obtain ⟨env, _, h2⟩ := controllable w hw true
      exact ⟨env, by simpa [W.readGo, evalOpt_some, W.readS] using h2⟩
    | and =>
      obtain ⟨env, h⟩ := ih hw (by simpa [W.hasTopOr] using ht)
      exact ⟨env, by simpa [W.readGo] using h⟩

/-- **semantic exactness**: a skeleton over distinct symbols that is not `ordered` is answered
    differently by the two readings on some truth assignment. -/
theorem not_ordered_differs (w : W α) (hd : w.Distinct) (hn : w.ordered = false) :
    ∃ env : α → Bool, w.readM.eval env ≠ w.readS.eval env := by
  induction w with
  | atom a => simp [W.ordered] at hn
  | grp g ih => exact ih (distinct_grp hd) (by simpa [W.ordered] using hn)
  | not w ih =>
    obtain ⟨env, h⟩ := ih (distinct_not hd) (by simpa [W.ordered] using hn)
    exact ⟨env, by simpa [W.readM, U.eval] using h⟩
  | atomOp a o w ih =>
    obtain ⟨x, rfl, hx, hw⟩ := distinct_atomOp hd
    have hagree : ∀ (b : Bool) (env : α → Bool), ∀ y ∈ w.syms, setAt x b env y = env y := by
      intro b env y hy
      have : y ≠ x := fun h => hx (h ▸ hy)
      simp [setAt, this]
    cases o with
    | or =>
      obtain ⟨env, h⟩ := ih hw (by simpa [W.ordered] using hn)
      refine ⟨setAt x false env, ?_⟩
      simp only [W.readM, readS_atomOp_or, U.eval, Atom.eval, setAt, if_true, Bool.false_or]
      rw [readM_congr w _ _ (hagree false env), readS_congr w _ _ (hagree false env)]
      exact h
    | and =>
      cases hto : w.hasTopOr with
      | true =>
        obtain ⟨env, h⟩ := after_or_true w hw hto
        obtain ⟨_, _, g3⟩ := readings_congr w _ _ (hagree false env)
        refine ⟨setAt x false env, ?_⟩
        have hM : (W.atomOp (.sym x) .and w).readM.eval (setAt x false env) = false := by
          simp [W.readM, U.eval, Atom.eval, setAt]
        have hS : (W.atomOp (.sym x) .and w).readS.eval (setAt x false env) = true := by
          simp only [W.readS, W.readGo, eval_comb, g3, h, Bool.or_true]
        rw [hM, hS]; simp
      | false =>
        have hord : w.ordered = false := by simpa [W.ordered, hto] using hn
        obtain ⟨env, h⟩ := ih hw hord
        refine ⟨setAt x true env, ?_⟩
        rw [readS_atomOp_and_noOr _ w hto]
        simp only [W.readM, U.eval, Atom.eval, setAt, if_true, Bool.true_and]
        rw [readM_congr w _ _ (hagree true env), readS_congr w _ _ (hagree true env)]
        exact h
  | grpOp g o w ihg ih =>
    obtain ⟨hg, hw, hdis⟩ := distinct_grpOp hd
    -- environments are glued with `mix`: e1 on the symbols of g, e2 elsewhere
    have glue : ∀ e1 e2 : α → Bool,
        g.readM.eval (mix g.syms e1 e2) = g.readM.eval e1 ∧ g.readS.eval (mix g.syms e1 e2) = g.readS.eval e1 ∧
        w.readM.eval (mix g.syms e1 e2) = w.readM.eval e2 ∧ w.readS.eval (mix g.syms e1 e2) = w.readS.eval e2 ∧
        evalOpt (mix g.syms e1 e2) w.readGo.2 = evalOpt e2 w.readGo.2 := by
      intro e1 e2
      have hag : ∀ y ∈ g.syms, mix g.syms e1 e2 y = e1 y := fun y hy => mix_on _ _ _ y hy
      have haw : ∀ y ∈ w.syms, mix g.syms e1 e2 y = e2 y := fun y hy => mix_off _ _ _ y (hdis y hy)
      exact ⟨readM_congr g _ _ hag, readS_congr g _ _ hag, readM_congr w _ _ haw, readS_congr w _ _ haw,
        (readings_congr w _ _ haw).2.2⟩
    cases o with
    | or =>
      simp only [W.ordered, Bool.and_eq_false_iff] at hn
      rcases hn with hn | hn
      · obtain ⟨e1, h⟩ := ihg hg hn
        obtain ⟨e2, b1, b2⟩ := controllable w hw false
        obtain ⟨q1, q2, q3, q4, _⟩ := glue e1 e2
        refine ⟨mix g.syms e1 e2, ?_⟩
        simp only [W.readM, readS_grpOp_or, U.eval, q1, q2, q3, q4, b1, b2, Bool.or_false]
        exact h
      · obtain ⟨e2, h⟩ := ih hw hn
        obtain ⟨e1, a1, a2⟩ := controllable g hg false
        obtain ⟨q1, q2, q3, q4, _⟩ := glue e1 e2
        refine ⟨mix g.syms e1 e2, ?_⟩
        simp only [W.readM, readS_grpOp_or, U.eval, q1, q2, q3, q4, a1, a2, Bool.false_or]
        exact h
    | and =>
      cases hto : w.hasTopOr with
      | true =>
        obtain ⟨e2, h⟩ := after_or_true w hw hto
        obtain ⟨e1, a1, a2⟩ := controllable g hg false
        obtain ⟨q1, q2, _, _, q5⟩ := glue e1 e2
        refine ⟨mix g.syms e1 e2, ?_⟩
        have hM : (W.grpOp g .and w).readM.eval (mix g.syms e1 e2) = false := by
          simp [W.readM, U.eval, q1, a1]
        have hS : (W.grpOp g .and w).readS.eval (mix g.syms e1 e2) = true := by
          simp only [W.readS, W.readGo, eval_comb, q5, h, Bool.or_true]
        rw [hM, hS]; simp
      | false =>
        rw [readS_grpOp_and_noOr g w hto]
        simp only [W.ordered, hto, Bool.not_false, Bool.and_true, Bool.and_eq_false_iff] at hn
        rcases hn with hn | hn
        · obtain ⟨e1, h⟩ := ihg hg hn
          obtain ⟨e2, b1, b2⟩ := controllable w hw true
          obtain ⟨q1, q2, q3, q4, _⟩ := glue e1 e2
          refine ⟨mix g.syms e1 e2, ?_⟩
          simp only [W.readM, U.eval, q1, q2, q3, q4, b1, b2, Bool.and_true]
          exact h
        · obtain ⟨e2, h⟩ := ih hw hn
          obtain ⟨e1, a1, a2⟩ := controllable g hg true
          obtain ⟨q1, q2, q3, q4, _⟩ := glue e1 e2
          refine ⟨mix g.syms e1 e2, ?_⟩
          simp only [W.readM, U.eval, q1, q2, q3, q4, a1, a2, Bool.true_and]
          exact h

end StorageModel.C12
