import StorageModel.C12.Typed
import StorageModel.Generated.C10Classes
/-
  C12 (round 8) — the TYPED CLASS of an operand where NOT / AND / OR meet it.

  After its own typing an atom of a boolean skeleton is a node of some Go struct: a bool symbol is a
  `BoolSymbolNode`, `n = 3` a `BinaryInt64ExprNode`, `fv > 2.5` and `n = 3.0` (int symbol against a
  literal with a decimal point, promoted through `Int64ToFloat64Node`) a `BinaryFloat64ExprNode`,
  `d < datetime(…)` a `BinaryDatetimeExprNode`, `x in […]` one of the four `In…ArrayExprNode`s,
  `x between …` one of the three `…BetweenExprNode`s, `x not in / not between` a `NotExprNode`,
  `anyOf / allOf / isEmpty` their set nodes, `s = null` an `IsNilExprNode`, a string symbol a
  `StringSymbolNode`, …  Each struct has a set of interfaces it implements and a constant that its
  `GetType()` reports; both are REGENERATED from ast/*.go on every run
  (`Generated.C10.classTable`, extract/c10.go).  They are independent facts: `BinaryFloat64ExprNode`
  implements `BoolNode` and reports `NodeTypeFloat64`.

  `UntypedNotExprNode.TypeTransformBool`, `BooleanLogicExprNode.TypeTransformBool` and
  `untypedQueryNode.TypeTransformBool` (ast/node_convert.go, ast/node_query.go; bodies pinned by
  `transform_is_plain`) type their operand(s) and then decide by the Go interface assertion
  `operand.(BoolNode)` — `transformC` follows that, with the class of every atom as a parameter
  (`cls`).  `OperandCheck.byDeclaredType` is the other way such a check can be written (look at
  `GetType()` first); it is modelled to state what goes wrong with it
  (`declared_type_check_rejects_a_bool_node` in Properties/C12.lean), the code uses `byInterface`.
-/
namespace StorageModel.C12

/-- the regenerated class table: Go struct ↦ (ast interfaces it implements, constant `GetType()` or "") -/
abbrev ClassTable := List (String × List String × String)

/-- `node.(BoolNode)` succeeds for a node of struct `c` -/
def ClassTable.isBoolNode (tbl : ClassTable) (c : String) : Bool :=
  match List.lookup c tbl with
  | some (ifs, _) => ifs.contains "BoolNode"
  | none => false

/-- the constant `GetType()` of struct `c` reports -/
def ClassTable.getType (tbl : ClassTable) (c : String) : String :=
  match List.lookup c tbl with
  | some (_, t) => t
  | none => ""

variable {α : Type}

/-- the Go struct of a typed node; `cls a` = the struct the typing stage builds for atom `a` -/
def T.cls (cls : α → String) : T α → String
  | .atom (.sym a) => cls a
  | .atom (.const _) => "BoolConstNode"
  | .not _ => "NotExprNode"
  | .and _ _ => "AndExprNode"
  | .or _ _ => "OrExprNode"

@[simp] theorem T.cls_not (cls : α → String) (e : T α) : (T.not e).cls cls = "NotExprNode" := rfl
@[simp] theorem T.cls_and (cls : α → String) (l r : T α) : (T.and l r).cls cls = "AndExprNode" := rfl
@[simp] theorem T.cls_or (cls : α → String) (l r : T α) : (T.or l r).cls cls = "OrExprNode" := rfl

theorem T.cls_bin (cls : α → String) (o : Op) (l r : T α) :
    (T.bin o l r).cls cls = (match o with | .and => "AndExprNode" | .or => "OrExprNode") := by
  cases o <;> rfl

/-- how "the operand must be boolean" can be decided:
    * `byInterface`    — `boolNode, ok := operand.(BoolNode)` (the code);
    * `byDeclaredType` — `operand.GetType()` must be `NodeTypeBool` / `NodeTypeAnyType`, then the assertion. -/
inductive OperandCheck where
  | byInterface | byDeclaredType
  deriving DecidableEq, Repr

def OperandCheck.accepts (chk : OperandCheck) (tbl : ClassTable) (c : String) : Bool :=
  match chk with
  | .byInterface => tbl.isBoolNode c
  | .byDeclaredType => (tbl.getType c == "NodeTypeBool" || tbl.getType c == "NodeTypeAnyType") && tbl.isBoolNode c

/-- `TypeTransformBool` of `UntypedNotExprNode` (operand check `chk`) and `BooleanLogicExprNode`
    (interface assertion on LHS, then RHS) over atoms whose typed struct is `cls a`; `none` = the
    "not expr must wrap bool expr" / "… is of type X, not bool" error -/
def transformC (chk : OperandCheck) (tbl : ClassTable) (cls : α → String) : U α → Option (T α)
  | .atom a => some (.atom a)
  | .not e =>
    match transformC chk tbl cls e with
    | some e' => if chk.accepts tbl (e'.cls cls) then some (.not e') else none
    | none => none
  | .bin o l r =>
    match transformC chk tbl cls l, transformC chk tbl cls r with
    | some l', some r' =>
      if tbl.isBoolNode (l'.cls cls) then
        if tbl.isBoolNode (r'.cls cls) then some (T.bin o l' r') else none
      else none
    | _, _ => none

/-- `untypedQueryNode.TypeTransformBool`: the typed predicate must be a `BoolNode`
    ("query expr predicate must be a boolean expr") -/
def typeQuery (chk : OperandCheck) (tbl : ClassTable) (cls : α → String) (u : U α) : Option (T α) :=
  match transformC chk tbl cls u with
  | some t => if tbl.isBoolNode (t.cls cls) then some t else none
  | none => none

/-- the structs the connectives themselves (and BOOL) are typed as implement `BoolNode` -/
def ConnectivesAreBoolNodes (tbl : ClassTable) : Prop :=
  tbl.isBoolNode "BoolConstNode" = true ∧ tbl.isBoolNode "NotExprNode" = true ∧
  tbl.isBoolNode "AndExprNode" = true ∧ tbl.isBoolNode "OrExprNode" = true

/-- With the interface assertion the class-parameterised typing is the typing of the skeleton
    model (`transform`) in which an atom counts as boolean iff its typed struct implements
    `BoolNode` — whatever its `GetType()` reports. -/
theorem typeQuery_eq_transform (tbl : ClassTable) (cls : α → String) (h : ConnectivesAreBoolNodes tbl)
    (u : U α) :
    typeQuery .byInterface tbl cls u = transform (fun a => tbl.isBoolNode (cls a)) u := by
  obtain ⟨hc, hn, ha, ho⟩ := h
  unfold typeQuery
  induction u with
  | atom a =>
    cases a with
    | sym x => cases hb : tbl.isBoolNode (cls x) <;> simp [transformC, T.cls, transform, hb]
    | const b => simp [transformC, T.cls, transform, hc]
  | not e ih =>
    rw [transform_not, ← ih]
    simp only [transformC, OperandCheck.accepts]
    cases transformC .byInterface tbl cls e with
    | none => rfl
    | some e' =>
      cases hb : tbl.isBoolNode (T.cls cls e') <;> simp [hb, hn]
  | bin o l r ihl ihr =>
    rw [transform_bin, ← ihl, ← ihr]
    simp only [transformC]
    cases transformC .byInterface tbl cls l with
    | none => rfl
    | some l' =>
      cases transformC .byInterface tbl cls r with
      | none => cases hl : tbl.isBoolNode (T.cls cls l') <;> simp [hl]
      | some r' =>
        cases hl : tbl.isBoolNode (T.cls cls l') <;> cases hr : tbl.isBoolNode (T.cls cls r') <;>
          cases o <;> simp [hl, hr, T.bin, ha, ho]

/-- one node: an operand of struct `cls a` is accepted under `not` iff the struct implements `BoolNode` -/
theorem not_operand_accepted_iff_bool_node (tbl : ClassTable) (cls : α → String) (a : α) :
    transformC .byInterface tbl cls (.not (.atom (.sym a))) =
      if tbl.isBoolNode (cls a) then some (.not (.atom (.sym a))) else none := rfl

/-- one node: both operands of and / or are accepted iff both structs implement `BoolNode` -/
theorem bin_operands_accepted_iff_bool_nodes (tbl : ClassTable) (cls : α → String) (o : Op) (a b : α) :
    transformC .byInterface tbl cls (.bin o (.atom (.sym a)) (.atom (.sym b))) =
      if tbl.isBoolNode (cls a) && tbl.isBoolNode (cls b) then some (T.bin o (.atom (.sym a)) (.atom (.sym b)))
      else none := by
  cases h1 : tbl.isBoolNode (cls a) <;> cases h2 : tbl.isBoolNode (cls b) <;> simp [transformC, T.cls, h1, h2]

/-- outcome of `ast.Parse` on a token skeleton whose atoms are typed as `cls` says -/
def queryC (chk : OperandCheck) (tbl : ClassTable) (sh : ListenerShape) (c : ParserNums) (cls : α → String)
    (ts : List (Tok α)) : Res α :=
  match untypedL sh c ts with
  | none => .parseError
  | some u =>
    match typeQuery chk tbl cls u with
    | none => .typeError
    | some t => .ok t

/-- used by the driver: only the pinned (`plain`) forms of the typing functions are interpreted, and
    those decide by the interface assertion -/
def queryCT (tsh : TransformShape) (tbl : ClassTable) (sh : ListenerShape) (c : ParserNums) (cls : α → String)
    (ts : List (Tok α)) : Option (Res α) :=
  if tsh = plainTransform then some (queryC .byInterface tbl sh c cls ts) else none

theorem queryC_eq_query (tbl : ClassTable) (sh : ListenerShape) (c : ParserNums) (cls : α → String)
    (h : ConnectivesAreBoolNodes tbl) (ts : List (Tok α)) :
    queryC .byInterface tbl sh c cls ts = query sh c (fun a => tbl.isBoolNode (cls a)) ts := by
  simp only [queryC, query]
  cases untypedL sh c ts with
  | none => rfl
  | some u =>
    simp only [typeQuery_eq_transform tbl cls h u]
    cases transform (fun a => tbl.isBoolNode (cls a)) u <;> rfl

end StorageModel.C12
