import StorageModel.C12.Skel
/-
  C12 — the skeleton *as written* and its intended reading (the spec).

  A well-formed boolean skeleton is, at each parenthesis level,

        unit op unit op … op unit          or          unit op … op not <rest of the level>

  with `unit = atom | ( skeleton )`.  `W` is exactly that, as a right-nested spine
  (`W ::= unit | unit op W | not W`), so that `render : W → tokens` is a bijection between `W`
  and the well-formed token lists (theorems `parse_render` / `parse_sound` in Proofs.lean) and
  a theorem "for all `w : W`" is a theorem about every boolean skeleton.

  Intended reading `readS` (what the property text and the declared alternative order of the
  grammar — #AndExpr before #OrExpr before #NotExpr — say):
    * `or` binds loosest, `and` tighter, wherever they occur;
    * a parenthesised skeleton is a unit;
    * the prefix `not` is the loosest of all (last alternative): its operand is the rest of its
      level (so `not (P)` on its own is the negation of `P`).
  `spec_is_dnf` (Proofs.lean) restates it without any tree: a skeleton is true iff one of its
  `or`-separated pieces has all of its `and`-joined units true.
-/
namespace StorageModel.C12

/-- skeleton as written (one constructor per way a level can continue) -/
inductive W (α : Type) where
  | atom (a : Atom α)                          -- a
  | grp (g : W α)                              -- ( g )
  | not (w : W α)                              -- not w
  | atomOp (a : Atom α) (o : Op) (w : W α)     -- a op w
  | grpOp (g : W α) (o : Op) (w : W α)         -- ( g ) op w
  deriving DecidableEq, Repr

variable {α : Type}

/-- the token skeleton of a written skeleton -/
def W.render : W α → List (Tok α)
  | .atom a => [.atom a]
  | .grp g => .lp :: (g.render ++ [.rp])
  | .not w => .not :: w.render
  | .atomOp a o w => .atom a :: .op o :: w.render
  | .grpOp g o w => .lp :: (g.render ++ .rp :: .op o :: w.render)

/-- number of atoms -/
def W.atoms : W α → Nat
  | .atom _ => 1
  | .grp g => g.atoms
  | .not w => w.atoms
  | .atomOp _ _ w => 1 + w.atoms
  | .grpOp g _ w => g.atoms + w.atoms

/-! ### the reading the generated parser + listener give (proved in Proofs.lean) -/

/-- every operator takes the whole rest of its level as right operand -/
def W.readM : W α → U α
  | .atom a => .atom a
  | .grp g => g.readM
  | .not w => .not w.readM
  | .atomOp a o w => .bin o (.atom a) w.readM
  | .grpOp g o w => .bin o g.readM w.readM

/-- walk-order callbacks of that reading -/
def W.evM : W α → List (Ev α)
  | .atom a => [.atom a]
  | .grp g => g.evM ++ [.exitGroup]
  | .not w => w.evM ++ [.exitNot]
  | .atomOp a o w => .atom a :: (w.evM ++ [.exitBin o])
  | .grpOp g o w => g.evM ++ .exitGroup :: (w.evM ++ [.exitBin o])

/-! ### the intended reading -/

/-- join of "first and-group" and "the remaining or-operands" -/
def comb : U α × Option (U α) → U α
  | (g, none) => g
  | (g, some r) => .bin .or g r

/-- `(reading of the first and-group, reading of what follows its `or`)` -/
def W.readGo : W α → U α × Option (U α)
  | .atom a => (.atom a, none)
  | .grp g => (comb g.readGo, none)
  | .not w => (.not (comb w.readGo), none)
  | .atomOp a .or w => (.atom a, some (comb w.readGo))
  | .atomOp a .and w => (.bin .and (.atom a) w.readGo.1, w.readGo.2)
  | .grpOp g .or w => (comb g.readGo, some (comb w.readGo))
  | .grpOp g .and w => (.bin .and (comb g.readGo) w.readGo.1, w.readGo.2)

/-- intended reading: `and` over `or`, parentheses are units, `not` takes the rest of its level -/
def W.readS (w : W α) : U α := comb w.readGo

/-- is there an `or` at this level (before a `not`, not inside parentheses)? -/
def W.hasTopOr : W α → Bool
  | .atom _ => false
  | .grp _ => false
  | .not _ => false
  | .atomOp _ .or _ => true
  | .atomOp _ .and w => w.hasTopOr
  | .grpOp _ .or _ => true
  | .grpOp _ .and w => w.hasTopOr

/-- **the exact condition**: no `and` has an unparenthesised `or` to its right on the same level
    (i.e. before the end of the level, a closing parenthesis or a `not`), anywhere in the
    skeleton. -/
def W.ordered : W α → Bool
  | .atom _ => true
  | .grp g => g.ordered
  | .not w => w.ordered
  | .atomOp _ .or w => w.ordered
  | .atomOp _ .and w => !w.hasTopOr && w.ordered
  | .grpOp g .or w => g.ordered && w.ordered
  | .grpOp g .and w => g.ordered && !w.hasTopOr && w.ordered

/-! ### the intended reading without trees: disjunctive pieces of conjunctive units -/

/-- a unit of a level -/
inductive Unit' (α : Type) where
  | atom (a : Atom α)
  | grp (g : W α)
  | neg (w : W α)         -- trailing `not w`
  deriving Repr

/-- the level split at its `or`s; each piece is the list of its `and`-joined units -/
def W.pieces : W α → List (List (Unit' α))
  | .atom a => [[.atom a]]
  | .grp g => [[.grp g]]
  | .not w => [[.neg w]]
  | .atomOp a .or w => [.atom a] :: w.pieces
  | .atomOp a .and w =>
    match w.pieces with
    | p :: ps => (.atom a :: p) :: ps
    | [] => [[.atom a]]
  | .grpOp g .or w => [.grp g] :: w.pieces
  | .grpOp g .and w =>
    match w.pieces with
    | p :: ps => (.grp g :: p) :: ps
    | [] => [[.grp g]]

/-- value of a unit under the intended reading -/
def Unit'.val (env : α → Bool) : Unit' α → Bool
  | .atom a => a.eval env
  | .grp g => g.readS.eval env
  | .neg w => !(w.readS.eval env)

/-! ### reading a token list back (executable spec for the driver) -/

/-- recursive-descent reader of `W ::= unit | unit op W | not W`; `none` = not a skeleton -/
def parseW : Nat → List (Tok α) → Option (W α × List (Tok α))
  | 0, _ => none
  | f + 1, ts =>
    match ts with
    | .not :: r =>
      match parseW f r with
      | some (w, r') => some (.not w, r')
      | none => none
    | .atom a :: .op o :: r =>
      match parseW f r with
      | some (w, r') => some (.atomOp a o w, r')
      | none => none
    | .atom a :: r => some (.atom a, r)
    | .lp :: r =>
      match parseW f r with
      | some (g, .rp :: .op o :: r') =>
        match parseW f r' with
        | some (w, r'') => some (.grpOp g o w, r'')
        | none => none
      | some (g, .rp :: r') => some (.grp g, r')
      | _ => none
    | _ => none

/-- the skeleton written by a token list, if it is one -/
def readTokens (ts : List (Tok α)) : Option (W α) :=
  match parseW (ts.length + 1) ts with
  | some (w, []) => some w
  | _ => none

/-- what `ast.Parse` should answer on a token skeleton -/
def specQuery (isBool : α → Bool) (ts : List (Tok α)) : Res α :=
  match readTokens ts with
  | none => .parseError
  | some w =>
    match transform isBool w.readS with
    | none => .typeError
    | some t => .ok t

end StorageModel.C12
