/-
  C18 — the error listeners of ONE pooled ZitiQl parser (or lexer) across its successive uses (zitiql/util.go `parse`).

  The listener discipline of `parse` is extracted from the source (extract/globals_parser.go → Generated/Globals.lean
  `parserListeners`, `lexerListeners`) as a `Discipline`; the model below is parameterised by it.

  Code as it is (since 956c2a8):
      p.RemoveErrorListeners(); defer p.RemoveErrorListeners()          -- before the adds; deferred AFTER `defer parserPool.Put(p)`, so it runs before the Put
      if debug { p.AddErrorListener(console); p.AddErrorListener(diagnostic) }
      p.AddErrorListener(el)
  Before 956c2a8:
      if debug { p.AddErrorListener(diagnostic) } else { p.RemoveErrorListeners() } ; p.AddErrorListener(el)
  and nothing removed before `parserPool.Put(p)`: the parser went back to the pool carrying the caller's error collector `el`,
  and a debug parse kept whatever was there — its syntax errors / diagnostics were ALSO appended to the collector of the
  previous user of that parser, while that user could be reading it (`return el.Errors`).

  Collectors are numbered; the console / diagnostic listeners collect nothing and are left out.
-/
namespace StorageModel.C18.ParserPool

/-- what `parse` does with the error listeners of a pooled recogniser -/
structure Discipline where
  removeBeforeAlways : Bool    -- an unconditional X.RemoveErrorListeners() before every X.AddErrorListener and before the parse
  removeBeforePlain : Bool     -- X.RemoveErrorListeners() only on the non-debug branch
  removeAfterDeferred : Bool   -- `defer X.RemoveErrorListeners()` registered after `defer pool.Put(X)` (runs before the Put)
  addsCollector : Bool         -- an unconditional X.AddErrorListener(el), el the caller's collector
  deriving DecidableEq, Repr

/-- one use of the pooled recogniser: debug flag, the caller's collector, number of errors the input produces -/
structure Use where
  debug : Bool
  el : Nat
  errors : Nat
  deriving DecidableEq, Repr

/-- listeners on the recogniser while the input is parsed -/
def during (d : Discipline) (carried : List Nat) (u : Use) : List Nat :=
  (if d.removeBeforeAlways || (d.removeBeforePlain && !u.debug) then [] else carried) ++
    (if d.addsCollector then [u.el] else [])

/-- … and when it is back in the pool -/
def after (d : Discipline) (carried : List Nat) (u : Use) : List Nat :=
  if d.removeAfterDeferred then [] else during d carried u

/-- deliveries (collector, owner of the parse that produced the errors) of a sequence of uses of one recogniser -/
def deliveries (d : Discipline) : List Nat → List Use → List (Nat × Nat)
  | _, [] => []
  | carried, u :: rest =>
    (if u.errors = 0 then [] else (during d carried u).map (fun c => (c, u.el))) ++
      deliveries d (after d carried u) rest

/-- spec: a collector only ever receives the errors of its own parse -/
def onlyOwn (ds : List (Nat × Nat)) : Bool := ds.all (fun d => d.1 == d.2)

/-- the discipline before 956c2a8 -/
def preFix : Discipline :=
  { removeBeforeAlways := false, removeBeforePlain := true, removeAfterDeferred := false, addsCollector := true }

end StorageModel.C18.ParserPool
