/-
  C18 — vocabulary of the regenerated table of package-level variables
  (Generated/Globals.lean, written by /verif/extract/globals.go) and the obligation decided over it.
-/
namespace StorageModel.C18

inductive VarKind where
  | plain | syncPool | atomic | mutex
  | once      -- a struct carrying its own sync.Once, filled inside once.Do (ANTLR static data)
  deriving DecidableEq, Repr

inductive WriteHow where
  | assign   -- x = …, x += …, x++
  | elem     -- x[k] = …, delete(x, k), *x = …
  | field    -- x.f = …
  | addr     -- &x handed to somebody (errors.As(err, &x) writes through it)
  deriving DecidableEq, Repr

structure WriteSite where
  func : String
  how : WriteHow
  inInit : Bool       -- inside `func init()`
  underLock : Bool    -- lexically after a `.Lock()` call in the same function
  deriving Repr

/-- how a function hands a package-level variable (or a function literal) to its caller -/
inductive EscapeHow where
  | returned   -- `return x`, `return &x`, x inside a returned composite literal / slice expression / append / local alias
  | stored     -- stored into a field or element of another object (which the caller may hold)
  | passed     -- given as an argument to another function (which may keep or change it)
  deriving DecidableEq, Repr

structure Escape where
  func : String
  how : EscapeHow
  deriving Repr

structure GlobalVar where
  pkg : String
  name : String
  kind : VarKind
  writes : List WriteSite
  /-- the type, as far as the syntax tells (documentation only) -/
  typ : String := ""
  /-- a holder of (an alias of) the value can change state other holders see: slice, map, (pointer to) a named type with
      pointer-receiver methods that write the receiver, or a struct with such a field -/
  mutable : Bool := false
  /-- the functions that return the variable / embed it in what they return / store it into another object -/
  escapes : List Escape := []
  deriving Repr

/-- where a variable written by an escaping function literal was declared in the enclosing function -/
inductive DeclKind where
  | loc | param | recv   -- loc: a local variable of the enclosing function
  deriving DecidableEq, Repr

structure CapturedWrite where
  name : String
  how : WriteHow
  decl : DeclKind
  underLock : Bool    -- lexically after a `.Lock()` call inside the function literal
  deriving Repr

/-- a function literal that outlives the call of the enclosing function (constructor closures: `NewBoolFuncSymbol` …) and the
    variables of the enclosing function it captures and writes: they are allocated once per constructor call and shared by
    every invocation of the closure, from whatever goroutine -/
structure Closure where
  pkg : String
  func : String
  escape : EscapeHow
  writes : List CapturedWrite
  deriving Repr

/-- allowed: a sync.Pool, an atomic, a mutex, a once-guarded struct; or a plain variable that is never written after
    package initialisation, or only under a mutex -/
def GlobalVar.ok (g : GlobalVar) : Bool :=
  g.kind != .plain || g.writes.all (fun w => w.inInit || w.underLock)

def noUnsyncWrites (gs : List GlobalVar) : Bool := gs.all GlobalVar.ok

def offenders (gs : List GlobalVar) : List String :=
  (gs.filter (fun g => !g.ok)).map (fun g => g.pkg ++ "." ++ g.name)

/-- a plain variable whose value is mutable and which some function hands out is ONE object shared by all callers of that
    function (two `ast.Parse("")` calls returning the same query node): not allowed -/
def GlobalVar.noSharedEscape (g : GlobalVar) : Bool :=
  g.kind != .plain || !g.mutable || g.escapes.isEmpty

/-- an escaping function literal may write captured state of its constructor only under a lock -/
def Closure.ok (c : Closure) : Bool := c.writes.all (·.underLock)

def noSharedMutableEscape (gs : List GlobalVar) (cs : List Closure) : Bool :=
  gs.all GlobalVar.noSharedEscape && cs.all Closure.ok

def escapeOffenders (gs : List GlobalVar) (cs : List Closure) : List String :=
  (gs.filter (fun g => !g.noSharedEscape)).map (fun g => g.pkg ++ "." ++ g.name) ++
  (cs.filter (fun c => !c.ok)).map (fun c => c.pkg ++ "." ++ c.func ++ " (closure)")

/-! ### appends onto stored slices (round 3) -/

inductive AppendHow where
  | assignedBack   -- x.f = append(x.f, …): the object grows its own slice; the result is handed to nobody else
  | copyOut        -- append(fresh, x.f...): the stored slice is only read, spread into a slice that is fresh in this function
  | ontoShared     -- the result of append(x.f, …) / append(p, …) with p possibly aliasing x.f goes somewhere else: with spare
                   -- capacity the new elements land in the stored slice's backing array, under every earlier result
  deriving DecidableEq, Repr

/-- one `append` call that touches a slice kept in a struct field or a package-level variable -/
structure AppendRow where
  pkg : String
  func : String
  operand : String      -- the stored slice as written (self.path, definition.BasePath …)
  via : String := ""    -- the aliasing local, when the operand is not written in the call itself
  how : AppendHow
  deriving Repr

/-- reviewed exceptions: (pkg, func, operand, reason) -/
def reviewedAppends : List (String × String × String × String) :=
  [("boltz", "NewBaseStore", "definition.BasePath",
    "store construction (single goroutine, before the store is used); the only element ever appended at that position is the " ++
    "constant IndexesBucket, so two stores built from one BasePath slice with spare capacity write the same value; the " ++
    "entity path next to it is built by copyOut")]

def AppendRow.ok (r : AppendRow) : Bool :=
  r.how != .ontoShared || reviewedAppends.any (fun e => e.1 == r.pkg && e.2.1 == r.func && e.2.2.1 == r.operand)

def noAppendOntoShared (rs : List AppendRow) : Bool := rs.all AppendRow.ok

def appendOffenders (rs : List AppendRow) : List String :=
  (rs.filter (fun r => !r.ok)).map (fun r => r.pkg ++ "." ++ r.func ++ ": append onto " ++ r.operand)

def hasAppend (rs : List AppendRow) (pkg func operand : String) (h : AppendHow) : Bool :=
  rs.any (fun r => r.pkg == pkg && r.func == func && r.operand == operand && r.how == h)

/-! ### evaluation must not write node state; process-wide configuration calls (round 4) -/

inductive NodePhase where
  | setup   -- TypeTransform… / Set… / Adopt… / PostProcess…: the query is being built or adjusted by its one owner
  | eval    -- everything else: Eval…, Accept, String, IsConst, getters — may run in many read transactions at once
  deriving DecidableEq, Repr

/-- a write to receiver state in a method of an ast node type (a type of package ast with a method Accept or Eval…) -/
structure NodeWrite where
  typ : String
  method : String
  field : String
  how : WriteHow
  phase : NodePhase
  deriving Repr

/-- reviewed exceptions (type, method, field, reason): none on the current tree — per-evaluation state (set cursors, the
    current row) lives in the `Symbols` argument, i.e. the row cursor of the scan, not in the node -/
def reviewedNodeWrites : List (String × String × String × String) := []

def NodeWrite.ok (w : NodeWrite) : Bool :=
  w.phase != .eval || reviewedNodeWrites.any (fun e => e.1 == w.typ && e.2.1 == w.method && e.2.2.1 == w.field)

def evalDoesNotWriteNodes (ws : List NodeWrite) : Bool := ws.all NodeWrite.ok

/-- a call from the four packages into another module that sets process-wide state (deny-list in
    extract/globals_nodes.go), or an assignment to a package-level variable of another module -/
structure ConfigCall where
  pkg : String
  func : String
  callee : String
  inInit : Bool
  deriving Repr

def noProcessWideConfig (cs : List ConfigCall) : Bool := cs.all (·.inInit)

def hasNodeWrite (ws : List NodeWrite) (typ method field : String) (ph : NodePhase) : Bool :=
  ws.any (fun w => w.typ == typ && w.method == method && w.field == field && w.phase == ph)

/-! ### writes through parameters (round 5) -/

inductive ParamWriteHow where
  | elem       -- param[i] = …, *param = …
  | sort       -- sort.Strings(param) & co, slices.Sort…(param)
  | copyDst    -- copy(param, …)
  | delete     -- delete(param, k), clear(param)
  | appendIn   -- append(param[:k], …)
  | via        -- handed to a function of the same package that writes through the corresponding parameter
  deriving DecidableEq, Repr

inductive ApiKind where
  | read    -- Find… Iterat… Query… Read… Eval… Is… Get… Load… List… Open… Has… Count… Contains… Compare… Parse… (by name)
  | write   -- everything else
  deriving DecidableEq, Repr

/-- a function that writes through a slice / map / pointer parameter (memory of the caller) -/
structure ParamWrite where
  pkg : String
  func : String
  param : String
  how : ParamWriteHow
  api : ApiKind
  deriving Repr

/-- reviewed exceptions among READ apis (pkg, func, param, reason): none on the current tree.  The two rows of the tree are
    WRITE apis: `linkCollectionImpl.SetLinks` sorts the caller's `keys` (a mutating call inside a write transaction; the
    caller hands over the new link list) and `PersistContext.SetLinkedIds` passes its `value` on to it. -/
def reviewedParamWrites : List (String × String × String × String) := []

def ParamWrite.ok (w : ParamWrite) : Bool :=
  w.api != .read || reviewedParamWrites.any (fun e => e.1 == w.pkg && e.2.1 == w.func && e.2.2.1 == w.param)

def readApisDoNotWriteArguments (ws : List ParamWrite) : Bool := ws.all ParamWrite.ok

def hasParamWrite (ws : List ParamWrite) (pkg func param : String) (h : ParamWriteHow) (a : ApiKind) : Bool :=
  ws.any (fun w => w.pkg == pkg && w.func == func && w.param == param && w.how == h && w.api == a)

/-- round 9: a function with a slice result that returns a STORED slice (a field of the receiver / a parameter / a package
    variable, a slice expression or a local alias of one, `append(stored, …)`, or the result of another such getter):
    every caller gets the same backing array -/
structure SliceGetter where
  pkg : String
  func : String
  name : String      -- bare name: the join key (no type information in the extractor: over-approximating)
  returns : String
  deriving Repr

/-- an `append(first, …)` whose first argument is the result of a call to a function of the four packages with a slice
    result — directly, through a local, or through a slice parameter of `via` at a call site -/
structure ResultAppend where
  pkg : String
  func : String
  getter : String
  via : String
  deriving Repr

/-- reviewed exceptions (pkg, func, getter, reason) -/
def reviewedResultAppends : List (String × String × String × String) :=
  [("boltz", "NewBaseStore", "GetRootPath",
    "store construction of a child store (single goroutine, before the store is used): `indexPath = definition.Parent.GetRootPath()` " ++
    "is the parent's `Indexer.basePath[0 : len(entityPath)-1]`, whose next slot already holds the constant IndexesBucket; " ++
    "`append(indexPath, IndexesBucket)` writes that same constant there (the companion of the reviewed row of the append table)")]

def ResultAppend.ok (gs : List SliceGetter) (r : ResultAppend) : Bool :=
  !(gs.any (·.name == r.getter)) || reviewedResultAppends.any (fun e => e.1 == r.pkg && e.2.1 == r.func && e.2.2.1 == r.getter)

/-- nobody appends onto a slice a getter handed out from an object's own storage -/
def noAppendOntoHandedOutSlice (gs : List SliceGetter) (rs : List ResultAppend) : Bool := rs.all (ResultAppend.ok gs)

def hasResultAppend (rs : List ResultAppend) (pkg func getter : String) : Bool :=
  rs.any (fun r => r.pkg == pkg && r.func == func && r.getter == getter)

def hasClosure (cs : List Closure) (pkg func : String) : Bool :=
  cs.any (fun c => c.pkg == pkg && c.func == func)

def hasEscape (gs : List GlobalVar) (pkg name func : String) (m : Bool) : Bool :=
  gs.any (fun g => g.pkg == pkg && g.name == name && g.mutable == m && g.escapes.any (·.func == func))

def hasVar (gs : List GlobalVar) (pkg name : String) (k : VarKind) : Bool :=
  gs.any (fun g => g.pkg == pkg && g.name == name && g.kind == k)

/-! ### receiver state written on read paths; object pools (round 14) -/

inductive FieldWriteHow where
  | assign   -- recv.f = …
  | elem     -- recv.f[k] = …   (map store, slice element)
  | field    -- recv.f.g = …
  | append   -- recv.f = append(…)
  | delete   -- delete(recv.f, k), clear(recv.f)
  | incdec   -- recv.f++
  deriving DecidableEq, Repr

/-- a write a method makes to the state of its receiver (extract/globals_fields.go).  `api = .read`: the method is a read API
    by name or reachable from one through calls (by bare name, over-approximating); `shared`: the receiver type is long-lived
    (handed the transaction on every call, built for sharing, has registration methods, or reachable from such a type through
    field types) and no read path constructs it — one object for all callers -/
structure FieldWrite where
  pkg : String
  typ : String
  method : String
  field : String
  how : FieldWriteHow
  api : ApiKind
  shared : Bool
  underLock : Bool
  deriving Repr

/-- reviewed exceptions (pkg, type, method, field, reason): none on the current tree -/
def reviewedFieldWrites : List (String × String × String × String × String) := []

def FieldWrite.ok (w : FieldWrite) : Bool :=
  w.api != .read || !w.shared || w.underLock ||
    reviewedFieldWrites.any (fun e => e.1 == w.pkg && e.2.1 == w.typ && e.2.2.1 == w.method && e.2.2.2.1 == w.field)

/-- no read API writes (outside a lock) the state of a shared long-lived object it is a method of -/
def readApisDoNotWriteReceiverState (ws : List FieldWrite) : Bool := ws.all FieldWrite.ok

def hasFieldWrite (ws : List FieldWrite) (pkg typ method field : String) (h : FieldWriteHow) (a : ApiKind) (shared : Bool) : Bool :=
  ws.any (fun w => w.pkg == pkg && w.typ == typ && w.method == method && w.field == field && w.how == h && w.api == a &&
    w.shared == shared)

structure PoolDecl where
  pkg : String
  name : String
  decl : String    -- "var" | "field"
  deriving Repr

inductive PoolArgKind where
  | localFromGet   -- a local of the function, assigned from <pool>.Get()
  | receiver       -- the method's receiver: whoever called the method still holds it
  | field          -- x.f: the object x keeps pointing at what was released
  | param          -- the caller still holds it
  | other
  deriving DecidableEq, Repr

/-- one `<pool>.Put(arg)` -/
structure PoolPut where
  pkg : String
  pool : String
  func : String
  arg : String
  argKind : PoolArgKind
  deferred : Bool
  usedAfter : Bool   -- (non-deferred Put) the object is mentioned after the Put
  escapes : String   -- "" or how the local leaves the function (returned / stored / captured / sent)
  deriving Repr

/-- a package-level slice-of-pointers / channel variable written outside init(): a hand-made pool -/
structure FreeList where
  pkg : String
  name : String
  typ : String
  func : String
  deriving Repr

/-- the releasing function owned the object exclusively: it took it from the pool itself, kept it in a local, handed it to
    nobody who keeps it, and gives it back when it returns (or does not touch it after giving it back) -/
def PoolPut.ok (p : PoolPut) : Bool :=
  p.argKind == .localFromGet && p.escapes == "" && (p.deferred || !p.usedAfter)

def noPooledObjectOutlivesRelease (puts : List PoolPut) (frees : List FreeList) : Bool :=
  puts.all PoolPut.ok && frees.isEmpty

def hasPoolPut (ps : List PoolPut) (pkg pool func : String) : Bool :=
  ps.any (fun p => p.pkg == pkg && p.pool == pool && p.func == func && p.argKind == .localFromGet && p.deferred)

def hasPool (ps : List PoolDecl) (pkg name : String) : Bool := ps.any (fun p => p.pkg == pkg && p.name == name)

end StorageModel.C18
