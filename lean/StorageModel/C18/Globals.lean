/-
  C18 — vocabulary of the regenerated table of package-level variables
  (Generated/Globals.lean, written by /verif/extract/globals.go) and the obligation decided over it.
-/
namespace StorageModel.C18

inductive VarKind where
  | plain | syncPool | atomic | mutex
  | once      -- a struct carrying its own sync.Once, filled inside once.Do (ANTLR static data)
  deriving DecidableEq, Repr

inductive WriteHow where
  | assign   -- x = …, x += …, x++
  | elem     -- x[k] = …, delete(x, k), *x = …
  | field    -- x.f = …
  | addr     -- &x handed to somebody (errors.As(err, &x) writes through it)
  deriving DecidableEq, Repr

structure WriteSite where
  func : String
  how : WriteHow
  inInit : Bool       -- inside `func init()`
  underLock : Bool    -- lexically after a `.Lock()` call in the same function
  deriving Repr

structure GlobalVar where
  pkg : String
  name : String
  kind : VarKind
  writes : List WriteSite
  deriving Repr

/-- allowed: a sync.Pool, an atomic, a mutex, a once-guarded struct; or a plain variable that is never written after
    package initialisation, or only under a mutex -/
def GlobalVar.ok (g : GlobalVar) : Bool :=
  g.kind != .plain || g.writes.all (fun w => w.inInit || w.underLock)

def noUnsyncWrites (gs : List GlobalVar) : Bool := gs.all GlobalVar.ok

def offenders (gs : List GlobalVar) : List String :=
  (gs.filter (fun g => !g.ok)).map (fun g => g.pkg ++ "." ++ g.name)

def hasVar (gs : List GlobalVar) (pkg name : String) (k : VarKind) : Bool :=
  gs.any (fun g => g.pkg == pkg && g.name == name && g.kind == k)

end StorageModel.C18
