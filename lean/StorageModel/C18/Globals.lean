/-
  C18 — vocabulary of the regenerated table of package-level variables
  (Generated/Globals.lean, written by /verif/extract/globals.go) and the obligation decided over it.
-/
namespace StorageModel.C18

inductive VarKind where
  | plain | syncPool | atomic | mutex
  | once      -- a struct carrying its own sync.Once, filled inside once.Do (ANTLR static data)
  deriving DecidableEq, Repr

inductive WriteHow where
  | assign   -- x = …, x += …, x++
  | elem     -- x[k] = …, delete(x, k), *x = …
  | field    -- x.f = …
  | addr     -- &x handed to somebody (errors.As(err, &x) writes through it)
  deriving DecidableEq, Repr

structure WriteSite where
  func : String
  how : WriteHow
  inInit : Bool       -- inside `func init()`
  underLock : Bool    -- lexically after a `.Lock()` call in the same function
  deriving Repr

/-- how a function hands a package-level variable (or a function literal) to its caller -/
inductive EscapeHow where
  | returned   -- `return x`, `return &x`, x inside a returned composite literal / slice expression / append / local alias
  | stored     -- stored into a field or element of another object (which the caller may hold)
  | passed     -- given as an argument to another function (which may keep or change it)
  deriving DecidableEq, Repr

structure Escape where
  func : String
  how : EscapeHow
  deriving Repr

structure GlobalVar where
  pkg : String
  name : String
  kind : VarKind
  writes : List WriteSite
  /-- the type, as far as the syntax tells (documentation only) -/
  typ : String := ""
  /-- a holder of (an alias of) the value can change state other holders see: slice, map, (pointer to) a named type with
      pointer-receiver methods that write the receiver, or a struct with such a field -/
  mutable : Bool := false
  /-- the functions that return the variable / embed it in what they return / store it into another object -/
  escapes : List Escape := []
  deriving Repr

/-- where a variable written by an escaping function literal was declared in the enclosing function -/
inductive DeclKind where
  | loc | param | recv   -- loc: a local variable of the enclosing function
  deriving DecidableEq, Repr

structure CapturedWrite where
  name : String
  how : WriteHow
  decl : DeclKind
  underLock : Bool    -- lexically after a `.Lock()` call inside the function literal
  deriving Repr

/-- a function literal that outlives the call of the enclosing function (constructor closures: `NewBoolFuncSymbol` …) and the
    variables of the enclosing function it captures and writes: they are allocated once per constructor call and shared by
    every invocation of the closure, from whatever goroutine -/
structure Closure where
  pkg : String
  func : String
  escape : EscapeHow
  writes : List CapturedWrite
  deriving Repr

/-- allowed: a sync.Pool, an atomic, a mutex, a once-guarded struct; or a plain variable that is never written after
    package initialisation, or only under a mutex -/
def GlobalVar.ok (g : GlobalVar) : Bool :=
  g.kind != .plain || g.writes.all (fun w => w.inInit || w.underLock)

def noUnsyncWrites (gs : List GlobalVar) : Bool := gs.all GlobalVar.ok

def offenders (gs : List GlobalVar) : List String :=
  (gs.filter (fun g => !g.ok)).map (fun g => g.pkg ++ "." ++ g.name)

/-- a plain variable whose value is mutable and which some function hands out is ONE object shared by all callers of that
    function (two `ast.Parse("")` calls returning the same query node): not allowed -/
def GlobalVar.noSharedEscape (g : GlobalVar) : Bool :=
  g.kind != .plain || !g.mutable || g.escapes.isEmpty

/-- an escaping function literal may write captured state of its constructor only under a lock -/
def Closure.ok (c : Closure) : Bool := c.writes.all (·.underLock)

def noSharedMutableEscape (gs : List GlobalVar) (cs : List Closure) : Bool :=
  gs.all GlobalVar.noSharedEscape && cs.all Closure.ok

def escapeOffenders (gs : List GlobalVar) (cs : List Closure) : List String :=
  (gs.filter (fun g => !g.noSharedEscape)).map (fun g => g.pkg ++ "." ++ g.name) ++
  (cs.filter (fun c => !c.ok)).map (fun c => c.pkg ++ "." ++ c.func ++ " (closure)")

def hasClosure (cs : List Closure) (pkg func : String) : Bool :=
  cs.any (fun c => c.pkg == pkg && c.func == func)

def hasEscape (gs : List GlobalVar) (pkg name func : String) (m : Bool) : Bool :=
  gs.any (fun g => g.pkg == pkg && g.name == name && g.mutable == m && g.escapes.any (·.func == func))

def hasVar (gs : List GlobalVar) (pkg name : String) (k : VarKind) : Bool :=
  gs.any (fun g => g.pkg == pkg && g.name == name && g.kind == k)

end StorageModel.C18
