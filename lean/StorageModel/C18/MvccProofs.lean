/-
  C18 — invariant of the MVCC model (helper lemmas; property theorems are in Properties/C18.lean).
-/
import StorageModel.C18.Mvcc
namespace StorageModel.C18

section
variable {V Op Q A : Type} (apply : V → Op → V) (eval : Q → V → A)

theorem versionAt_append_le (v0 : V) (txs : List (List Op)) (t : List Op) (k : Nat) (h : k ≤ txs.length) :
    versionAt apply v0 (txs ++ [t]) k = versionAt apply v0 txs k := by
  simp [versionAt, List.take_append_of_le_length h]

theorem versionAt_append_full (v0 : V) (txs : List (List Op)) (t : List Op) :
    versionAt apply v0 (txs ++ [t]) (txs.length + 1) = applyTx apply (versionAt apply v0 txs txs.length) t := by
  have h1 : (txs ++ [t]).take (txs.length + 1) = txs ++ [t] := by
    apply List.take_of_length_le; simp
  simp [versionAt, h1, List.foldl_append]

theorem applyTx_snoc (v : V) (ops : List Op) (o : Op) :
    applyTx apply v (ops ++ [o]) = apply (applyTx apply v ops) o := by
  simp [applyTx, List.foldl_append]

theorem findPin_some {r : Nat} {pins : List (Pin V)} {p : Pin V} (h : findPin r pins = some p) :
    p ∈ pins ∧ p.reader = r := by
  induction pins with
  | nil => simp [findPin] at h
  | cons a t ih =>
    simp only [findPin] at h
    split at h
    · next hr => cases h; exact ⟨by simp, hr⟩
    · obtain ⟨h1, h2⟩ := ih h; exact ⟨by simp [h1], h2⟩

structure Inv (s : St V Op Q A) : Prop where
  cur : s.cur = versionAt apply s.v0 s.txs s.txs.length
  wc : ∀ w ops, s.wcopy = some (w, ops) → w = applyTx apply s.cur ops
  pins : ∀ p ∈ s.pins, p.tag ≤ s.txs.length ∧ p.v = versionAt apply s.v0 s.txs p.tag ∧ p.rtx < s.nextRtx
  pinPin : ∀ p ∈ s.pins, ∀ p' ∈ s.pins, p.rtx = p'.rtx → p.tag = p'.tag
  log : ∀ o ∈ s.log, o.tag ≤ s.txs.length ∧ o.a = eval o.q (versionAt apply s.v0 s.txs o.tag) ∧ o.rtx < s.nextRtx
  logPin : ∀ o ∈ s.log, ∀ p ∈ s.pins, o.rtx = p.rtx → o.tag = p.tag
  logLog : ∀ o ∈ s.log, ∀ o' ∈ s.log, o.rtx = o'.rtx → o.tag = o'.tag

theorem Inv_init (v0 : V) : Inv apply eval (St.init v0 : St V Op Q A) := by
  refine ⟨by simp [St.init, versionAt], ?_, ?_, ?_, ?_, ?_, ?_⟩ <;> simp [St.init]

theorem step_v0 (s : St V Op Q A) (e : Ev Op Q) : (step apply eval s e).v0 = s.v0 := by
  cases e <;> simp only [step] <;> (try split) <;> rfl

theorem Inv_step (s : St V Op Q A) (e : Ev Op Q) (hi : Inv apply eval s) : Inv apply eval (step apply eval s e) := by
  obtain ⟨hcur, hwc, hpins, hpp, hlog, hlp, hll⟩ := hi
  cases e with
  | wbegin =>
    simp only [step]
    split
    · refine ⟨hcur, ?_, hpins, hpp, hlog, hlp, hll⟩
      intro w ops h
      simp only [Option.some.injEq, Prod.mk.injEq] at h
      obtain ⟨rfl, rfl⟩ := h
      simp [applyTx]
    · exact ⟨hcur, hwc, hpins, hpp, hlog, hlp, hll⟩
  | wop o =>
    simp only [step]
    split
    · next w ops hw =>
      refine ⟨hcur, ?_, hpins, hpp, hlog, hlp, hll⟩
      intro w' ops' h
      simp only [Option.some.injEq, Prod.mk.injEq] at h
      obtain ⟨rfl, rfl⟩ := h
      rw [applyTx_snoc, ← hwc w ops hw]
    · exact ⟨hcur, hwc, hpins, hpp, hlog, hlp, hll⟩
  | wcommit =>
    simp only [step]
    split
    · next w ops hw =>
      have hw' := hwc w ops hw
      refine ⟨?_, by simp, ?_, hpp, ?_, hlp, hll⟩
      · simp only [List.length_append, List.length_singleton]
        rw [versionAt_append_full, ← hcur, hw']
      · intro p hp
        obtain ⟨h1, h2, h3⟩ := hpins p hp
        refine ⟨by simp; omega, ?_, h3⟩
        rw [versionAt_append_le apply _ _ _ _ h1]; exact h2
      · intro o ho
        obtain ⟨h1, h2, h3⟩ := hlog o ho
        refine ⟨by simp; omega, ?_, h3⟩
        rw [versionAt_append_le apply _ _ _ _ h1]; exact h2
    · exact ⟨hcur, hwc, hpins, hpp, hlog, hlp, hll⟩
  | wabort =>
    simp only [step]
    exact ⟨hcur, by simp, hpins, hpp, hlog, hlp, hll⟩
  | rbegin r =>
    simp only [step]
    refine ⟨hcur, hwc, ?_, ?_, ?_, ?_, hll⟩
    · intro p hp
      rcases List.mem_cons.mp hp with rfl | hp
      · exact ⟨Nat.le_refl _, hcur, Nat.lt_succ_self _⟩
      · obtain ⟨h1, h2, h3⟩ := hpins p (List.mem_filter.mp hp).1
        exact ⟨h1, h2, Nat.lt_succ_of_lt h3⟩
    · intro p hp p' hp' he
      rcases List.mem_cons.mp hp with rfl | hp <;> rcases List.mem_cons.mp hp' with rfl | hp'
      · rfl
      · have := (hpins p' (List.mem_filter.mp hp').1).2.2
        simp only at he; omega
      · have := (hpins p (List.mem_filter.mp hp).1).2.2
        simp only at he; omega
      · exact hpp p (List.mem_filter.mp hp).1 p' (List.mem_filter.mp hp').1 he
    · intro o ho
      obtain ⟨h1, h2, h3⟩ := hlog o ho
      exact ⟨h1, h2, Nat.lt_succ_of_lt h3⟩
    · intro o ho p hp he
      rcases List.mem_cons.mp hp with rfl | hp
      · have := (hlog o ho).2.2
        simp only at he; omega
      · exact hlp o ho p (List.mem_filter.mp hp).1 he
  | rread r q =>
    simp only [step]
    split
    · next p hf =>
      obtain ⟨hpm, _⟩ := findPin_some hf
      obtain ⟨h1, h2, h3⟩ := hpins p hpm
      refine ⟨hcur, hwc, hpins, hpp, ?_, ?_, ?_⟩
      · intro o ho
        rcases List.mem_cons.mp ho with rfl | ho
        · exact ⟨h1, by simp [h2], h3⟩
        · exact hlog o ho
      · intro o ho p' hp' he
        rcases List.mem_cons.mp ho with rfl | ho
        · exact hpp p hpm p' hp' he
        · exact hlp o ho p' hp' he
      · intro o ho o' ho' he
        rcases List.mem_cons.mp ho with rfl | ho <;> rcases List.mem_cons.mp ho' with rfl | ho'
        · rfl
        · exact (hlp o' ho' p hpm he.symm).symm
        · exact hlp o ho p hpm he
        · exact hll o ho o' ho' he
    · exact ⟨hcur, hwc, hpins, hpp, hlog, hlp, hll⟩
  | rend r =>
    simp only [step]
    refine ⟨hcur, hwc, ?_, ?_, hlog, ?_, hll⟩
    · intro p hp; exact hpins p (List.mem_filter.mp hp).1
    · intro p hp p' hp' he; exact hpp p (List.mem_filter.mp hp).1 p' (List.mem_filter.mp hp').1 he
    · intro o ho p hp he; exact hlp o ho p (List.mem_filter.mp hp).1 he

theorem Inv_run (s : St V Op Q A) (es : List (Ev Op Q)) (hi : Inv apply eval s) : Inv apply eval (run apply eval s es) := by
  induction es generalizing s with
  | nil => exact hi
  | cons e es ih => exact ih _ (Inv_step apply eval s e hi)

theorem run_v0 (s : St V Op Q A) (es : List (Ev Op Q)) : (run apply eval s es).v0 = s.v0 := by
  induction es generalizing s with
  | nil => rfl
  | cons e es ih => simp only [run]; rw [ih, step_v0]

end
end StorageModel.C18
