/-
  C18 — the concrete database value, write operations, queries and answers the harness uses
  (store "things": name with unique index, rank int64, roles with set index, link collection
  things.groups <-> groups.members; store "groups": three fixed entities g0..g2 with label L0..L2).
  Everything is coded by small naturals (thing a<i> ↦ i, name n<k> ↦ k, role r<k> ↦ k, group g<k> ↦ k).

  Index and link answers are *defined* from the entity table: a version in this model is
  consistent by construction, so agreement of the implementation's index/link reads with the
  model on the tagged version is the "entities, indexes and links of one version are mutually
  consistent" clause of the property.
-/
import StorageModel.C18.Mvcc
import StorageModel.C18.SortFields
namespace StorageModel.C18

structure Ent where
  id : Nat
  name : Nat
  rank : Nat
  roles : List Nat     -- sorted, duplicate free
  groups : List Nat    -- sorted, duplicate free
  deriving DecidableEq, Repr

abbrev Ver := List Ent   -- ascending id

def findEnt (id : Nat) : Ver → Option Ent
  | [] => none
  | e :: r => if e.id = id then some e else findEnt id r

def upsert (n : Ent) : Ver → Ver
  | [] => [n]
  | e :: r => if n.id < e.id then n :: e :: r else if n.id = e.id then n :: r else e :: upsert n r

def remove (id : Nat) : Ver → Ver
  | [] => []
  | e :: r => if e.id = id then r else e :: remove id r

def insertSorted (x : Nat) : List Nat → List Nat
  | [] => [x]
  | y :: r => if x < y then x :: y :: r else if x = y then y :: r else y :: insertSorted x r

def sortDedup (l : List Nat) : List Nat := l.foldl (fun acc x => insertSorted x acc) []

inductive WOp where
  | put (id name rank : Nat) (roles : List Nat)   -- Create, or Update of all fields, links untouched
  | del (id : Nat)                                -- DeleteById when present
  | link (id : Nat) (gs : List Nat)               -- SetLinks when present
  deriving DecidableEq, Repr

def applyOp (v : Ver) : WOp → Ver
  | .put id name rank roles =>
    let groups := match findEnt id v with | some e => e.groups | none => []
    upsert { id := id, name := name, rank := rank, roles := sortDedup roles, groups := groups } v
  | .del id => remove id v
  | .link id gs =>
    match findEnt id v with
    | some e => upsert { e with groups := sortDedup gs } v
    | none => v

inductive Qry where
  | qName (n : Nat)        -- QueryIds  name = "n<n>"
  | qRankGe (n : Nat)      -- QueryIds  rank >= n
  | qRole (r : Nat)        -- QueryIds  anyOf(roles) = "r<r>"
  | qGroup (g : Nat)       -- QueryIds  anyOf(groups) = "g<g>"
  | qGroupLabel (g : Nat)  -- QueryIds  anyOf(groups.label) = "L<g>"   (composite symbol)
  | qTop (k : Nat)         -- QueryIds  true sort by rank desc limit k  (sorting scanner)
  | iName (n : Nat)        -- unique index Read
  | iRole (r : Nat)        -- set index Read
  | lGroups (id : Nat)     -- link collection, things side
  | lMembers (g : Nat)     -- link collection, groups side
  | load (id : Nat)        -- LoadById
  -- round 2: the empty filter, per-reader paging set on the parsed query object, externally computed symbols
  | qAll                          -- QueryIds  ""                                   (ast.Parse builds a fresh query node per call)
  | qPage (skip limit : Nat)      -- q := ast.Parse(store, ""); q.SetSkip(skip) if skip > 0; q.SetLimit(limit) if limit > 0; QueryIdsC(tx, q)
  | qRankPage (n skip limit : Nat)  -- the same on  rank >= n  (the filter text query K<n> uses)
  | qEven (b : Nat)               -- QueryIds  even = true / false      (NewBoolFuncSymbol: id ↦ id even; b = 1 for true)
  | qEvenRank (b n : Nat)         -- QueryIds  even = … and rank >= n
  | qExt (n : Nat)                -- QueryIds  ext = "x<n>"             (NewStringFuncSymbol: id ↦ nil if id % 4 = 3, else "x<id % 3>")
  | vEven (a b : Nat)             -- even.Eval(tx, a<a>) held, even.Eval(tx', a<b>) in a second read transaction, then both decoded
  | vExt (a b : Nat)              -- the same for ext; 9 codes nil
  -- round 3: nested elements of two map symbols (tags: bucket prefix ext/meta, attrs: prefix ext/meta/deep)
  | qMap (k v : Nat)              -- QueryIds  <mapKeyName k> = "s<v>"
  | iMap (ka kb id : Nat)         -- A := GetSymbol(<name ka>); B := GetSymbol(<name kb>); A.Eval(tx, a<id>), B.Eval(tx, a<id>) decoded; 9 = nil
  -- round 4: one compiled query object (explicit skip and limit) run by several read transactions at once
  | qShared (j : Nat)             -- QueryIdsC(tx, q_j), q_j = ast.Parse(things, c18SharedTexts[j]) parsed once and shared
  -- round 5: set-index lookups with a values slice that several read transactions share (first answer element: 1 = the
  -- caller's slice is unchanged after the call)
  | fAll (j : Nat)                -- FindMatching(tx, rolesIndex, sharedValues[j])  and  IteratorMatchingAllOf(…)(tx, true) collected
  | fAny (j : Nat)                -- FindMatchingAnyOf (sorted by the harness: map order)  and  IteratorMatchingAnyOf(…)(tx, true)
  -- round 6: a filter in a spelling (keyword case, white space inside keyword operators) no earlier parse used
  | qSpelled (t : Nat)            -- QueryIds  <fresh spelling of template t>: the answer of the canonical text
  -- round 9: the sort fields of one parsed query (k sort fields) taken by two callers which each append their own element
  | sortFieldsTwice (k : Nat)     -- q := Parse(sorted text with k fields); a := append(q.GetSortFields(), X); b := append(q.GetSortFields(), Y)
  -- round 14: cursor-style readers.  A seekable id cursor (Store.IterateIds / IterateValidIds with filter number (k, a), see
  -- `cursorPred`) is walked to its end; later — other read transactions and the writer may have run in between — the SAME
  -- cursor is repositioned with Seek("a<x>") and walked to its end again
  | cWalk (k a : Nat)             -- c := IterateIds(tx, Parse(filter k a)); for c.IsValid() { collect c.Current(); c.Next() }
  | cSeek (k a x : Nat)           -- … the same cursor after its walk: c.Seek("a<x>"); walked to its end again
  deriving DecidableEq, Repr

/-- the shared values slices of the harness (role numbers; deliberately not ascending, with a duplicate, empty, single) -/
def sharedVals (j : Nat) : List Nat :=
  match j with
  | 0 => [2, 0]
  | 1 => [1, 0]
  | 2 => [2, 1, 0]
  | 3 => [3, 0, 1]
  | 4 => [4, 2, 0, 1]
  | 5 => [1]
  | 6 => [2, 0, 2]
  | _ => []

/-- the value the harness stores under nested map key number `k` for an entity of rank `r` (as "s<value>"):
    0 tags.site.name, 1 tags.site.zone, 2 tags.owner.name, 3 tags.a.b.c, 4 attrs.a.b.c, 5 attrs.a.x.c, 6 attrs.site.name,
    7 attrs.owner.name -/
def mapVal (k r : Nat) : Nat :=
  match k with
  | 0 => r % 3
  | 1 => (r + 1) % 3
  | 2 => (r + 2) % 3
  | 3 => r % 2
  | 4 => (r + 1) % 2
  | 5 => (2 * r) % 3
  | 6 => (r + 1) % 3
  | 7 => r % 3
  | _ => 9

/-- "n<name>" starts with "n1" -/
def nameStartsN1 (name : Nat) : Bool := (Nat.toDigits 10 name).head? == some '1'

/-- the predicates of the shared query texts (harness/c18_shared.go c18SharedTexts), text 12 is the sorted one -/
def sharedPred (j : Nat) (e : Ent) : Bool :=
  match j with
  | 0 => [100, 121, 150, 162].contains e.name                        -- name in ["n100", "n121", "n150", "n162", "zz"]
  | 1 => [1, 3, 5].contains e.rank                                   -- rank in [1, 3, 5]
  | 2 => [0, 2].contains e.rank                                      -- rank in [0.0, 2.0, 4.5]
  | 3 => 1 ≤ e.rank && e.rank < 3                                    -- rank between 1 and 3   (upper bound exclusive)
  | 4 => nameStartsN1 e.name                                         -- name icontains "N1"
  | 5 => e.roles.contains 1                                          -- anyOf(roles) = "r1"
  | 6 => e.roles.isEmpty                                             -- isEmpty(roles)
  | 7 => e.groups.contains 1                                         -- anyOf(groups.label) = "L1"
  | 8 => e.groups.contains 1                                         -- count(from groups where label = "L1" skip 0 limit 10) > 0
  | 9 => e.id % 2 == 0 && (mapVal 0 e.rank == 0 || mapVal 0 e.rank == 1)   -- even = true and tags.site.name in ["s0", "s1"]
  | 10 => e.roles.contains 0 || e.roles.contains 2                   -- anyOf(roles) in ["r0", "r2"]
  | 11 => !([100, 110, 120].contains e.name && 2 ≤ e.rank)           -- not (name in [..]) and rank >= 2 : `not` takes the whole conjunction
  | 13 => !([100, 131].contains e.name) && nameStartsN1 e.name       -- name not in ["n100", "n131"] and name contains "n1"
  | _ => true

/-- the predicates of the spelling templates (harness/c18_spell.go c18SpellTemplates); template 7 is the sorted one -/
def spelledPred (t : Nat) (e : Ent) : Bool :=
  match t with
  | 0 => !nameStartsN1 e.name                          -- name not contains "n1"
  | 1 => !([1, 3].contains e.rank)                     -- rank not in [1, 3]
  | 2 => !(1 ≤ e.rank && e.rank < 3)                   -- rank not between 1 and 3
  | 3 => nameStartsN1 e.name                           -- name icontains "N1"
  | 4 => [0, 2].contains e.rank                        -- rank in [0, 2]
  | 5 => nameStartsN1 e.name && 2 ≤ e.rank && e.rank < 5   -- name contains "n1" and rank between 2 and 5
  | 6 => e.roles.contains 1 || 4 ≤ e.rank              -- anyOf(roles) = "r1" or rank >= 4
  | 8 => e.roles.isEmpty                               -- isEmpty(roles) or name = null
  | 9 => 1 < e.roles.length                            -- count(roles) > 1 skip 0 limit 100
  | _ => true

/-- the filters of the cursor observations (harness/c18_cursor.go c18CursorFilter): kind k with argument a -/
def cursorPred (k a : Nat) (e : Ent) : Bool :=
  match k with
  | 0 => a ≤ e.rank                       -- rank >= a
  | 1 => e.roles.contains a               -- anyOf(roles) = "r<a>"
  | 2 => e.groups.contains a              -- anyOf(groups) = "g<a>"
  | 3 => e.groups.contains a              -- anyOf(groups.label) = "L<a>"          (composite set symbol)
  | 4 => (e.id % 2 == 0) == (a == 1)      -- even = true / false                    (externally computed symbol)
  | 5 => e.name == a                      -- name = "n<a>"
  | 6 => mapVal 0 e.rank == a             -- tags.site.name = "s<a>"                (nested element of a map symbol)
  | 7 => a ≤ e.rank                       -- rank >= a through IterateValidIds
  | _ => e.groups.contains a              -- count(from groups where label = "L<a>" skip 0 limit 10) > 0   (sub-query cursor per row)

/-- the externally computed symbols of the harness' store: pure functions of the row id -/
def extEven (id : Nat) : Bool := id % 2 == 0
def extStr (id : Nat) : Option Nat := if id % 4 == 3 then none else some (id % 3)
def extStrCode (id : Nat) : Nat := match extStr id with | some k => k | none => 9

/-- skip / limit as the scanners apply them to an unsorted scan (ids ascending); `limit = 0` codes "no SetLimit call" -/
def page (skip limit : Nat) (ids : List Nat) : List Nat :=
  let d := ids.drop skip
  if limit == 0 then d else d.take limit

/-- insertion into a list ordered by (rank descending, id ascending) -/
def insertTop (e : Ent) : List Ent → List Ent
  | [] => [e]
  | x :: r => if e.rank > x.rank || (e.rank == x.rank && e.id < x.id) then e :: x :: r else x :: insertTop e r

/-- round 9: the shared texts 14..21 are sorted on 1..8 fields (field codes: 0 rank int64, 1 even bool, 2 ext string or nil,
    3 name string; flag = ascending); a symbol comparator orders nil first, false before true, strings bytewise, and the
    scanner adds `id` ascending as the last sort field (newRowComparator) -/
def cmpField (f : Nat) (a b : Ent) : Ordering :=
  match f with
  | 0 => compare a.rank b.rank
  | 1 => compare (if extEven a.id then 1 else 0) (if extEven b.id then 1 else 0)
  | 2 => compare (match extStr a.id with | none => 0 | some k => k + 1) (match extStr b.id with | none => 0 | some k => k + 1)
  | _ =>
    let da := (Nat.toDigits 10 a.name).map Char.toNat
    let db := (Nat.toDigits 10 b.name).map Char.toNat
    if da < db then .lt else if da = db then .eq else .gt

def cmpRows (keys : List (Nat × Bool)) (a b : Ent) : Ordering :=
  match keys with
  | [] => compare a.id b.id
  | (f, asc) :: r =>
    match cmpField f a b with
    | .eq => cmpRows r a b
    | o => if asc then o else o.swap

def insertBy (keys : List (Nat × Bool)) (e : Ent) : List Ent → List Ent
  | [] => [e]
  | x :: r => if cmpRows keys e x == .lt then e :: x :: r else x :: insertBy keys e r

/-- (sort keys, lower bound on rank, skip, limit) of shared text j (harness/c18_shared.go c18SharedTexts 14..21) -/
def sharedSort (j : Nat) : List (Nat × Bool) × Nat × Nat × Nat :=
  match j with
  | 14 => ([(0, true)], 0, 0, 1000)
  | 15 => ([(1, false), (0, true)], 0, 0, 1000)
  | 16 => ([(1, true), (0, false), (3, false)], 1, 1, 20)
  | 17 => ([(0, true), (1, true), (2, false), (3, true)], 0, 0, 1000)
  | 18 => ([(1, true), (0, false), (1, false), (2, true), (3, false)], 0, 2, 30)
  | 19 => ([(0, true), (0, false), (1, true), (2, false), (2, true), (3, true)], 2, 0, 1000)
  | 20 => ([(2, true), (1, false), (0, true), (0, true), (1, true), (2, false), (3, false)], 0, 0, 7)
  | _ => ([(1, true), (2, true), (0, false), (1, false), (2, false), (0, true), (3, true), (3, false)], 0, 3, 1000)

def evalSharedSort (j : Nat) (v : Ver) : List Nat :=
  let (keys, lo, sk, lim) := sharedSort j
  ((((v.filter (lo ≤ ·.rank)).foldl (fun acc e => insertBy keys e acc) []).drop sk).take lim).map (·.id)

def evalQ (q : Qry) (v : Ver) : List Nat :=
  match q with
  | .qName n => (v.filter (·.name == n)).map (·.id)
  | .qRankGe n => (v.filter (n ≤ ·.rank)).map (·.id)
  | .qRole r => (v.filter (·.roles.contains r)).map (·.id)
  | .qGroup g => (v.filter (·.groups.contains g)).map (·.id)
  | .qGroupLabel g => (v.filter (·.groups.contains g)).map (·.id)
  | .qTop k => ((v.foldl (fun acc e => insertTop e acc) []).take k).map (·.id)
  | .iName n => (v.filter (·.name == n)).map (·.id)
  | .iRole r => (v.filter (·.roles.contains r)).map (·.id)
  | .lGroups id => match findEnt id v with | some e => e.groups | none => []
  | .lMembers g => (v.filter (·.groups.contains g)).map (·.id)
  | .load id => match findEnt id v with | some e => 1 :: e.name :: e.rank :: e.roles | none => [0]
  | .qAll => v.map (·.id)
  | .qPage sk l => page sk l (v.map (·.id))
  | .qRankPage n sk l => page sk l ((v.filter (n ≤ ·.rank)).map (·.id))
  | .qEven b => (v.filter (fun e => extEven e.id == (b == 1))).map (·.id)
  | .qEvenRank b n => (v.filter (fun e => extEven e.id == (b == 1) && n ≤ e.rank)).map (·.id)
  | .qExt n => (v.filter (fun e => extStr e.id == some n)).map (·.id)
  | .vEven a b => [if extEven a then 1 else 0, if extEven b then 1 else 0]
  | .vExt a b => [extStrCode a, extStrCode b]
  | .qShared j =>
    if j == 12 then (((v.foldl (fun acc e => insertTop e acc) []).drop 1).take 3).map (·.id)   -- true sort by rank desc skip 1 limit 3
    else if 14 ≤ j then evalSharedSort j v
    else (v.filter (sharedPred j)).map (·.id)
  | .sortFieldsTwice k => SortFields.twoCallers k
  | .cWalk k a => (v.filter (cursorPred k a)).map (·.id)
  | .cSeek k a x => ((v.filter (cursorPred k a)).map (·.id)).filter (x ≤ ·)
  | .qSpelled t =>
    if t == 7 then (v.foldl (fun acc e => insertTop e acc) []).map (·.id)      -- true sort by rank desc limit none
    else (v.filter (spelledPred t)).map (·.id)
  | .fAll j =>
    1 :: (if (sharedVals j).isEmpty then [] else (v.filter (fun e => (sharedVals j).all (e.roles.contains ·))).map (·.id))
  | .fAny j => 1 :: (v.filter (fun e => (sharedVals j).any (e.roles.contains ·))).map (·.id)
  | .qMap k val => (v.filter (fun e => mapVal k e.rank == val)).map (·.id)
  | .iMap ka kb id => match findEnt id v with | some e => [mapVal ka e.rank, mapVal kb e.rank] | none => [9, 9]

/-- the committed transactions of a case (aborted ones contribute nothing) -/
def committedTxs (txs : List (Bool × List WOp)) : List (List WOp) :=
  (txs.filter (·.1)).map (·.2)

/-- the version a reader must have seen when its version tag is `k` -/
def versionOf (txs : List (Bool × List WOp)) (k : Nat) : Ver :=
  versionAt applyOp [] (committedTxs txs) k

/-- one read transaction of a reader log: the tag read at the start and at the end of the
    transaction, and the (query, answer) pairs in between -/
structure ReadTx where
  tagStart : Nat
  tagEnd : Nat
  reads : List (Qry × List Nat)

/-- the check applied to the implementation's reader logs -/
def readTxOk (txs : List (Bool × List WOp)) (t : ReadTx) : Bool :=
  t.tagStart == t.tagEnd && t.tagStart ≤ (committedTxs txs).length &&
    t.reads.all fun qa => evalQ qa.1 (versionOf txs t.tagStart) == qa.2

end StorageModel.C18
