/-
  C18 — MVCC model of read transactions against a single writer (boltz/db.go View / Update over
  bbolt): committed versions, a read transaction pins the newest at begin, every read is a function
  of the pinned version; the writer works on a private copy and publishes it at commit.

  Generic in the database value `V`, the write operations `Op`, the queries `Q` and answers `A`
  (`apply`, `eval`); StorageModel/C18/Store.lean instantiates them with the harness' universe.
-/
namespace StorageModel.C18

section
variable {V Op Q A : Type}

inductive Ev (Op Q : Type) where
  | wbegin                       -- writer: Db.Update begins
  | wop (o : Op)                 -- writer: one operation inside the transaction
  | wcommit                      -- writer: body returned nil, bolt commits
  | wabort                       -- writer: body returned an error, bolt rolls back
  | rbegin (r : Nat)             -- reader goroutine r: Db.View begins
  | rread (r : Nat) (q : Q)      -- reader r: a query / index read / link read / load
  | rend (r : Nat)               -- reader r: View returns

/-- one observation: which reader, which of its read transactions, the query, the answer, and the
    version tag (number of committed write transactions) visible in that read transaction -/
structure Obs (Q A : Type) where
  reader : Nat
  rtx : Nat
  q : Q
  a : A
  tag : Nat

structure Pin (V : Type) where
  reader : Nat
  rtx : Nat
  tag : Nat
  v : V

structure St (V Op Q A : Type) where
  v0 : V                          -- the initial committed state
  cur : V                         -- newest committed version
  txs : List (List Op)            -- committed write transactions, in commit order
  wcopy : Option (V × List Op)    -- open write transaction: private copy, operations so far
  pins : List (Pin V)             -- open read transactions
  nextRtx : Nat                   -- serial number of the next read transaction
  log : List (Obs Q A)

def applyTx (apply : V → Op → V) (v : V) (ops : List Op) : V := ops.foldl apply v

/-- the state a serial execution of the first `k` committed transactions produces -/
def versionAt (apply : V → Op → V) (v0 : V) (txs : List (List Op)) (k : Nat) : V :=
  (txs.take k).foldl (applyTx apply) v0

def findPin (r : Nat) : List (Pin V) → Option (Pin V)
  | [] => none
  | p :: ps => if p.reader = r then some p else findPin r ps

def St.init (v0 : V) : St V Op Q A :=
  { v0 := v0, cur := v0, txs := [], wcopy := none, pins := [], nextRtx := 0, log := [] }

def step (apply : V → Op → V) (eval : Q → V → A) (s : St V Op Q A) : Ev Op Q → St V Op Q A
  | .wbegin => match s.wcopy with
    | none => { s with wcopy := some (s.cur, []) }
    | some _ => s                                  -- bolt: one writer at a time
  | .wop o => match s.wcopy with
    | some (w, ops) => { s with wcopy := some (apply w o, ops ++ [o]) }
    | none => s
  | .wcommit => match s.wcopy with
    | some (w, ops) => { s with cur := w, txs := s.txs ++ [ops], wcopy := none }
    | none => s
  | .wabort => { s with wcopy := none }
  | .rbegin r =>
    { s with pins := { reader := r, rtx := s.nextRtx, tag := s.txs.length, v := s.cur } :: s.pins.filter (·.reader ≠ r),
             nextRtx := s.nextRtx + 1 }
  | .rread r q => match findPin r s.pins with
    | some p => { s with log := { reader := r, rtx := p.rtx, q := q, a := eval q p.v, tag := p.tag } :: s.log }
    | none => s
  | .rend r => { s with pins := s.pins.filter (·.reader ≠ r) }

def run (apply : V → Op → V) (eval : Q → V → A) (s : St V Op Q A) : List (Ev Op Q) → St V Op Q A
  | [] => s
  | e :: es => run apply eval (step apply eval s e) es

end
end StorageModel.C18
