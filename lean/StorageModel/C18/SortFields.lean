/-
  C18 round 9 — the sort fields of ONE parsed query taken by several scans.

  Every sorted scan does `sort := query.GetSortFields(); sort = append(sort, NewSortFieldNode("id", true))`
  (boltz/store_query.go newRowComparator, objectz/object_store.go).  Whether the element one scan appends can be
  seen / overwritten by another scan of the same parsed query depends on what `GetSortFields` hands out and on Go's
  `append` (writes in place when len < cap).  This file models exactly that: a heap of backing arrays, slices as
  (array, len, cap), Go's append with the 1, 2, 4, 8 growth, and `getSortFields` as the code has it

      var result []SortField
      for _, sortField := range node.SortFields { result = append(result, sortField) }
      return result

  i.e. a slice built by appends from nil on every call.  The theorems (Properties/C18.lean) say that any number of
  callers, each appending its own element to what it got, keep seeing their own element — for every number of sort
  fields, including those where the slice handed out has spare capacity (3, 5, 6, 7).
-/
namespace StorageModel.C18.SortFields

/-- a Go slice header; `arr` indexes the heap of backing arrays; the nil slice is `⟨0, 0, 0⟩` (cap 0: never dereferenced) -/
structure Slice where
  arr : Nat
  len : Nat
  cap : Nat
  deriving DecidableEq, Repr

abbrev Heap := List (List Nat)

def nilSlice : Slice := ⟨0, 0, 0⟩

/-- what a holder of slice `s` sees -/
def view (h : Heap) (s : Slice) : List Nat := ((h.getD s.arr []).take s.len)

/-- Go's `append(s, x)` for one element: in place when there is spare capacity, else a new array (capacity 1 from
    nothing, doubled otherwise) holding a copy -/
def goAppend (h : Heap) (s : Slice) (x : Nat) : Heap × Slice :=
  if s.len < s.cap then
    (h.set s.arr ((h.getD s.arr []).set s.len x), { s with len := s.len + 1 })
  else
    let ncap := if s.cap = 0 then 1 else 2 * s.cap
    (h ++ [view h s ++ x :: List.replicate (ncap - s.len - 1) 0], ⟨h.length, s.len + 1, ncap⟩)

/-- `SortByNode.getSortFields` as the code has it: a new slice per call, grown by append -/
def getFresh (h : Heap) (fields : List Nat) : Heap × Slice :=
  fields.foldl (fun st f => goAppend st.1 st.2 f) (h, nilSlice)

/-- one scan: take the sort fields of the parsed query, append the own terminal sort field -/
def scan (h : Heap) (fields : List Nat) (x : Nat) : Heap × Slice :=
  let r := getFresh h fields
  goAppend r.1 r.2 x

/-- a slice that lives in `h` -/
def Valid (h : Heap) (s : Slice) : Prop :=
  s.arr < h.length ∧ s.len ≤ s.cap ∧ (h.getD s.arr []).length = s.cap

/-- the other shape (the stored view is built once, while parsing, and handed to every caller) — for the witness only -/
def scanStored (h : Heap) (stored : Slice) (x : Nat) : Heap × Slice := goAppend h stored x

/-- N scans of one parsed query one after the other (each holds on to its slice); what each of them sees at the end -/
def scansSee (fields : List Nat) (xs : List Nat) : List (List Nat) :=
  let r := xs.foldl (fun (st : Heap × List Slice) x => let c := scan st.1 fields x; (c.1, st.2 ++ [c.2])) ([], [])
  r.2.map (view r.1)

/-- the observation of the harness (kind O<k>): two callers; [len mine, mine[k] is my element, len theirs, theirs[k] is
    their element] -/
def twoCallers (k : Nat) : List Nat :=
  match scansSee (List.range k) [100, 200] with
  | [a, b] => [a.length, if a.getLast? == some 100 then 1 else 0, b.length, if b.getLast? == some 200 then 1 else 0]
  | _ => []

end StorageModel.C18.SortFields
