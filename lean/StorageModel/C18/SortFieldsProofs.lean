import StorageModel.C18.SortFields
/- C18 round 9 — proofs about the slice model of SortFields.lean (headline statements are restated in Properties/C18.lean) -/
namespace StorageModel.C18.SortFields

theorem take_set_succ (a : List Nat) (n x : Nat) (h : n < a.length) : (a.set n x).take (n + 1) = a.take n ++ [x] := by
  induction a generalizing n with
  | nil => simp at h
  | cons y r ih =>
    cases n with
    | zero => simp
    | succ m => simp at h; simp [ih m h]

/-- the slice `s` is one this call built itself: nothing yet, or it lives in an array allocated after `h0` -/
def Own (h0 h : Heap) (s : Slice) (fs : List Nat) : Prop :=
  (∃ extra, h = h0 ++ extra) ∧ view h s = fs ∧ fs.length = s.len ∧
    ((s.cap = 0 ∧ s.len = 0) ∨ (h0.length ≤ s.arr ∧ Valid h s))

theorem goAppend_own (h0 h : Heap) (s : Slice) (fs : List Nat) (x : Nat) (o : Own h0 h s fs) :
    Own h0 (goAppend h s x).1 (goAppend h s x).2 (fs ++ [x]) ∧
      h0.length ≤ (goAppend h s x).2.arr ∧ Valid (goAppend h s x).1 (goAppend h s x).2 := by
  obtain ⟨⟨extra, he⟩, hv, hl, hc⟩ := o
  unfold goAppend
  by_cases hlt : s.len < s.cap
  · simp only [hlt, if_true]
    rcases hc with ⟨h1, _⟩ | ⟨ha, hva, hvl, hvc⟩
    · omega
    · have hget : (h.set s.arr ((h.getD s.arr []).set s.len x)).getD s.arr [] = (h.getD s.arr []).set s.len x := by
        simp [List.getD_eq_getElem?_getD, hva]
      have hlen : s.len < (h.getD s.arr []).length := by omega
      refine ⟨⟨⟨extra.set (s.arr - h0.length) ((h.getD s.arr []).set s.len x), ?_⟩, ?_, ?_, Or.inr ⟨ha, ?_, ?_, ?_⟩⟩, ha, ?_, ?_, ?_⟩
      · rw [he, List.set_append_right _ _ ha]
      · show ((h.set s.arr ((h.getD s.arr []).set s.len x)).getD s.arr []).take (s.len + 1) = fs ++ [x]
        rw [hget, take_set_succ _ _ _ hlen]; unfold view at hv; rw [hv]
      · simp [hl]
      · simpa using hva
      · show s.len + 1 ≤ s.cap; omega
      · show ((h.set s.arr ((h.getD s.arr []).set s.len x)).getD s.arr []).length = s.cap
        rw [hget]; simpa using hvc
      · simpa using hva
      · show s.len + 1 ≤ s.cap; omega
      · show ((h.set s.arr ((h.getD s.arr []).set s.len x)).getD s.arr []).length = s.cap
        rw [hget]; simpa using hvc
  · simp only [hlt, if_false]
    have hvl : (view h s).length = s.len := by rw [hv, hl]
    have hcap : s.len = s.cap := by
      rcases hc with ⟨h1, h2⟩ | ⟨_, _, h2, _⟩ <;> omega
    have hn : s.len + 1 ≤ (if s.cap = 0 then 1 else 2 * s.cap) := by split <;> omega
    have hgetn : ∀ (v : List Nat), (h ++ [v]).getD h.length [] = v := by
      intro v; simp [List.getD_eq_getElem?_getD]
    refine ⟨⟨⟨extra ++ [view h s ++ x :: List.replicate ((if s.cap = 0 then 1 else 2 * s.cap) - s.len - 1) 0], ?_⟩, ?_, ?_, Or.inr ⟨?_, ?_, ?_, ?_⟩⟩, ?_, ?_, ?_, ?_⟩
    · rw [he, List.append_assoc]
    · show ((h ++ [_]).getD h.length []).take (s.len + 1) = fs ++ [x]
      rw [hgetn, ← hv, ← hvl]; simp [List.take_append]
      exact List.take_of_length_le (by omega)
    · simp [hl]
    · show h0.length ≤ h.length; rw [he]; simp
    · show h.length < (h ++ [_]).length; simp
    · exact hn
    · show ((h ++ [_]).getD h.length []).length = _
      rw [hgetn]; simp [hvl]; omega
    · show h0.length ≤ h.length; rw [he]; simp
    · show h.length < (h ++ [_]).length; simp
    · exact hn
    · show ((h ++ [_]).getD h.length []).length = _
      rw [hgetn]; simp [hvl]; omega

theorem foldl_own (h0 : Heap) (fields : List Nat) : ∀ (st : Heap × Slice) (fs : List Nat), Own h0 st.1 st.2 fs →
    Own h0 (fields.foldl (fun st f => goAppend st.1 st.2 f) st).1 (fields.foldl (fun st f => goAppend st.1 st.2 f) st).2
      (fs ++ fields) := by
  induction fields with
  | nil => intro st fs o; simpa using o
  | cons f r ih =>
    intro st fs o
    have := ih (goAppend st.1 st.2 f) (fs ++ [f]) (goAppend_own h0 st.1 st.2 fs f o).1
    simpa using this

theorem getFresh_own (h0 : Heap) (fields : List Nat) :
    Own h0 (getFresh h0 fields).1 (getFresh h0 fields).2 fields := by
  have := foldl_own h0 fields (h0, nilSlice) [] ⟨⟨[], by simp⟩, by simp [view, nilSlice], by simp [nilSlice], Or.inl ⟨rfl, rfl⟩⟩
  simpa [getFresh] using this

/-- one scan: the heap only grows, the slice the scan holds is in a new array and shows the fields and its own element -/
theorem scan_spec (h0 : Heap) (fields : List Nat) (x : Nat) :
    (∃ extra, (scan h0 fields x).1 = h0 ++ extra) ∧ h0.length ≤ (scan h0 fields x).2.arr ∧
      (scan h0 fields x).2.arr < (scan h0 fields x).1.length ∧
      view (scan h0 fields x).1 (scan h0 fields x).2 = fields ++ [x] := by
  have := goAppend_own h0 _ _ fields x (getFresh_own h0 fields)
  exact ⟨this.1.1, this.2.1, this.2.2.1, this.1.2.1⟩

/-- what an earlier holder sees does not change when the heap grows -/
theorem view_frame (h0 extra : Heap) (t : Slice) (ht : t.arr < h0.length) : view (h0 ++ extra) t = view h0 t := by
  simp [view, List.getD_eq_getElem?_getD, List.getElem?_append_left ht]

theorem scans_fold (fields : List Nat) : ∀ (xs : List Nat) (h : Heap) (held : List Slice), (∀ t ∈ held, t.arr < h.length) →
    ((xs.foldl (fun (st : Heap × List Slice) x => let c := scan st.1 fields x; (c.1, st.2 ++ [c.2])) (h, held)).2.map
      (view (xs.foldl (fun (st : Heap × List Slice) x => let c := scan st.1 fields x; (c.1, st.2 ++ [c.2])) (h, held)).1)) =
      held.map (view h) ++ xs.map (fun x => fields ++ [x]) := by
  intro xs
  induction xs with
  | nil => intro h held _; simp
  | cons x r ih =>
    intro h held hh
    obtain ⟨⟨extra, he⟩, _, hlt, hv⟩ := scan_spec h fields x
    have hlen : h.length ≤ (scan h fields x).1.length := by rw [he]; simp
    have := ih (scan h fields x).1 (held ++ [(scan h fields x).2]) (by
      intro t ht
      rcases List.mem_append.1 ht with h1 | h1
      · exact Nat.lt_of_lt_of_le (hh t h1) hlen
      · simp at h1; rw [h1]; exact hlt)
    simp only [List.foldl_cons]
    rw [this, List.map_append, List.map_cons, List.map_nil, hv, List.map_cons, List.append_assoc]
    congr 1
    apply List.map_congr_left
    intro t ht
    rw [he]; exact view_frame h extra t (hh t ht)

/-- N scans of one parsed query, each appending its own element to the sort fields it got: every one of them keeps
    seeing the fields followed by ITS element — for every list of sort fields (any length) and any number of scans -/
theorem scans_see_their_own (fields xs : List Nat) : scansSee fields xs = xs.map (fun x => fields ++ [x]) := by
  have := scans_fold fields xs [] [] (by simp)
  simpa [scansSee] using this

theorem two_callers_keep_their_own (k : Nat) : twoCallers k = [k + 1, 1, k + 1, 1] := by
  simp [twoCallers, scans_see_their_own]

end StorageModel.C18.SortFields
