import StorageModel.C03.Refine
import StorageModel.C03.LayeredSpec
/-
  C03, enlarged model: the invariant and its preservation by every operation of the parent / child
  universe (the property theorems are in StorageModel/Properties/C03.lean).
-/
namespace StorageModel.C03.Layered
open StorageModel StorageModel.C03

/-- the invariant of Model.lean for the parent store's buckets, and: child data only inside an
    existing entity bucket -/
structure Inv (s : State) : Prop where
  base : C03.Inv s.base
  extIn : ∀ id t, s.ext.lookup id = some t → (s.base.ents.lookup id).isSome = true

theorem inv_empty : Inv State.empty := ⟨C03.inv_empty, by simp [State.empty]⟩

/-! ### frame lemmas: what the index protocol leaves alone -/

theorem afterUpdate_frame {c : Bool} {cap : Captured} {s s' : C03.State} {id : Id}
    (h : afterUpdate c cap s id = .ok s') : s'.ents = s.ents ∧ s'.hasEnts = s.hasEnts := by
  simp only [afterUpdate, bind, Except.bind, pure, Except.pure] at h
  split at h
  · cases h
  · split at h
    · cases h
    · split at h
      · cases h
      · cases h; exact ⟨rfl, rfl⟩

theorem create_frame {s b : C03.State} {id : Id} {v : Vals} (h : C03.create s id v = .ok b) :
    b.ents = s.ents.insert id (persistCreate v) := by
  unfold C03.create at h
  split at h
  · cases h
  · split at h
    · cases h
    · exact (afterUpdate_frame h).1

theorem update_frame {s b : C03.State} {id : Id} {v : Vals} {chk : Option Checker} (h : C03.update s id v chk = .ok b) :
    ∃ old, s.ents.lookup id = some old ∧ b.ents = s.ents.insert id (persist old v chk) := by
  unfold C03.update at h
  split at h
  · cases h
  · split at h
    · cases h
    · next old hold => exact ⟨old, hold, (afterUpdate_frame h).1⟩

theorem isSome_lookup_insert {V : Type} (m : Map Id V) (id k : Id) (x : V) (h : (m.lookup k).isSome = true) :
    ((m.insert id x).lookup k).isSome = true := by
  simp only [Map.lookup_insert]; split <;> simp [h]

/-! ### a create context over an existing entity (child-store create over a plain parent) -/

theorem inv_recreate {s s' : C03.State} {id : Id} {old e : Ent} (hi : C03.Inv s) (hid : id ≠ [])
    (hold : s.ents.lookup id = some old)
    (h : afterUpdate true (capture s id) { s with hasEnts := true, ents := s.ents.insert id e } id = .ok s') :
    C03.Inv s' := by
  simp only [afterUpdate, capture, hold, bind, Except.bind, Map.lookup_insert, if_true, evalName, evalAlias,
    evalRoles, pure, Except.pure] at h
  split at h
  · cases h
  · next un hun =>
    split at h
    · cases h
    · next ua hua =>
      split at h
      · cases h
      · next sr hsr =>
        cases h
        have hsr' := setAfter_ok (r := (·.roles)) (e := e) hi.sRoles hi.noEmptyKeys
          (oldRoles := old.roles) (id := id) (by intro x; simp [hold]) hsr
        have hne := uniqueAfter_true_nonempty hun
        have hre := setAfter_ok_nonempty hsr (hi.rolesNonEmpty id old hold)
        refine ⟨uniqueAfter_true_ok (f := (·.name)) hi.uName hold hun,
          uniqueAfter_true_ok (f := fun e => e.alias.getD []) hi.uAlias hold hua,
          hsr'.1, hsr'.2, ?_, ?_, ?_, ?_⟩
        · intro i e'; simp only [Map.lookup_insert]; split
          · intro h2; cases h2; exact hne
          · exact hi.namesNonEmpty i e'
        · intro i e'; simp only [Map.lookup_insert]; split
          · intro h2; cases h2; exact hre
          · exact hi.rolesNonEmpty i e'
        · simp only [Map.lookup_insert]
          have : ¬ ([] : Id) = id := fun e => hid e.symm
          simp [this, hi.idsNonEmpty]
        · intros; rfl

/-- a child-store create of a fresh id is the parent store's create followed by the child data -/
theorem createChild_fresh {s : State} {id : Id} {v : Vals} {tag : Bytes} (hid : id ≠ [])
    (hfresh : s.base.ents.lookup id = none) :
    createChild s id v tag =
      match C03.create s.base id v with
      | .ok b => .ok ⟨b, s.ext.insert id tag⟩
      | .error e => .error e := by
  simp only [createChild, C03.create, hid, hasExt, hfresh, if_false, Option.isSome_none, Bool.false_and,
    Bool.false_eq_true]
  generalize afterUpdate true Captured.none _ id = r
  cases r <;> rfl

theorem inv_create {s s' : State} {via : Sel} {id : Id} {v : Vals} {tag : Bytes} (hi : Inv s)
    (h : create s via id v tag = .ok s') : Inv s' := by
  cases via with
  | parent =>
    simp only [create] at h
    split at h
    · next b hb =>
      cases h
      refine ⟨C03.inv_create hi.base hb, ?_⟩
      intro k t hk
      rw [create_frame hb]
      exact isSome_lookup_insert _ _ _ _ (hi.extIn k t hk)
    · cases h
  | child =>
    simp only [create] at h
    by_cases hid : id = []
    · simp [createChild, hid] at h
    · cases hold : s.base.ents.lookup id with
      | none =>
        rw [createChild_fresh hid hold] at h
        split at h
        · next b hb =>
          cases h
          refine ⟨C03.inv_create hi.base hb, ?_⟩
          intro k t hk
          rw [create_frame hb]
          simp only [Map.lookup_insert] at hk ⊢
          split
          · simp
          · next hne => simp only [hne, if_false] at hk; exact hi.extIn k t hk
        · cases h
      | some old =>
        simp only [createChild, hid, if_false, hold, Option.isSome_some, if_true] at h
        split at h
        · cases h
        · split at h
          · next b hb =>
            cases h
            refine ⟨inv_recreate hi.base hid hold hb, ?_⟩
            intro k t hk
            rw [(afterUpdate_frame hb).1]
            simp only [Map.lookup_insert] at hk ⊢
            split
            · simp
            · next hne => simp only [hne, if_false] at hk; exact hi.extIn k t hk
          · cases h

theorem inv_updateChild {sch : Schema} {s s' : State} {id : Id} {v : Vals} {tag : Bytes} {chk : Option (List Bytes)}
    (hi : Inv s) (h : updateChild sch s id v tag chk = .ok s') : Inv s' := by
  unfold updateChild at h
  split at h
  · cases h
  · split at h
    · cases h
    · split at h
      · next b hb =>
        cases h
        obtain ⟨old, hold, hents⟩ := update_frame hb
        refine ⟨C03.inv_update hi.base hb, ?_⟩
        intro k t hk
        rw [hents]
        simp only [Map.lookup_insert] at hk ⊢
        split
        · simp
        · next hne => simp only [hne, if_false] at hk; exact hi.extIn k t hk
      · cases h

theorem inv_update {sch : Schema} {s s' : State} {via : Sel} {id : Id} {v : Vals} {tag : Bytes}
    {chk : Option (List Bytes)} (hi : Inv s) (h : update sch s via id v tag chk = .ok s') : Inv s' := by
  cases via with
  | child => exact inv_updateChild hi h
  | parent =>
    simp only [update] at h
    split at h
    · exact inv_updateChild hi h
    · split at h
      · next b hb =>
        cases h
        obtain ⟨old, hold, hents⟩ := update_frame hb
        refine ⟨C03.inv_update hi.base hb, ?_⟩
        intro k t hk
        rw [hents]
        exact isSome_lookup_insert _ _ _ _ (hi.extIn k t hk)
      · cases h

/-! ### DeleteById: one or two passes of the parent's `ProcessBeforeDelete` -/

/-- the state between the passes and after them: the indexes already describe the table without
    the entity, which is still in its bucket -/
structure Gone (s : C03.State) (id : Id) : Prop where
  uName : UI (·.name) (s.ents.erase id) s.uName
  uAlias : UI (fun e => e.alias.getD []) (s.ents.erase id) s.uAlias
  sRoles : SI (·.roles) (s.ents.erase id) s.sRoles
  noEmptyKeys : NEK s.sRoles

theorem uniqueBeforeDelete_gone {E : Type} {f : E → Bytes} {ents : Map Id E} {idx : Map Bytes Id} {v : Bytes}
    (hui : UI f ents idx) (hv : v ≠ [] → idx.lookup v = none) : UI f ents (uniqueBeforeDelete v idx) := by
  unfold uniqueBeforeDelete
  split
  · next hne =>
    intro w i
    have := hui w i
    have := hv hne
    simp only [Map.lookup_erase]
    grind
  · exact hui

theorem uniqueBeforeDelete_lookup_self (v : Bytes) (idx : Map Bytes Id) (hv : v ≠ []) :
    (uniqueBeforeDelete v idx).lookup v = none := by
  simp [uniqueBeforeDelete, hv]

theorem setBeforeDelete_gone {E : Type} {r : E → List Bytes} {ents : Map Id E} {idx idx' : Map Bytes (List Id)} {id : Id}
    {vals : List Bytes} (hsi : SI r ents idx) (hnek : NEK idx) (hgone : ents.lookup id = none)
    (h : setBeforeDelete vals id idx = .ok idx') : SI r ents idx' ∧ NEK idx' := by
  unfold setBeforeDelete at h
  split at h
  · cases h
  · cases h
    refine ⟨?_, nek_foldl_del _ _ _ hnek⟩
    intro v i
    have := hsi v i
    simp only [mem_foldl_del]
    grind

/-- the first pass on a consistent state -/
theorem pass_first {s b : C03.State} {id : Id} {e : Ent} (hi : C03.Inv s) (hold : s.ents.lookup id = some e)
    (h : passBeforeDelete s e id = .ok b) : Gone b id ∧ b.ents = s.ents ∧ b.hasEnts = s.hasEnts := by
  unfold passBeforeDelete at h
  split at h
  · next sr hsr =>
    cases h
    have hsr' := setBeforeDelete_ok (r := (·.roles)) hi.sRoles hi.noEmptyKeys hold hsr
    exact ⟨⟨uniqueBeforeDelete_ok (f := (·.name)) hi.uName hold,
      uniqueBeforeDelete_ok (f := fun e => e.alias.getD []) hi.uAlias hold, hsr'.1, hsr'.2⟩, rfl, rfl⟩
  · cases h

/-- a further pass finds nothing left to remove -/
theorem pass_again {s b : C03.State} {id : Id} {e : Ent} (hg : Gone s id)
    (hn : e.name ≠ [] → s.uName.lookup e.name = none)
    (ha : e.alias.getD [] ≠ [] → s.uAlias.lookup (e.alias.getD []) = none)
    (h : passBeforeDelete s e id = .ok b) : Gone b id ∧ b.ents = s.ents ∧ b.hasEnts = s.hasEnts := by
  unfold passBeforeDelete at h
  split at h
  · next sr hsr =>
    cases h
    have hsr' := setBeforeDelete_gone (r := fun (e : Ent) => e.roles) (ents := s.ents.erase id) hg.sRoles hg.noEmptyKeys
      (by simp) hsr
    exact ⟨⟨uniqueBeforeDelete_gone (f := fun (e : Ent) => e.name) hg.uName hn,
      uniqueBeforeDelete_gone (f := fun (e : Ent) => e.alias.getD []) hg.uAlias ha, hsr'.1, hsr'.2⟩, rfl, rfl⟩
  · cases h

/-- what the first pass leaves for the second one to look up -/
theorem pass_first_lookups {s b : C03.State} {id : Id} {e : Ent} (h : passBeforeDelete s e id = .ok b) :
    (e.name ≠ [] → b.uName.lookup e.name = none) ∧
    (e.alias.getD [] ≠ [] → b.uAlias.lookup (e.alias.getD []) = none) := by
  unfold passBeforeDelete at h
  split at h
  · cases h
    exact ⟨fun hn => uniqueBeforeDelete_lookup_self _ _ hn, fun ha => uniqueBeforeDelete_lookup_self _ _ ha⟩
  · cases h

theorem gone_erase {s : C03.State} {id : Id} (hi : C03.Inv s) {b : C03.State} (hg : Gone b id) (hents : b.ents = s.ents)
    (hhas : b.hasEnts = s.hasEnts) : C03.Inv { b with ents := b.ents.erase id } := by
  refine ⟨hg.uName, hg.uAlias, hg.sRoles, hg.noEmptyKeys, ?_, ?_, ?_, ?_⟩
  · intro i e'; simp only [hents, Map.lookup_erase]; split
    · simp
    · exact hi.namesNonEmpty i e'
  · intro i e'; simp only [hents, Map.lookup_erase]; split
    · simp
    · exact hi.rolesNonEmpty i e'
  · simp only [hents, Map.lookup_erase]; split <;> simp [hi.idsNonEmpty]
  · intro i e'; simp only [hents, hhas, Map.lookup_erase]; split
    · simp
    · exact hi.entsBucket i e'

theorem inv_delete {s s' : State} {via : Sel} {id : Id} (hi : Inv s) (h : delete s via id = .ok s') : Inv s' := by
  unfold delete at h
  split at h
  · cases h
  · split at h
    · cases h
    · next e hold =>
      have hext : ∀ (b : C03.State), b.ents = s.base.ents →
          ∀ k t, (s.ext.erase id).lookup k = some t → ((b.ents.erase id).lookup k).isSome = true := by
        intro b hb k t hk
        simp only [Map.lookup_erase] at hk ⊢
        split
        · next hkid => simp [hkid] at hk
        · next hkid => simp only [hkid, if_false] at hk; rw [hb]; exact hi.extIn k t hk
      split at h
      · cases h
      · next b1 hb1 =>
        split at h
        · cases h
        · next b2 hb2 =>
          cases h
          by_cases hx : (s.ext.lookup id).isSome = true
          · simp only [hx, if_true] at hb1
            obtain ⟨hg1, he1, hh1⟩ := pass_first hi.base hold hb1
            obtain ⟨hl1, hl2⟩ := pass_first_lookups hb1
            obtain ⟨hg2, he2, hh2⟩ := pass_again hg1 hl1 hl2 hb2
            exact ⟨gone_erase hi.base hg2 (he2.trans he1) (hh2.trans hh1), hext b2 (he2.trans he1)⟩
          · simp only [hx, Bool.false_eq_true, if_false, Except.ok.injEq] at hb1
            subst hb1
            obtain ⟨hg2, he2, hh2⟩ := pass_first hi.base hold hb2
            exact ⟨gone_erase hi.base hg2 he2 hh2, hext b2 he2⟩

theorem inv_stepRaw {sch : Schema} {s s' : State} {op : Op} (hi : Inv s) (h : stepRaw sch s op = .ok s') : Inv s' := by
  cases op with
  | create via id v tag => exact inv_create hi h
  | update via id v tag chk => exact inv_update hi h
  | delete via id => exact inv_delete (via := via) hi h

theorem inv_applyOps {sch : Schema} {s s' : State} {ops : List Op} {i : Nat} (hi : Inv s)
    (h : applyOps sch s ops i = .ok s') : Inv s' := by
  induction ops generalizing s i with
  | nil => simp only [applyOps] at h; cases h; exact hi
  | cons op rest ih =>
    simp only [applyOps] at h
    split at h
    · next s1 h1 => exact ih (inv_stepRaw hi h1) h
    · cases h

theorem inv_txStep {sch : Schema} {s : State} (ops : List Op) (hi : Inv s) : Inv (txStep sch s ops).1 := by
  unfold txStep
  split
  · next s' h => exact inv_applyOps hi h
  · exact hi

end StorageModel.C03.Layered
