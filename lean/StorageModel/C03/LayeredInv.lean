import StorageModel.C03.Refine
import StorageModel.C03.LayeredSpec
/-
  C03, enlarged model: the invariant, the characterisation of `ProcessAfterUpdate` over the
  registered constraints in any registration order (`afterUpdate_char`: on success the invariant
  holds again and the spec accepts; on failure the error is one the spec lists), and preservation of
  the invariant by every operation of the parent / child universe.
  (The property theorems are in StorageModel/Properties/C03.lean.)
-/
namespace StorageModel.C03.Layered
open StorageModel StorageModel.C03
open StorageModel.C03.Layered.Spec (vName vAlias vRoles)

/-- the invariant of the parent store's buckets under a schema: every index mirrors the values it
    sees (nothing, when it is not registered) -/
structure BInv (sch : Schema) (b : C03.State) : Prop where
  uName : UI (vName sch) b.ents b.uName
  uAlias : UI (vAlias sch) b.ents b.uAlias
  sRoles : SI (vRoles sch) b.ents b.sRoles
  noEmptyKeys : NEK b.sRoles
  namesNonEmpty : sch.regName = true → ∀ id e, b.ents.lookup id = some e → e.name ≠ []
  rolesNonEmpty : ∀ id e, b.ents.lookup id = some e → [] ∉ vRoles sch e
  idsNonEmpty : b.ents.lookup [] = none
  entsBucket : ∀ id e, b.ents.lookup id = some e → b.hasEnts = true
  /-- every indexed unique value fits bbolt's key limit -/
  keysFit : ∀ id e, b.ents.lookup id = some e → (vName sch e).length ≤ maxKeySize ∧ (vAlias sch e).length ≤ maxKeySize

/-- … and: child data only inside an existing entity bucket -/
structure Inv (sch : Schema) (s : State) : Prop where
  base : BInv sch s.base
  extIn : ∀ id t, s.ext.lookup id = some t → (s.base.ents.lookup id).isSome = true

theorem inv_empty (sch : Schema) : Inv sch State.empty :=
  ⟨by constructor <;> simp [State.empty, C03.State.empty, UI, SI, NEK], by simp [State.empty]⟩

/-! ### an index that sees nothing -/

theorem UI_blind {E : Type} {f : E → Bytes} {ents ents' : Map Id E} {idx : Map Bytes Id} (hf : ∀ e, f e = [])
    (h : UI f ents idx) : UI f ents' idx := by
  intro v i
  have := h v i
  simp only [hf] at this ⊢
  grind

theorem SI_blind {E : Type} {r : E → List Bytes} {ents ents' : Map Id E} {idx : Map Bytes (List Id)} (hr : ∀ e, r e = [])
    (h : SI r ents idx) : SI r ents' idx := by
  intro v i
  have := h v i
  simp only [hr] at this ⊢
  simpa using this

/-! ### one unique constraint, in each of the three ways the protocol is entered -/

/-- how `ProcessAfterUpdate` of a unique index is entered: `IsCreate` and the captured old value -/
inductive UShape {E : Type} (f : E → Bytes) (ents : Map Id E) (id : Id) : Bool → Bytes → Prop
  /-- Create of a new entity: nothing captured -/
  | fresh (h : ents.lookup id = none) : UShape f ents id true []
  /-- Update: the old value captured by `ProcessBeforeUpdate` -/
  | update (old : E) (h : ents.lookup id = some old) : UShape f ents id false (f old)
  /-- child-store Create over an existing parent entity: a create context with a captured value -/
  | recreate (old : E) (h : ents.lookup id = some old) : UShape f ents id true (f old)

theorem uniqueAfter_true_err {E : Type} {f : E → Bytes} {ents : Map Id E} {idx : Map Bytes Id} {id : Id} {old e : E}
    {nullable : Bool} {x : Err} (hui : UI f ents idx) (hold : ents.lookup id = some old)
    (h : uniqueAfter true nullable (f old) (f e) id idx = .error x) :
    (x = .nullNotAllowed ∧ f e = [] ∧ nullable = false) ∨ (x = .dup ∧ f e ≠ [] ∧ HeldByOther f ents id (f e)) := by
  unfold uniqueAfter at h
  simp only [Bool.not_true, Bool.false_and, Bool.false_eq_true, if_false, ne_eq] at h
  have h2 := hui (f e)
  unfold HeldByOther
  by_cases ho : f old = []
  · simp only [ho, not_true_eq_false, if_false] at h
    split at h
    · split at h
      · next i hi => cases h; right; refine ⟨rfl, by assumption, ?_⟩; grind
      · cases h
    · split at h
      · cases h; left; simp_all
      · cases h
  · simp only [ho, not_false_eq_true, if_true] at h
    split at h
    · split at h
      · next i hi => cases h; right; refine ⟨rfl, by assumption, ?_⟩; simp only [Map.lookup_erase] at hi; grind
      · cases h
    · split at h
      · cases h; left; simp_all
      · cases h

theorem uniqueAfter_true_okc {E : Type} {f : E → Bytes} {ents : Map Id E} {idx idx' : Map Bytes Id} {id : Id} {old e : E}
    {nullable : Bool} (hui : UI f ents idx) (hold : ents.lookup id = some old)
    (h : uniqueAfter true nullable (f old) (f e) id idx = .ok idx') :
    (f e = [] ∧ nullable = true) ∨ (f e ≠ [] ∧ ¬ HeldByOther f ents id (f e)) := by
  unfold uniqueAfter at h
  simp only [Bool.not_true, Bool.false_and, Bool.false_eq_true, if_false, ne_eq] at h
  have h2 := hui (f e)
  unfold HeldByOther
  by_cases ho : f old = []
  · simp only [ho, not_true_eq_false, if_false] at h
    split at h
    · split at h
      · cases h
      · next hn =>
        right; refine ⟨by assumption, ?_⟩
        rintro ⟨i, e', _, hl, hf⟩
        have := (h2 i).2 ⟨by assumption, e', hl, hf⟩
        simp_all
    · split at h
      · cases h
      · left; simp_all
  · simp only [ho, not_false_eq_true, if_true] at h
    split at h
    · split at h
      · cases h
      · next hn =>
        right; refine ⟨by assumption, ?_⟩
        simp only [Map.lookup_erase] at hn
        rintro ⟨i, e', hne, hl, hf⟩
        have h5 := (h2 i).2 ⟨by assumption, e', hl, hf⟩
        split at hn
        · next heq =>
          have h6 := (h2 id).2 ⟨by assumption, old, hold, heq.symm⟩
          rw [h5] at h6; cases h6; exact hne rfl
        · simp_all
    · split at h
      · cases h
      · left; simp_all

/-- **one unique constraint**: on success the index mirrors the table with the new entity in it,
    the value is non-empty if the index is not nullable, and nobody else holds it; on failure the
    error names the reason -/
theorem uniqueAfter_char {E : Type} {f : E → Bytes} {ents : Map Id E} {idx : Map Bytes Id} {id : Id} {c : Bool}
    {cap : Bytes} {nullable : Bool} (e : E) (hui : UI f ents idx) (hs : UShape f ents id c cap)
    (hne : nullable = false → ∀ old, ents.lookup id = some old → f old ≠ []) :
    match uniqueAfter c nullable cap (f e) id idx with
    | .ok idx' => UI f (ents.insert id e) idx' ∧ (nullable = false → f e ≠ []) ∧
        ¬ (f e ≠ [] ∧ HeldByOther f ents id (f e))
    | .error x => (x = .nullNotAllowed ∧ nullable = false ∧ f e = []) ∨ (x = .dup ∧ f e ≠ [] ∧ HeldByOther f ents id (f e)) := by
  cases hs with
  | fresh hfresh =>
    cases h : uniqueAfter true nullable [] (f e) id idx with
    | ok idx' =>
      refine ⟨uniqueAfter_create_ok hui hfresh h, fun hn => uniqueAfter_create_nonempty h hn, ?_⟩
      rcases uniqueAfter_create_okc hui h with ⟨h1, _⟩ | ⟨_, h2⟩
      · exact fun hh => hh.1 h1
      · exact fun hh => h2 hh.2
    | error x =>
      rcases uniqueAfter_create_err hui hfresh h with ⟨h1, h2, h3⟩ | h1
      · exact Or.inl ⟨h1, h3, h2⟩
      · exact Or.inr h1
  | update old hold =>
    cases h : uniqueAfter false nullable (f old) (f e) id idx with
    | ok idx' =>
      refine ⟨uniqueAfter_update_ok hui hold h, ?_, ?_⟩
      · intro hn; subst hn; exact uniqueAfter_update_nonempty h (hne rfl old hold)
      · rcases uniqueAfter_update_okc hui hold h with ⟨h1, _⟩ | ⟨_, h2⟩
        · exact fun hh => hh.1 h1
        · exact fun hh => h2 hh.2
    | error x =>
      rcases uniqueAfter_update_err hui hold h with ⟨h1, h2, h3⟩ | h1
      · exact Or.inl ⟨h1, h3, h2⟩
      · exact Or.inr h1
  | recreate old hold =>
    cases h : uniqueAfter true nullable (f old) (f e) id idx with
    | ok idx' =>
      refine ⟨uniqueAfter_true_ok hui hold h, ?_, ?_⟩
      · intro hn; subst hn; exact uniqueAfter_true_nonempty h
      · rcases uniqueAfter_true_okc hui hold h with ⟨h1, _⟩ | ⟨_, h2⟩
        · exact fun hh => hh.1 h1
        · exact fun hh => h2 hh.2
    | error x =>
      rcases uniqueAfter_true_err hui hold h with ⟨h1, h2, h3⟩ | h1
      · exact Or.inl ⟨h1, h3, h2⟩
      · exact Or.inr h1

/-- the same with bbolt's key limit: success also says the value fits; a value that does not fit is
    one more reason to fail -/
theorem uniqueAfterK_char {E : Type} {f : E → Bytes} {ents : Map Id E} {idx : Map Bytes Id} {id : Id} {c : Bool}
    {cap : Bytes} {nullable : Bool} (e : E) (hui : UI f ents idx) (hs : UShape f ents id c cap)
    (hne : nullable = false → ∀ old, ents.lookup id = some old → f old ≠ [])
    (hfit : ∀ old, ents.lookup id = some old → (f old).length ≤ maxKeySize) :
    match uniqueAfterK c nullable cap (f e) id idx with
    | .ok idx' => (UI f (ents.insert id e) idx' ∧ (nullable = false → f e ≠ []) ∧
        ¬ (f e ≠ [] ∧ HeldByOther f ents id (f e))) ∧ (f e).length ≤ maxKeySize
    | .error x => ((x = .nullNotAllowed ∧ nullable = false ∧ f e = []) ∨ (x = .dup ∧ f e ≠ [] ∧ HeldByOther f ents id (f e))) ∨
        (x = .other ∧ (f e).length > maxKeySize) := by
  have hc := uniqueAfter_char e hui hs hne
  unfold uniqueAfterK
  by_cases hsc : (!c && cap == f e) = true
  · simp only [hsc, if_true]
    have hu : uniqueAfter c nullable cap (f e) id idx = .ok idx := by unfold uniqueAfter; simp [hsc]
    rw [hu] at hc
    refine ⟨hc, ?_⟩
    cases hs with
    | fresh h => simp at hsc
    | recreate old h => simp at hsc
    | update old hold =>
      have : f old = f e := by simpa using hsc
      rw [← this]; exact hfit old hold
  · simp only [hsc, Bool.false_eq_true, if_false]
    cases h : uniqueAfter c nullable cap (f e) id idx with
    | error x => rw [h] at hc; exact Or.inl hc
    | ok idx' =>
      rw [h] at hc
      by_cases hl : (f e).length > maxKeySize
      · simp only [if_pos hl]; refine Or.inr ⟨?_, ?_⟩ <;> first | exact hl | rfl | trivial
      · simp only [if_neg hl]; exact ⟨hc, Nat.le_of_not_gt hl⟩

/-! ### the three ways `afterUpdate` is entered -/

inductive Entry (b : C03.State) (id : Id) : Bool → Captured → Prop
  | fresh (h : b.ents.lookup id = none) : Entry b id true Captured.none
  | update (old : Ent) (h : b.ents.lookup id = some old) : Entry b id false (capture b id)
  | recreate (old : Ent) (h : b.ents.lookup id = some old) : Entry b id true (capture b id)

/-- the spec's acceptance condition, as a proposition -/
def Acceptable (sch : Schema) (ents : Map Id Ent) (id : Id) (e : Ent) : Prop :=
  (sch.regName = true → e.name ≠ []) ∧
  ¬ (vName sch e ≠ [] ∧ HeldByOther (vName sch) ents id (vName sch e)) ∧
  ¬ (vAlias sch e ≠ [] ∧ HeldByOther (vAlias sch) ents id (vAlias sch e)) ∧
  [] ∉ vRoles sch e ∧
  ((vName sch e).length ≤ maxKeySize ∧ (vAlias sch e).length ≤ maxKeySize)

/-- the errors the spec lists for storing `e` under `id`, as a proposition -/
def Listed (sch : Schema) (ents : Map Id Ent) (id : Id) (e : Ent) (x : Err) : Prop :=
  (x = .nullNotAllowed ∧ sch.regName = true ∧ e.name = []) ∨
  (x = .dup ∧ vName sch e ≠ [] ∧ HeldByOther (vName sch) ents id (vName sch e)) ∨
  (x = .dup ∧ vAlias sch e ≠ [] ∧ HeldByOther (vAlias sch) ents id (vAlias sch e)) ∨
  (x = .other ∧ [] ∈ vRoles sch e) ∨
  (x = .other ∧ ((vName sch e).length > maxKeySize ∨ (vAlias sch e).length > maxKeySize))

theorem nameStep_char {sch : Schema} {b : C03.State} {id : Id} {c : Bool} {cap : Captured} (e : Ent)
    (hi : BInv sch b) (hs : Entry b id c cap) :
    match nameStep sch c cap.name e.name id b.uName with
    | .ok un => UI (vName sch) (b.ents.insert id e) un ∧ (sch.regName = true → e.name ≠ []) ∧
        ¬ (vName sch e ≠ [] ∧ HeldByOther (vName sch) b.ents id (vName sch e)) ∧ (vName sch e).length ≤ maxKeySize
    | .error x => Listed sch b.ents id e x := by
  by_cases hreg : sch.regName = true
  · have hf : vName sch = fun e => e.name := by funext e; simp [vName, hreg]
    have hu : UShape (vName sch) b.ents id c cap.name := by
      cases hs with
      | fresh h => exact .fresh h
      | update old h => rw [show (capture b id).name = vName sch old by simp [capture, h, evalName, hf]]; exact .update old h
      | recreate old h => rw [show (capture b id).name = vName sch old by simp [capture, h, evalName, hf]]; exact .recreate old h
    have hc := uniqueAfterK_char (nullable := false) e hi.uName hu
      (by intro _ old hold; rw [hf]; exact hi.namesNonEmpty hreg id old hold)
      (fun old hold => (hi.keysFit id old hold).1)
    simp only [nameStep, hreg, if_true]
    rw [show e.name = vName sch e by simp [hf]]
    cases h : uniqueAfterK c false cap.name (vName sch e) id b.uName with
    | ok un =>
      rw [h] at hc
      exact ⟨hc.1.1, fun _ => by simpa [hf] using hc.1.2.1 rfl, hc.1.2.2, hc.2⟩
    | error x =>
      rw [h] at hc
      rcases hc with (⟨h1, _, h3⟩ | h1) | ⟨h1, h2⟩
      · exact Or.inl ⟨h1, hreg, by simpa [hf] using h3⟩
      · exact Or.inr (Or.inl h1)
      · exact Or.inr (Or.inr (Or.inr (Or.inr ⟨h1, Or.inl h2⟩)))
  · have hf : ∀ e, vName sch e = [] := by intro e; simp [vName, hreg]
    simp only [nameStep, hreg]
    refine ⟨UI_blind hf hi.uName, ?_, by simp [hf], by simp [hf]⟩
    intro h
    first | exact absurd h hreg | cases h

theorem aliasStep_char {sch : Schema} {b : C03.State} {id : Id} {c : Bool} {cap : Captured} (e : Ent)
    (hi : BInv sch b) (hs : Entry b id c cap) :
    match aliasStep sch c cap.alias (e.alias.getD []) id b.uAlias with
    | .ok ua => UI (vAlias sch) (b.ents.insert id e) ua ∧
        ¬ (vAlias sch e ≠ [] ∧ HeldByOther (vAlias sch) b.ents id (vAlias sch e)) ∧ (vAlias sch e).length ≤ maxKeySize
    | .error x => Listed sch b.ents id e x := by
  by_cases hreg : sch.regAlias = true
  · have hf : vAlias sch = fun e => e.alias.getD [] := by funext e; simp [vAlias, hreg]
    have hu : UShape (vAlias sch) b.ents id c cap.alias := by
      cases hs with
      | fresh h => exact .fresh h
      | update old h => rw [show (capture b id).alias = vAlias sch old by simp [capture, h, evalAlias, hf]]; exact .update old h
      | recreate old h => rw [show (capture b id).alias = vAlias sch old by simp [capture, h, evalAlias, hf]]; exact .recreate old h
    have hc := uniqueAfterK_char (nullable := true) e hi.uAlias hu (by intro h; cases h)
      (fun old hold => (hi.keysFit id old hold).2)
    simp only [aliasStep, hreg, if_true]
    rw [show e.alias.getD [] = vAlias sch e by simp [hf]]
    cases h : uniqueAfterK c true cap.alias (vAlias sch e) id b.uAlias with
    | ok ua =>
      rw [h] at hc
      exact ⟨hc.1.1, hc.1.2.2, hc.2⟩
    | error x =>
      rw [h] at hc
      rcases hc with (⟨_, h2, _⟩ | h1) | ⟨h1, h2⟩
      · cases h2
      · exact Or.inr (Or.inr (Or.inl h1))
      · exact Or.inr (Or.inr (Or.inr (Or.inr ⟨h1, Or.inr h2⟩)))
  · have hf : ∀ e, vAlias sch e = [] := by intro e; simp [vAlias, hreg]
    simp only [aliasStep, hreg]
    exact ⟨UI_blind hf hi.uAlias, by simp [hf], by simp [hf]⟩

theorem rolesStep_char {sch : Schema} {b : C03.State} {id : Id} {c : Bool} {cap : Captured} (e : Ent)
    (hi : BInv sch b) (hs : Entry b id c cap) :
    match rolesStep sch cap.roles e.roles id b.sRoles with
    | .ok sr => SI (vRoles sch) (b.ents.insert id e) sr ∧ NEK sr ∧ [] ∉ vRoles sch e
    | .error x => Listed sch b.ents id e x := by
  by_cases hreg : sch.regRoles = true
  · have hf : vRoles sch = fun e => e.roles := by funext e; simp [vRoles, hreg]
    have hold : (∀ v, v ∈ cap.roles ↔ ∃ o, b.ents.lookup id = some o ∧ v ∈ vRoles sch o) ∧ [] ∉ cap.roles := by
      cases hs with
      | fresh h => simp [Captured.none, h]
      | update old h =>
        have := hi.rolesNonEmpty id old h
        simp only [hf] at this ⊢
        simp [capture, h, evalRoles, this]
      | recreate old h =>
        have := hi.rolesNonEmpty id old h
        simp only [hf] at this ⊢
        simp [capture, h, evalRoles, this]
    simp only [rolesStep, hreg, if_true]
    rw [show e.roles = vRoles sch e by simp [hf]]
    cases h : setAfter cap.roles (vRoles sch e) id b.sRoles with
    | ok sr =>
      have h1 := setAfter_ok (r := vRoles sch) (e := e) hi.sRoles hi.noEmptyKeys hold.1 h
      exact ⟨h1.1, h1.2, setAfter_ok_nonempty h hold.2⟩
    | error x =>
      have h1 := setAfter_err h hold.2
      exact Or.inr (Or.inr (Or.inr (Or.inl h1)))
  · have hf : ∀ e, vRoles sch e = [] := by intro e; simp [vRoles, hreg]
    simp only [rolesStep, hreg]
    exact ⟨SI_blind hf hi.sRoles, hi.noEmptyKeys, by simp [hf]⟩

/-- the loop over the constraints: it succeeds iff every constraint does; otherwise its error is the
    error of one of them -/
theorem seq3_cases {A B C : Type} (p : Perm) (rn : Except Err A) (ra : Except Err B) (rr : Except Err C)
    (Q : Err → Prop) (hn : ∀ x, rn = .error x → Q x) (ha : ∀ x, ra = .error x → Q x) (hr : ∀ x, rr = .error x → Q x) :
    match seq3 p rn ra rr with
    | .ok (a, b, c) => rn = .ok a ∧ ra = .ok b ∧ rr = .ok c
    | .error x => Q x := by
  cases p <;> cases rn <;> cases ra <;> cases rr <;>
    simp_all [seq3, bind, Except.bind, pure, Except.pure]

/-- **`ProcessAfterUpdate` characterised**, for every registration order and choice of registered
    indexes and each way it is entered: on success the invariant holds for the table with the new
    entity and the spec accepts the entity; on failure the error is one the spec lists -/
theorem afterUpdate_char {sch : Schema} {b : C03.State} {id : Id} {c : Bool} {cap : Captured} (e : Ent) (hb : Bool)
    (hi : BInv sch b) (hid : id ≠ []) (hs : Entry b id c cap)
    (hhas : hb = true ∨ ((b.ents.lookup id).isSome = true ∧ hb = b.hasEnts)) :
    match afterUpdate sch c cap { b with hasEnts := hb, ents := b.ents.insert id e } id with
    | .ok b' => BInv sch b' ∧ b'.ents = b.ents.insert id e ∧ b'.hasEnts = hb ∧ Acceptable sch b.ents id e
    | .error x => Listed sch b.ents id e x := by
  have hn := nameStep_char e hi hs
  have ha := aliasStep_char e hi hs
  have hr := rolesStep_char e hi hs
  simp only [afterUpdate, Map.lookup_insert, if_true, evalName, evalAlias, evalRoles]
  have hseq := seq3_cases sch.perm (nameStep sch c cap.name e.name id b.uName)
    (aliasStep sch c cap.alias (e.alias.getD []) id b.uAlias) (rolesStep sch cap.roles e.roles id b.sRoles)
    (Listed sch b.ents id e)
    (by intro x hx; rw [hx] at hn; exact hn) (by intro x hx; rw [hx] at ha; exact ha) (by intro x hx; rw [hx] at hr; exact hr)
  generalize seq3 sch.perm (nameStep sch c cap.name e.name id b.uName)
    (aliasStep sch c cap.alias (e.alias.getD []) id b.uAlias) (rolesStep sch cap.roles e.roles id b.sRoles) = q at hseq
  cases q with
  | error x => exact hseq
  | ok t =>
    obtain ⟨un, ua, sr⟩ := t
    simp only at hseq ⊢
    rw [hseq.1] at hn; rw [hseq.2.1] at ha; rw [hseq.2.2] at hr
    simp only at hn ha hr
    refine ⟨⟨hn.1, ha.1, hr.1, hr.2.1, ?_, ?_, ?_, ?_, ?_⟩, by simp, by simp, hn.2.1, hn.2.2.1, ha.2.1, hr.2.2, hn.2.2.2, ha.2.2⟩
    · intro hreg i e'; simp only [Map.lookup_insert]; split
      · intro h2; cases h2; exact hn.2.1 hreg
      · exact hi.namesNonEmpty hreg i e'
    · intro i e'; simp only [Map.lookup_insert]; split
      · intro h2; cases h2; exact hr.2.2
      · exact hi.rolesNonEmpty i e'
    · simp only [Map.lookup_insert]
      have : ¬ ([] : Id) = id := fun e => hid e.symm
      simp [this, hi.idsNonEmpty]
    · intro i e'; simp only [Map.lookup_insert]
      rcases hhas with rfl | ⟨hsome, rfl⟩
      · intros; rfl
      · split
        · intro _
          cases hl : b.ents.lookup id with
          | none => simp [hl] at hsome
          | some o => exact hi.entsBucket id o hl
        · exact hi.entsBucket i e'
    · intro i e'; simp only [Map.lookup_insert]; split
      · intro h2; cases h2; exact ⟨hn.2.2.2, ha.2.2⟩
      · exact hi.keysFit i e'

/-! ### preservation: create and update -/

theorem isSome_lookup_insert {V : Type} (m : Map Id V) (id k : Id) (x : V) (h : (m.lookup k).isSome = true) :
    ((m.insert id x).lookup k).isSome = true := by
  simp only [Map.lookup_insert]; split <;> simp [h]

theorem extIn_insert_both {b : C03.State} {ext : Map Id Bytes} {id : Id} {e : Ent} {x : Bytes}
    (h : ∀ k t, ext.lookup k = some t → (b.ents.lookup k).isSome = true) :
    ∀ k t, (ext.insert id x).lookup k = some t → ((b.ents.insert id e).lookup k).isSome = true := by
  intro k t hk
  simp only [Map.lookup_insert] at hk ⊢
  split
  · simp
  · next hne => simp only [hne, if_false] at hk; exact h k t hk

theorem inv_createParent {sch : Schema} {s s' : State} {id : Id} {v : Vals} (hi : Inv sch s)
    (h : createParent sch s id v = .ok s') : Inv sch s' := by
  unfold createParent at h
  split at h
  · cases h
  · next hid =>
    split at h
    · cases h
    · next hfresh =>
      have hfresh : s.base.ents.lookup id = none := by simpa using hfresh
      have hc := afterUpdate_char (persistCreate v) true hi.base hid (.fresh hfresh) (Or.inl rfl)
      dsimp only at h
      split at h
      · next b hb =>
        cases h
        rw [hb] at hc
        refine ⟨hc.1, ?_⟩
        intro k t hk
        show ((b.ents).lookup k).isSome = true
        rw [hc.2.1]
        exact isSome_lookup_insert _ _ _ _ (hi.extIn k t hk)
      · cases h

theorem inv_createChild {sch : Schema} {s s' : State} {id : Id} {v : Vals} {tag : Bytes} (hi : Inv sch s)
    (h : createChild sch s id v tag = .ok s') : Inv sch s' := by
  unfold createChild at h
  split at h
  · cases h
  · next hid =>
    split at h
    · cases h
    · cases hold : s.base.ents.lookup id with
      | none =>
        have hch := afterUpdate_char (persistCreate v) true hi.base hid (.fresh hold) (Or.inl rfl)
        simp only [hold, Option.isSome_none, Bool.false_eq_true, if_false] at h
        split at h
        · next b hb =>
          cases h
          rw [hb] at hch
          refine ⟨hch.1, ?_⟩
          show ∀ k t, (s.ext.insert id tag).lookup k = some t → ((b.ents).lookup k).isSome = true
          rw [hch.2.1]
          exact extIn_insert_both hi.extIn
        · cases h
      | some old =>
        have hch := afterUpdate_char (persistCreate v) true hi.base hid (.recreate old hold) (Or.inl rfl)
        simp only [hold, Option.isSome_some, if_true] at h
        split at h
        · next b hb =>
          cases h
          rw [hb] at hch
          refine ⟨hch.1, ?_⟩
          show ∀ k t, (s.ext.insert id tag).lookup k = some t → ((b.ents).lookup k).isSome = true
          rw [hch.2.1]
          exact extIn_insert_both hi.extIn
        · cases h

theorem updateBase_char {sch : Schema} {b : C03.State} {id : Id} {old : Ent} (v : Vals) (chk : Option (List Bytes))
    (hi : BInv sch b) (hid : id ≠ []) (hold : b.ents.lookup id = some old) :
    match updateBase sch b id old v chk with
    | .ok b' => BInv sch b' ∧ b'.ents = b.ents.insert id (persist old v (resolveOpt sch chk)) ∧ b'.hasEnts = b.hasEnts ∧
        Acceptable sch b.ents id (persist old v (resolveOpt sch chk))
    | .error x => Listed sch b.ents id (persist old v (resolveOpt sch chk)) x := by
  have := afterUpdate_char (persist old v (resolveOpt sch chk)) b.hasEnts hi hid (.update old hold)
    (Or.inr ⟨by simp [hold], rfl⟩)
  exact this

theorem inv_updateParent {sch : Schema} {s s' : State} {id : Id} {v : Vals} {chk : Option (List Bytes)}
    (hi : Inv sch s) (h : updateParent sch s id v chk = .ok s') : Inv sch s' := by
  unfold updateParent at h
  split at h
  · cases h
  · next hid =>
    split at h
    · cases h
    · next old hold =>
      have hc := updateBase_char v chk hi.base hid hold
      split at h
      · next b hb =>
        cases h
        rw [hb] at hc
        refine ⟨hc.1, ?_⟩
        intro k t hk
        show ((b.ents).lookup k).isSome = true
        rw [hc.2.1]
        exact isSome_lookup_insert _ _ _ _ (hi.extIn k t hk)
      · cases h

theorem inv_updateChild {sch : Schema} {s s' : State} {id : Id} {v : Vals} {tag : Bytes} {chk : Option (List Bytes)}
    (hi : Inv sch s) (h : updateChild sch s id v tag chk = .ok s') : Inv sch s' := by
  unfold updateChild at h
  split at h
  · cases h
  · next hid =>
    split at h
    · cases h
    · split at h
      · cases h
      · next old hold =>
        have hc := updateBase_char v chk hi.base hid hold
        split at h
        · next b hb =>
          cases h
          rw [hb] at hc
          refine ⟨hc.1, ?_⟩
          show ∀ k t, (s.ext.insert id _).lookup k = some t → ((b.ents).lookup k).isSome = true
          rw [hc.2.1]
          exact extIn_insert_both hi.extIn
        · cases h

theorem inv_create {sch : Schema} {s s' : State} {via : Sel} {id : Id} {v : Vals} {tag : Bytes} (hi : Inv sch s)
    (h : create sch s via id v tag = .ok s') : Inv sch s' := by
  cases via with
  | parent => exact inv_createParent hi h
  | child => exact inv_createChild hi h

theorem inv_update {sch : Schema} {s s' : State} {via : Sel} {id : Id} {v : Vals} {tag : Bytes}
    {chk : Option (List Bytes)} (hi : Inv sch s) (h : update sch s via id v tag chk = .ok s') : Inv sch s' := by
  cases via with
  | child => exact inv_updateChild hi h
  | parent =>
    simp only [update] at h
    split at h
    · exact inv_updateChild hi h
    · exact inv_updateParent hi h

/-! ### DeleteById: one or two passes of the parent's `ProcessBeforeDelete` -/

/-- the state between the passes and after them: the indexes already describe the table without
    the entity, which is still in its bucket -/
structure Gone (sch : Schema) (s : C03.State) (id : Id) : Prop where
  uName : UI (vName sch) (s.ents.erase id) s.uName
  uAlias : UI (vAlias sch) (s.ents.erase id) s.uAlias
  sRoles : SI (vRoles sch) (s.ents.erase id) s.sRoles
  noEmptyKeys : NEK s.sRoles

theorem uniqueBeforeDelete_gone {E : Type} {f : E → Bytes} {ents : Map Id E} {idx : Map Bytes Id} {v : Bytes}
    (hui : UI f ents idx) (hv : v ≠ [] → idx.lookup v = none) : UI f ents (uniqueBeforeDelete v idx) := by
  unfold uniqueBeforeDelete
  split
  · next hne =>
    intro w i
    have := hui w i
    have := hv hne
    simp only [Map.lookup_erase]
    grind
  · exact hui

theorem uniqueBeforeDelete_lookup_self (v : Bytes) (idx : Map Bytes Id) (hv : v ≠ []) :
    (uniqueBeforeDelete v idx).lookup v = none := by
  simp [uniqueBeforeDelete, hv]

theorem setBeforeDelete_gone {E : Type} {r : E → List Bytes} {ents : Map Id E} {idx idx' : Map Bytes (List Id)} {id : Id}
    {vals : List Bytes} (hsi : SI r ents idx) (hnek : NEK idx) (hgone : ents.lookup id = none)
    (h : setBeforeDelete vals id idx = .ok idx') : SI r ents idx' ∧ NEK idx' := by
  unfold setBeforeDelete at h
  split at h
  · cases h
  · cases h
    refine ⟨?_, nek_foldl_del _ _ _ hnek⟩
    intro v i
    have := hsi v i
    simp only [mem_foldl_del]
    grind

/-- the first pass on a consistent state -/
theorem pass_first {sch : Schema} {s b : C03.State} {id : Id} {e : Ent} (hi : BInv sch s) (hold : s.ents.lookup id = some e)
    (h : passBeforeDelete sch s e id = .ok b) : Gone sch b id ∧ b.ents = s.ents ∧ b.hasEnts = s.hasEnts := by
  unfold passBeforeDelete at h
  split at h
  · next sr hsr =>
    cases h
    refine ⟨⟨?_, ?_, ?_, ?_⟩, rfl, rfl⟩
    · show UI (vName sch) (s.ents.erase id) (if sch.regName = true then _ else _)
      by_cases hreg : sch.regName = true
      · have hf : vName sch = fun e => e.name := by funext e; simp [vName, hreg]
        simp only [hreg, if_true, evalName]
        have := uniqueBeforeDelete_ok (f := vName sch) hi.uName hold
        simpa [hf] using this
      · simp only [hreg]
        exact UI_blind (by intro e; simp [vName, hreg]) hi.uName
    · show UI (vAlias sch) (s.ents.erase id) (if sch.regAlias = true then _ else _)
      by_cases hreg : sch.regAlias = true
      · have hf : vAlias sch = fun e => e.alias.getD [] := by funext e; simp [vAlias, hreg]
        simp only [hreg, if_true, evalAlias]
        have := uniqueBeforeDelete_ok (f := vAlias sch) hi.uAlias hold
        simpa [hf] using this
      · simp only [hreg]
        exact UI_blind (by intro e; simp [vAlias, hreg]) hi.uAlias
    · show SI (vRoles sch) (s.ents.erase id) sr
      by_cases hreg : sch.regRoles = true
      · have hf : vRoles sch = fun e => e.roles := by funext e; simp [vRoles, hreg]
        simp only [hreg, if_true, evalRoles] at hsr
        exact (setBeforeDelete_ok (r := vRoles sch) hi.sRoles hi.noEmptyKeys hold (by simpa [hf] using hsr)).1
      · simp only [hreg, Bool.false_eq_true, if_false, Except.ok.injEq] at hsr
        subst hsr
        exact SI_blind (by intro e; simp [vRoles, hreg]) hi.sRoles
    · show NEK sr
      by_cases hreg : sch.regRoles = true
      · have hf : vRoles sch = fun e => e.roles := by funext e; simp [vRoles, hreg]
        simp only [hreg, if_true, evalRoles] at hsr
        exact (setBeforeDelete_ok (r := vRoles sch) hi.sRoles hi.noEmptyKeys hold (by simpa [hf] using hsr)).2
      · simp only [hreg, Bool.false_eq_true, if_false, Except.ok.injEq] at hsr
        subst hsr
        exact hi.noEmptyKeys
  · cases h

/-- a further pass finds nothing left to remove -/
theorem pass_again {sch : Schema} {s b : C03.State} {id : Id} {e : Ent} (hg : Gone sch s id)
    (hn : sch.regName = true → e.name ≠ [] → s.uName.lookup e.name = none)
    (ha : sch.regAlias = true → e.alias.getD [] ≠ [] → s.uAlias.lookup (e.alias.getD []) = none)
    (h : passBeforeDelete sch s e id = .ok b) : Gone sch b id ∧ b.ents = s.ents ∧ b.hasEnts = s.hasEnts := by
  unfold passBeforeDelete at h
  split at h
  · next sr hsr =>
    cases h
    have hsr' : SI (vRoles sch) (s.ents.erase id) sr ∧ NEK sr := by
      by_cases hreg : sch.regRoles = true
      · simp only [hreg, if_true] at hsr
        exact setBeforeDelete_gone (r := vRoles sch) (ents := s.ents.erase id) hg.sRoles hg.noEmptyKeys (by simp) hsr
      · simp only [hreg, Bool.false_eq_true, if_false, Except.ok.injEq] at hsr
        subst hsr
        exact ⟨hg.sRoles, hg.noEmptyKeys⟩
    refine ⟨⟨?_, ?_, hsr'.1, hsr'.2⟩, rfl, rfl⟩
    · show UI (vName sch) (s.ents.erase id) (if sch.regName = true then _ else _)
      by_cases hreg : sch.regName = true
      · simp only [hreg, if_true, evalName]
        exact uniqueBeforeDelete_gone hg.uName (hn hreg)
      · simp only [hreg]; exact hg.uName
    · show UI (vAlias sch) (s.ents.erase id) (if sch.regAlias = true then _ else _)
      by_cases hreg : sch.regAlias = true
      · simp only [hreg, if_true, evalAlias]
        exact uniqueBeforeDelete_gone hg.uAlias (ha hreg)
      · simp only [hreg]; exact hg.uAlias
  · cases h

/-- what the first pass leaves for the second one to look up -/
theorem pass_first_lookups {sch : Schema} {s b : C03.State} {id : Id} {e : Ent} (h : passBeforeDelete sch s e id = .ok b) :
    (sch.regName = true → e.name ≠ [] → b.uName.lookup e.name = none) ∧
    (sch.regAlias = true → e.alias.getD [] ≠ [] → b.uAlias.lookup (e.alias.getD []) = none) := by
  unfold passBeforeDelete at h
  split at h
  · cases h
    refine ⟨fun hr hn => ?_, fun hr ha => ?_⟩
    · simp only [hr, if_true, evalName]; exact uniqueBeforeDelete_lookup_self _ _ hn
    · simp only [hr, if_true, evalAlias]; exact uniqueBeforeDelete_lookup_self _ _ ha
  · cases h

theorem gone_erase {sch : Schema} {s : C03.State} {id : Id} (hi : BInv sch s) {b : C03.State} (hg : Gone sch b id)
    (hents : b.ents = s.ents) (hhas : b.hasEnts = s.hasEnts) : BInv sch { b with ents := b.ents.erase id } := by
  refine ⟨hg.uName, hg.uAlias, hg.sRoles, hg.noEmptyKeys, ?_, ?_, ?_, ?_, ?_⟩
  · intro hreg i e'; simp only [hents, Map.lookup_erase]; split
    · simp
    · exact hi.namesNonEmpty hreg i e'
  · intro i e'; simp only [hents, Map.lookup_erase]; split
    · simp
    · exact hi.rolesNonEmpty i e'
  · simp only [hents, Map.lookup_erase]; split <;> simp [hi.idsNonEmpty]
  · intro i e'; simp only [hents, hhas, Map.lookup_erase]; split
    · simp
    · exact hi.entsBucket i e'
  · intro i e'; simp only [hents, Map.lookup_erase]; split
    · simp
    · exact hi.keysFit i e'

theorem inv_delete {sch : Schema} {s s' : State} {via : Sel} {id : Id} (hi : Inv sch s)
    (h : delete sch s via id = .ok s') : Inv sch s' := by
  unfold delete at h
  split at h
  · cases h
  · split at h
    · cases h
    · next e hold =>
      have hext : ∀ (b : C03.State), b.ents = s.base.ents →
          ∀ k t, (s.ext.erase id).lookup k = some t → ((b.ents.erase id).lookup k).isSome = true := by
        intro b hb k t hk
        simp only [Map.lookup_erase] at hk ⊢
        split
        · next hkid => simp [hkid] at hk
        · next hkid => simp only [hkid, if_false] at hk; rw [hb]; exact hi.extIn k t hk
      split at h
      · cases h
      · next b1 hb1 =>
        split at h
        · cases h
        · next b2 hb2 =>
          cases h
          by_cases hx : (s.ext.lookup id).isSome = true
          · simp only [hx, if_true] at hb1
            obtain ⟨hg1, he1, hh1⟩ := pass_first hi.base hold hb1
            obtain ⟨hl1, hl2⟩ := pass_first_lookups hb1
            obtain ⟨hg2, he2, hh2⟩ := pass_again hg1 hl1 hl2 hb2
            exact ⟨gone_erase hi.base hg2 (he2.trans he1) (hh2.trans hh1), hext b2 (he2.trans he1)⟩
          · simp only [hx, Bool.false_eq_true, if_false, Except.ok.injEq] at hb1
            subst hb1
            obtain ⟨hg2, he2, hh2⟩ := pass_first hi.base hold hb2
            exact ⟨gone_erase hi.base hg2 he2 hh2, hext b2 he2⟩

theorem inv_stepRaw {sch : Schema} {s s' : State} {op : Op} (hi : Inv sch s) (h : stepRaw sch s op = .ok s') : Inv sch s' := by
  cases op with
  | create via id v tag => exact inv_create hi h
  | update via id v tag chk => exact inv_update hi h
  | delete via id => exact inv_delete (via := via) hi h

theorem inv_applyOps {sch : Schema} {s s' : State} {ops : List Op} {i : Nat} (hi : Inv sch s)
    (h : applyOps sch s ops i = .ok s') : Inv sch s' := by
  induction ops generalizing s i with
  | nil => simp only [applyOps] at h; cases h; exact hi
  | cons op rest ih =>
    simp only [applyOps] at h
    split at h
    · next s1 h1 => exact ih (inv_stepRaw hi h1) h
    · cases h

theorem inv_txStep {sch : Schema} {s : State} (ops : List Op) (hi : Inv sch s) : Inv sch (txStep sch s ops).1 := by
  unfold txStep
  split
  · next s' h => exact inv_applyOps hi h
  · exact hi

end StorageModel.C03.Layered
