import StorageModel.C03.Inv
/-
  C03: the engine model refines the specification (entity table only, indexes derived).
-/
namespace StorageModel.C03
open StorageModel

/-- some entity other than `id` holds value `v` in field `f` -/
def HeldByOther {E : Type} (f : E → Bytes) (ents : Map Id E) (id : Id) (v : Bytes) : Prop :=
  ∃ i e, i ≠ id ∧ ents.lookup i = some e ∧ f e = v

theorem uniqueAfter_create_err {E : Type} {f : E → Bytes} {ents : Map Id E} {idx : Map Bytes Id} {id : Id} {new : Bytes}
    {nullable : Bool} {x : Err} (hui : UI f ents idx) (hfresh : ents.lookup id = none)
    (h : uniqueAfter true nullable [] new id idx = .error x) :
    (x = .nullNotAllowed ∧ new = [] ∧ nullable = false) ∨ (x = .dup ∧ new ≠ [] ∧ HeldByOther f ents id new) := by
  unfold uniqueAfter at h
  simp only [Bool.not_true, Bool.false_and, Bool.false_eq_true, ↓reduceIte, ne_eq, not_true_eq_false] at h
  have h2 := hui new
  unfold HeldByOther
  split at h
  · split at h
    · next i hi => cases h; right; refine ⟨rfl, by assumption, ?_⟩; grind
    · cases h
  · split at h
    · cases h; left; simp_all
    · cases h

theorem uniqueAfter_create_okc {E : Type} {f : E → Bytes} {ents : Map Id E} {idx idx' : Map Bytes Id} {id : Id} {new : Bytes}
    {nullable : Bool} (hui : UI f ents idx)
    (h : uniqueAfter true nullable [] new id idx = .ok idx') :
    (new = [] ∧ nullable = true) ∨ (new ≠ [] ∧ ¬ HeldByOther f ents id new) := by
  unfold uniqueAfter at h
  simp only [Bool.not_true, Bool.false_and, Bool.false_eq_true, ↓reduceIte, ne_eq, not_true_eq_false] at h
  have h2 := hui new
  unfold HeldByOther
  split at h
  · split at h
    · cases h
    · next hn =>
      right; refine ⟨by assumption, ?_⟩
      rintro ⟨i, e', _, hl, hf⟩
      have := (h2 i).2 ⟨by assumption, e', hl, hf⟩
      simp_all
  · split at h
    · cases h
    · left; simp_all

theorem uniqueAfter_update_err {E : Type} {f : E → Bytes} {ents : Map Id E} {idx : Map Bytes Id} {id : Id} {old e : E}
    {nullable : Bool} {x : Err} (hui : UI f ents idx) (hold : ents.lookup id = some old)
    (h : uniqueAfter false nullable (f old) (f e) id idx = .error x) :
    (x = .nullNotAllowed ∧ f e = [] ∧ nullable = false) ∨ (x = .dup ∧ f e ≠ [] ∧ HeldByOther f ents id (f e)) := by
  unfold uniqueAfter at h
  simp only [Bool.not_false, Bool.true_and, beq_iff_eq, ne_eq] at h
  have h2 := hui (f e)
  unfold HeldByOther
  split at h
  · cases h
  · by_cases ho : f old = []
    · simp only [ho, not_true_eq_false, if_false] at h
      split at h
      · split at h
        · next i hi => cases h; right; refine ⟨rfl, by assumption, ?_⟩; grind
        · cases h
      · split at h
        · cases h; left; simp_all
        · cases h
    · simp only [ho, not_false_eq_true, if_true] at h
      split at h
      · split at h
        · next i hi => cases h; right; refine ⟨rfl, by assumption, ?_⟩; simp only [Map.lookup_erase] at hi; grind
        · cases h
      · split at h
        · cases h; left; simp_all
        · cases h

theorem uniqueAfter_update_okc {E : Type} {f : E → Bytes} {ents : Map Id E} {idx idx' : Map Bytes Id} {id : Id} {old e : E}
    {nullable : Bool} (hui : UI f ents idx) (hold : ents.lookup id = some old)
    (h : uniqueAfter false nullable (f old) (f e) id idx = .ok idx') :
    (f e = [] ∧ (nullable = true ∨ f old = [])) ∨ (f e ≠ [] ∧ ¬ HeldByOther f ents id (f e)) := by
  unfold uniqueAfter at h
  simp only [Bool.not_false, Bool.true_and, beq_iff_eq, ne_eq] at h
  have h2 := hui (f e)
  have h3 := hui (f old)
  unfold HeldByOther
  split at h
  · next heq =>
    by_cases hz : f e = []
    · left; exact ⟨hz, Or.inr (heq.trans hz)⟩
    · right
      refine ⟨hz, ?_⟩
      rintro ⟨i, e', hne, hl, hf⟩
      have h5 := (h2 i).2 ⟨hz, e', hl, hf⟩
      have h6 := (h2 id).2 ⟨hz, old, hold, heq⟩
      rw [h5] at h6; cases h6; exact hne rfl
  · by_cases ho : f old = []
    · simp only [ho, not_true_eq_false, if_false] at h
      split at h
      · split at h
        · cases h
        · next hn =>
          right; refine ⟨by assumption, ?_⟩
          rintro ⟨i, e', _, hl, hf⟩
          have := (h2 i).2 ⟨by assumption, e', hl, hf⟩
          simp_all
      · split at h
        · cases h
        · left; simp_all
    · simp only [ho, not_false_eq_true, if_true] at h
      split at h
      · split at h
        · cases h
        · next hn =>
          right; refine ⟨by assumption, ?_⟩
          simp only [Map.lookup_erase] at hn
          rintro ⟨i, e', _, hl, hf⟩
          have := (h2 i).2 ⟨by assumption, e', hl, hf⟩
          split at hn <;> simp_all
      · split at h
        · cases h
        · left; simp_all

theorem setAfter_err {old new : List Bytes} {id : Id} {idx : Map Bytes (List Id)} {x : Err}
    (h : setAfter old new id idx = .error x) (ho : [] ∉ old) : x = .other ∧ [] ∈ new := by
  unfold setAfter at h
  split at h
  · cases h
  · split at h
    · next hp => simp at hp; exact absurd hp ho
    · split at h
      · next hn => cases h; exact ⟨rfl, by simpa using hn⟩
      · cases h

theorem nameHeldByOther_iff (ents : Map Id Ent) (id : Id) (v : Bytes) :
    Spec.nameHeldByOther ents id v = true ↔ HeldByOther (·.name) ents id v := by
  unfold Spec.nameHeldByOther HeldByOther
  simp only [List.any_eq_true, Bool.and_eq_true, decide_eq_true_eq, Prod.exists, Map.mem_entries_iff]
  constructor
  · rintro ⟨i, e, hl, hne, hf⟩; exact ⟨i, e, hne, hl, hf⟩
  · rintro ⟨i, e, hne, hl, hf⟩; exact ⟨i, e, hl, hne, hf⟩

theorem aliasHeldByOther_iff (ents : Map Id Ent) (id : Id) (v : Bytes) (hv : v ≠ []) :
    Spec.aliasHeldByOther ents id v = true ↔ HeldByOther (fun e => e.alias.getD []) ents id v := by
  unfold Spec.aliasHeldByOther HeldByOther
  simp only [List.any_eq_true, Bool.and_eq_true, decide_eq_true_eq, Prod.exists, Map.mem_entries_iff]
  constructor
  · rintro ⟨i, e, hl, hne, hf⟩; exact ⟨i, e, hne, hl, by simp [hf]⟩
  · rintro ⟨i, e, hne, hl, hf⟩
    refine ⟨i, e, hl, hne, ?_⟩
    cases ha : e.alias with
    | none => simp [ha] at hf; exact absurd hf.symm hv.symm |> False.elim
    | some a => simp [ha] at hf; simp [hf]

/-- the spec's acceptance condition, as a proposition -/
def Acceptable (ents : Map Id Ent) (id : Id) (e : Ent) : Prop :=
  e.name ≠ [] ∧ ¬ HeldByOther (·.name) ents id e.name ∧
  (e.alias.getD [] = [] ∨ ¬ HeldByOther (fun e => e.alias.getD []) ents id (e.alias.getD [])) ∧ [] ∉ e.roles

theorem violations_nil_iff (ents : Map Id Ent) (id : Id) (e : Ent) :
    Spec.violations ents id e = [] ↔ Acceptable ents id e := by
  unfold Spec.violations Acceptable
  by_cases hn : e.name = []
  · simp [hn]
  · by_cases ha : e.alias.getD [] = []
    · simp [hn, ha, nameHeldByOther_iff]
    · simp [hn, ha, nameHeldByOther_iff, aliasHeldByOther_iff _ _ _ ha]

theorem mem_violations (ents : Map Id Ent) (id : Id) (e : Ent) (x : Err) :
    x ∈ Spec.violations ents id e ↔
      (x = .nullNotAllowed ∧ e.name = []) ∨
      (x = .dup ∧ e.name ≠ [] ∧ HeldByOther (·.name) ents id e.name) ∨
      (x = .dup ∧ e.alias.getD [] ≠ [] ∧ HeldByOther (fun e => e.alias.getD []) ents id (e.alias.getD [])) ∨
      (x = .other ∧ [] ∈ e.roles) := by
  unfold Spec.violations
  by_cases hn : e.name = []
  · by_cases ha : e.alias.getD [] = []
    · by_cases hr : [] ∈ e.roles <;> simp [hn, ha, hr]
    · by_cases hr : [] ∈ e.roles <;> by_cases hh : HeldByOther (fun e => e.alias.getD []) ents id (e.alias.getD []) <;>
        simp [hn, ha, hr, hh, aliasHeldByOther_iff _ _ _ ha]
  · by_cases ha : e.alias.getD [] = []
    · by_cases hr : [] ∈ e.roles <;> by_cases hh : HeldByOther (·.name) ents id e.name <;>
        simp [hn, ha, hr, hh, nameHeldByOther_iff]
    · by_cases hr : [] ∈ e.roles <;> by_cases hh : HeldByOther (·.name) ents id e.name <;>
        by_cases hh2 : HeldByOther (fun e => e.alias.getD []) ents id (e.alias.getD []) <;>
        simp [hn, ha, hr, hh, hh2, nameHeldByOther_iff, aliasHeldByOther_iff _ _ _ ha]

/-- abstraction: forget the indexes -/
def abs (s : State) : Spec.SState := ⟨s.hasEnts, s.ents⟩

/-- outcome of the model's `ProcessAfterUpdate` for an entity `e` stored under `id`, against the spec's verdict -/
theorem afterUpdate_create_spec {s : State} {id : Id} {e : Ent} (hi : Inv s) (hfresh : s.ents.lookup id = none) :
    match afterUpdate true Captured.none { s with hasEnts := true, ents := s.ents.insert id e } id with
    | .ok s' => Acceptable s.ents id e ∧ s'.hasEnts = true ∧ s'.ents = s.ents.insert id e
    | .error x => x ∈ Spec.violations s.ents id e := by
  simp only [afterUpdate, Captured.none, bind, Except.bind, Map.lookup_insert, if_true, evalName, evalAlias,
    evalRoles, pure, Except.pure]
  cases hun : uniqueAfter true false [] e.name id s.uName with
  | error x =>
    simp only
    rcases uniqueAfter_create_err hi.uName hfresh hun with ⟨rfl, h1, _⟩ | ⟨rfl, h1, h2⟩
    · exact (mem_violations _ _ _ _).2 (Or.inl ⟨rfl, h1⟩)
    · exact (mem_violations _ _ _ _).2 (Or.inr (Or.inl ⟨rfl, h1, h2⟩))
  | ok un =>
    simp only
    have hnc := uniqueAfter_create_okc hi.uName hun
    cases hua : uniqueAfter true true [] (e.alias.getD []) id s.uAlias with
    | error x =>
      simp only
      rcases uniqueAfter_create_err hi.uAlias hfresh hua with ⟨_, _, h3⟩ | ⟨rfl, h1, h2⟩
      · cases h3
      · exact (mem_violations _ _ _ _).2 (Or.inr (Or.inr (Or.inl ⟨rfl, h1, h2⟩)))
    | ok ua =>
      simp only
      have hac := uniqueAfter_create_okc hi.uAlias hua
      cases hsr : setAfter [] e.roles id s.sRoles with
      | error x =>
        simp only
        have := setAfter_err hsr (by simp)
        exact (mem_violations _ _ _ _).2 (Or.inr (Or.inr (Or.inr ⟨this.1, this.2⟩)))
      | ok sr =>
        simp only
        have hre := setAfter_ok_nonempty hsr (by simp)
        refine ⟨⟨?_, ?_, ?_, hre⟩, by simp⟩
        · rcases hnc with ⟨_, h⟩ | ⟨h, _⟩
          · cases h
          · exact h
        · rcases hnc with ⟨_, h⟩ | ⟨_, h⟩
          · cases h
          · exact h
        · rcases hac with ⟨h, _⟩ | ⟨_, h⟩
          · exact Or.inl h
          · exact Or.inr h

theorem afterUpdate_update_spec {s : State} {id : Id} {old e : Ent} (hi : Inv s) (hold : s.ents.lookup id = some old) :
    match afterUpdate false (capture s id) { s with ents := s.ents.insert id e } id with
    | .ok s' => Acceptable s.ents id e ∧ s'.hasEnts = s.hasEnts ∧ s'.ents = s.ents.insert id e
    | .error x => x ∈ Spec.violations s.ents id e := by
  simp only [afterUpdate, capture, hold, bind, Except.bind, Map.lookup_insert, if_true, evalName, evalAlias,
    evalRoles, pure, Except.pure]
  cases hun : uniqueAfter false false old.name e.name id s.uName with
  | error x =>
    simp only
    rcases uniqueAfter_update_err (f := (·.name)) hi.uName hold hun with ⟨rfl, h1, _⟩ | ⟨rfl, h1, h2⟩
    · exact (mem_violations _ _ _ _).2 (Or.inl ⟨rfl, h1⟩)
    · exact (mem_violations _ _ _ _).2 (Or.inr (Or.inl ⟨rfl, h1, h2⟩))
  | ok un =>
    simp only
    have hnc := uniqueAfter_update_okc (f := (·.name)) hi.uName hold hun
    have hne := uniqueAfter_update_nonempty hun (hi.namesNonEmpty id old hold)
    cases hua : uniqueAfter false true (old.alias.getD []) (e.alias.getD []) id s.uAlias with
    | error x =>
      simp only
      rcases uniqueAfter_update_err (f := fun e => e.alias.getD []) hi.uAlias hold hua with ⟨_, _, h3⟩ | ⟨rfl, h1, h2⟩
      · cases h3
      · exact (mem_violations _ _ _ _).2 (Or.inr (Or.inr (Or.inl ⟨rfl, h1, h2⟩)))
    | ok ua =>
      simp only
      have hac := uniqueAfter_update_okc (f := fun e => e.alias.getD []) hi.uAlias hold hua
      cases hsr : setAfter old.roles e.roles id s.sRoles with
      | error x =>
        simp only
        have := setAfter_err hsr (hi.rolesNonEmpty id old hold)
        exact (mem_violations _ _ _ _).2 (Or.inr (Or.inr (Or.inr ⟨this.1, this.2⟩)))
      | ok sr =>
        simp only
        have hre := setAfter_ok_nonempty hsr (hi.rolesNonEmpty id old hold)
        refine ⟨⟨hne, ?_, ?_, hre⟩, by simp⟩
        · rcases hnc with ⟨h, _⟩ | ⟨_, h⟩
          · exact absurd h hne
          · exact h
        · rcases hac with ⟨h, _⟩ | ⟨_, h⟩
          · exact Or.inl h
          · exact Or.inr h

/-- **Refinement.**  On a consistent state the model's operation and the spec's operation agree:
    both succeed with the same entity table, or both fail and the model's error is one of the
    errors the spec allows. -/
theorem stepRaw_refines {s : State} (hi : Inv s) (op : Op) :
    match stepRaw s op, Spec.step (abs s) op with
    | .ok s', .ok t' => abs s' = t'
    | .error e, .error es => e ∈ es
    | _, _ => False := by
  cases op with
  | create id v =>
    simp only [stepRaw, create, Spec.step, abs]
    by_cases hid : id = []
    · simp [hid]
    · simp only [hid, if_false]
      by_cases hex : (s.ents.lookup id).isSome = true
      · simp [hex]
      · simp only [hex, Bool.false_eq_true, if_false]
        have hfresh : s.ents.lookup id = none := by simpa using hex
        have := afterUpdate_create_spec (e := persistCreate v) hi hfresh
        generalize afterUpdate true Captured.none _ id = r at this ⊢
        cases r with
        | ok s' =>
          simp only at this
          have hv := (violations_nil_iff _ _ _).2 this.1
          simp [Spec.put, hv, this.2.1, this.2.2]
        | error x =>
          simp only at this
          cases hv : Spec.violations s.ents id (persistCreate v) with
          | nil => rw [hv] at this; cases this
          | cons a b => simp only [Spec.put, hv]; simpa [hv] using this
  | update id v chk =>
    simp only [stepRaw, update, Spec.step, abs]
    by_cases hid : id = []
    · simp [hid]
    · simp only [hid, if_false]
      cases hold : s.ents.lookup id with
      | none => simp
      | some old =>
        simp only
        have := afterUpdate_update_spec (e := persist old v chk) hi hold
        generalize afterUpdate false (capture s id) _ id = r at this ⊢
        cases r with
        | ok s' =>
          simp only at this
          have hv := (violations_nil_iff _ _ _).2 this.1
          simp [Spec.put, hv, this.2.1, this.2.2]
        | error x =>
          simp only at this
          cases hv : Spec.violations s.ents id (persist old v chk) with
          | nil => rw [hv] at this; cases this
          | cons a b => simp only [Spec.put, hv]; simpa [hv] using this
  | delete id =>
    simp only [stepRaw, delete, Spec.step, abs]
    by_cases hid : id = []
    · simp [hid]
    · simp only [hid, if_false]
      cases hold : s.ents.lookup id with
      | none => simp
      | some e =>
        have hr : [] ∉ e.roles := hi.rolesNonEmpty id e hold
        simp [bind, Except.bind, setBeforeDelete, evalRoles, pure, Except.pure, hr]

end StorageModel.C03
