import StorageModel.C03.Spec
/-
  C03 engine model, enlarged: the indexed store "things" of StorageModel/C03/Model.lean together with

    * a plain CHILD store of it (entity path ["ext"], one field of its own, `tag`, no index of its
      own): creates through the child store (also over an already existing plain parent entity, in
      which case the parent indexing context's `ProcessBeforeUpdate` runs first, fix 8269ce9),
      updates through the child store and through the parent store (whose child-store strategy
      hands an entity with child data over to the child store's `Update`), deletes through either
      store (`BaseStore.DeleteById` runs the parent's `ProcessBeforeDelete` TWICE for an entity
      with child data: once through the child store's indexing context, once on its own);

    * a SCHEMA:
        - the store's base path (`StoreDefinition.BasePath`, any number of elements): entities live
          under `<basePath>/things/<id>`, index buckets under `<basePath>/indexes/things/<symbol>`
          (`NewBaseStore`, `Indexer.getIndexPath`);
        - for every field the name of its symbol (= last element of the index path), the key the
          entity strategy stores it under (`AddSymbolWithKey`) and the name the caller's
          `FieldChecker` knows it by (`PersistContext.WithFieldOverrides`); a patch names fields by
          the caller-side name;
        - WHICH of the three indexes (unique `name`, nullable unique `alias`, set `roles`) are
          registered on the store and IN WHICH ORDER (`Indexer.constraints`).

  Follows boltz/store_crud.go (Create / Update / DeleteById / processDeleteConstraints /
  ChildStoreUpdateHandler.HandleUpdate), boltz/store.go (NewBaseStore, GetEntityBucket /
  getOrCreateEntityBucket of a child store), boltz/base.go (PersistContext.GetParentContext /
  WithFieldOverrides), boltz/typed_bucket.go (MapFieldChecker, MappedFieldChecker, ProceedWithSet)
  and the index protocol of boltz/indexes.go; the steps of one constraint (`uniqueAfter`,
  `setAfter`, `uniqueBeforeDelete`, `setBeforeDelete`) are those of Model.lean.
-/
namespace StorageModel.C03.Layered
open StorageModel StorageModel.C03

/-- the store an operation is issued through -/
inductive Sel
  | parent | child
  deriving DecidableEq, Repr

/-- the three names of one field -/
structure FieldNames where
  /-- symbol name: `symbol.GetName()`, last element of the index path -/
  sym : Bytes
  /-- key of the value inside the entity bucket (`AddSymbolWithKey`; what `SetString(key, …)` writes) -/
  key : Bytes
  /-- the name `FieldChecker.IsUpdated` is finally asked about: `overrides[key]` when the entity
      strategy called `WithFieldOverrides`, the key itself otherwise -/
  chk : Bytes
  deriving Repr

/-- the order in which the index slots name / alias / roles are registered (`n a r` = name first) -/
inductive Perm
  | nar | nra | anr | arn | rna | ran
  deriving DecidableEq, Repr

structure Schema where
  /-- `StoreDefinition.BasePath` -/
  basePath : List Bytes
  name : FieldNames
  alias : FieldNames
  roles : FieldNames
  /-- the child store's own field: stored key and caller-side name -/
  tagKey : Bytes
  tagChk : Bytes
  /-- is the unique index on `name` / the nullable unique index on `alias` / the set index on
      `roles` registered (`AddUniqueIndex`, `AddNullableUniqueIndex`, `AddSetIndex`) -/
  regName : Bool
  regAlias : Bool
  regRoles : Bool
  /-- registration order of the registered ones -/
  perm : Perm
  deriving Repr

/-- `MappedFieldChecker.IsUpdated` over a `MapFieldChecker` holding `names`, asked by
    `TypedBucket.ProceedWithSet(key, checker)` for the three field keys of the parent strategy -/
def resolve (sch : Schema) (names : List Bytes) : Checker :=
  ⟨names.contains sch.name.chk, names.contains sch.alias.chk, names.contains sch.roles.chk⟩

/-- the checker as the parent strategy's setters see it (`nil` stays `nil`) -/
def resolveOpt (sch : Schema) (chk : Option (List Bytes)) : Option Checker := chk.map (resolve sch)

/-- `ProceedWithSet(tagKey, checker)` in the child strategy -/
def tagSelected (sch : Schema) : Option (List Bytes) → Bool
  | none => true
  | some names => names.contains sch.tagChk

/-- the parent store's buckets (`base`) and the child data `<basePath>/things/<id>/ext/{tag}` -/
structure State where
  base : C03.State
  ext : Map Id Bytes
  deriving Repr

def State.empty : State := ⟨C03.State.empty, []⟩

/-- the child store's `IsEntityPresent` / `GetEntityBucket ≠ nil`: the entity bucket and its `ext`
    sub-bucket exist -/
def hasExt (s : State) (id : Id) : Bool := (s.base.ents.lookup id).isSome && (s.ext.lookup id).isSome

inductive Op
  /-- `tag` is ignored through the parent store -/
  | create (via : Sel) (id : Id) (v : Vals) (tag : Bytes)
  /-- `chk = none`: nil checker; `some names`: a `MapFieldChecker` with exactly these names -/
  | update (via : Sel) (id : Id) (v : Vals) (tag : Bytes) (chk : Option (List Bytes))
  | delete (via : Sel) (id : Id)
  deriving Repr

/-! ### IndexingContext.ProcessAfterUpdate over the registered constraints, in registration order -/

/-- bbolt's `MaxKeySize`: `Put` refuses a longer key ("key too large") -/
def maxKeySize : Nat := 32768

/-- `uniqueIndex.ProcessAfterUpdate` with bbolt's key limit: the indexed value is the KEY of the index
    entry, so `PutValue(newValue, rowId)` — reached when the value changed, is non-empty and free —
    fails for a value longer than `MaxKeySize` (the entity bucket holds it as a value, which may be
    longer); the error goes to the error holder like the others -/
def uniqueAfterK (isCreate nullable : Bool) (old new : Bytes) (id : Id) (idx : Map Bytes Id) :
    Except Err (Map Bytes Id) :=
  if !isCreate && old == new then .ok idx
  else
    match uniqueAfter isCreate nullable old new id idx with
    | .ok idx' => if new.length > maxKeySize then .error .other else .ok idx'
    | .error e => .error e

/-- the constraint on `name`, if registered -/
def nameStep (sch : Schema) (isCreate : Bool) (old new : Bytes) (id : Id) (idx : Map Bytes Id) :
    Except Err (Map Bytes Id) :=
  if sch.regName then uniqueAfterK isCreate false old new id idx else .ok idx

def aliasStep (sch : Schema) (isCreate : Bool) (old new : Bytes) (id : Id) (idx : Map Bytes Id) :
    Except Err (Map Bytes Id) :=
  if sch.regAlias then uniqueAfterK isCreate true old new id idx else .ok idx

def rolesStep (sch : Schema) (old new : List Bytes) (id : Id) (idx : Map Bytes (List Id)) :
    Except Err (Map Bytes (List Id)) :=
  if sch.regRoles then setAfter old new id idx else .ok idx

/-- the loop over `Indexer.constraints`: every constraint is skipped once the error holder carries
    an error, so the first error in registration order is the one reported.  (Each constraint reads
    the entity and writes only its own bucket, so its outcome does not depend on the others'.) -/
def seq3 {A B C : Type} (p : Perm) (rn : Except Err A) (ra : Except Err B) (rr : Except Err C) : Except Err (A × B × C) :=
  match p with
  | .nar => do let a ← rn; let b ← ra; let c ← rr; pure (a, b, c)
  | .nra => do let a ← rn; let c ← rr; let b ← ra; pure (a, b, c)
  | .anr => do let b ← ra; let a ← rn; let c ← rr; pure (a, b, c)
  | .arn => do let b ← ra; let c ← rr; let a ← rn; pure (a, b, c)
  | .rna => do let c ← rr; let a ← rn; let b ← ra; pure (a, b, c)
  | .ran => do let c ← rr; let b ← ra; let a ← rn; pure (a, b, c)

def afterUpdate (sch : Schema) (isCreate : Bool) (cap : Captured) (s : C03.State) (id : Id) : Except Err C03.State :=
  let e := s.ents.lookup id
  match seq3 sch.perm (nameStep sch isCreate cap.name (evalName e) id s.uName)
      (aliasStep sch isCreate cap.alias (evalAlias e) id s.uAlias)
      (rolesStep sch cap.roles (evalRoles e) id s.sRoles) with
  | .ok (un, ua, sr) => .ok { s with uName := un, uAlias := ua, sRoles := sr }
  | .error x => .error x

/-! ### Create -/

/-- `parentStore.Create` -/
def createParent (sch : Schema) (s : State) (id : Id) (v : Vals) : Except Err State :=
  if id = [] then .error .other                               -- "cannot create with blank id"
  else if (s.base.ents.lookup id).isSome then .error .exists   -- IsEntityPresent
  else
    let b1 := { s.base with hasEnts := true, ents := s.base.ents.insert id (persistCreate v) }
    match afterUpdate sch true Captured.none b1 id with
    | .ok b => .ok { s with base := b }
    | .error e => .error e

/-- `childStore.Create`: only the CHILD's data is checked for existence; when the parent entity is
    already there its indexed values are captured first (`indexingContext.Parent.ProcessBeforeUpdate`);
    the child strategy persists the parent's fields through `GetParentContext` (nil checker), then
    its own; `ProcessAfterUpdate` runs the parent's constraints with `IsCreate = true` -/
def createChild (sch : Schema) (s : State) (id : Id) (v : Vals) (tag : Bytes) : Except Err State :=
  if id = [] then .error .other
  else if hasExt s id then .error .exists
  else
    let cap := if (s.base.ents.lookup id).isSome then capture s.base id else Captured.none
    let b1 := { s.base with hasEnts := true, ents := s.base.ents.insert id (persistCreate v) }
    match afterUpdate sch true cap b1 id with
    | .ok b => .ok ⟨b, s.ext.insert id tag⟩
    | .error e => .error e

def create (sch : Schema) (s : State) (via : Sel) (id : Id) (v : Vals) (tag : Bytes) : Except Err State :=
  match via with
  | .parent => createParent sch s id v
  | .child => createChild sch s id v tag

/-! ### Update -/

/-- the part `Update` shares between the two stores: `FindById` found `old`; `ProcessBeforeUpdate`
    captures; the parent strategy persists under the (resolved) checker; `ProcessAfterUpdate` -/
def updateBase (sch : Schema) (b : C03.State) (id : Id) (old : Ent) (v : Vals) (chk : Option (List Bytes)) :
    Except Err C03.State :=
  afterUpdate sch false (capture b id) { b with ents := b.ents.insert id (persist old v (resolveOpt sch chk)) } id

/-- `parentStore.Update` of an entity without child data -/
def updateParent (sch : Schema) (s : State) (id : Id) (v : Vals) (chk : Option (List Bytes)) : Except Err State :=
  if id = [] then .error .other                               -- "cannot update with blank id"
  else
    match s.base.ents.lookup id with
    | none => .error .notFound                                 -- FindById
    | some old =>
      match updateBase sch s.base id old v chk with
      | .ok b => .ok { s with base := b }
      | .error e => .error e

/-- `childStore.Update`: `FindById` through the (plain) child store needs the child data;
    `ProcessBeforeUpdate` / `ProcessAfterUpdate` walk the parent's constraints; the parent's fields
    are written through the parent context under the same checker, then the child's own field -/
def updateChild (sch : Schema) (s : State) (id : Id) (v : Vals) (tag : Bytes) (chk : Option (List Bytes)) :
    Except Err State :=
  if id = [] then .error .other
  else if !hasExt s id then .error .notFound
  else
    match s.base.ents.lookup id with
    | none => .error .notFound
    | some old =>
      match updateBase sch s.base id old v chk with
      | .ok b => .ok ⟨b, s.ext.insert id (if tagSelected sch chk then tag else (s.ext.lookup id).getD [])⟩
      | .error e => .error e

def update (sch : Schema) (s : State) (via : Sel) (id : Id) (v : Vals) (tag : Bytes) (chk : Option (List Bytes)) :
    Except Err State :=
  match via with
  | .child => updateChild sch s id v tag chk
  | .parent =>
    -- `childStoreStrategies`: the mapper finds child data and hands the stored child entity, with
    -- the shared fields replaced by the caller's, to the child store
    if hasExt s id then updateChild sch s id v ((s.ext.lookup id).getD []) chk
    else updateParent sch s id v chk

/-! ### DeleteById -/

/-- `IndexingContext.ProcessBeforeDelete` over the parent's registered constraints (only the set
    index can fail, so the registration order does not show) -/
def passBeforeDelete (sch : Schema) (s : C03.State) (e : Ent) (id : Id) : Except Err C03.State :=
  match (if sch.regRoles then setBeforeDelete (evalRoles (some e)) id s.sRoles else .ok s.sRoles) with
  | .ok sr => .ok { s with uName := if sch.regName then uniqueBeforeDelete (evalName (some e)) s.uName else s.uName,
                           uAlias := if sch.regAlias then uniqueBeforeDelete (evalAlias (some e)) s.uAlias else s.uAlias,
                           sRoles := sr }
  | .error x => .error x

/-- `DeleteById` through either store (the child store delegates to its parent).  For every child
    store whose `FindById` finds the entity, `processDeleteConstraints` of that child store runs
    first — its indexing context walks the PARENT's constraints — then the parent's own
    `processDeleteConstraints` walks them again; then `DeleteEntity` removes the entity bucket with
    the child data in it -/
def delete (sch : Schema) (s : State) (_via : Sel) (id : Id) : Except Err State :=
  if id = [] then .error .notFound
  else
    match s.base.ents.lookup id with
    | none => .error .notFound
    | some e =>
      match (if (s.ext.lookup id).isSome then passBeforeDelete sch s.base e id else .ok s.base) with
      | .error x => .error x
      | .ok b1 =>
        match passBeforeDelete sch b1 e id with
        | .error x => .error x
        | .ok b2 => .ok ⟨{ b2 with ents := b2.ents.erase id }, s.ext.erase id⟩

def stepRaw (sch : Schema) (s : State) : Op → Except Err State
  | .create via id v tag => create sch s via id v tag
  | .update via id v tag chk => update sch s via id v tag chk
  | .delete via id => delete sch s via id

/-- the operations of one transaction body, in order; the first error aborts -/
def applyOps (sch : Schema) : State → List Op → Nat → Except (Nat × Err) State
  | s, [], _ => .ok s
  | s, op :: rest, i =>
    match stepRaw sch s op with
    | .ok s' => applyOps sch s' rest (i + 1)
    | .error e => .error (i, e)

/-- one `Db.Update`: all operations or none (bbolt rollback) -/
def txStep (sch : Schema) (s : State) (ops : List Op) : State × Res :=
  match applyOps sch s ops 0 with
  | .ok s' => (s', .ok)
  | .error (_, e) => (s, .err e)

/-- one operation in its own transaction -/
def step (sch : Schema) (s : State) (op : Op) : State × Res := txStep sch s [op]

/-- a history of transactions from the initial database -/
def run (sch : Schema) (txs : List (List Op)) : State :=
  txs.foldl (fun s ops => (txStep sch s ops).1) State.empty

/-! ### the SetChangeListener calls of one operation -/

def isOk {A : Type} : Except Err A → Bool
  | .ok _ => true
  | .error _ => false

/-- do the constraints registered before the set index leave the error holder clean -/
def reachesRoles (p : Perm) (nameOk aliasOk : Bool) : Bool :=
  match p with
  | .nar => nameOk && aliasOk
  | .nra => nameOk
  | .anr => aliasOk && nameOk
  | .arn => aliasOk
  | .rna => true
  | .ran => true

/-- the listeners of the set index run at the end of its `ProcessAfterUpdate` (also when that step
    itself set an error), provided the step was entered and the values changed -/
def rolesListener (sch : Schema) (isCreate : Bool) (b : C03.State) (id : Id) (old : Option Ent) (e : Ent) :
    List (Id × List Bytes × List Bytes) :=
  if !sch.regRoles then []
  else if !reachesRoles sch.perm (isOk (nameStep sch isCreate (evalName old) e.name id b.uName))
      (isOk (aliasStep sch isCreate (evalAlias old) (e.alias.getD []) id b.uAlias)) then []
  else if setChanged (evalRoles old) e.roles && !(evalRoles old).any (· == []) then [(id, evalRoles old, e.roles)]
  else []

def listenerCalls (sch : Schema) (s : State) : Op → List (Id × List Bytes × List Bytes)
  | .create .parent id v _ =>
    if id = [] ∨ (s.base.ents.lookup id).isSome then [] else rolesListener sch true s.base id none (persistCreate v)
  | .create .child id v _ =>
    if id = [] ∨ hasExt s id then [] else rolesListener sch true s.base id (s.base.ents.lookup id) (persistCreate v)
  | .update via id v _ chk =>
    if id = [] ∨ (via = .child ∧ !hasExt s id) then []
    else match s.base.ents.lookup id with
      | none => []
      | some old => rolesListener sch false s.base id (some old) (persist old v (resolveOpt sch chk))
  | .delete _ _ => []

/-! ### Render: the canonical bucket dump under a schema -/

def bExt : Bytes := [101, 120, 116]
def bTag : Bytes := [116, 97, 103]

/-- `Indexer.getIndexPath`: `<basePath>/indexes/<entityType>/<symbol name>` -/
def idxPath (sch : Schema) (sym : Bytes) : List Bytes := sch.basePath ++ [bIndexes, bThings, sym]

/-- the entity bucket `<basePath>/<entityType>/<id>` -/
def entPath (sch : Schema) (id : Id) : List Bytes := sch.basePath ++ [bThings, id]

/-- the non-empty prefixes of a path: the buckets `GetOrCreatePath` creates on the way -/
def prefixes : List Bytes → List (List Bytes)
  | [] => []
  | a :: t => [a] :: (prefixes t).map (a :: ·)

def renderEnt (sch : Schema) (p : Id × Ent) : List Line :=
  [ .bucket (entPath sch p.1),
    .kv (entPath sch p.1) sch.name.key (typed p.2.name),
    .kv (entPath sch p.1) sch.alias.key (match p.2.alias with | none => nilField | some a => typed a),
    .bucket (entPath sch p.1 ++ [sch.roles.key]) ] ++
  p.2.roles.map (fun r => .kv (entPath sch p.1 ++ [sch.roles.key]) (typed r) [])

def renderExt (sch : Schema) (p : Id × Bytes) : List Line :=
  [ .bucket (entPath sch p.1 ++ [bExt]), .kv (entPath sch p.1 ++ [bExt]) sch.tagKey (typed p.2) ]

def renderUnique (path : List Bytes) (p : Bytes × Id) : List Line := [ .kv path p.1 p.2 ]

def renderSetKey (path : List Bytes) (p : Bytes × List Id) : List Line :=
  .bucket (path ++ [p.1]) :: p.2.map (fun i => .kv (path ++ [p.1]) (typed i) [])

def anyReg (sch : Schema) : Bool := sch.regName || sch.regAlias || sch.regRoles

/-- the buckets `InitializeIndexes` creates (one per registered index, with the path down to it)
    and `getOrCreateEntitiesBucket` adds -/
def fixedLines (sch : Schema) (hasEnts : Bool) : List Line :=
  (if anyReg sch || hasEnts then (prefixes sch.basePath).map Line.bucket else []) ++
  (if anyReg sch then [Line.bucket (sch.basePath ++ [bIndexes]), Line.bucket (sch.basePath ++ [bIndexes, bThings])] else []) ++
  (if sch.regName then [Line.bucket (idxPath sch sch.name.sym)] else []) ++
  (if sch.regAlias then [Line.bucket (idxPath sch sch.alias.sym)] else []) ++
  (if sch.regRoles then [Line.bucket (idxPath sch sch.roles.sym)] else []) ++
  (if hasEnts then [Line.bucket (sch.basePath ++ [bThings])] else [])

/-- the part of the dump that is the entity table itself -/
def renderTable (sch : Schema) (hasEnts : Bool) (ents : Map Id Ent) (ext : Map Id Bytes) : List Line :=
  fixedLines sch hasEnts ++ ents.entries.flatMap (renderEnt sch) ++ ext.entries.flatMap (renderExt sch)

def Render (sch : Schema) (s : State) : List Line :=
  renderTable sch s.base.hasEnts s.base.ents s.ext ++
  s.base.uName.entries.flatMap (renderUnique (idxPath sch sch.name.sym)) ++
  s.base.uAlias.entries.flatMap (renderUnique (idxPath sch sch.alias.sym)) ++
  s.base.sRoles.entries.flatMap (renderSetKey (idxPath sch sch.roles.sym))

/-- the schema of Model.lean: base path ["u"], every field known by one name, all three indexes
    registered in the order name, alias, roles -/
def Schema.plain : Schema :=
  ⟨[bU], ⟨bName, bName, bName⟩, ⟨bAlias, bAlias, bAlias⟩, ⟨bRoles, bRoles, bRoles⟩, bTag, bTag, true, true, true, .nar⟩

end StorageModel.C03.Layered
