import StorageModel.C03.Spec
/-
  C03 engine model, enlarged: the indexed store "things" of StorageModel/C03/Model.lean together with

    * a plain CHILD store of it (entity path ["ext"], one field of its own, `tag`, no index of its
      own): creates through the child store (also over an already existing plain parent entity, in
      which case the parent indexing context's `ProcessBeforeUpdate` runs first, fix 8269ce9),
      updates through the child store and through the parent store (whose child-store strategy
      hands an entity with child data over to the child store's `Update`), deletes through either
      store (`BaseStore.DeleteById` runs the parent's `ProcessBeforeDelete` TWICE for an entity
      with child data: once through the child store's indexing context, once on its own);

    * a SCHEMA: for every field the name of its symbol (= name of the index bucket,
      `Indexer.getIndexPath`), the key the entity strategy stores it under
      (`AddSymbolWithKey`) and the name the caller's `FieldChecker` knows it by
      (`PersistContext.WithFieldOverrides`).  A patch names fields by the caller-side name.

  Follows boltz/store_crud.go (Create / Update / DeleteById / processDeleteConstraints /
  ChildStoreUpdateHandler.HandleUpdate), boltz/store.go (GetEntityBucket / getOrCreateEntityBucket
  of a child store), boltz/base.go (PersistContext.GetParentContext / WithFieldOverrides),
  boltz/typed_bucket.go (MapFieldChecker, MappedFieldChecker, ProceedWithSet) and the index
  protocol of boltz/indexes.go (the constraint steps are those of Model.lean).
-/
namespace StorageModel.C03.Layered
open StorageModel StorageModel.C03

/-- the store an operation is issued through -/
inductive Sel
  | parent | child
  deriving DecidableEq, Repr

/-- the three names of one field -/
structure FieldNames where
  /-- symbol name: `symbol.GetName()`, last element of the index path -/
  sym : Bytes
  /-- key of the value inside the entity bucket (`AddSymbolWithKey`; what `SetString(key, …)` writes) -/
  key : Bytes
  /-- the name `FieldChecker.IsUpdated` is finally asked about: `overrides[key]` when the entity
      strategy called `WithFieldOverrides`, the key itself otherwise -/
  chk : Bytes
  deriving Repr

structure Schema where
  name : FieldNames
  alias : FieldNames
  roles : FieldNames
  /-- the child store's own field: stored key and caller-side name -/
  tagKey : Bytes
  tagChk : Bytes
  deriving Repr

/-- `MappedFieldChecker.IsUpdated` over a `MapFieldChecker` holding `names`, asked by
    `TypedBucket.ProceedWithSet(key, checker)` for the three field keys of the parent strategy -/
def resolve (sch : Schema) (names : List Bytes) : Checker :=
  ⟨names.contains sch.name.chk, names.contains sch.alias.chk, names.contains sch.roles.chk⟩

/-- the checker as the parent strategy's setters see it (`nil` stays `nil`) -/
def resolveOpt (sch : Schema) (chk : Option (List Bytes)) : Option Checker := chk.map (resolve sch)

/-- `ProceedWithSet(tagKey, checker)` in the child strategy -/
def tagSelected (sch : Schema) : Option (List Bytes) → Bool
  | none => true
  | some names => names.contains sch.tagChk

/-- the parent store's buckets (`base`) and the child data `u/things/<id>/ext/{tag}` -/
structure State where
  base : C03.State
  ext : Map Id Bytes
  deriving Repr

def State.empty : State := ⟨C03.State.empty, []⟩

/-- the child store's `IsEntityPresent` / `GetEntityBucket ≠ nil`: the entity bucket and its `ext`
    sub-bucket exist -/
def hasExt (s : State) (id : Id) : Bool := (s.base.ents.lookup id).isSome && (s.ext.lookup id).isSome

inductive Op
  /-- `tag` is ignored through the parent store -/
  | create (via : Sel) (id : Id) (v : Vals) (tag : Bytes)
  /-- `chk = none`: nil checker; `some names`: a `MapFieldChecker` with exactly these names -/
  | update (via : Sel) (id : Id) (v : Vals) (tag : Bytes) (chk : Option (List Bytes))
  | delete (via : Sel) (id : Id)
  deriving Repr

/-! ### Create -/

/-- `childStore.Create`: only the CHILD's data is checked for existence; when the parent entity is
    already there its indexed values are captured first (`indexingContext.Parent.ProcessBeforeUpdate`);
    the child strategy persists the parent's fields through `GetParentContext` (nil checker), then
    its own; `ProcessAfterUpdate` runs the parent's constraints with `IsCreate = true` -/
def createChild (s : State) (id : Id) (v : Vals) (tag : Bytes) : Except Err State :=
  if id = [] then .error .other
  else if hasExt s id then .error .exists
  else
    let cap := if (s.base.ents.lookup id).isSome then capture s.base id else Captured.none
    let b1 := { s.base with hasEnts := true, ents := s.base.ents.insert id (persistCreate v) }
    match afterUpdate true cap b1 id with
    | .ok b => .ok ⟨b, s.ext.insert id tag⟩
    | .error e => .error e

def create (s : State) (via : Sel) (id : Id) (v : Vals) (tag : Bytes) : Except Err State :=
  match via with
  | .parent =>
    match C03.create s.base id v with
    | .ok b => .ok { s with base := b }
    | .error e => .error e
  | .child => createChild s id v tag

/-! ### Update -/

/-- `childStore.Update`: `FindById` through the (plain) child store needs the child data;
    `ProcessBeforeUpdate` / `ProcessAfterUpdate` walk the parent's constraints; the parent's fields
    are written through the parent context under the same checker, then the child's own field -/
def updateChild (sch : Schema) (s : State) (id : Id) (v : Vals) (tag : Bytes) (chk : Option (List Bytes)) :
    Except Err State :=
  if id = [] then .error .other
  else if !hasExt s id then .error .notFound
  else
    match C03.update s.base id v (resolveOpt sch chk) with
    | .ok b => .ok ⟨b, s.ext.insert id (if tagSelected sch chk then tag else (s.ext.lookup id).getD [])⟩
    | .error e => .error e

def update (sch : Schema) (s : State) (via : Sel) (id : Id) (v : Vals) (tag : Bytes) (chk : Option (List Bytes)) :
    Except Err State :=
  match via with
  | .child => updateChild sch s id v tag chk
  | .parent =>
    -- `childStoreStrategies`: the mapper finds child data and hands the stored child entity, with
    -- the shared fields replaced by the caller's, to the child store
    if hasExt s id then updateChild sch s id v ((s.ext.lookup id).getD []) chk
    else
      match C03.update s.base id v (resolveOpt sch chk) with
      | .ok b => .ok { s with base := b }
      | .error e => .error e

/-! ### DeleteById -/

/-- `IndexingContext.ProcessBeforeDelete` over the parent's constraints, in registration order -/
def passBeforeDelete (s : C03.State) (e : Ent) (id : Id) : Except Err C03.State :=
  match setBeforeDelete (evalRoles (some e)) id s.sRoles with
  | .ok sr => .ok { s with uName := uniqueBeforeDelete (evalName (some e)) s.uName,
                           uAlias := uniqueBeforeDelete (evalAlias (some e)) s.uAlias, sRoles := sr }
  | .error x => .error x

/-- `DeleteById` through either store (the child store delegates to its parent).  For every child
    store whose `FindById` finds the entity, `processDeleteConstraints` of that child store runs
    first — its indexing context walks the PARENT's constraints — then the parent's own
    `processDeleteConstraints` walks them again; then `DeleteEntity` removes the entity bucket with
    the child data in it -/
def delete (s : State) (_via : Sel) (id : Id) : Except Err State :=
  if id = [] then .error .notFound
  else
    match s.base.ents.lookup id with
    | none => .error .notFound
    | some e =>
      match (if (s.ext.lookup id).isSome then passBeforeDelete s.base e id else .ok s.base) with
      | .error x => .error x
      | .ok b1 =>
        match passBeforeDelete b1 e id with
        | .error x => .error x
        | .ok b2 => .ok ⟨{ b2 with ents := b2.ents.erase id }, s.ext.erase id⟩

def stepRaw (sch : Schema) (s : State) : Op → Except Err State
  | .create via id v tag => create s via id v tag
  | .update via id v tag chk => update sch s via id v tag chk
  | .delete via id => delete s via id

/-- the operations of one transaction body, in order; the first error aborts -/
def applyOps (sch : Schema) : State → List Op → Nat → Except (Nat × Err) State
  | s, [], _ => .ok s
  | s, op :: rest, i =>
    match stepRaw sch s op with
    | .ok s' => applyOps sch s' rest (i + 1)
    | .error e => .error (i, e)

/-- one `Db.Update`: all operations or none (bbolt rollback) -/
def txStep (sch : Schema) (s : State) (ops : List Op) : State × Res :=
  match applyOps sch s ops 0 with
  | .ok s' => (s', .ok)
  | .error (_, e) => (s, .err e)

/-- one operation in its own transaction -/
def step (sch : Schema) (s : State) (op : Op) : State × Res := txStep sch s [op]

/-- a history of transactions from the initial database -/
def run (sch : Schema) (txs : List (List Op)) : State :=
  txs.foldl (fun s ops => (txStep sch s ops).1) State.empty

/-! ### the SetChangeListener calls of one operation -/

def listenerCalls (sch : Schema) (s : State) : Op → List (Id × List Bytes × List Bytes)
  | .create .parent id v _ => C03.listenerCalls s.base (.create id v)
  | .create .child id v _ =>
    if id = [] ∨ hasExt s id then []
    else
      let e := persistCreate v
      let old := s.base.ents.lookup id
      match (do
        let _ ← uniqueAfter true false (evalName old) e.name id s.base.uName
        uniqueAfter true true (evalAlias old) (e.alias.getD []) id s.base.uAlias) with
      | .error _ => []
      | .ok _ =>
        if setChanged (evalRoles old) e.roles && !(evalRoles old).any (· == []) then [(id, evalRoles old, e.roles)] else []
  | .update .child id v _ chk =>
    if id = [] ∨ !hasExt s id then [] else C03.listenerCalls s.base (.update id v (resolveOpt sch chk))
  | .update .parent id v _ chk => C03.listenerCalls s.base (.update id v (resolveOpt sch chk))
  | .delete _ _ => []

/-! ### Render: the canonical bucket dump under a schema -/

def bExt : Bytes := [101, 120, 116]
def bTag : Bytes := [116, 97, 103]

def renderEnt (sch : Schema) (p : Id × Ent) : List Line :=
  [ .bucket (entPath p.1),
    .kv (entPath p.1) sch.name.key (typed p.2.name),
    .kv (entPath p.1) sch.alias.key (match p.2.alias with | none => nilField | some a => typed a),
    .bucket (entPath p.1 ++ [sch.roles.key]) ] ++
  p.2.roles.map (fun r => .kv (entPath p.1 ++ [sch.roles.key]) (typed r) [])

def renderExt (sch : Schema) (p : Id × Bytes) : List Line :=
  [ .bucket (entPath p.1 ++ [bExt]), .kv (entPath p.1 ++ [bExt]) sch.tagKey (typed p.2) ]

def fixedLines (sch : Schema) : List Line :=
  [ .bucket [bU], .bucket [bU, bIndexes], .bucket [bU, bIndexes, bThings],
    .bucket (idxPath sch.name.sym), .bucket (idxPath sch.alias.sym), .bucket (idxPath sch.roles.sym) ]

/-- the part of the dump that is the entity table itself -/
def renderTable (sch : Schema) (hasEnts : Bool) (ents : Map Id Ent) (ext : Map Id Bytes) : List Line :=
  fixedLines sch ++ (if hasEnts then [Line.bucket [bU, bThings]] else []) ++
  ents.entries.flatMap (renderEnt sch) ++ ext.entries.flatMap (renderExt sch)

def Render (sch : Schema) (s : State) : List Line :=
  renderTable sch s.base.hasEnts s.base.ents s.ext ++
  s.base.uName.entries.flatMap (renderUnique sch.name.sym) ++
  s.base.uAlias.entries.flatMap (renderUnique sch.alias.sym) ++
  s.base.sRoles.entries.flatMap (renderSetKey sch.roles.sym)

/-- the schema of Model.lean: every field is known by one name -/
def Schema.plain : Schema := ⟨⟨bName, bName, bName⟩, ⟨bAlias, bAlias, bAlias⟩, ⟨bRoles, bRoles, bRoles⟩, bTag, bTag⟩

end StorageModel.C03.Layered
