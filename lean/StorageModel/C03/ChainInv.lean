import StorageModel.C03.Chain
import StorageModel.C03.LayeredInv
/-
  C03, store chains of any depth: the per-level invariant and its preservation by every operation
  through every level, for every chain depth; rejection lemmas per level.
-/
namespace StorageModel.C03.Chain
open StorageModel StorageModel.C03

/-- the property's wording for the two indexes a level declares -/
structure LevelInv (L : Level) : Prop where
  uniq : UI (·.u) L.data L.uniq
  set : SI (·.s) L.data L.set
  noEmptyKeys : NEK L.set
  uNonEmpty : ∀ id r, L.data.lookup id = some r → r.u ≠ []

theorem levelInv_empty : LevelInv Level.empty := by
  refine ⟨?_, ?_, ?_, ?_⟩
  · intro v id; simp [Level.empty]
  · intro v id; simp [Level.empty]
  · intro v ids h; simp [Level.empty] at h
  · intro id r h; simp [Level.empty] at h

/-- one level's persist + apply step keeps the level's invariant, provided the old values the
    constraints saw are the level's current ones (`hold`) -/
theorem put_inv {L L' : Level} {isCreate : Bool} {old : Option Rec} {id : Id} {new : Rec}
    (hi : LevelInv L) (hold : old = L.data.lookup id) (hc : isCreate = false → old ≠ none)
    (h : L.put isCreate old id new = .ok L') : LevelInv L' := by
  unfold Level.put at h
  simp only [bind, Except.bind, pure, Except.pure] at h
  split at h
  · cases h
  · next uq huq =>
    split at h
    · cases h
    · next st hst =>
      cases h
      cases hold' : L.data.lookup id with
      | none =>
        rw [hold'] at hold; subst hold
        simp only [oldU, oldS] at huq hst
        cases isCreate with
        | false => exact absurd rfl (hc rfl)
        | true =>
          have hs := setAfter_ok (r := (·.s)) (e := new) hi.set hi.noEmptyKeys (oldRoles := [])
            (by intro v; simp [hold']) hst
          refine ⟨uniqueAfter_create_ok (f := (·.u)) (e := new) hi.uniq hold' huq, hs.1, hs.2, ?_⟩
          intro i r hr
          simp only [Map.lookup_insert] at hr
          split at hr
          · cases hr; exact uniqueAfter_create_nonempty huq rfl
          · exact hi.uNonEmpty i r hr
      | some o =>
        rw [hold'] at hold; subst hold
        simp only [oldU, oldS] at huq hst
        have hs := setAfter_ok (r := (·.s)) (e := new) hi.set hi.noEmptyKeys (oldRoles := o.s)
          (by intro v; simp [hold']) hst
        have hne : new.u ≠ [] := by
          cases isCreate with
          | false => exact uniqueAfter_update_nonempty huq (hi.uNonEmpty id o hold')
          | true => exact uniqueAfter_true_nonempty huq
        have hu : UI (·.u) (L.data.insert id new) uq := by
          cases isCreate with
          | false => exact uniqueAfter_update_ok (f := (·.u)) (e := new) hi.uniq hold' huq
          | true => exact uniqueAfter_true_ok (f := (·.u)) (e := new) hi.uniq hold' huq
        refine ⟨hu, hs.1, hs.2, ?_⟩
        intro i r hr
        simp only [Map.lookup_insert] at hr
        split at hr
        · cases hr; exact hne
        · exact hi.uNonEmpty i r hr

/-! ### delete passes -/

/-- the indexes already describe the table without `id` -/
structure LevelGone (L : Level) (id : Id) : Prop where
  uniq : UI (·.u) (L.data.erase id) L.uniq
  set : SI (·.s) (L.data.erase id) L.set
  noEmptyKeys : NEK L.set

theorem pass_first {L L' : Level} {id : Id} {r : Rec} (hi : LevelInv L) (hold : L.data.lookup id = some r)
    (h : L.pass id r = .ok L') : LevelGone L' id ∧ L'.data = L.data ∧ (r.u ≠ [] → L'.uniq.lookup r.u = none) := by
  unfold Level.pass at h
  split at h
  · cases h
  · next st hst =>
    cases h
    have hs := setBeforeDelete_ok (r := (·.s)) hi.set hi.noEmptyKeys hold hst
    exact ⟨⟨uniqueBeforeDelete_ok (f := (·.u)) hi.uniq hold, hs.1, hs.2⟩, rfl,
      fun hne => Layered.uniqueBeforeDelete_lookup_self _ _ hne⟩

theorem pass_again {L L' : Level} {id : Id} {r : Rec} (hg : LevelGone L id) (hl : r.u ≠ [] → L.uniq.lookup r.u = none)
    (h : L.pass id r = .ok L') : LevelGone L' id ∧ L'.data = L.data := by
  unfold Level.pass at h
  split at h
  · cases h
  · next st hst =>
    cases h
    have hs := Layered.setBeforeDelete_gone (r := (·.s)) (ents := L.data.erase id) hg.set hg.noEmptyKeys (by simp) hst
    exact ⟨⟨Layered.uniqueBeforeDelete_gone hg.uniq hl, hs.1, hs.2⟩, rfl⟩

theorem gone_erase {L : Level} {id : Id} (hg : LevelGone L id) (hne : ∀ i r, L.data.lookup i = some r → r.u ≠ []) :
    LevelInv (L.eraseData id) := by
  refine ⟨hg.uniq, hg.set, hg.noEmptyKeys, ?_⟩
  intro i r hr
  simp only [Level.eraseData, Map.lookup_erase] at hr
  split at hr
  · cases hr
  · exact hne i r hr

/-- removing the data of an id the level does not hold changes nothing the invariant sees -/
theorem erase_absent {L : Level} {id : Id} (hi : LevelInv L) (hn : L.data.lookup id = none) : LevelInv (L.eraseData id) := by
  refine ⟨?_, ?_, hi.noEmptyKeys, ?_⟩
  · intro v i
    have := hi.uniq v i
    simp only [Level.eraseData, Map.lookup_erase]
    grind
  · intro v i
    have := hi.set v i
    simp only [Level.eraseData, Map.lookup_erase]
    grind
  · intro i r hr
    simp only [Level.eraseData, Map.lookup_erase] at hr
    split at hr
    · cases hr
    · exact hi.uNonEmpty i r hr

/-! ### the chain -/

/-- what `mapPrefix` does to the level at position j: nothing, or one successful run of `f` -/
theorem mapPrefix_get {f : Nat → Level → Rec → Except Err Level} :
    ∀ (Ls : List Level) (rs : List Rec) (i : Nat) (Ls' : List Level), mapPrefix f i Ls rs = .ok Ls' →
      ∀ j L', Ls'[j]? = some L' → ∃ L, Ls[j]? = some L ∧ (L' = L ∨ ∃ r, f (i + j) L r = .ok L') := by
  intro Ls
  induction Ls with
  | nil =>
    intro rs i Ls' h j L' hj
    cases rs with
    | nil => simp only [mapPrefix, Except.ok.injEq] at h; subst h; simp at hj
    | cons r rs => simp [mapPrefix] at h
  | cons L Ls ih =>
    intro rs i Ls' h j L' hj
    cases rs with
    | nil =>
      simp only [mapPrefix, Except.ok.injEq] at h; subst h
      exact ⟨L', hj, Or.inl rfl⟩
    | cons r rs =>
      simp only [mapPrefix] at h
      split at h
      · cases h
      · next L1 h1 =>
        split at h
        · cases h
        · next Ls1 h2 =>
          cases h
          cases j with
          | zero =>
            simp only [List.getElem?_cons_zero, Option.some.injEq] at hj ⊢
            subst hj
            exact ⟨L, rfl, Or.inr ⟨r, by simpa using h1⟩⟩
          | succ j =>
            simp only [List.getElem?_cons_succ] at hj ⊢
            obtain ⟨L0, hL0, hc⟩ := ih rs (i + 1) Ls1 h2 j L' hj
            refine ⟨L0, hL0, ?_⟩
            rcases hc with hc | ⟨r', hr'⟩
            · exact Or.inl hc
            · exact Or.inr ⟨r', by rw [show i + (j + 1) = i + 1 + j by omega]; exact hr'⟩

/-- the first error in level order is the operation's error -/
theorem mapPrefix_error {f : Nat → Level → Rec → Except Err Level} {e : Err} :
    ∀ (j : Nat) (Ls : List Level) (rs : List Rec) (i : Nat),
      (∀ k, k < j → ∀ L r, Ls[k]? = some L → rs[k]? = some r → ∃ L', f (i + k) L r = .ok L') →
      ∀ L r, Ls[j]? = some L → rs[j]? = some r → f (i + j) L r = .error e → mapPrefix f i Ls rs = .error e := by
  intro j
  induction j with
  | zero =>
    intro Ls rs i _ L r hL hr hf
    cases Ls with
    | nil => simp at hL
    | cons L0 Ls =>
      cases rs with
      | nil => simp at hr
      | cons r0 rs =>
        simp only [List.getElem?_cons_zero, Option.some.injEq] at hL hr
        subst hL; subst hr
        simp only [Nat.add_zero] at hf
        simp [mapPrefix, hf]
  | succ j ih =>
    intro Ls rs i hok L r hL hr hf
    cases Ls with
    | nil => simp at hL
    | cons L0 Ls =>
      cases rs with
      | nil => simp at hr
      | cons r0 rs =>
        simp only [List.getElem?_cons_succ] at hL hr
        obtain ⟨L0', h0⟩ := hok 0 (by omega) L0 r0 (by simp) (by simp)
        simp only [Nat.add_zero] at h0
        have hrest := ih Ls rs (i + 1)
          (fun k hk L r hL hr => by
            have := hok (k + 1) (by omega) L r (by simpa using hL) (by simpa using hr)
            rwa [show i + (k + 1) = i + 1 + k by omega] at this)
          L r hL hr (by rwa [show i + (j + 1) = i + 1 + j by omega] at hf)
        simp [mapPrefix, h0, hrest]

/-- the invariant of the level at position j (vacuous beyond the chain's depth) -/
def LInvAt (s : State) (j : Nat) : Prop := ∀ L, s.levels[j]? = some L → LevelInv L

/-- all levels -/
def Inv (s : State) : Prop := ∀ j, LInvAt s j

/-- level j does not hold the id -/
def Absent (s : State) (j : Nat) (id : Id) : Prop := ∀ L, s.levels[j]? = some L → L.data.lookup id = none

/-- the parent-exists test of `Create` through level `n - 1` -/
def capOf (s : State) (n : Nat) (id : Id) : Bool := decide (2 ≤ n) && levelHas s.levels (n - 2) id

/-- what level j needs of an operation for the code to keep its invariant:
      * a create captures the old values only when the IMMEDIATE parent level holds the id; otherwise
        level j must not hold the id yet (a create through a grandchild store over an entity the root
        holds but the child does not is NOT covered: `uncovered_create_breaks_root` below);
      * a delete visits the constraints of levels 0 and 1 only: a deeper level must not hold the id
        (`deep_delete_leaves_entries` below) -/
def Safe (s : State) (j : Nat) : Op → Prop
  | .create id recs => capOf s recs.length id = true ∨ Absent s j id
  | .update _ _ _ => True
  | .delete id => j < 2 ∨ Absent s j id

theorem inv_create_at {s s' : State} {id : Id} {recs : List Rec} {j : Nat}
    (hs : Safe s j (.create id recs)) (hi : LInvAt s j) (h : create s id recs = .ok s') : LInvAt s' j := by
  unfold create at h
  split at h
  · cases h
  · split at h
    · cases h
    · split at h
      · cases h
      · simp only [] at h
        split at h
        · cases h
        · next Ls hLs =>
          cases h
          intro L' hL'
          obtain ⟨L, hL, hc⟩ := mapPrefix_get _ _ _ _ hLs j L' hL'
          rcases hc with rfl | ⟨r, hr⟩
          · exact hi _ hL
          · unfold createLevel at hr
            refine put_inv (hi L hL) ?_ (by simp) hr
            rcases hs with hcap | habs
            · simp only [capOf] at hcap; simp [hcap]
            · simp [habs L hL]

theorem inv_updateAt_at {s s' : State} {id : Id} {recs : List Rec} {chk : Option (List Sel)} {j : Nat}
    (hi : LInvAt s j) (h : updateAt s id recs chk = .ok s') : LInvAt s' j := by
  unfold updateAt at h
  split at h
  · cases h
  · split at h
    · cases h
    · split at h
      · cases h
      · split at h
        · cases h
        · next Ls hLs =>
          cases h
          intro L' hL'
          obtain ⟨L, hL, hc⟩ := mapPrefix_get _ _ _ _ hLs j L' hL'
          rcases hc with rfl | ⟨r, hr⟩
          · exact hi _ hL
          · unfold updateLevel at hr
            split at hr
            · cases hr
            · next o ho => exact put_inv (hi L hL) ho.symm (by simp) hr

theorem eraseData_at {deep : List Level} {id : Id} {j : Nat} {L' : Level}
    (h : (deep.map (·.eraseData id))[j]? = some L') : ∃ L, deep[j]? = some L ∧ L' = L.eraseData id := by
  simp only [List.getElem?_map, Option.map_eq_some_iff] at h
  obtain ⟨L, hL, rfl⟩ := h
  exact ⟨L, hL, rfl⟩

theorem inv_delete_at {s s' : State} {id : Id} {j : Nat}
    (hs : Safe s j (.delete id)) (hi : LInvAt s j) (h : delete s id = .ok s') : LInvAt s' j := by
  unfold delete at h
  split at h
  · cases h
  · split at h
    · cases h
    · next L0 rest hlev =>
      split at h
      · cases h
      · next r0 hr0 =>
        have hdeep : ∀ (deep : List Level) (k : Nat) (L' : Level), s.levels = L0 :: (s.levels.drop 1) →
            j = k + 2 → (∀ L, deep[k]? = some L → s.levels[j]? = some L) →
            (deep.map (·.eraseData id))[k]? = some L' → LevelInv L' := by
          intro deep k L' _ hj hsub hL'
          obtain ⟨L, hL, rfl⟩ := eraseData_at hL'
          have hLj := hsub L hL
          rcases hs with hlt | habs
          · omega
          · exact erase_absent (hi L hLj) (habs L hLj)
        split at h
        · -- a chain of one level
          simp only [bind, Except.bind, pure, Except.pure] at h
          split at h
          · cases h
          · next a ha =>
            cases h
            intro L' hL'
            cases j with
            | zero =>
              simp only [List.getElem?_cons_zero, Option.some.injEq] at hL'
              subst hL'
              obtain ⟨hg, hd, _⟩ := pass_first (hi L0 (by simp [hlev])) hr0 ha
              exact gone_erase hg (by rw [hd]; exact (hi L0 (by simp [hlev])).uNonEmpty)
            | succ j => simp at hL'
        · next L1 deep =>
          split at h
          · -- no level-1 data
            next hr1 =>
            simp only [bind, Except.bind, pure, Except.pure] at h
            split at h
            · cases h
            · next a ha =>
              cases h
              intro L' hL'
              match j, hs, hi, hdeep with
              | 0, _, hi, _ =>
                simp only [List.getElem?_cons_zero, Option.some.injEq] at hL'
                subst hL'
                obtain ⟨hg, hd, _⟩ := pass_first (hi L0 (by simp [hlev])) hr0 ha
                exact gone_erase hg (by rw [hd]; exact (hi L0 (by simp [hlev])).uNonEmpty)
              | 1, _, hi, _ =>
                simp only [List.getElem?_cons_succ, List.getElem?_cons_zero, Option.some.injEq] at hL'
                subst hL'
                exact hi L1 (by simp [hlev])
              | k + 2, _, _, hdeep =>
                simp only [List.getElem?_cons_succ] at hL'
                exact hdeep deep k L' (by simp [hlev]) rfl (by intro L hL; simp [hlev, hL]) hL'
          · next r1 hr1 =>
            simp only [bind, Except.bind, pure, Except.pure] at h
            split at h
            · cases h
            · next a ha =>
              split at h
              · cases h
              · next b hb =>
                split at h
                · cases h
                · next c hc =>
                  cases h
                  intro L' hL'
                  match j, hs, hi, hdeep with
                  | 0, _, hi, _ =>
                    simp only [List.getElem?_cons_zero, Option.some.injEq] at hL'
                    subst hL'
                    obtain ⟨hg, hd, hl⟩ := pass_first (hi L0 (by simp [hlev])) hr0 ha
                    obtain ⟨hg2, hd2⟩ := pass_again hg hl hc
                    exact gone_erase hg2 (by rw [hd2, hd]; exact (hi L0 (by simp [hlev])).uNonEmpty)
                  | 1, _, hi, _ =>
                    simp only [List.getElem?_cons_succ, List.getElem?_cons_zero, Option.some.injEq] at hL'
                    subst hL'
                    obtain ⟨hg, hd, _⟩ := pass_first (hi L1 (by simp [hlev])) hr1 hb
                    exact gone_erase hg (by rw [hd]; exact (hi L1 (by simp [hlev])).uNonEmpty)
                  | k + 2, _, _, hdeep =>
                    simp only [List.getElem?_cons_succ] at hL'
                    exact hdeep deep k L' (by simp [hlev]) rfl (by intro L hL; simp [hlev, hL]) hL'

theorem inv_stepRaw_at {s s' : State} {op : Op} {j : Nat} (hs : Safe s j op) (hi : LInvAt s j)
    (h : stepRaw s op = .ok s') : LInvAt s' j := by
  cases op with
  | create id recs => exact inv_create_at hs hi h
  | update id recs chk => exact inv_updateAt_at hi h
  | delete id => exact inv_delete_at hs hi h

/-- every operation of the transaction is safe for level j in the state it runs in -/
def SafeOps (j : Nat) : State → List Op → Prop
  | _, [] => True
  | s, op :: rest => Safe s j op ∧ match stepRaw s op with
    | .ok s' => SafeOps j s' rest
    | .error _ => True

theorem inv_applyOps_at {j : Nat} : ∀ (ops : List Op) (s s' : State) (i : Nat), SafeOps j s ops → LInvAt s j →
    applyOps s ops i = .ok s' → LInvAt s' j := by
  intro ops
  induction ops with
  | nil => intro s s' i _ hi h; simp only [applyOps, Except.ok.injEq] at h; subst h; exact hi
  | cons op rest ih =>
    intro s s' i hs hi h
    simp only [applyOps] at h
    simp only [SafeOps] at hs
    split at h
    · next s1 h1 =>
      rw [h1] at hs
      exact ih s1 s' (i + 1) hs.2 (inv_stepRaw_at hs.1 hi h1) h
    · cases h

theorem inv_txStep_at {j : Nat} {s : State} (ops : List Op) (hs : SafeOps j s ops) (hi : LInvAt s j) :
    LInvAt (txStep s ops).1 j := by
  unfold txStep
  split
  · next s' h => exact inv_applyOps_at ops s s' 0 hs hi h
  · exact hi

/-- every transaction of the history is safe for level j -/
def SafeTxs (j : Nat) : State → List (List Op) → Prop
  | _, [] => True
  | s, ops :: rest => SafeOps j s ops ∧ SafeTxs j (txStep s ops).1 rest

theorem inv_fold_at {j : Nat} : ∀ (txs : List (List Op)) (s : State), SafeTxs j s txs → LInvAt s j →
    LInvAt (txs.foldl (fun s ops => (txStep s ops).1) s) j := by
  intro txs
  induction txs with
  | nil => intro s _ hi; exact hi
  | cons ops rest ih => intro s hs hi; exact ih _ hs.2 (inv_txStep_at ops hs.1 hi)

theorem inv_empty (depth : Nat) : Inv (State.empty depth) := by
  intro j L hL
  simp only [State.empty] at hL
  have : L ∈ List.replicate depth Level.empty := List.mem_of_getElem? hL
  rw [List.eq_of_mem_replicate this]
  exact levelInv_empty

/-! ### rejection at a level -/

theorem uniqueAfter_dup {c : Bool} {oldu new : Bytes} {id other : Id} {idx : Map Bytes Id}
    (h1 : idx.lookup new = some other) (hne : new ≠ []) (hon : oldu ≠ new) :
    uniqueAfter c false oldu new id idx = .error .dup := by
  unfold uniqueAfter
  have hon' : ¬ new = oldu := fun h => hon h.symm
  by_cases ho : oldu = []
  · simp [hne, ho, h1]
  · simp [hon, hne, ho, h1, hon', Map.lookup_erase]

theorem uniqueAfter_empty {c : Bool} {oldu : Bytes} {id : Id} {idx : Map Bytes Id} (h : c = false → oldu ≠ []) :
    uniqueAfter c false oldu [] id idx = .error .nullNotAllowed := by
  unfold uniqueAfter
  cases c with
  | false => simp [h rfl]
  | true => simp

/-- the level's new unique value is held by another entity of the level -/
theorem put_dup {L : Level} {isCreate : Bool} {old : Option Rec} {id other : Id} {new r' : Rec}
    (hi : LevelInv L) (hold : old = L.data.lookup id) (hne : new.u ≠ [])
    (ho : L.data.lookup other = some r') (hoid : other ≠ id) (hu : r'.u = new.u) :
    L.put isCreate old id new = .error .dup := by
  have h1 := (hi.uniq new.u other).2 ⟨hne, r', ho, hu⟩
  have hon : (oldU old) ≠ new.u := by
    cases old with
    | none => exact fun h => hne h.symm
    | some o =>
      intro heq
      have h2 := (hi.uniq new.u id).2 ⟨hne, o, hold.symm, heq⟩
      rw [h1] at h2; cases h2; exact hoid rfl
  unfold Level.put
  simp only [bind, Except.bind]
  rw [uniqueAfter_dup h1 hne hon]

/-- the level's new unique value is empty -/
theorem put_empty {L : Level} {isCreate : Bool} {old : Option Rec} {id : Id} {new : Rec}
    (hi : LevelInv L) (hold : old = L.data.lookup id) (hc : isCreate = false → old ≠ none) (hne : new.u = []) :
    L.put isCreate old id new = .error .nullNotAllowed := by
  have hon : isCreate = false → (oldU old) ≠ [] := by
    intro hcf
    cases old with
    | none => exact absurd rfl (hc hcf)
    | some o => exact hi.uNonEmpty id o hold.symm
  unfold Level.put
  simp only [bind, Except.bind]
  rw [hne, uniqueAfter_empty hon]

end StorageModel.C03.Chain
