import StorageModel.C03.Refine
/-
  C03: on a consistent state the bucket dump of the model is the dump derived from the entity
  table alone (same set of lines).
-/
namespace StorageModel.C03
open StorageModel

theorem mem_uniqueLines (field : Bytes) (idx : Map Bytes Id) (l : Line) :
    l ∈ idx.entries.flatMap (renderUnique field) ↔ ∃ v id, idx.lookup v = some id ∧ l = .kv (idxPath field) v id := by
  simp only [List.mem_flatMap, renderUnique, List.mem_singleton, Prod.exists, Map.mem_entries_iff]

theorem mem_setLines (field : Bytes) (idx : Map Bytes (List Id)) (l : Line) :
    l ∈ idx.entries.flatMap (renderSetKey field) ↔
      ∃ v ids, idx.lookup v = some ids ∧
        (l = .bucket (idxPath field ++ [v]) ∨ ∃ i, i ∈ ids ∧ l = .kv (idxPath field ++ [v]) (typed i) []) := by
  simp only [List.mem_flatMap, renderSetKey, List.mem_cons, List.mem_map, Prod.exists, Map.mem_entries_iff]
  constructor
  · rintro ⟨v, ids, h, h2 | ⟨i, hi, rfl⟩⟩
    · exact ⟨v, ids, h, Or.inl h2⟩
    · exact ⟨v, ids, h, Or.inr ⟨i, hi, rfl⟩⟩
  · rintro ⟨v, ids, h, h2 | ⟨i, hi, rfl⟩⟩
    · exact ⟨v, ids, h, Or.inl h2⟩
    · exact ⟨v, ids, h, Or.inr ⟨i, hi, rfl⟩⟩

theorem mem_specUnique (f : Ent → Bytes) (field : Bytes) (ents : Map Id Ent) (l : Line) :
    l ∈ (ents.entries.filterMap (fun p => if f p.2 ≠ [] then some (f p.2, p.1) else none)).flatMap (renderUnique field) ↔
      ∃ i e, ents.lookup i = some e ∧ f e ≠ [] ∧ l = .kv (idxPath field) (f e) i := by
  simp only [List.mem_flatMap, List.mem_filterMap, renderUnique, List.mem_singleton, Prod.exists, Map.mem_entries_iff]
  constructor
  · rintro ⟨v, id, ⟨i, e, hl, hite⟩, rfl⟩
    by_cases hz : f e = []
    · simp [hz] at hite
    · simp only [ne_eq, hz, not_false_eq_true, if_true, Option.some.injEq, Prod.mk.injEq] at hite
      obtain ⟨rfl, rfl⟩ := hite
      exact ⟨i, e, hl, hz, rfl⟩
  · rintro ⟨i, e, hl, hz, rfl⟩
    exact ⟨f e, i, ⟨i, e, hl, by simp [hz]⟩, rfl⟩

theorem uniqueLines_eq {f : Ent → Bytes} {field : Bytes} {ents : Map Id Ent} {idx : Map Bytes Id}
    (hui : UI f ents idx) (l : Line) :
    l ∈ idx.entries.flatMap (renderUnique field) ↔
    l ∈ (ents.entries.filterMap (fun p => if f p.2 ≠ [] then some (f p.2, p.1) else none)).flatMap (renderUnique field) := by
  rw [mem_uniqueLines, mem_specUnique]
  constructor
  · rintro ⟨v, id, h, rfl⟩
    obtain ⟨hv, e, he, rfl⟩ := (hui v id).1 h
    exact ⟨id, e, he, hv, rfl⟩
  · rintro ⟨i, e, he, hz, rfl⟩
    exact ⟨f e, i, (hui (f e) i).2 ⟨hz, e, he, rfl⟩, rfl⟩

theorem mem_rolesIndex (ents : Map Id Ent) (v : Bytes) (ids : List Id) :
    (v, ids) ∈ Spec.rolesIndex ents ↔
      (∃ i e, ents.lookup i = some e ∧ v ∈ e.roles) ∧
      ids = (ents.entries.filter (fun p => decide (v ∈ p.2.roles))).map (·.1) := by
  simp only [Spec.rolesIndex, List.mem_map, List.mem_flatMap, Prod.exists, Map.mem_entries_iff, Prod.mk.injEq]
  constructor
  · rintro ⟨w, ⟨i, e, hl, hm⟩, rfl, rfl⟩; exact ⟨⟨i, e, hl, hm⟩, rfl⟩
  · rintro ⟨⟨i, e, hl, hm⟩, rfl⟩; exact ⟨v, ⟨i, e, hl, hm⟩, rfl, rfl⟩

theorem mem_rolesIds (ents : Map Id Ent) (v : Bytes) (i : Id) :
    i ∈ (ents.entries.filter (fun p => decide (v ∈ p.2.roles))).map (·.1) ↔ ∃ e, ents.lookup i = some e ∧ v ∈ e.roles := by
  simp only [List.mem_map, List.mem_filter, decide_eq_true_eq, Prod.exists, Map.mem_entries_iff]
  constructor
  · rintro ⟨a, e, ⟨hl, hm⟩, rfl⟩; exact ⟨e, hl, hm⟩
  · rintro ⟨e, hl, hm⟩; exact ⟨i, e, ⟨hl, hm⟩, rfl⟩

theorem setLines_eq {ents : Map Id Ent} {idx : Map Bytes (List Id)} (hsi : SI (·.roles) ents idx) (hnek : NEK idx) (l : Line) :
    l ∈ idx.entries.flatMap (renderSetKey bRoles) ↔ l ∈ (Spec.rolesIndex ents).flatMap (renderSetKey bRoles) := by
  rw [mem_setLines]
  simp only [List.mem_flatMap, renderSetKey, List.mem_cons, List.mem_map, Prod.exists, mem_rolesIndex]
  constructor
  · rintro ⟨v, ids, hl, hline⟩
    have hne := hnek v ids hl
    obtain ⟨i0, hi0⟩ := List.exists_mem_of_ne_nil ids hne
    have h0 := (hsi v i0).1 (by simp [hl, hi0])
    refine ⟨v, _, ⟨⟨i0, h0⟩, rfl⟩, ?_⟩
    rcases hline with h | ⟨i, hi, rfl⟩
    · exact Or.inl h
    · refine Or.inr ⟨i, ?_, rfl⟩
      exact (mem_rolesIds ents v i).2 ((hsi v i).1 (by simp [hl, hi]))
  · rintro ⟨v, ids', ⟨⟨i0, e0, h0, hm0⟩, rfl⟩, hline⟩
    have hmem := (hsi v i0).2 ⟨e0, h0, hm0⟩
    cases hl : idx.lookup v with
    | none => simp [hl] at hmem
    | some ids =>
      refine ⟨v, ids, hl, ?_⟩
      rcases hline with h | ⟨i, hi, rfl⟩
      · exact Or.inl h
      · refine Or.inr ⟨i, ?_, rfl⟩
        have := (hsi v i).2 ((mem_rolesIds ents v i).1 hi)
        simpa [hl] using this

theorem render_eq_spec_lines {s : State} (hi : Inv s) (l : Line) : l ∈ Render s ↔ l ∈ Spec.render (abs s) := by
  unfold Render Spec.render abs Spec.nameIndex Spec.aliasIndex
  simp only [List.mem_append]
  rw [uniqueLines_eq (f := (·.name)) hi.uName, uniqueLines_eq (f := fun e => e.alias.getD []) hi.uAlias,
    setLines_eq hi.sRoles hi.noEmptyKeys]

end StorageModel.C03
