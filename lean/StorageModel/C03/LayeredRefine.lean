import StorageModel.C03.LayeredInv
/-
  C03, enlarged model: the engine model refines the specification of LayeredSpec.lean.
-/
namespace StorageModel.C03.Layered
open StorageModel StorageModel.C03

/-! ### `uniqueIndex.ProcessAfterUpdate` in a create context with a captured old value -/

theorem uniqueAfter_true_err {E : Type} {f : E → Bytes} {ents : Map Id E} {idx : Map Bytes Id} {id : Id} {old e : E}
    {nullable : Bool} {x : Err} (hui : UI f ents idx) (hold : ents.lookup id = some old)
    (h : uniqueAfter true nullable (f old) (f e) id idx = .error x) :
    (x = .nullNotAllowed ∧ f e = [] ∧ nullable = false) ∨ (x = .dup ∧ f e ≠ [] ∧ HeldByOther f ents id (f e)) := by
  unfold uniqueAfter at h
  simp only [Bool.not_true, Bool.false_and, Bool.false_eq_true, if_false, ne_eq] at h
  have h2 := hui (f e)
  unfold HeldByOther
  by_cases ho : f old = []
  · simp only [ho, not_true_eq_false, if_false] at h
    split at h
    · split at h
      · next i hi => cases h; right; refine ⟨rfl, by assumption, ?_⟩; grind
      · cases h
    · split at h
      · cases h; left; simp_all
      · cases h
  · simp only [ho, not_false_eq_true, if_true] at h
    split at h
    · split at h
      · next i hi => cases h; right; refine ⟨rfl, by assumption, ?_⟩; simp only [Map.lookup_erase] at hi; grind
      · cases h
    · split at h
      · cases h; left; simp_all
      · cases h

theorem uniqueAfter_true_okc {E : Type} {f : E → Bytes} {ents : Map Id E} {idx idx' : Map Bytes Id} {id : Id} {old e : E}
    {nullable : Bool} (hui : UI f ents idx) (hold : ents.lookup id = some old)
    (h : uniqueAfter true nullable (f old) (f e) id idx = .ok idx') :
    (f e = [] ∧ nullable = true) ∨ (f e ≠ [] ∧ ¬ HeldByOther f ents id (f e)) := by
  unfold uniqueAfter at h
  simp only [Bool.not_true, Bool.false_and, Bool.false_eq_true, if_false, ne_eq] at h
  have h2 := hui (f e)
  unfold HeldByOther
  by_cases ho : f old = []
  · simp only [ho, not_true_eq_false, if_false] at h
    split at h
    · split at h
      · cases h
      · next hn =>
        right; refine ⟨by assumption, ?_⟩
        rintro ⟨i, e', _, hl, hf⟩
        have := (h2 i).2 ⟨by assumption, e', hl, hf⟩
        simp_all
    · split at h
      · cases h
      · left; simp_all
  · simp only [ho, not_false_eq_true, if_true] at h
    split at h
    · split at h
      · cases h
      · next hn =>
        right; refine ⟨by assumption, ?_⟩
        simp only [Map.lookup_erase] at hn
        rintro ⟨i, e', hne, hl, hf⟩
        have h5 := (h2 i).2 ⟨by assumption, e', hl, hf⟩
        split at hn
        · next heq =>
          have h6 := (h2 id).2 ⟨by assumption, old, hold, heq.symm⟩
          rw [h5] at h6; cases h6; exact hne rfl
        · simp_all
    · split at h
      · cases h
      · left; simp_all

/-- a child-store create over an existing plain parent entity against the spec's verdict -/
theorem afterUpdate_recreate_spec {s : C03.State} {id : Id} {old e : Ent} (hi : C03.Inv s)
    (hold : s.ents.lookup id = some old) :
    match afterUpdate true (capture s id) { s with hasEnts := true, ents := s.ents.insert id e } id with
    | .ok s' => Acceptable s.ents id e ∧ s'.hasEnts = true ∧ s'.ents = s.ents.insert id e
    | .error x => x ∈ C03.Spec.violations s.ents id e := by
  simp only [afterUpdate, capture, hold, bind, Except.bind, Map.lookup_insert, if_true, evalName, evalAlias,
    evalRoles, pure, Except.pure]
  cases hun : uniqueAfter true false old.name e.name id s.uName with
  | error x =>
    simp only
    rcases uniqueAfter_true_err (f := (·.name)) hi.uName hold hun with ⟨rfl, h1, _⟩ | ⟨rfl, h1, h2⟩
    · exact (mem_violations _ _ _ _).2 (Or.inl ⟨rfl, h1⟩)
    · exact (mem_violations _ _ _ _).2 (Or.inr (Or.inl ⟨rfl, h1, h2⟩))
  | ok un =>
    simp only
    have hnc := uniqueAfter_true_okc (f := (·.name)) hi.uName hold hun
    have hne := uniqueAfter_true_nonempty hun
    cases hua : uniqueAfter true true (old.alias.getD []) (e.alias.getD []) id s.uAlias with
    | error x =>
      simp only
      rcases uniqueAfter_true_err (f := fun e => e.alias.getD []) hi.uAlias hold hua with ⟨_, _, h3⟩ | ⟨rfl, h1, h2⟩
      · cases h3
      · exact (mem_violations _ _ _ _).2 (Or.inr (Or.inr (Or.inl ⟨rfl, h1, h2⟩)))
    | ok ua =>
      simp only
      have hac := uniqueAfter_true_okc (f := fun e => e.alias.getD []) hi.uAlias hold hua
      cases hsr : setAfter old.roles e.roles id s.sRoles with
      | error x =>
        simp only
        have := setAfter_err hsr (hi.rolesNonEmpty id old hold)
        exact (mem_violations _ _ _ _).2 (Or.inr (Or.inr (Or.inr ⟨this.1, this.2⟩)))
      | ok sr =>
        simp only
        have hre := setAfter_ok_nonempty hsr (hi.rolesNonEmpty id old hold)
        refine ⟨⟨hne, ?_, ?_, hre⟩, by simp⟩
        · rcases hnc with ⟨h, _⟩ | ⟨_, h⟩
          · exact absurd h hne
          · exact h
        · rcases hac with ⟨h, _⟩ | ⟨_, h⟩
          · exact Or.inl h
          · exact Or.inr h

/-- abstraction: forget the indexes -/
def abs (s : State) : Spec.SState := ⟨C03.abs s.base, s.ext⟩

@[simp] theorem hasExt_abs (s : State) (id : Id) : Spec.hasExt (abs s) id = hasExt s id := rfl

/-- the model's index protocol and the spec's `putBoth` agree once the protocol is characterised by
    the spec's acceptance condition -/
theorem put_agrees {s : State} {id : Id} {e : Ent} {hb : Bool} {x : Bytes} {r : Except Err C03.State}
    (h : match r with
      | .ok s' => Acceptable s.base.ents id e ∧ s'.hasEnts = hb ∧ s'.ents = s.base.ents.insert id e
      | .error y => y ∈ C03.Spec.violations s.base.ents id e) :
    match (match r with
        | .ok b => (Except.ok ⟨b, s.ext.insert id x⟩ : Except Err State)
        | .error y => .error y), Spec.putBoth (abs s) id e hb x with
    | .ok s', .ok t' => abs s' = t'
    | .error y, .error es => y ∈ es
    | _, _ => False := by
  cases r with
  | ok s' =>
    simp only at h
    have hv := (violations_nil_iff _ _ _).2 h.1
    simp [Spec.putBoth, C03.Spec.put, abs, C03.abs, hv, h.2.1, h.2.2]
  | error y =>
    simp only at h
    cases hv : C03.Spec.violations s.base.ents id e with
    | nil => rw [hv] at h; cases h
    | cons a b => simp only [Spec.putBoth, C03.Spec.put, abs, C03.abs, hv]; simpa [hv] using h

theorem updateChild_refines {sch : Schema} {s : State} (hi : Inv s) (id : Id) (v : Vals) (tag : Bytes)
    (chk : Option (List Bytes)) :
    match updateChild sch s id v tag chk, Spec.updateBoth sch (abs s) id v tag chk with
    | .ok s', .ok t' => abs s' = t'
    | .error e, .error es => e ∈ es
    | _, _ => False := by
  unfold updateChild Spec.updateBoth
  by_cases hid : id = []
  · simp [hid]
  · simp only [hid, if_false, hasExt_abs]
    by_cases hx : hasExt s id = true
    · simp only [hx, Bool.not_true, Bool.false_eq_true, if_false]
      have hsome : (s.base.ents.lookup id).isSome = true := by
        simp only [hasExt, Bool.and_eq_true] at hx; exact hx.1
      cases hold : s.base.ents.lookup id with
      | none => simp [hold] at hsome
      | some old =>
        have hspec := afterUpdate_update_spec (e := persist old v (resolveOpt sch chk)) hi.base hold
        have hupd : C03.update s.base id v (resolveOpt sch chk) =
            afterUpdate false (capture s.base id)
              { s.base with ents := s.base.ents.insert id (persist old v (resolveOpt sch chk)) } id := by
          simp [C03.update, hid, hold]
        rw [hupd]
        simp only [abs, C03.abs, hold]
        exact put_agrees (s := s) (x := if tagSelected sch chk then tag else (s.ext.lookup id).getD []) hspec
    · simp [hx]

/-- a pass of `ProcessBeforeDelete` succeeds on an entity without an empty set value and touches
    neither the entity table nor the bucket flag -/
theorem pass_ok {b : C03.State} {e : Ent} (id : Id) (hr : [] ∉ e.roles) :
    ∃ b', passBeforeDelete b e id = .ok b' ∧ b'.ents = b.ents ∧ b'.hasEnts = b.hasEnts := by
  simp [passBeforeDelete, setBeforeDelete, evalRoles, hr]

/-- **Refinement.**  On a consistent state the model's operation and the spec's operation agree:
    both succeed with the same entity table (and child data), or both fail and the model's error
    is one of the errors the spec allows. -/
theorem stepRaw_refines {sch : Schema} {s : State} (hi : Inv s) (op : Op) :
    match stepRaw sch s op, Spec.step sch (abs s) op with
    | .ok s', .ok t' => abs s' = t'
    | .error e, .error es => e ∈ es
    | _, _ => False := by
  cases op with
  | create via id v tag =>
    cases via with
    | parent =>
      simp only [stepRaw, create, Spec.step]
      have h := C03.stepRaw_refines hi.base (C03.Op.create id v)
      simp only [C03.stepRaw] at h
      show match (match C03.create s.base id v with
          | .ok b => (Except.ok { s with base := b } : Except Err State)
          | .error e => .error e),
        (match C03.Spec.step (C03.abs s.base) (C03.Op.create id v) with
          | .ok b => (Except.ok { abs s with base := b } : Except (List Err) Spec.SState)
          | .error es => .error es) with
        | .ok s', .ok t' => abs s' = t'
        | .error e, .error es => e ∈ es
        | _, _ => False
      generalize C03.create s.base id v = r at h
      generalize C03.Spec.step (C03.abs s.base) (C03.Op.create id v) = q at h
      cases r <;> cases q <;> simp_all [abs]
    | child =>
      simp only [stepRaw, create, createChild, Spec.step, hasExt_abs]
      by_cases hid : id = []
      · simp [hid]
      · simp only [hid, if_false]
        by_cases hx : hasExt s id = true
        · simp [hx]
        · simp only [hx, Bool.false_eq_true, if_false]
          cases hold : s.base.ents.lookup id with
          | none =>
            simp only [Option.isSome_none, Bool.false_eq_true, if_false]
            exact put_agrees (s := s) (x := tag) (afterUpdate_create_spec (e := persistCreate v) hi.base hold)
          | some old =>
            simp only [Option.isSome_some, if_true]
            exact put_agrees (s := s) (x := tag) (afterUpdate_recreate_spec (e := persistCreate v) hi.base hold)
  | update via id v tag chk =>
    cases via with
    | child => exact updateChild_refines hi id v tag chk
    | parent =>
      simp only [stepRaw, update, Spec.step, hasExt_abs]
      by_cases hx : hasExt s id = true
      · simp only [hx, if_true]
        exact updateChild_refines hi id v _ chk
      · simp only [hx, Bool.false_eq_true, if_false]
        have h := C03.stepRaw_refines hi.base (C03.Op.update id v (resolveOpt sch chk))
        simp only [C03.stepRaw] at h
        show match (match C03.update s.base id v (resolveOpt sch chk) with
            | .ok b => (Except.ok { s with base := b } : Except Err State)
            | .error e => .error e),
          (match C03.Spec.step (C03.abs s.base) (C03.Op.update id v (resolveOpt sch chk)) with
            | .ok b => (Except.ok { abs s with base := b } : Except (List Err) Spec.SState)
            | .error es => .error es) with
          | .ok s', .ok t' => abs s' = t'
          | .error e, .error es => e ∈ es
          | _, _ => False
        generalize C03.update s.base id v (resolveOpt sch chk) = r at h
        generalize C03.Spec.step (C03.abs s.base) (C03.Op.update id v (resolveOpt sch chk)) = q at h
        cases r <;> cases q <;> simp_all [abs]
  | delete via id =>
    simp only [stepRaw, delete, Spec.step, C03.Spec.step, abs, C03.abs]
    by_cases hid : id = []
    · simp [hid]
    · simp only [hid, if_false]
      cases hold : s.base.ents.lookup id with
      | none => simp
      | some e =>
        have hr : [] ∉ e.roles := hi.base.rolesNonEmpty id e hold
        simp only
        by_cases hx : (s.ext.lookup id).isSome = true
        · obtain ⟨b1, hb1, he1, hh1⟩ := pass_ok (b := s.base) id hr
          obtain ⟨b2, hb2, he2, hh2⟩ := pass_ok (b := b1) id hr
          simp [hx, hb1, hb2, he1, he2, hh1, hh2]
        · obtain ⟨b2, hb2, he2, hh2⟩ := pass_ok (b := s.base) id hr
          simp [hx, hb2, he2, hh2]

end StorageModel.C03.Layered
