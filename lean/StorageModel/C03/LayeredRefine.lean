import StorageModel.C03.LayeredInv
/-
  C03, enlarged model: the engine model refines the specification of LayeredSpec.lean, for every
  schema (base path, names, registered indexes, registration order).
-/
namespace StorageModel.C03.Layered
open StorageModel StorageModel.C03
open StorageModel.C03.Layered.Spec (vName vAlias vRoles)

theorem heldByOther_iff (f : Ent → Bytes) (ents : Map Id Ent) (id : Id) (v : Bytes) :
    Spec.heldByOther f ents id v = true ↔ HeldByOther f ents id v := by
  unfold Spec.heldByOther HeldByOther
  simp only [List.any_eq_true, Bool.and_eq_true, decide_eq_true_eq, Prod.exists, Map.mem_entries_iff]
  constructor
  · rintro ⟨i, e, hl, hne, hf⟩; exact ⟨i, e, hne, hl, hf⟩
  · rintro ⟨i, e, hne, hl, hf⟩; exact ⟨i, e, hl, hne, hf⟩

theorem mem_ite_singleton {p : Prop} [Decidable p] {a x : Err} : x ∈ (if p then [a] else []) ↔ p ∧ x = a := by
  split <;> simp_all

theorem mem_violations (sch : Schema) (ents : Map Id Ent) (id : Id) (e : Ent) (x : Err) :
    x ∈ Spec.violations sch ents id e ↔ Listed sch ents id e x := by
  unfold Spec.violations Listed
  simp only [List.mem_append, mem_ite_singleton, heldByOther_iff]
  constructor
  · rintro ((((⟨⟨h1, h2⟩, rfl⟩ | ⟨⟨h1, h2⟩, rfl⟩) | ⟨⟨h1, h2⟩, rfl⟩) | ⟨h1, rfl⟩) | ⟨h1, rfl⟩)
    · exact Or.inl ⟨rfl, h1, h2⟩
    · exact Or.inr (Or.inl ⟨rfl, h1, h2⟩)
    · exact Or.inr (Or.inr (Or.inl ⟨rfl, h1, h2⟩))
    · exact Or.inr (Or.inr (Or.inr (Or.inl ⟨rfl, h1⟩)))
    · exact Or.inr (Or.inr (Or.inr (Or.inr ⟨rfl, h1⟩)))
  · rintro (⟨rfl, h1, h2⟩ | ⟨rfl, h1, h2⟩ | ⟨rfl, h1, h2⟩ | ⟨rfl, h1⟩ | ⟨rfl, h1⟩)
    · exact Or.inl (Or.inl (Or.inl (Or.inl ⟨⟨h1, h2⟩, rfl⟩)))
    · exact Or.inl (Or.inl (Or.inl (Or.inr ⟨⟨h1, h2⟩, rfl⟩)))
    · exact Or.inl (Or.inl (Or.inr ⟨⟨h1, h2⟩, rfl⟩))
    · exact Or.inl (Or.inr ⟨h1, rfl⟩)
    · exact Or.inr ⟨h1, rfl⟩

theorem violations_nil_iff (sch : Schema) (ents : Map Id Ent) (id : Id) (e : Ent) :
    Spec.violations sch ents id e = [] ↔ Acceptable sch ents id e := by
  constructor
  · intro h
    have hm : ∀ x, ¬ Listed sch ents id e x := by
      intro x hx
      have := (mem_violations sch ents id e x).2 hx
      rw [h] at this; cases this
    refine ⟨?_, ?_, ?_, ?_, ?_, ?_⟩
    · intro hr hn; exact hm _ (Or.inl ⟨rfl, hr, hn⟩)
    · intro hh; exact hm _ (Or.inr (Or.inl ⟨rfl, hh.1, hh.2⟩))
    · intro hh; exact hm _ (Or.inr (Or.inr (Or.inl ⟨rfl, hh.1, hh.2⟩)))
    · intro hh; exact hm _ (Or.inr (Or.inr (Or.inr (Or.inl ⟨rfl, hh⟩))))
    · exact Nat.le_of_not_gt fun hh => hm _ (Or.inr (Or.inr (Or.inr (Or.inr ⟨rfl, Or.inl hh⟩))))
    · exact Nat.le_of_not_gt fun hh => hm _ (Or.inr (Or.inr (Or.inr (Or.inr ⟨rfl, Or.inr hh⟩))))
  · intro ha
    cases hv : Spec.violations sch ents id e with
    | nil => rfl
    | cons a l =>
      have : Listed sch ents id e a := (mem_violations sch ents id e a).1 (by rw [hv]; simp)
      rcases this with ⟨_, h1, h2⟩ | ⟨_, h1, h2⟩ | ⟨_, h1, h2⟩ | ⟨_, h1⟩ | ⟨_, h1 | h1⟩
      · exact absurd h2 (ha.1 h1)
      · exact absurd ⟨h1, h2⟩ ha.2.1
      · exact absurd ⟨h1, h2⟩ ha.2.2.1
      · exact absurd h1 ha.2.2.2.1
      · exact absurd ha.2.2.2.2.1 (Nat.not_le_of_gt h1)
      · exact absurd ha.2.2.2.2.2 (Nat.not_le_of_gt h1)

/-- abstraction: forget the indexes -/
def abs (s : State) : Spec.SState := ⟨s.base.hasEnts, s.base.ents, s.ext⟩

@[simp] theorem hasExt_abs (s : State) (id : Id) : Spec.hasExt (abs s) id = hasExt s id := rfl

/-- the model's index protocol and the spec's `put` agree once the protocol is characterised by
    the spec's acceptance condition (`afterUpdate_char`) -/
theorem put_agrees {sch : Schema} {s : State} {id : Id} {e : Ent} {hb : Bool} {x : Option Bytes} {r : Except Err C03.State}
    (h : match r with
      | .ok b' => BInv sch b' ∧ b'.ents = s.base.ents.insert id e ∧ b'.hasEnts = hb ∧ Acceptable sch s.base.ents id e
      | .error y => Listed sch s.base.ents id e y) :
    match (match r with
        | .ok b => (Except.ok ⟨b, match x with | some y => s.ext.insert id y | none => s.ext⟩ : Except Err State)
        | .error y => .error y), Spec.put sch (abs s) id e hb x with
    | .ok s', .ok t' => abs s' = t'
    | .error y, .error es => y ∈ es
    | _, _ => False := by
  cases r with
  | ok b' =>
    simp only at h
    have hv := (violations_nil_iff _ _ _ _).2 h.2.2.2
    cases x <;> simp [Spec.put, abs, hv, h.2.1, h.2.2.1]
  | error y =>
    simp only at h
    have hm := (mem_violations _ _ _ _ _).2 h
    cases hv : Spec.violations sch s.base.ents id e with
    | nil => rw [hv] at hm; cases hm
    | cons a b => simp only [Spec.put, abs, hv]; simpa [hv] using hm

theorem updateChild_refines {sch : Schema} {s : State} (hi : Inv sch s) (id : Id) (v : Vals) (tag : Bytes)
    (chk : Option (List Bytes)) :
    match updateChild sch s id v tag chk, Spec.updateBoth sch (abs s) id v tag chk with
    | .ok s', .ok t' => abs s' = t'
    | .error e, .error es => e ∈ es
    | _, _ => False := by
  unfold updateChild Spec.updateBoth
  by_cases hid : id = []
  · simp [hid]
  · simp only [hid, if_false, hasExt_abs]
    by_cases hx : hasExt s id = true
    · simp only [hx, Bool.not_true, Bool.false_eq_true, if_false]
      show match (match s.base.ents.lookup id with
          | none => (Except.error Err.notFound : Except Err State)
          | some old => _), (match s.base.ents.lookup id with
          | none => (Except.error [Err.notFound] : Except (List Err) Spec.SState)
          | some old => _) with
        | .ok s', .ok t' => abs s' = t'
        | .error e, .error es => e ∈ es
        | _, _ => False
      cases hold : s.base.ents.lookup id with
      | none => simp
      | some old =>
        simp only
        exact put_agrees (s := s) (x := some (if tagSelected sch chk then tag else (s.ext.lookup id).getD []))
          (updateBase_char v chk hi.base hid hold)
    · simp [hx]

theorem updateParent_refines {sch : Schema} {s : State} (hi : Inv sch s) (id : Id) (v : Vals) (chk : Option (List Bytes)) :
    match updateParent sch s id v chk,
      (if id = [] then (Except.error [Err.other] : Except (List Err) Spec.SState)
       else match (abs s).ents.lookup id with
        | none => .error [.notFound]
        | some old => Spec.put sch (abs s) id (persist old v (resolveOpt sch chk)) (abs s).hasEnts none) with
    | .ok s', .ok t' => abs s' = t'
    | .error e, .error es => e ∈ es
    | _, _ => False := by
  unfold updateParent
  by_cases hid : id = []
  · simp [hid]
  · simp only [hid, if_false]
    show match (match s.base.ents.lookup id with
        | none => (Except.error Err.notFound : Except Err State)
        | some old => _), (match s.base.ents.lookup id with
        | none => (Except.error [Err.notFound] : Except (List Err) Spec.SState)
        | some old => _) with
      | .ok s', .ok t' => abs s' = t'
      | .error e, .error es => e ∈ es
      | _, _ => False
    cases hold : s.base.ents.lookup id with
    | none => simp
    | some old =>
      simp only
      exact put_agrees (s := s) (x := none) (updateBase_char v chk hi.base hid hold)

/-- a pass of `ProcessBeforeDelete` succeeds on an entity without an empty indexed set value and
    touches neither the entity table nor the bucket flag -/
theorem pass_ok {sch : Schema} {b : C03.State} {e : Ent} (id : Id) (hr : [] ∉ vRoles sch e) :
    ∃ b', passBeforeDelete sch b e id = .ok b' ∧ b'.ents = b.ents ∧ b'.hasEnts = b.hasEnts := by
  by_cases hreg : sch.regRoles = true
  · have : [] ∉ e.roles := by simpa [vRoles, hreg] using hr
    simp [passBeforeDelete, setBeforeDelete, evalRoles, hreg, this]
  · simp [passBeforeDelete, hreg]

/-- **Refinement.**  On a consistent state the model's operation and the spec's operation agree:
    both succeed with the same entity table (and child data), or both fail and the model's error
    is one of the errors the spec allows. -/
theorem stepRaw_refines {sch : Schema} {s : State} (hi : Inv sch s) (op : Op) :
    match stepRaw sch s op, Spec.step sch (abs s) op with
    | .ok s', .ok t' => abs s' = t'
    | .error e, .error es => e ∈ es
    | _, _ => False := by
  cases op with
  | create via id v tag =>
    cases via with
    | parent =>
      simp only [stepRaw, create, createParent, Spec.step]
      by_cases hid : id = []
      · simp [hid]
      · simp only [hid, if_false]
        by_cases hex : (s.base.ents.lookup id).isSome = true
        · simp [hex, abs]
        · have hfresh : s.base.ents.lookup id = none := by simpa using hex
          simp only [abs, hfresh, Option.isSome_none, Bool.false_eq_true, if_false]
          exact put_agrees (s := s) (x := none)
            (afterUpdate_char (persistCreate v) true hi.base hid (.fresh hfresh) (Or.inl rfl))
    | child =>
      simp only [stepRaw, create, createChild, Spec.step, hasExt_abs]
      by_cases hid : id = []
      · simp [hid]
      · simp only [hid, if_false]
        by_cases hx : hasExt s id = true
        · simp [hx]
        · simp only [hx, Bool.false_eq_true, if_false]
          cases hold : s.base.ents.lookup id with
          | none =>
            simp only [Option.isSome_none, Bool.false_eq_true, if_false]
            exact put_agrees (s := s) (x := some tag)
              (afterUpdate_char (persistCreate v) true hi.base hid (.fresh hold) (Or.inl rfl))
          | some old =>
            simp only [Option.isSome_some, if_true]
            exact put_agrees (s := s) (x := some tag)
              (afterUpdate_char (persistCreate v) true hi.base hid (.recreate old hold) (Or.inl rfl))
  | update via id v tag chk =>
    cases via with
    | child => exact updateChild_refines hi id v tag chk
    | parent =>
      simp only [stepRaw, update, Spec.step, hasExt_abs]
      by_cases hx : hasExt s id = true
      · simp only [hx, if_true]
        exact updateChild_refines hi id v _ chk
      · simp only [hx, Bool.false_eq_true, if_false]
        exact updateParent_refines hi id v chk
  | delete via id =>
    simp only [stepRaw, delete, Spec.step, abs]
    by_cases hid : id = []
    · simp [hid]
    · simp only [hid, if_false]
      cases hold : s.base.ents.lookup id with
      | none => simp
      | some e =>
        have hr : [] ∉ vRoles sch e := hi.base.rolesNonEmpty id e hold
        simp only
        by_cases hx : (s.ext.lookup id).isSome = true
        · obtain ⟨b1, hb1, he1, hh1⟩ := pass_ok (b := s.base) id hr
          obtain ⟨b2, hb2, he2, hh2⟩ := pass_ok (b := b1) id hr
          simp [hx, hb1, hb2, he1, he2, hh1, hh2]
        · obtain ⟨b2, hb2, he2, hh2⟩ := pass_ok (b := s.base) id hr
          simp [hx, hb2, he2, hh2]

end StorageModel.C03.Layered
