import StorageModel.C03.LayeredRefine
import StorageModel.C03.Reject
/-
  C03, enlarged model: rejection lemmas (a write that would duplicate a unique value or put an
  empty value into the non-nullable index fails with exactly that error), dump = derived dump,
  no panic.
-/
namespace StorageModel.C03.Layered
open StorageModel StorageModel.C03

/-- the entity an operation is about to store, when it passes the id / existence checks of the
    store it is issued through -/
def targetEnt (sch : Schema) (s : State) : Op → Option (Id × Ent)
  | .create .parent id v _ => C03.targetEnt s.base (.create id v)
  | .create .child id v _ => if id ≠ [] ∧ hasExt s id = false then some (id, persistCreate v) else none
  | .update .parent id v _ chk => C03.targetEnt s.base (.update id v (resolveOpt sch chk))
  | .update .child id v _ chk =>
    if hasExt s id = true then C03.targetEnt s.base (.update id v (resolveOpt sch chk)) else none
  | .delete _ _ => none

/-- the new entity's name, or its non-empty alias, is currently held by another entity -/
def WouldDuplicate (sch : Schema) (s : State) (op : Op) : Prop :=
  ∃ id e, targetEnt sch s op = some (id, e) ∧ e.name ≠ [] ∧
    (HeldByOther (·.name) s.base.ents id e.name ∨
     (e.alias.getD [] ≠ [] ∧ HeldByOther (fun e => e.alias.getD []) s.base.ents id (e.alias.getD [])))

/-- the new entity's name (non-nullable unique index) is empty -/
def WouldBeEmpty (sch : Schema) (s : State) (op : Op) : Prop :=
  ∃ id e, targetEnt sch s op = some (id, e) ∧ e.name = []

theorem afterUpdate_recreate_dup {s : C03.State} {id : Id} {old e : Ent} (hi : C03.Inv s) (hold : s.ents.lookup id = some old)
    (hne : e.name ≠ [])
    (hd : HeldByOther (·.name) s.ents id e.name ∨
      (e.alias.getD [] ≠ [] ∧ HeldByOther (fun e => e.alias.getD []) s.ents id (e.alias.getD []))) :
    afterUpdate true (capture s id) { s with hasEnts := true, ents := s.ents.insert id e } id = .error .dup := by
  simp only [afterUpdate, capture, hold, bind, Except.bind, Map.lookup_insert, if_true, evalName, evalAlias,
    evalRoles, pure, Except.pure]
  cases hun : uniqueAfter true false old.name e.name id s.uName with
  | error x =>
    rcases uniqueAfter_true_err (f := (·.name)) hi.uName hold hun with ⟨_, h1, _⟩ | ⟨rfl, _, _⟩
    · exact absurd h1 hne
    · rfl
  | ok un =>
    simp only
    rcases uniqueAfter_true_okc (f := (·.name)) hi.uName hold hun with ⟨h, _⟩ | ⟨_, hnh⟩
    · exact absurd h hne
    · rcases hd with hd | ⟨hane, hd⟩
      · exact absurd hd hnh
      · cases hua : uniqueAfter true true (old.alias.getD []) (e.alias.getD []) id s.uAlias with
        | error x =>
          rcases uniqueAfter_true_err (f := fun e => e.alias.getD []) hi.uAlias hold hua with ⟨_, _, h3⟩ | ⟨rfl, _, _⟩
          · cases h3
          · rfl
        | ok ua =>
          rcases uniqueAfter_true_okc (f := fun e => e.alias.getD []) hi.uAlias hold hua with ⟨h, _⟩ | ⟨_, h⟩
          · exact absurd h hane
          · exact absurd hd h

/-- the id of a base-store update target is not blank and the entity exists -/
theorem targetEnt_update_some {s : C03.State} {i id : Id} {v : Vals} {chk : Option Checker} {e : Ent}
    (ht : C03.targetEnt s (.update i v chk) = some (id, e)) : i ≠ [] := by
  simp only [C03.targetEnt] at ht
  split at ht
  · cases ht
  · assumption

theorem updateChild_err {sch : Schema} {s : State} {id : Id} {v : Vals} {tag : Bytes} {chk : Option (List Bytes)} {x : Err}
    (hid : id ≠ []) (hx : hasExt s id = true) (h : C03.update s.base id v (resolveOpt sch chk) = .error x) :
    updateChild sch s id v tag chk = .error x := by
  simp [updateChild, hid, hx, h]

theorem update_err {sch : Schema} {s : State} {via : Sel} {id : Id} {v : Vals} {tag : Bytes} {chk : Option (List Bytes)}
    {x : Err} (hid : id ≠ []) (hx : via = .child → hasExt s id = true)
    (h : C03.update s.base id v (resolveOpt sch chk) = .error x) :
    update sch s via id v tag chk = .error x := by
  cases via with
  | child => exact updateChild_err hid (hx rfl) h
  | parent =>
    simp only [update]
    by_cases hx' : hasExt s id = true
    · simp only [hx', if_true]; exact updateChild_err hid hx' h
    · simp [hx', h]

/-- an operation whose target the parent store's index protocol rejects with `x`, in each of the
    three shapes the protocol is entered -/
theorem stepRaw_rejects {sch : Schema} {s : State} {op : Op} {x : Err} {id : Id} {e : Ent}
    (ht : targetEnt sch s op = some (id, e))
    (hfresh : s.base.ents.lookup id = none →
      afterUpdate true Captured.none { s.base with hasEnts := true, ents := s.base.ents.insert id e } id = .error x)
    (hover : ∀ old, s.base.ents.lookup id = some old →
      afterUpdate true (capture s.base id) { s.base with hasEnts := true, ents := s.base.ents.insert id e } id = .error x)
    (hu : ∀ i v chk, C03.targetEnt s.base (.update i v chk) = some (id, e) → C03.update s.base i v chk = .error x)
    (hcr : ∀ i v, C03.targetEnt s.base (.create i v) = some (id, e) → C03.create s.base i v = .error x) :
    stepRaw sch s op = .error x := by
  cases op with
  | create via i v tag =>
    cases via with
    | parent =>
      simp only [targetEnt] at ht
      simp [stepRaw, create, hcr i v ht]
    | child =>
      simp only [targetEnt] at ht
      split at ht
      · next hc' =>
        cases ht
        simp only [stepRaw, create, createChild, hc'.1, if_false, hc'.2, Bool.false_eq_true]
        cases hold : s.base.ents.lookup id with
        | none =>
          simp only [Option.isSome_none, Bool.false_eq_true, if_false]
          rw [hfresh hold]
        | some old =>
          simp only [Option.isSome_some, if_true]
          rw [hover old hold]
      · cases ht
  | update via i v tag chk =>
    cases via with
    | parent =>
      simp only [targetEnt] at ht
      exact update_err (via := .parent) (tag := tag) (targetEnt_update_some ht) (fun h => by cases h) (hu _ _ _ ht)
    | child =>
      simp only [targetEnt] at ht
      split at ht
      · next hx => exact update_err (via := .child) (tag := tag) (targetEnt_update_some ht) (fun _ => hx) (hu _ _ _ ht)
      · cases ht
  | delete via i => simp [targetEnt] at ht

theorem stepRaw_dup {sch : Schema} {s : State} {op : Op} (hi : Inv s) (hw : WouldDuplicate sch s op) :
    stepRaw sch s op = .error .dup := by
  obtain ⟨id, e, ht, hne, hd⟩ := hw
  refine stepRaw_rejects ht ?_ ?_ ?_ ?_
  · intro hfresh; exact afterUpdate_create_dup hi.base hfresh hne hd
  · intro old hold; exact afterUpdate_recreate_dup hi.base hold hne hd
  · intro i v chk ht'; exact C03.stepRaw_dup hi.base ⟨id, e, ht', hne, hd⟩
  · intro i v ht'; exact C03.stepRaw_dup hi.base ⟨id, e, ht', hne, hd⟩

theorem stepRaw_empty {sch : Schema} {s : State} {op : Op} (hi : Inv s) (hw : WouldBeEmpty sch s op) :
    stepRaw sch s op = .error .nullNotAllowed := by
  obtain ⟨id, e, ht, hne⟩ := hw
  refine stepRaw_rejects ht ?_ ?_ ?_ ?_
  · intro _
    simp only [afterUpdate, Captured.none, bind, Except.bind, Map.lookup_insert, if_true, evalName]
    rw [hne, uniqueAfter_null (Or.inl rfl)]
  · intro old _
    simp only [afterUpdate, capture, bind, Except.bind, Map.lookup_insert, if_true, evalName]
    rw [hne, uniqueAfter_null (Or.inl rfl)]
  · intro i v chk ht'; exact C03.stepRaw_empty hi.base ⟨id, e, ht', hne⟩
  · intro i v ht'; exact C03.stepRaw_empty hi.base ⟨id, e, ht', hne⟩

/-! ### no panic -/

theorem spec_putBoth_no_panic {t : Spec.SState} {id : Id} {e : Ent} {b : Bool} {x : Bytes} {es : List Err}
    (h : Spec.putBoth t id e b x = .error es) : Err.panic ∉ es := by
  unfold Spec.putBoth at h
  split at h
  · cases h
  · next es' hp => cases h; exact spec_put_no_panic hp

theorem spec_updateBoth_no_panic {sch : Schema} {t : Spec.SState} {id : Id} {v : Vals} {tag : Bytes}
    {chk : Option (List Bytes)} {es : List Err} (h : Spec.updateBoth sch t id v tag chk = .error es) : Err.panic ∉ es := by
  unfold Spec.updateBoth at h
  split at h
  · cases h; simp
  · split at h
    · cases h; simp
    · split at h
      · cases h; simp
      · exact spec_putBoth_no_panic h

theorem spec_step_no_panic {sch : Schema} {t : Spec.SState} {op : Op} {es : List Err}
    (h : Spec.step sch t op = .error es) : Err.panic ∉ es := by
  cases op with
  | create via id v tag =>
    cases via with
    | parent =>
      simp only [Spec.step] at h
      split at h
      · cases h
      · next es' hp => cases h; exact C03.spec_step_no_panic hp
    | child =>
      simp only [Spec.step] at h
      split at h
      · cases h; simp
      · split at h
        · cases h; simp
        · exact spec_putBoth_no_panic h
  | update via id v tag chk =>
    cases via with
    | child => exact spec_updateBoth_no_panic h
    | parent =>
      simp only [Spec.step] at h
      split at h
      · exact spec_updateBoth_no_panic h
      · split at h
        · cases h
        · next es' hp => cases h; exact C03.spec_step_no_panic hp
  | delete via id =>
    simp only [Spec.step] at h
    split at h
    · cases h
    · next es' hp => cases h; exact C03.spec_step_no_panic hp

theorem stepRaw_no_panic {sch : Schema} {s : State} {op : Op} (hi : Inv s) : stepRaw sch s op ≠ .error .panic := by
  intro h
  have := stepRaw_refines (sch := sch) hi op
  rw [h] at this
  cases hs : Spec.step sch (abs s) op with
  | ok t => rw [hs] at this; exact this
  | error es => rw [hs] at this; exact spec_step_no_panic hs this

/-! ### dump = derived dump -/

theorem setLines_eq {field : Bytes} {ents : Map Id Ent} {idx : Map Bytes (List Id)} (hsi : SI (·.roles) ents idx)
    (hnek : NEK idx) (l : Line) :
    l ∈ idx.entries.flatMap (renderSetKey field) ↔ l ∈ (C03.Spec.rolesIndex ents).flatMap (renderSetKey field) := by
  rw [mem_setLines]
  simp only [List.mem_flatMap, renderSetKey, List.mem_cons, List.mem_map, Prod.exists, mem_rolesIndex]
  constructor
  · rintro ⟨v, ids, hl, hline⟩
    have hne := hnek v ids hl
    obtain ⟨i0, hi0⟩ := List.exists_mem_of_ne_nil ids hne
    have h0 := (hsi v i0).1 (by simp [hl, hi0])
    refine ⟨v, _, ⟨⟨i0, h0⟩, rfl⟩, ?_⟩
    rcases hline with h | ⟨i, hi, rfl⟩
    · exact Or.inl h
    · refine Or.inr ⟨i, ?_, rfl⟩
      exact (mem_rolesIds ents v i).2 ((hsi v i).1 (by simp [hl, hi]))
  · rintro ⟨v, ids', ⟨⟨i0, e0, h0, hm0⟩, rfl⟩, hline⟩
    have hmem := (hsi v i0).2 ⟨e0, h0, hm0⟩
    cases hl : idx.lookup v with
    | none => simp [hl] at hmem
    | some ids =>
      refine ⟨v, ids, hl, ?_⟩
      rcases hline with h | ⟨i, hi, rfl⟩
      · exact Or.inl h
      · refine Or.inr ⟨i, ?_, rfl⟩
        have := (hsi v i).2 ((mem_rolesIds ents v i).1 hi)
        simpa [hl] using this

theorem render_eq_spec_lines {sch : Schema} {s : State} (hi : Inv s) (l : Line) :
    l ∈ Render sch s ↔ l ∈ Spec.render sch (abs s) := by
  unfold Render Spec.render abs C03.abs C03.Spec.nameIndex C03.Spec.aliasIndex
  simp only [List.mem_append]
  rw [uniqueLines_eq (f := (·.name)) hi.base.uName, uniqueLines_eq (f := fun e => e.alias.getD []) hi.base.uAlias,
    setLines_eq hi.base.sRoles hi.base.noEmptyKeys]

end StorageModel.C03.Layered
