import StorageModel.C03.LayeredRefine
/-
  C03, enlarged model: rejection lemmas (a write whose only fault is a duplicate unique value / an
  empty value for the non-nullable index fails with exactly that error), no panic, the model's
  path function (index bucket paths pairwise distinct), dump = derived dump.
-/
namespace StorageModel.C03.Layered
open StorageModel StorageModel.C03
open StorageModel.C03.Layered.Spec (vName vAlias vRoles)

/-- the entity an operation is about to store, when it passes the id / existence checks of the
    store it is issued through -/
def targetEnt (sch : Schema) (s : State) : Op → Option (Id × Ent)
  | .create .parent id v _ => if id ≠ [] ∧ s.base.ents.lookup id = none then some (id, persistCreate v) else none
  | .create .child id v _ => if id ≠ [] ∧ hasExt s id = false then some (id, persistCreate v) else none
  | .update via id v _ chk =>
    if id = [] ∨ (via = .child ∧ hasExt s id = false) then none
    else (s.base.ents.lookup id).map fun old => (id, persist old v (resolveOpt sch chk))
  | .delete _ _ => none

/-- the value of a registered unique index (`name`, or a non-empty `alias`) in the new entity is
    currently held by another entity — and that is the only thing wrong with the write (when
    several constraints object, the registration order decides which error is reported) -/
def WouldDuplicate (sch : Schema) (s : State) (op : Op) : Prop :=
  ∃ id e, targetEnt sch s op = some (id, e) ∧
    ((vName sch e ≠ [] ∧ HeldByOther (vName sch) s.base.ents id (vName sch e)) ∨
     (vAlias sch e ≠ [] ∧ HeldByOther (vAlias sch) s.base.ents id (vAlias sch e))) ∧
    (sch.regName = true → e.name ≠ []) ∧ [] ∉ vRoles sch e ∧
    (vName sch e).length ≤ maxKeySize ∧ (vAlias sch e).length ≤ maxKeySize

/-- the new entity's name is empty while the non-nullable unique index on it is registered — and
    that is the only thing wrong with the write -/
def WouldBeEmpty (sch : Schema) (s : State) (op : Op) : Prop :=
  ∃ id e, targetEnt sch s op = some (id, e) ∧ sch.regName = true ∧ e.name = [] ∧
    ¬ (vAlias sch e ≠ [] ∧ HeldByOther (vAlias sch) s.base.ents id (vAlias sch e)) ∧ [] ∉ vRoles sch e ∧
    (vAlias sch e).length ≤ maxKeySize

/-- an indexed unique value of the new entity is longer than bbolt's key limit, and neither an empty
    name nor a duplicate competes for the error -/
def WouldOverflow (sch : Schema) (s : State) (op : Op) : Prop :=
  ∃ id e, targetEnt sch s op = some (id, e) ∧
    ((vName sch e).length > maxKeySize ∨ (vAlias sch e).length > maxKeySize) ∧
    (sch.regName = true → e.name ≠ []) ∧
    ¬ (vName sch e ≠ [] ∧ HeldByOther (vName sch) s.base.ents id (vName sch e)) ∧
    ¬ (vAlias sch e ≠ [] ∧ HeldByOther (vAlias sch) s.base.ents id (vAlias sch e))

/-- for an operation with a target the spec's verdict is `put` of that target -/
theorem spec_step_target {sch : Schema} {s : State} {op : Op} {id : Id} {e : Ent}
    (ht : targetEnt sch s op = some (id, e)) :
    ∃ hb x, Spec.step sch (abs s) op = Spec.put sch (abs s) id e hb x := by
  cases op with
  | create via i v tag =>
    cases via with
    | parent =>
      simp only [targetEnt] at ht
      split at ht
      · next hc => cases ht; exact ⟨true, none, by simp [Spec.step, abs, hc.1, hc.2]⟩
      · cases ht
    | child =>
      simp only [targetEnt] at ht
      split at ht
      · next hc => cases ht; exact ⟨true, some tag, by simp [Spec.step, hc.1, hc.2]⟩
      · cases ht
  | update via i v tag chk =>
    simp only [targetEnt] at ht
    split at ht
    · cases ht
    · next hc =>
      have hid : i ≠ [] := fun h => hc (Or.inl h)
      cases hold : s.base.ents.lookup i with
      | none => simp [hold] at ht
      | some old =>
        simp only [hold, Option.map_some, Option.some.injEq, Prod.mk.injEq] at ht
        obtain ⟨rfl, rfl⟩ := ht
        have hold' : (abs s).ents.lookup i = some old := hold
        cases via with
        | child =>
          have hx : Spec.hasExt (abs s) i = true := by
            cases h : hasExt s i with
            | true => exact h
            | false => exact absurd (Or.inr ⟨rfl, h⟩) hc
          exact ⟨(abs s).hasEnts, some (if tagSelected sch chk then tag else ((abs s).ext.lookup i).getD []),
            by simp [Spec.step, Spec.updateBoth, hid, hx, hold']⟩
        | parent =>
          by_cases hx : Spec.hasExt (abs s) i = true
          · exact ⟨(abs s).hasEnts, some (if tagSelected sch chk then ((abs s).ext.lookup i).getD [] else ((abs s).ext.lookup i).getD []),
              by simp [Spec.step, Spec.updateBoth, hid, hx, hold']⟩
          · exact ⟨(abs s).hasEnts, none, by simp [Spec.step, hid, hx, hold']⟩
  | delete via i => simp [targetEnt] at ht

/-- an operation whose target has exactly one kind of fault fails with that error -/
theorem stepRaw_only {sch : Schema} {s : State} {op : Op} {id : Id} {e : Ent} {x0 : Err} (hi : Inv sch s)
    (ht : targetEnt sch s op = some (id, e)) (hl : Listed sch s.base.ents id e x0)
    (honly : ∀ x, Listed sch s.base.ents id e x → x = x0) : stepRaw sch s op = .error x0 := by
  obtain ⟨hb, x', hsp⟩ := spec_step_target ht
  have href := stepRaw_refines hi op
  rw [hsp] at href
  have hm := (mem_violations sch s.base.ents id e x0).2 hl
  have hput : Spec.put sch (abs s) id e hb x' = .error (Spec.violations sch s.base.ents id e) := by
    cases hv : Spec.violations sch s.base.ents id e with
    | nil => rw [hv] at hm; cases hm
    | cons a l => simp [Spec.put, abs, hv]
  rw [hput] at href
  cases hr : stepRaw sch s op with
  | ok s' => rw [hr] at href; exact absurd href (by simp)
  | error y =>
    rw [hr] at href
    simp only at href
    rw [honly y ((mem_violations _ _ _ _ _).1 href)]

theorem stepRaw_dup {sch : Schema} {s : State} {op : Op} (hi : Inv sch s) (hw : WouldDuplicate sch s op) :
    stepRaw sch s op = .error .dup := by
  obtain ⟨id, e, ht, hd, hne, hr, hf1, hf2⟩ := hw
  refine stepRaw_only hi ht ?_ ?_
  · rcases hd with hd | hd
    · exact Or.inr (Or.inl ⟨rfl, hd.1, hd.2⟩)
    · exact Or.inr (Or.inr (Or.inl ⟨rfl, hd.1, hd.2⟩))
  · rintro x (⟨_, h1, h2⟩ | ⟨rfl, _⟩ | ⟨rfl, _⟩ | ⟨_, h1⟩ | ⟨_, h1 | h1⟩)
    · exact absurd h2 (hne h1)
    · rfl
    · rfl
    · exact absurd h1 hr
    · exact absurd hf1 (Nat.not_le_of_gt h1)
    · exact absurd hf2 (Nat.not_le_of_gt h1)

theorem stepRaw_empty {sch : Schema} {s : State} {op : Op} (hi : Inv sch s) (hw : WouldBeEmpty sch s op) :
    stepRaw sch s op = .error .nullNotAllowed := by
  obtain ⟨id, e, ht, hreg, hne, ha, hr, hf2⟩ := hw
  refine stepRaw_only hi ht (Or.inl ⟨rfl, hreg, hne⟩) ?_
  rintro x (⟨rfl, _⟩ | ⟨_, h1, _⟩ | ⟨_, h1, h2⟩ | ⟨_, h1⟩ | ⟨_, h1 | h1⟩)
  · rfl
  · exact absurd (by simp [vName, hreg, hne]) h1
  · exact absurd ⟨h1, h2⟩ ha
  · exact absurd h1 hr
  · simp [vName, hreg, hne] at h1
  · exact absurd hf2 (Nat.not_le_of_gt h1)

theorem stepRaw_overflow {sch : Schema} {s : State} {op : Op} (hi : Inv sch s) (hw : WouldOverflow sch s op) :
    stepRaw sch s op = .error .other := by
  obtain ⟨id, e, ht, hl, hne, hd1, hd2⟩ := hw
  refine stepRaw_only hi ht (Or.inr (Or.inr (Or.inr (Or.inr ⟨rfl, hl⟩)))) ?_
  rintro x (⟨_, h1, h2⟩ | ⟨_, h1, h2⟩ | ⟨_, h1, h2⟩ | ⟨rfl, _⟩ | ⟨rfl, _⟩)
  · exact absurd h2 (hne h1)
  · exact absurd ⟨h1, h2⟩ hd1
  · exact absurd ⟨h1, h2⟩ hd2
  · rfl
  · rfl

/-! ### no panic -/

theorem listed_ne_panic {sch : Schema} {ents : Map Id Ent} {id : Id} {e : Ent} (h : Listed sch ents id e .panic) : False := by
  rcases h with ⟨h, _⟩ | ⟨h, _⟩ | ⟨h, _⟩ | ⟨h, _⟩ | ⟨h, _⟩ <;> cases h

theorem spec_put_no_panic {sch : Schema} {t : Spec.SState} {id : Id} {e : Ent} {b : Bool} {x : Option Bytes} {es : List Err}
    (h : Spec.put sch t id e b x = .error es) : Err.panic ∉ es := by
  unfold Spec.put at h
  split at h
  · cases h
  · next a l hv =>
    cases h; rw [← hv]
    intro hm
    exact listed_ne_panic ((mem_violations _ _ _ _ _).1 hm)

theorem spec_updateBoth_no_panic {sch : Schema} {t : Spec.SState} {id : Id} {v : Vals} {tag : Bytes}
    {chk : Option (List Bytes)} {es : List Err} (h : Spec.updateBoth sch t id v tag chk = .error es) : Err.panic ∉ es := by
  unfold Spec.updateBoth at h
  split at h
  · cases h; simp
  · split at h
    · cases h; simp
    · split at h
      · cases h; simp
      · exact spec_put_no_panic h

theorem spec_step_no_panic {sch : Schema} {t : Spec.SState} {op : Op} {es : List Err}
    (h : Spec.step sch t op = .error es) : Err.panic ∉ es := by
  cases op with
  | create via id v tag =>
    cases via <;>
    · simp only [Spec.step] at h
      split at h
      · cases h; simp
      · split at h
        · cases h; simp
        · exact spec_put_no_panic h
  | update via id v tag chk =>
    cases via with
    | child => exact spec_updateBoth_no_panic h
    | parent =>
      simp only [Spec.step] at h
      split at h
      · exact spec_updateBoth_no_panic h
      · split at h
        · cases h; simp
        · split at h
          · cases h; simp
          · exact spec_put_no_panic h
  | delete via id =>
    simp only [Spec.step] at h
    split at h
    · cases h; simp
    · split at h
      · cases h; simp
      · cases h

theorem stepRaw_no_panic {sch : Schema} {s : State} {op : Op} (hi : Inv sch s) : stepRaw sch s op ≠ .error .panic := by
  intro h
  have := stepRaw_refines hi op
  rw [h] at this
  cases hs : Spec.step sch (abs s) op with
  | ok t => rw [hs] at this; exact this
  | error es => rw [hs] at this; exact spec_step_no_panic hs this

/-! ### the path function -/

/-- distinct symbols have distinct index buckets, whatever the base path -/
theorem idxPath_injective (sch : Schema) (a b : Bytes) (h : idxPath sch a = idxPath sch b) : a = b := by
  unfold idxPath at h
  have := List.append_cancel_left h
  simpa using this

/-- no index bucket (nor anything below it) is an entity bucket (or anything below it) -/
theorem idx_side_ne_ent_side (sch : Schema) (p q : List Bytes) :
    sch.basePath ++ bIndexes :: p ≠ sch.basePath ++ bThings :: q := by
  intro h
  have := List.append_cancel_left h
  simp [bIndexes, bThings] at this

/-! ### dump = derived dump -/

theorem mem_uniqueLines (path : List Bytes) (idx : Map Bytes Id) (l : Line) :
    l ∈ idx.entries.flatMap (renderUnique path) ↔ ∃ v id, idx.lookup v = some id ∧ l = .kv path v id := by
  simp only [List.mem_flatMap, renderUnique, List.mem_singleton, Prod.exists, Map.mem_entries_iff]

theorem mem_specUnique (f : Ent → Bytes) (path : List Bytes) (ents : Map Id Ent) (l : Line) :
    l ∈ (Spec.uniqueIndexOf f ents).flatMap (renderUnique path) ↔
      ∃ i e, ents.lookup i = some e ∧ f e ≠ [] ∧ l = .kv path (f e) i := by
  simp only [Spec.uniqueIndexOf, List.mem_flatMap, List.mem_filterMap, renderUnique, List.mem_singleton, Prod.exists,
    Map.mem_entries_iff]
  constructor
  · rintro ⟨v, id, ⟨i, e, hl, hite⟩, rfl⟩
    by_cases hz : f e = []
    · simp [hz] at hite
    · simp only [ne_eq, hz, not_false_eq_true, if_true, Option.some.injEq, Prod.mk.injEq] at hite
      obtain ⟨rfl, rfl⟩ := hite
      exact ⟨i, e, hl, hz, rfl⟩
  · rintro ⟨i, e, hl, hz, rfl⟩
    exact ⟨f e, i, ⟨i, e, hl, by simp [hz]⟩, rfl⟩

theorem uniqueLines_eq {f : Ent → Bytes} {path : List Bytes} {ents : Map Id Ent} {idx : Map Bytes Id}
    (hui : UI f ents idx) (l : Line) :
    l ∈ idx.entries.flatMap (renderUnique path) ↔ l ∈ (Spec.uniqueIndexOf f ents).flatMap (renderUnique path) := by
  rw [mem_uniqueLines, mem_specUnique]
  constructor
  · rintro ⟨v, id, h, rfl⟩
    obtain ⟨hv, e, he, rfl⟩ := (hui v id).1 h
    exact ⟨id, e, he, hv, rfl⟩
  · rintro ⟨i, e, he, hz, rfl⟩
    exact ⟨f e, i, (hui (f e) i).2 ⟨hz, e, he, rfl⟩, rfl⟩

theorem mem_setLines (path : List Bytes) (idx : Map Bytes (List Id)) (l : Line) :
    l ∈ idx.entries.flatMap (renderSetKey path) ↔
      ∃ v ids, idx.lookup v = some ids ∧
        (l = .bucket (path ++ [v]) ∨ ∃ i, i ∈ ids ∧ l = .kv (path ++ [v]) (typed i) []) := by
  simp only [List.mem_flatMap, renderSetKey, List.mem_cons, List.mem_map, Prod.exists, Map.mem_entries_iff]
  constructor
  · rintro ⟨v, ids, h, h2 | ⟨i, hi, rfl⟩⟩
    · exact ⟨v, ids, h, Or.inl h2⟩
    · exact ⟨v, ids, h, Or.inr ⟨i, hi, rfl⟩⟩
  · rintro ⟨v, ids, h, h2 | ⟨i, hi, rfl⟩⟩
    · exact ⟨v, ids, h, Or.inl h2⟩
    · exact ⟨v, ids, h, Or.inr ⟨i, hi, rfl⟩⟩

theorem mem_setIndexOf (r : Ent → List Bytes) (ents : Map Id Ent) (v : Bytes) (ids : List Id) :
    (v, ids) ∈ Spec.setIndexOf r ents ↔
      (∃ i e, ents.lookup i = some e ∧ v ∈ r e) ∧
      ids = (ents.entries.filter (fun p => decide (v ∈ r p.2))).map (·.1) := by
  simp only [Spec.setIndexOf, List.mem_map, List.mem_flatMap, Prod.exists, Map.mem_entries_iff, Prod.mk.injEq]
  constructor
  · rintro ⟨w, ⟨i, e, hl, hm⟩, rfl, rfl⟩; exact ⟨⟨i, e, hl, hm⟩, rfl⟩
  · rintro ⟨⟨i, e, hl, hm⟩, rfl⟩; exact ⟨v, ⟨i, e, hl, hm⟩, rfl, rfl⟩

theorem mem_setIds (r : Ent → List Bytes) (ents : Map Id Ent) (v : Bytes) (i : Id) :
    i ∈ (ents.entries.filter (fun p => decide (v ∈ r p.2))).map (·.1) ↔ ∃ e, ents.lookup i = some e ∧ v ∈ r e := by
  simp only [List.mem_map, List.mem_filter, decide_eq_true_eq, Prod.exists, Map.mem_entries_iff]
  constructor
  · rintro ⟨a, e, ⟨hl, hm⟩, rfl⟩; exact ⟨e, hl, hm⟩
  · rintro ⟨e, hl, hm⟩; exact ⟨i, e, ⟨hl, hm⟩, rfl⟩

theorem setLines_eq {r : Ent → List Bytes} {path : List Bytes} {ents : Map Id Ent} {idx : Map Bytes (List Id)}
    (hsi : SI r ents idx) (hnek : NEK idx) (l : Line) :
    l ∈ idx.entries.flatMap (renderSetKey path) ↔ l ∈ (Spec.setIndexOf r ents).flatMap (renderSetKey path) := by
  rw [mem_setLines]
  simp only [List.mem_flatMap, renderSetKey, List.mem_cons, List.mem_map, Prod.exists, mem_setIndexOf]
  constructor
  · rintro ⟨v, ids, hl, hline⟩
    have hne := hnek v ids hl
    obtain ⟨i0, hi0⟩ := List.exists_mem_of_ne_nil ids hne
    have h0 := (hsi v i0).1 (by simp [hl, hi0])
    refine ⟨v, _, ⟨⟨i0, h0⟩, rfl⟩, ?_⟩
    rcases hline with h | ⟨i, hi, rfl⟩
    · exact Or.inl h
    · refine Or.inr ⟨i, ?_, rfl⟩
      exact (mem_setIds r ents v i).2 ((hsi v i).1 (by simp [hl, hi]))
  · rintro ⟨v, ids', ⟨⟨i0, e0, h0, hm0⟩, rfl⟩, hline⟩
    have hmem := (hsi v i0).2 ⟨e0, h0, hm0⟩
    cases hl : idx.lookup v with
    | none => simp [hl] at hmem
    | some ids =>
      refine ⟨v, ids, hl, ?_⟩
      rcases hline with h | ⟨i, hi, rfl⟩
      · exact Or.inl h
      · refine Or.inr ⟨i, ?_, rfl⟩
        have := (hsi v i).2 ((mem_setIds r ents v i).1 hi)
        simpa [hl] using this

theorem render_eq_spec_lines {sch : Schema} {s : State} (hi : Inv sch s) (l : Line) :
    l ∈ Render sch s ↔ l ∈ Spec.render sch (abs s) := by
  unfold Render Spec.render abs Spec.nameIndex Spec.aliasIndex Spec.rolesIndex
  simp only [List.mem_append]
  rw [uniqueLines_eq hi.base.uName, uniqueLines_eq hi.base.uAlias, setLines_eq hi.base.sRoles hi.base.noEmptyKeys]

end StorageModel.C03.Layered
