import StorageModel.Base.Bytes
/-
  Association-list maps and bucket-like sorted sets used by the C03 / C06 store models.
  A bbolt bucket is modelled as a finite map; everything is phrased through `lookup`.
-/
namespace StorageModel.C03
open StorageModel

abbrev Map (K V : Type) := List (K × V)

namespace Map
variable {K V : Type} [DecidableEq K]

def lookup : Map K V → K → Option V
  | [], _ => none
  | (k', v) :: t, k => if k' = k then some v else lookup t k

def erase (m : Map K V) (k : K) : Map K V := m.filter (fun p => decide (p.1 ≠ k))

def insert (m : Map K V) (k : K) (v : V) : Map K V := (k, v) :: erase m k

def keys (m : Map K V) : List K := m.map (·.1)

/-- the (key, value) pairs a cursor over the bucket yields (order is not part of the model:
    the dump comparison is order-insensitive) -/
def entries (m : Map K V) : List (K × V) :=
  (keys m).filterMap (fun k => (lookup m k).map (fun v => (k, v)))

@[simp] theorem lookup_nil (k : K) : lookup ([] : Map K V) k = none := rfl

@[simp] theorem lookup_erase (m : Map K V) (k k' : K) :
    lookup (erase m k) k' = if k' = k then none else lookup m k' := by
  induction m with
  | nil => simp [erase, lookup]
  | cons p t ih =>
    obtain ⟨a, b⟩ := p
    simp only [erase, List.filter] at ih ⊢
    by_cases h : a = k
    · subst h
      simp only [ne_eq, not_true_eq_false, decide_false]
      rw [ih]
      by_cases h2 : k' = a
      · simp [h2]
      · have : ¬ a = k' := fun e => h2 e.symm
        simp [lookup, h2, this]
    · simp only [ne_eq, h, not_false_eq_true, decide_true, lookup]
      rw [ih]
      by_cases h2 : k' = k
      · subst h2; simp [h]
      · simp [h2]

@[simp] theorem lookup_insert (m : Map K V) (k k' : K) (v : V) :
    lookup (insert m k v) k' = if k' = k then some v else lookup m k' := by
  by_cases h : k' = k
  · subst h; simp [insert, lookup]
  · have : ¬ k = k' := fun e => h e.symm
    simp [insert, lookup, this, h]

theorem mem_keys_iff (m : Map K V) (k : K) : k ∈ keys m ↔ (lookup m k).isSome = true := by
  induction m with
  | nil => simp [keys, lookup]
  | cons p t ih =>
    obtain ⟨a, b⟩ := p
    by_cases h : a = k
    · simp [keys, lookup, h]
    · have h' : ¬ k = a := fun e => h e.symm
      simp only [keys, List.map_cons, List.mem_cons, lookup, h, if_false, h', false_or] at ih ⊢
      exact ih

theorem mem_entries_iff (m : Map K V) (k : K) (v : V) :
    (k, v) ∈ entries m ↔ lookup m k = some v := by
  simp only [entries, List.mem_filterMap, Option.map_eq_some_iff, Prod.mk.injEq]
  constructor
  · rintro ⟨a, _, w, hw, rfl, rfl⟩; exact hw
  · intro h
    exact ⟨k, (mem_keys_iff m k).2 (by simp [h]), v, h, rfl, rfl⟩

end Map

/-! ### bucket keys as sorted duplicate-free lists (bbolt key order = `bytes.Compare`) -/

def bytesLt : Bytes → Bytes → Bool
  | [], [] => false
  | [], _ :: _ => true
  | _ :: _, [] => false
  | a :: as, b :: bs => if a < b then true else if b < a then false else bytesLt as bs

/-- `Put(key)` into a bucket whose keys are `l` -/
def setInsert (a : Bytes) : List Bytes → List Bytes
  | [] => [a]
  | x :: t => if a = x then x :: t else if bytesLt a x then a :: x :: t else x :: setInsert a t

/-- `Delete(key)` -/
def setErase (a : Bytes) (l : List Bytes) : List Bytes := l.filter (fun x => decide (x ≠ a))

/-- `EmptyBucket` followed by `SetListEntry` for each element, in the caller's order -/
def setOf (l : List Bytes) : List Bytes := l.foldl (fun acc a => setInsert a acc) []

@[simp] theorem mem_setInsert (a x : Bytes) (l : List Bytes) : x ∈ setInsert a l ↔ x = a ∨ x ∈ l := by
  induction l with
  | nil => simp [setInsert]
  | cons y t ih =>
    unfold setInsert
    split
    · next h => subst h; simp
    · split
      · simp
      · simp only [List.mem_cons, ih]
        constructor
        · rintro (h | h | h) <;> simp [h]
        · rintro (h | h | h) <;> simp [h]

@[simp] theorem mem_setErase (a x : Bytes) (l : List Bytes) : x ∈ setErase a l ↔ x ≠ a ∧ x ∈ l := by
  simp [setErase, and_comm]

theorem mem_foldl_setInsert (l acc : List Bytes) (x : Bytes) :
    x ∈ l.foldl (fun acc a => setInsert a acc) acc ↔ x ∈ l ∨ x ∈ acc := by
  induction l generalizing acc with
  | nil => simp
  | cons a t ih =>
    simp only [List.foldl_cons, ih, mem_setInsert, List.mem_cons]
    constructor
    · rintro (h | h | h) <;> simp [h]
    · rintro ((h | h) | h) <;> simp [h]

@[simp] theorem mem_setOf (l : List Bytes) (x : Bytes) : x ∈ setOf l ↔ x ∈ l := by
  simp [setOf, mem_foldl_setInsert]

end StorageModel.C03
