import StorageModel.C03.Model
/-
  C03 specification: the entity table is the only state.  Indexes are *defined* as the image of
  the entity table; an operation is refused exactly when the resulting entity would break a
  constraint against the *other* entities.
-/
namespace StorageModel.C03.Spec
open StorageModel StorageModel.C03

structure SState where
  hasEnts : Bool
  ents : Map Id Ent
  deriving Repr

def SState.empty : SState := ⟨false, []⟩

/-- some entity other than `id` currently has name `v` -/
def nameHeldByOther (ents : Map Id Ent) (id : Id) (v : Bytes) : Bool :=
  ents.entries.any (fun p => decide (p.1 ≠ id) && decide (p.2.name = v))

def aliasHeldByOther (ents : Map Id Ent) (id : Id) (v : Bytes) : Bool :=
  ents.entries.any (fun p => decide (p.1 ≠ id) && decide (p.2.alias = some v))

/-- the errors that "correspond" to storing entity `e` under `id` (empty list: acceptable) -/
def violations (ents : Map Id Ent) (id : Id) (e : Ent) : List Err :=
  (if e.name = [] then [Err.nullNotAllowed] else []) ++
  (if e.name ≠ [] ∧ nameHeldByOther ents id e.name = true then [Err.dup] else []) ++
  (if e.alias.getD [] ≠ [] ∧ aliasHeldByOther ents id (e.alias.getD []) = true then [Err.dup] else []) ++
  (if [] ∈ e.roles then [Err.other] else [])

def put (t : SState) (id : Id) (e : Ent) (hasEnts : Bool) : Except (List Err) SState :=
  match violations t.ents id e with
  | [] => .ok ⟨hasEnts, t.ents.insert id e⟩
  | v :: vs => .error (v :: vs)

def step (t : SState) : Op → Except (List Err) SState
  | .create id v =>
    if id = [] then .error [.other]
    else if (t.ents.lookup id).isSome then .error [.exists]
    else put t id (persistCreate v) true
  | .update id v chk =>
    if id = [] then .error [.other]
    else match t.ents.lookup id with
      | none => .error [.notFound]
      | some old => put t id (persist old v chk) t.hasEnts
  | .delete id =>
    if id = [] then .error [.notFound]
    else match t.ents.lookup id with
      | none => .error [.notFound]
      | some _ => .ok ⟨t.hasEnts, t.ents.erase id⟩

def applyOps : SState → List Op → Nat → Except (Nat × List Err) SState
  | t, [], _ => .ok t
  | t, op :: rest, i =>
    match step t op with
    | .ok t' => applyOps t' rest (i + 1)
    | .error es => .error (i, es)

def txStep (t : SState) (ops : List Op) : SState × Option (List Err) :=
  match applyOps t ops 0 with
  | .ok t' => (t', none)
  | .error (_, es) => (t, some es)

/-! the indexes, derived -/

def nameIndex (ents : Map Id Ent) : Map Bytes Id :=
  ents.entries.filterMap (fun p => if p.2.name ≠ [] then some (p.2.name, p.1) else none)

def aliasIndex (ents : Map Id Ent) : Map Bytes Id :=
  ents.entries.filterMap (fun p => if p.2.alias.getD [] ≠ [] then some (p.2.alias.getD [], p.1) else none)

def rolesIndex (ents : Map Id Ent) : Map Bytes (List Id) :=
  (ents.entries.flatMap (·.2.roles)).map fun v =>
    (v, (ents.entries.filter (fun p => decide (v ∈ p.2.roles))).map (·.1))

def render (t : SState) : List Line :=
  fixedLines ++ renderEnts t.hasEnts t.ents ++
  (nameIndex t.ents).flatMap (renderUnique bName) ++
  (aliasIndex t.ents).flatMap (renderUnique bAlias) ++
  (rolesIndex t.ents).flatMap (renderSetKey bRoles)

end StorageModel.C03.Spec
