import StorageModel.C03.RenderSpec
/-
  C03: rejection lemmas — a write that would duplicate a unique value or put an empty value into
  the non-nullable index fails with exactly that error.
-/
namespace StorageModel.C03
open StorageModel

/-- the entity an operation is about to store, when it passes the id / existence checks -/
def targetEnt (s : State) : Op → Option (Id × Ent)
  | .create id v => if id ≠ [] ∧ s.ents.lookup id = none then some (id, persistCreate v) else none
  | .update id v chk => if id = [] then none else (s.ents.lookup id).map fun old => (id, persist old v chk)
  | .delete _ => none

/-- the new entity's name, or its non-empty alias, is currently held by another entity -/
def WouldDuplicate (s : State) (op : Op) : Prop :=
  ∃ id e, targetEnt s op = some (id, e) ∧ e.name ≠ [] ∧
    (HeldByOther (·.name) s.ents id e.name ∨
     (e.alias.getD [] ≠ [] ∧ HeldByOther (fun e => e.alias.getD []) s.ents id (e.alias.getD [])))

/-- the new entity's name (non-nullable unique index) is empty -/
def WouldBeEmpty (s : State) (op : Op) : Prop :=
  ∃ id e, targetEnt s op = some (id, e) ∧ e.name = []

theorem afterUpdate_create_dup {s : State} {id : Id} {e : Ent} (hi : Inv s) (hfresh : s.ents.lookup id = none)
    (hne : e.name ≠ [])
    (hd : HeldByOther (·.name) s.ents id e.name ∨
      (e.alias.getD [] ≠ [] ∧ HeldByOther (fun e => e.alias.getD []) s.ents id (e.alias.getD []))) :
    afterUpdate true Captured.none { s with hasEnts := true, ents := s.ents.insert id e } id = .error .dup := by
  simp only [afterUpdate, Captured.none, bind, Except.bind, Map.lookup_insert, if_true, evalName, evalAlias,
    evalRoles, pure, Except.pure]
  cases hun : uniqueAfter true false [] e.name id s.uName with
  | error x =>
    rcases uniqueAfter_create_err hi.uName hfresh hun with ⟨_, h1, _⟩ | ⟨rfl, _, _⟩
    · exact absurd h1 hne
    · rfl
  | ok un =>
    simp only
    rcases uniqueAfter_create_okc hi.uName hun with ⟨_, h⟩ | ⟨_, hnh⟩
    · cases h
    · rcases hd with hd | ⟨hane, hd⟩
      · exact absurd hd hnh
      · cases hua : uniqueAfter true true [] (e.alias.getD []) id s.uAlias with
        | error x =>
          rcases uniqueAfter_create_err hi.uAlias hfresh hua with ⟨_, _, h3⟩ | ⟨rfl, _, _⟩
          · cases h3
          · rfl
        | ok ua =>
          rcases uniqueAfter_create_okc hi.uAlias hua with ⟨h, _⟩ | ⟨_, h⟩
          · exact absurd h hane
          · exact absurd hd h

theorem afterUpdate_update_dup {s : State} {id : Id} {old e : Ent} (hi : Inv s) (hold : s.ents.lookup id = some old)
    (hne : e.name ≠ [])
    (hd : HeldByOther (·.name) s.ents id e.name ∨
      (e.alias.getD [] ≠ [] ∧ HeldByOther (fun e => e.alias.getD []) s.ents id (e.alias.getD []))) :
    afterUpdate false (capture s id) { s with ents := s.ents.insert id e } id = .error .dup := by
  simp only [afterUpdate, capture, hold, bind, Except.bind, Map.lookup_insert, if_true, evalName, evalAlias,
    evalRoles, pure, Except.pure]
  cases hun : uniqueAfter false false old.name e.name id s.uName with
  | error x =>
    rcases uniqueAfter_update_err (f := (·.name)) hi.uName hold hun with ⟨_, h1, _⟩ | ⟨rfl, _, _⟩
    · exact absurd h1 hne
    · rfl
  | ok un =>
    simp only
    rcases uniqueAfter_update_okc (f := (·.name)) hi.uName hold hun with ⟨h, _⟩ | ⟨_, hnh⟩
    · exact absurd h hne
    · rcases hd with hd | ⟨hane, hd⟩
      · exact absurd hd hnh
      · cases hua : uniqueAfter false true (old.alias.getD []) (e.alias.getD []) id s.uAlias with
        | error x =>
          rcases uniqueAfter_update_err (f := fun e => e.alias.getD []) hi.uAlias hold hua with ⟨_, _, h3⟩ | ⟨rfl, _, _⟩
          · cases h3
          · rfl
        | ok ua =>
          rcases uniqueAfter_update_okc (f := fun e => e.alias.getD []) hi.uAlias hold hua with ⟨h, _⟩ | ⟨_, h⟩
          · exact absurd h hane
          · exact absurd hd h

theorem stepRaw_dup {s : State} {op : Op} (hi : Inv s) (hw : WouldDuplicate s op) : stepRaw s op = .error .dup := by
  obtain ⟨id, e, ht, hne, hd⟩ := hw
  cases op with
  | create i v =>
    simp only [targetEnt] at ht
    split at ht
    · next hc =>
      cases ht
      simp only [stepRaw, create, hc.1, if_false, hc.2, Option.isSome_none, Bool.false_eq_true]
      exact afterUpdate_create_dup hi hc.2 hne hd
    · cases ht
  | update i v chk =>
    simp only [targetEnt] at ht
    split at ht
    · cases ht
    · next hid =>
      cases hold : s.ents.lookup i with
      | none => simp [hold] at ht
      | some old =>
        simp only [hold, Option.map_some, Option.some.injEq, Prod.mk.injEq] at ht
        obtain ⟨rfl, rfl⟩ := ht
        simp only [stepRaw, update, hid, if_false, hold]
        exact afterUpdate_update_dup hi hold hne hd
  | delete i => simp [targetEnt] at ht

theorem uniqueAfter_null {isCreate : Bool} {old : Bytes} {id : Id} {idx : Map Bytes Id}
    (h : isCreate = true ∨ old ≠ []) :
    uniqueAfter isCreate false old [] id idx = .error .nullNotAllowed := by
  unfold uniqueAfter
  rcases h with rfl | h
  · simp
  · have : (old == []) = false := by simpa using h
    simp [this]

theorem stepRaw_empty {s : State} {op : Op} (hi : Inv s) (hw : WouldBeEmpty s op) :
    stepRaw s op = .error .nullNotAllowed := by
  obtain ⟨id, e, ht, hne⟩ := hw
  cases op with
  | create i v =>
    simp only [targetEnt] at ht
    split at ht
    · next hc =>
      cases ht
      simp only [stepRaw, create, hc.1, if_false, hc.2, Option.isSome_none, Bool.false_eq_true, afterUpdate,
        Captured.none, bind, Except.bind, Map.lookup_insert, if_true, evalName]
      rw [hne, uniqueAfter_null (Or.inl rfl)]
    · cases ht
  | update i v chk =>
    simp only [targetEnt] at ht
    split at ht
    · cases ht
    · next hid =>
      cases hold : s.ents.lookup i with
      | none => simp [hold] at ht
      | some old =>
        simp only [hold, Option.map_some, Option.some.injEq, Prod.mk.injEq] at ht
        obtain ⟨rfl, rfl⟩ := ht
        simp only [stepRaw, update, hid, if_false, hold, afterUpdate, capture, bind, Except.bind,
          Map.lookup_insert, if_true, evalName]
        rw [hne, uniqueAfter_null (Or.inr (hi.namesNonEmpty _ _ hold))]
  | delete i => simp [targetEnt] at ht

theorem panic_not_mem_violations (ents : Map Id Ent) (id : Id) (e : Ent) : Err.panic ∉ Spec.violations ents id e := by
  intro h
  have := (mem_violations _ _ _ _).1 h
  simp at this

theorem spec_put_no_panic {t : Spec.SState} {id : Id} {e : Ent} {b : Bool} {es : List Err}
    (h : Spec.put t id e b = .error es) : Err.panic ∉ es := by
  unfold Spec.put at h
  split at h
  · cases h
  · next a b hv => cases h; rw [← hv]; exact panic_not_mem_violations _ _ _

theorem spec_step_no_panic {t : Spec.SState} {op : Op} {es : List Err} (h : Spec.step t op = .error es) :
    Err.panic ∉ es := by
  cases op with
  | create id v =>
    simp only [Spec.step] at h
    split at h
    · cases h; simp
    · split at h
      · cases h; simp
      · exact spec_put_no_panic h
  | update id v chk =>
    simp only [Spec.step] at h
    split at h
    · cases h; simp
    · split at h
      · cases h; simp
      · exact spec_put_no_panic h
  | delete id =>
    simp only [Spec.step] at h
    split at h
    · cases h; simp
    · split at h
      · cases h; simp
      · cases h

theorem stepRaw_no_panic {s : State} {op : Op} (hi : Inv s) : stepRaw s op ≠ .error .panic := by
  intro h
  have := stepRaw_refines hi op
  rw [h] at this
  cases hs : Spec.step (abs s) op with
  | ok t => rw [hs] at this; exact this
  | error es => rw [hs] at this; exact spec_step_no_panic hs this

end StorageModel.C03
