import StorageModel.C03.Map
/-
  C03 engine model: one store ("things") with
      name   string    unique index, non-nullable   (boltz.uniqueIndex, nullable = false)
      alias  *string   unique index, nullable       (boltz.uniqueIndex, nullable = true)
      roles  []string  set index                    (boltz.setIndex)
  following boltz/store_crud.go (Create / Update / DeleteById / processDeleteConstraints),
  boltz/indexes.go (IndexingContext, uniqueIndex.*, setIndex.*) and the setters of
  boltz/typed_bucket.go (ProceedWithSet) branch by branch.

  Every bucket of the database is an explicit association-list map.  An operation that ends in
  an error yields no state (`Except`): the caller's transaction is rolled back by bbolt
  (modelled, not verified).
-/
namespace StorageModel.C03
open StorageModel

abbrev Id := Bytes

/-- error enum shared with the harness; `panic` is the third outcome (nil dereference) -/
inductive Err
  | dup | nullNotAllowed | notFound | exists | refExists | other | panic
  deriving DecidableEq, Repr

/-- an entity as stored in its bucket `u/things/<id>` -/
structure Ent where
  name : Bytes
  alias : Option Bytes
  /-- keys of the `roles` sub-bucket (sorted, duplicate free) -/
  roles : List Bytes
  deriving DecidableEq, Repr

structure State where
  /-- the bucket `u/things` exists (created by the first successful `Create`) -/
  hasEnts : Bool
  ents : Map Id Ent
  /-- `u/indexes/things/name`: value → id -/
  uName : Map Bytes Id
  /-- `u/indexes/things/alias`: value → id -/
  uAlias : Map Bytes Id
  /-- `u/indexes/things/roles`: value → bucket of ids -/
  sRoles : Map Bytes (List Id)
  deriving Repr

/-- the database after `InitializeIndexes` -/
def State.empty : State := ⟨false, [], [], [], []⟩

/-- the entity value handed to Create / Update by the caller -/
structure Vals where
  name : Bytes
  alias : Option Bytes
  /-- as given: any order, duplicates possible -/
  roles : List Bytes
  deriving Repr

/-- a `FieldChecker`: which of the fields `IsUpdated` -/
structure Checker where
  name : Bool
  alias : Bool
  roles : Bool
  deriving Repr

inductive Op
  | create (id : Id) (v : Vals)
  /-- `chk = none` is the nil checker (full update) -/
  | update (id : Id) (v : Vals) (chk : Option Checker)
  | delete (id : Id)
  deriving Repr

/-! ### PersistEntity through the typed-bucket setters -/

/-- `TypedBucket.ProceedWithSet` (the bucket carries no error at this point) -/
def proceed (chk : Option Checker) (f : Checker → Bool) : Bool :=
  match chk with
  | none => true
  | some c => f c

/-- `SetString name`, `SetStringP alias`, `SetStringList roles` under a checker -/
def persist (old : Ent) (v : Vals) (chk : Option Checker) : Ent :=
  { name := if proceed chk (·.name) then v.name else old.name
    alias := if proceed chk (·.alias) then v.alias else old.alias
    roles := if proceed chk (·.roles) then setOf v.roles else old.roles }

/-- Create: fresh bucket, nil checker -/
def persistCreate (v : Vals) : Ent := ⟨v.name, v.alias, setOf v.roles⟩

/-! ### symbol evaluation (`entitySymbol.Eval`, `setIndex.getCurrentValues`) -/

def evalName : Option Ent → Bytes
  | none => []
  | some e => e.name

/-- nil (`TypeNil`) and the empty string both evaluate to a zero-length value -/
def evalAlias : Option Ent → Bytes
  | none => []
  | some e => e.alias.getD []

def evalRoles : Option Ent → List Bytes
  | none => []
  | some e => e.roles

/-- `IndexingContext.AtomStates` / `SetStates` after `ProcessBeforeUpdate`
    (all empty on Create, where `ProcessBeforeUpdate` is not called) -/
structure Captured where
  name : Bytes
  alias : Bytes
  roles : List Bytes

def Captured.none : Captured := ⟨[], [], []⟩

def capture (s : State) (id : Id) : Captured :=
  let e := s.ents.lookup id
  ⟨evalName e, evalAlias e, evalRoles e⟩

/-! ### uniqueIndex -/

/-- `uniqueIndex.ProcessAfterUpdate` -/
def uniqueAfter (isCreate nullable : Bool) (old new : Bytes) (id : Id) (idx : Map Bytes Id) :
    Except Err (Map Bytes Id) :=
  if !isCreate && old == new then .ok idx
  else
    let idx1 := if old ≠ [] then idx.erase old else idx
    if new ≠ [] then
      match idx1.lookup new with
      | some _ => .error .dup
      | none => .ok (idx1.insert new id)
    else if !nullable then .error .nullNotAllowed
    else .ok idx1

/-- `uniqueIndex.ProcessBeforeDelete` -/
def uniqueBeforeDelete (val : Bytes) (idx : Map Bytes Id) : Map Bytes Id :=
  if val ≠ [] then idx.erase val else idx

/-! ### setIndex -/

/-- `getIndexBucket(v).DeleteListEntry(id)`, then `deleteIndexKey(v)` when the bucket is empty -/
def setIdxDel (id : Id) (idx : Map Bytes (List Id)) (v : Bytes) : Map Bytes (List Id) :=
  let ids := setErase id ((idx.lookup v).getD [])
  if ids = [] then idx.erase v else idx.insert v ids

/-- `getIndexBucket(v).SetListEntry(id)` -/
def setIdxAdd (id : Id) (idx : Map Bytes (List Id)) (v : Bytes) : Map Bytes (List Id) :=
  idx.insert v (setInsert id ((idx.lookup v).getD []))

/-- the loop over positions of `setIndex.ProcessAfterUpdate` (equal lengths) -/
def changedAt : List Bytes → List Bytes → Bool
  | o :: os, n :: ns => if o ≠ n then true else changedAt os ns
  | _, _ => false

def setChanged (old new : List Bytes) : Bool :=
  if old.length ≠ new.length then true else changedAt old new

/-- `setIndex.ProcessAfterUpdate`.  A zero-length value cannot name a bucket
    (`GetOrCreateBucket("")` fails): among the new values that is an error; among the old
    values the code goes on to call `Cursor()` on the error bucket — a nil dereference. -/
def setAfter (old new : List Bytes) (id : Id) (idx : Map Bytes (List Id)) :
    Except Err (Map Bytes (List Id)) :=
  if !setChanged old new then .ok idx
  else if old.any (· == []) then .error .panic
  else
    let idx1 := old.foldl (setIdxDel id) idx
    if new.any (· == []) then .error .other
    else .ok (new.foldl (setIdxAdd id) idx1)

/-- `setIndex.ProcessBeforeDelete` -/
def setBeforeDelete (vals : List Bytes) (id : Id) (idx : Map Bytes (List Id)) :
    Except Err (Map Bytes (List Id)) :=
  if vals.any (· == []) then .error .panic
  else .ok (vals.foldl (setIdxDel id) idx)

/-! ### IndexingContext.ProcessAfterUpdate: constraints in registration order, each skipped once
    the error holder carries an error -/

def afterUpdate (isCreate : Bool) (cap : Captured) (s : State) (id : Id) : Except Err State := do
  let e := s.ents.lookup id
  let un ← uniqueAfter isCreate false cap.name (evalName e) id s.uName
  let ua ← uniqueAfter isCreate true cap.alias (evalAlias e) id s.uAlias
  let sr ← setAfter cap.roles (evalRoles e) id s.sRoles
  pure { s with uName := un, uAlias := ua, sRoles := sr }

/-! ### BaseStore.Create / Update / DeleteById -/

def create (s : State) (id : Id) (v : Vals) : Except Err State :=
  if id = [] then .error .other                               -- "cannot create with blank id"
  else if (s.ents.lookup id).isSome then .error .exists        -- IsEntityPresent
  else
    let s1 := { s with hasEnts := true, ents := s.ents.insert id (persistCreate v) }
    afterUpdate true Captured.none s1 id

def update (s : State) (id : Id) (v : Vals) (chk : Option Checker) : Except Err State :=
  if id = [] then .error .other                               -- "cannot update with blank id"
  else
    match s.ents.lookup id with
    | none => .error .notFound                                 -- FindById
    | some old =>
      let cap := capture s id                                  -- ProcessBeforeUpdate
      let s1 := { s with ents := s.ents.insert id (persist old v chk) }
      afterUpdate false cap s1 id                              -- ProcessAfterUpdate

def delete (s : State) (id : Id) : Except Err State :=
  if id = [] then .error .notFound                             -- no bucket has an empty name
  else
    match s.ents.lookup id with
    | none => .error .notFound
    | some e => do
      -- processDeleteConstraints → ProcessBeforeDelete, constraints in registration order
      let un := uniqueBeforeDelete (evalName (some e)) s.uName
      let ua := uniqueBeforeDelete (evalAlias (some e)) s.uAlias
      let sr ← setBeforeDelete (evalRoles (some e)) id s.sRoles
      -- bucket.DeleteEntity(id)
      pure { s with ents := s.ents.erase id, uName := un, uAlias := ua, sRoles := sr }

def stepRaw (s : State) : Op → Except Err State
  | .create id v => create s id v
  | .update id v chk => update s id v chk
  | .delete id => delete s id

/-- the operations of one transaction body, in order; the first error aborts -/
def applyOps : State → List Op → Nat → Except (Nat × Err) State
  | s, [], _ => .ok s
  | s, op :: rest, i =>
    match stepRaw s op with
    | .ok s' => applyOps s' rest (i + 1)
    | .error e => .error (i, e)

inductive Res
  | ok
  | err (e : Err)
  deriving DecidableEq, Repr

/-- one `Db.Update`: all operations or none (bbolt rollback) -/
def txStep (s : State) (ops : List Op) : State × Res :=
  match applyOps s ops 0 with
  | .ok s' => (s', .ok)
  | .error (_, e) => (s, .err e)

/-- one operation in its own transaction -/
def step (s : State) (op : Op) : State × Res := txStep s [op]

/-- a history of transactions from the initial database -/
def run (txs : List (List Op)) : State := txs.foldl (fun s ops => (txStep s ops).1) State.empty

/-! ### the SetChangeListener calls of one operation (old values, new values) -/

def listenerCalls (s : State) : Op → List (Id × List Bytes × List Bytes)
  | .create id v =>
    if id = [] ∨ (s.ents.lookup id).isSome then []
    else
      let e := persistCreate v
      let s1 := { s with ents := s.ents.insert id e }
      match (do
        let _ ← uniqueAfter true false [] e.name id s1.uName
        uniqueAfter true true [] (e.alias.getD []) id s1.uAlias) with
      | .error _ => []
      | .ok _ => if setChanged [] e.roles then [(id, [], e.roles)] else []
  | .update id v chk =>
    if id = [] then []
    else match s.ents.lookup id with
      | none => []
      | some old =>
        let e := persist old v chk
        match (do
          let _ ← uniqueAfter false false old.name e.name id s.uName
          uniqueAfter false true (old.alias.getD []) (e.alias.getD []) id s.uAlias) with
        | .error _ => []
        | .ok _ => if setChanged old.roles e.roles && !old.roles.any (· == []) then [(id, old.roles, e.roles)] else []
  | .delete _ => []

/-! ### Render: the canonical bucket dump (what `boltz.Traverse` visits) -/

inductive Line
  /-- a bucket, with its full path -/
  | bucket (path : List Bytes)
  /-- a key/value pair inside the bucket at `path` -/
  | kv (path : List Bytes) (key : Bytes) (val : Bytes)
  deriving DecidableEq, Repr

def bU : Bytes := [117]
def bIndexes : Bytes := [105, 110, 100, 101, 120, 101, 115]
def bThings : Bytes := [116, 104, 105, 110, 103, 115]
def bName : Bytes := [110, 97, 109, 101]
def bAlias : Bytes := [97, 108, 105, 97, 115]
def bRoles : Bytes := [114, 111, 108, 101, 115]

/-- `PrependFieldType(TypeString, v)` -/
def typed (v : Bytes) : Bytes := 5 :: v
/-- the stored form of a nil field -/
def nilField : Bytes := [7]

def idxPath (field : Bytes) : List Bytes := [bU, bIndexes, bThings, field]
def entPath (id : Id) : List Bytes := [bU, bThings, id]

def renderEnt (p : Id × Ent) : List Line :=
  [ .bucket (entPath p.1),
    .kv (entPath p.1) bName (typed p.2.name),
    .kv (entPath p.1) bAlias (match p.2.alias with | none => nilField | some a => typed a),
    .bucket (entPath p.1 ++ [bRoles]) ] ++
  p.2.roles.map (fun r => .kv (entPath p.1 ++ [bRoles]) (typed r) [])

def renderUnique (field : Bytes) (p : Bytes × Id) : List Line :=
  [ .kv (idxPath field) p.1 p.2 ]

def renderSetKey (field : Bytes) (p : Bytes × List Id) : List Line :=
  .bucket (idxPath field ++ [p.1]) :: p.2.map (fun i => .kv (idxPath field ++ [p.1]) (typed i) [])

def fixedLines : List Line :=
  [ .bucket [bU], .bucket [bU, bIndexes], .bucket [bU, bIndexes, bThings],
    .bucket (idxPath bName), .bucket (idxPath bAlias), .bucket (idxPath bRoles) ]

def renderEnts (hasEnts : Bool) (ents : Map Id Ent) : List Line :=
  (if hasEnts then [Line.bucket [bU, bThings]] else []) ++ ents.entries.flatMap renderEnt

def Render (s : State) : List Line :=
  fixedLines ++ renderEnts s.hasEnts s.ents ++
  s.uName.entries.flatMap (renderUnique bName) ++
  s.uAlias.entries.flatMap (renderUnique bAlias) ++
  s.sRoles.entries.flatMap (renderSetKey bRoles)

end StorageModel.C03
