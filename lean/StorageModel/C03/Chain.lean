import StorageModel.C03.Spec
/-
  C03 engine model for store CHAINS of any depth: root store → child store → grandchild store → …
  (`NewBaseStore` accepts a child store as `Parent`; level j ≥ 1 keeps its data in the sub-bucket
  `ext`, `ext/g`, `ext/g/g`, … of the root's entity bucket).  Every level declares a unique index
  (non-nullable) on a field `u<j>` of its own and a set index on a field `s<j>` of its own, in this
  registration order.

  Follows boltz/store_crud.go:
    * `newIndexingContext` chains to the parent store's context, level by level;
      `IndexingContext.ProcessBeforeUpdate / ProcessAfterUpdate / ProcessBeforeDelete` run the parent
      context first (recursively, so levels 0, 1, …, k in this order), each level skipped once the
      error holder carries an error;
    * `Create` through level k: blank id; level-k data present → exists; the IMMEDIATE parent's data
      present → `indexingContext.Parent.ProcessBeforeUpdate()` captures levels 0..k-1, otherwise nothing
      is captured at any level; the entity strategy persists the fields of every level 0..k through
      `PersistContext.GetParentContext` (nil checker); `ProcessAfterUpdate` (create context);
    * `Update` through level k: a store whose child-store strategy finds data for the id one level down
      hands over (`ChildStoreUpdateHandler.HandleUpdate`), so the update runs at the deepest level d ≥ k
      holding the id, the stored fields of levels k+1..d resubmitted; capture 0..d, persist under the
      checker, apply 0..d;
    * `DeleteById` through any level hands over to the ROOT, which runs `processDeleteConstraints` of
      the stores registered with it (the level-1 store: its context walks level 0, then level 1), then
      its own (level 0 again), then removes the entity bucket with everything below.  The indexes
      declared at depth ≥ 2 are NOT visited (recorded as a finding; the model follows the code).
  The steps of one constraint (`uniqueAfter`, `setAfter`, `uniqueBeforeDelete`, `setBeforeDelete`) are
  those of Model.lean.
-/
namespace StorageModel.C03.Chain
open StorageModel StorageModel.C03

/-- the fields one level declares -/
structure Rec where
  u : Bytes
  s : List Bytes
  deriving DecidableEq, Repr

/-- one store level: its data (per id) and its two index buckets -/
structure Level where
  data : Map Id Rec
  uniq : Map Bytes Id
  set : Map Bytes (List Id)
  deriving DecidableEq, Repr

def Level.empty : Level := ⟨[], [], []⟩

structure State where
  hasEnts : Bool
  levels : List Level
  deriving DecidableEq, Repr

def State.empty (depth : Nat) : State := ⟨false, List.replicate depth Level.empty⟩

/-- which of a level's two fields a patch names -/
structure Sel where
  u : Bool
  s : Bool
  deriving DecidableEq, Repr

inductive Op
  /-- create through level `recs.length - 1` (one record per level 0..k) -/
  | create (id : Id) (recs : List Rec)
  /-- update through level `recs.length - 1`; `chk = none` is the nil checker, otherwise one selection per level -/
  | update (id : Id) (recs : List Rec) (chk : Option (List Sel))
  | delete (id : Id)
  deriving DecidableEq, Repr

def has (L : Level) (id : Id) : Bool := (L.data.lookup id).isSome

def selAt (chk : Option (List Sel)) (j : Nat) : Option Sel :=
  match chk with
  | none => none
  | some l => some (l.getD j ⟨false, false⟩)

/-- `PersistEntity` at one level under `ProceedWithSet` -/
def persist (old : Rec) (r : Rec) (c : Option Sel) : Rec :=
  match c with
  | none => ⟨r.u, setOf r.s⟩
  | some c => ⟨if c.u then r.u else old.u, if c.s then setOf r.s else old.s⟩

/-- what `ProcessBeforeUpdate` captured (nothing captured: nil / no values) -/
def oldU : Option Rec → Bytes
  | none => []
  | some o => o.u
def oldS : Option Rec → List Bytes
  | none => []
  | some o => o.s

/-- one level's share of persist + `ProcessAfterUpdate`: unique index, then set index -/
def Level.put (L : Level) (isCreate : Bool) (old : Option Rec) (id : Id) (new : Rec) : Except Err Level := do
  let uq ← uniqueAfter isCreate false (oldU old) new.u id L.uniq
  let st ← setAfter (oldS old) new.s id L.set
  pure ⟨L.data.insert id new, uq, st⟩

/-- run `f` on levels i, i+1, … for as many records as there are; the first error wins -/
def mapPrefix (f : Nat → Level → Rec → Except Err Level) : Nat → List Level → List Rec → Except Err (List Level)
  | _, Ls, [] => .ok Ls
  | _, [], _ :: _ => .error .other
  | i, L :: Ls, r :: rs =>
    match f i L r with
    | .error e => .error e
    | .ok L' =>
      match mapPrefix f (i + 1) Ls rs with
      | .error e => .error e
      | .ok Ls' => .ok (L' :: Ls')

def createLevel (cap : Bool) (id : Id) (_ : Nat) (L : Level) (r : Rec) : Except Err Level :=
  L.put true (if cap then L.data.lookup id else none) id ⟨r.u, setOf r.s⟩

/-- the bucket of a level the update walks through is missing: `GetParentContext` dereferences nil -/
def updateLevel (chk : Option (List Sel)) (id : Id) (j : Nat) (L : Level) (r : Rec) : Except Err Level :=
  match L.data.lookup id with
  | none => .error .panic
  | some o => L.put false (some o) id (persist o r (selAt chk j))

def levelHas (Ls : List Level) (j : Nat) (id : Id) : Bool :=
  match Ls[j]? with
  | none => false
  | some L => has L id

def create (s : State) (id : Id) (recs : List Rec) : Except Err State :=
  if id = [] then .error .other
  else if recs = [] ∨ s.levels.length < recs.length then .error .other
  else if levelHas s.levels (recs.length - 1) id then .error .exists
  else
    let cap := decide (2 ≤ recs.length) && levelHas s.levels (recs.length - 2) id
    match mapPrefix (createLevel cap id) 0 s.levels recs with
    | .error e => .error e
    | .ok Ls => .ok ⟨true, Ls⟩

/-- the records an update through level `recs.length - 1` ends up with: every deeper level holding the
    id takes over, its stored fields resubmitted -/
def extend (id : Id) : List Level → List Rec → List Rec
  | [], recs => recs
  | L :: Ls, recs =>
    match L.data.lookup id with
    | none => recs
    | some r => extend id Ls (recs ++ [r])

def updateAt (s : State) (id : Id) (recs : List Rec) (chk : Option (List Sel)) : Except Err State :=
  if id = [] then .error .other
  else if recs = [] ∨ s.levels.length < recs.length then .error .other
  else if !levelHas s.levels (recs.length - 1) id then .error .notFound
  else
    match mapPrefix (updateLevel chk id) 0 s.levels recs with
    | .error e => .error e
    | .ok Ls => .ok ⟨s.hasEnts, Ls⟩

def update (s : State) (id : Id) (recs : List Rec) (chk : Option (List Sel)) : Except Err State :=
  updateAt s id (extend id (s.levels.drop recs.length) recs) chk

/-- one level's constraints in `ProcessBeforeDelete` -/
def Level.pass (L : Level) (id : Id) (r : Rec) : Except Err Level :=
  match setBeforeDelete r.s id L.set with
  | .error e => .error e
  | .ok st => .ok ⟨L.data, uniqueBeforeDelete r.u L.uniq, st⟩

def Level.eraseData (L : Level) (id : Id) : Level := ⟨L.data.erase id, L.uniq, L.set⟩

def delete (s : State) (id : Id) : Except Err State :=
  if id = [] then .error .notFound
  else
    match s.levels with
    | [] => .error .notFound
    | L0 :: rest =>
      match L0.data.lookup id with
      | none => .error .notFound
      | some r0 =>
        match rest with
        | [] => do
          let a ← L0.pass id r0
          pure ⟨s.hasEnts, [a.eraseData id]⟩
        | L1 :: deep =>
          match L1.data.lookup id with
          | none => do
            let a ← L0.pass id r0
            pure ⟨s.hasEnts, a.eraseData id :: L1 :: deep.map (·.eraseData id)⟩
          | some r1 => do
            let a ← L0.pass id r0      -- the level-1 store's context: parent constraints first …
            let b ← L1.pass id r1      -- … then its own
            let c ← a.pass id r0       -- the root's own processDeleteConstraints
            pure ⟨s.hasEnts, c.eraseData id :: b.eraseData id :: deep.map (·.eraseData id)⟩

def stepRaw (s : State) : Op → Except Err State
  | .create id recs => create s id recs
  | .update id recs chk => update s id recs chk
  | .delete id => delete s id

def applyOps : State → List Op → Nat → Except (Nat × Err) State
  | s, [], _ => .ok s
  | s, op :: rest, i =>
    match stepRaw s op with
    | .ok s' => applyOps s' rest (i + 1)
    | .error e => .error (i, e)

/-- one transaction: all operations or none (bbolt rollback, modelled) -/
def txStep (s : State) (ops : List Op) : State × Res :=
  match applyOps s ops 0 with
  | .ok s' => (s', .ok)
  | .error (_, e) => (s, .err e)

def step (s : State) (op : Op) : State × Res := txStep s [op]

def run (depth : Nat) (txs : List (List Op)) : State :=
  txs.foldl (fun s ops => (txStep s ops).1) (State.empty depth)

/-! ### Render -/

def bExt : Bytes := [101, 120, 116]
def bG : Bytes := [103]
/-- field / symbol names `u<j>`, `s<j>` -/
def uName (j : Nat) : Bytes := [117, UInt8.ofNat (48 + j)]
def sName (j : Nat) : Bytes := [115, UInt8.ofNat (48 + j)]

/-- entity path of level j below the root's entity bucket: [] , ext, ext/g, ext/g/g, … -/
def subPath : Nat → List Bytes
  | 0 => []
  | j + 1 => bExt :: List.replicate j bG

def idxPath (sym : Bytes) : List Bytes := [bU, bIndexes, bThings, sym]

def renderRec (j : Nat) (p : Id × Rec) : List Line :=
  let path := [bU, bThings, p.1] ++ subPath j
  [ .bucket path, .kv path (uName j) (typed p.2.u), .bucket (path ++ [sName j]) ] ++
  p.2.s.map (fun r => .kv (path ++ [sName j]) (typed r) [])

def renderUnique (path : List Bytes) (p : Bytes × Id) : List Line := [ .kv path p.1 p.2 ]

def renderSetKey (path : List Bytes) (p : Bytes × List Id) : List Line :=
  .bucket (path ++ [p.1]) :: p.2.map (fun i => .kv (path ++ [p.1]) (typed i) [])

def renderLevel (j : Nat) (data : Map Id Rec) (uq : Map Bytes Id) (st : Map Bytes (List Id)) : List Line :=
  [ Line.bucket (idxPath (uName j)), Line.bucket (idxPath (sName j)) ] ++
  data.entries.flatMap (renderRec j) ++
  uq.entries.flatMap (renderUnique (idxPath (uName j))) ++
  st.entries.flatMap (renderSetKey (idxPath (sName j)))

def renderLevels : Nat → List Level → List Line
  | _, [] => []
  | j, L :: Ls => renderLevel j L.data L.uniq L.set ++ renderLevels (j + 1) Ls

def Render (s : State) : List Line :=
  [ Line.bucket [bU], Line.bucket [bU, bIndexes], Line.bucket [bU, bIndexes, bThings] ] ++
  (if s.hasEnts then [Line.bucket [bU, bThings]] else []) ++ renderLevels 0 s.levels

/-! ### Spec: the per-level entity tables are the only state; indexes are derived; a write is refused
    exactly when some level's resulting record would break a constraint against the OTHER entities -/
namespace Spec

structure SState where
  hasEnts : Bool
  tables : List (Map Id Rec)
  deriving Repr

def SState.empty (depth : Nat) : SState := ⟨false, List.replicate depth []⟩

def heldByOther (t : Map Id Rec) (id : Id) (v : Bytes) : Bool :=
  t.entries.any (fun p => decide (p.1 ≠ id) && decide (p.2.u = v))

def violations (t : Map Id Rec) (id : Id) (r : Rec) : List Err :=
  (if r.u = [] then [Err.nullNotAllowed] else []) ++
  (if r.u ≠ [] ∧ heldByOther t id r.u = true then [Err.dup] else []) ++
  (if [] ∈ r.s then [Err.other] else [])

/-- the new records of levels 0..k, and every fault they have -/
def putAll (id : Id) (new : Map Id Rec → Nat → Rec → Rec) : Nat → List (Map Id Rec) → List Rec → List Err × List (Map Id Rec)
  | _, ts, [] => ([], ts)
  | _, [], _ :: _ => ([Err.other], [])
  | j, t :: ts, r :: rs =>
    let e := new t j r
    let rest := putAll id new (j + 1) ts rs
    (violations t id e ++ rest.1, t.insert id e :: rest.2)

def tHas (ts : List (Map Id Rec)) (j : Nat) (id : Id) : Bool :=
  match ts[j]? with
  | none => false
  | some t => (t.lookup id).isSome

def extend (id : Id) : List (Map Id Rec) → List Rec → List Rec
  | [], recs => recs
  | t :: ts, recs =>
    match t.lookup id with
    | none => recs
    | some r => extend id ts (recs ++ [r])

def step (t : SState) : Op → Except (List Err) SState
  | .create id recs =>
    if id = [] then .error [.other]
    else if recs = [] ∨ t.tables.length < recs.length then .error [.other]
    else if tHas t.tables (recs.length - 1) id then .error [.exists]
    else
      match putAll id (fun _ _ r => ⟨r.u, setOf r.s⟩) 0 t.tables recs with
      | ([], ts) => .ok ⟨true, ts⟩
      | (e :: es, _) => .error (e :: es)
  | .update id recs chk =>
    let recs' := extend id (t.tables.drop recs.length) recs
    if id = [] then .error [.other]
    else if recs = [] ∨ t.tables.length < recs.length then .error [.other]
    else if !tHas t.tables (recs'.length - 1) id then .error [.notFound]
    else
      match putAll id (fun tb j r => match tb.lookup id with
                                     | none => ⟨r.u, setOf r.s⟩
                                     | some o => persist o r (selAt chk j)) 0 t.tables recs' with
      | ([], ts) => .ok ⟨t.hasEnts, ts⟩
      | (e :: es, _) => .error (e :: es)
  | .delete id =>
    if id = [] then .error [.notFound]
    else if !tHas t.tables 0 id then .error [.notFound]
    else .ok ⟨t.hasEnts, t.tables.map (·.erase id)⟩

def applyOps : SState → List Op → Nat → Except (Nat × List Err) SState
  | t, [], _ => .ok t
  | t, op :: rest, i =>
    match step t op with
    | .ok t' => applyOps t' rest (i + 1)
    | .error es => .error (i, es)

def txStep (t : SState) (ops : List Op) : SState × Option (List Err) :=
  match applyOps t ops 0 with
  | .ok t' => (t', none)
  | .error (_, es) => (t, some es)

def uniqIndex (t : Map Id Rec) : Map Bytes Id :=
  t.entries.filterMap (fun p => if p.2.u ≠ [] then some (p.2.u, p.1) else none)

def setIndex (t : Map Id Rec) : Map Bytes (List Id) :=
  (t.entries.flatMap (·.2.s)).map fun v => (v, (t.entries.filter (fun p => decide (v ∈ p.2.s))).map (·.1))

def renderTables : Nat → List (Map Id Rec) → List Line
  | _, [] => []
  | j, t :: ts => renderLevel j t (uniqIndex t) (setIndex t) ++ renderTables (j + 1) ts

def render (t : SState) : List Line :=
  [ Line.bucket [bU], Line.bucket [bU, bIndexes], Line.bucket [bU, bIndexes, bThings] ] ++
  (if t.hasEnts then [Line.bucket [bU, bThings]] else []) ++ renderTables 0 t.tables

end Spec

end StorageModel.C03.Chain
