import StorageModel.C03.Layered
/-
  C03 specification for the enlarged operation set (parent store + plain child store; schema with
  base path, separate symbol / key / checker names and a choice of registered indexes).  The entity
  table — with the child data next to it — is the only state; the indexes are *defined* as its
  image, and a write is refused exactly when the resulting entity would break a constraint of a
  REGISTERED index against the OTHER entities.  Nothing of the index protocol (captures, contexts,
  passes, registration order) appears here.
-/
namespace StorageModel.C03.Layered.Spec
open StorageModel StorageModel.C03 StorageModel.C03.Layered

/-- the value an index sees: the field if the index is registered, nothing otherwise -/
def vName (sch : Schema) (e : Ent) : Bytes := if sch.regName then e.name else []
def vAlias (sch : Schema) (e : Ent) : Bytes := if sch.regAlias then e.alias.getD [] else []
def vRoles (sch : Schema) (e : Ent) : List Bytes := if sch.regRoles then e.roles else []

structure SState where
  hasEnts : Bool
  ents : Map Id Ent
  ext : Map Id Bytes
  deriving Repr

def SState.empty : SState := ⟨false, [], []⟩

def hasExt (t : SState) (id : Id) : Bool := (t.ents.lookup id).isSome && (t.ext.lookup id).isSome

/-- some entity other than `id` currently has value `v` under `f` -/
def heldByOther (f : Ent → Bytes) (ents : Map Id Ent) (id : Id) (v : Bytes) : Bool :=
  ents.entries.any (fun p => decide (p.1 ≠ id) && decide (f p.2 = v))

/-- the errors that "correspond" to storing entity `e` under `id` (empty list: acceptable) -/
def violations (sch : Schema) (ents : Map Id Ent) (id : Id) (e : Ent) : List Err :=
  (if sch.regName = true ∧ e.name = [] then [Err.nullNotAllowed] else []) ++
  (if vName sch e ≠ [] ∧ heldByOther (vName sch) ents id (vName sch e) = true then [Err.dup] else []) ++
  (if vAlias sch e ≠ [] ∧ heldByOther (vAlias sch) ents id (vAlias sch e) = true then [Err.dup] else []) ++
  (if [] ∈ vRoles sch e then [Err.other] else []) ++
  -- an indexed unique value is the key of its index entry: it must fit bbolt's key limit
  (if (vName sch e).length > maxKeySize ∨ (vAlias sch e).length > maxKeySize then [Err.other] else [])

/-- store the entity `e` under `id` unless that breaks a constraint; the child data becomes `x`
    (`none`: unchanged) -/
def put (sch : Schema) (t : SState) (id : Id) (e : Ent) (hasEnts : Bool) (x : Option Bytes) : Except (List Err) SState :=
  match violations sch t.ents id e with
  | [] => .ok ⟨hasEnts, t.ents.insert id e, match x with | some y => t.ext.insert id y | none => t.ext⟩
  | v :: vs => .error (v :: vs)

/-- an update of an entity with child data (through the child store, or through the parent store,
    which delegates): parent fields under the resolved checker, the child field when selected -/
def updateBoth (sch : Schema) (t : SState) (id : Id) (v : Vals) (tag : Bytes) (chk : Option (List Bytes)) :
    Except (List Err) SState :=
  if id = [] then .error [.other]
  else if !hasExt t id then .error [.notFound]
  else
    match t.ents.lookup id with
    | none => .error [.notFound]
    | some old =>
      put sch t id (persist old v (resolveOpt sch chk)) t.hasEnts
        (some (if tagSelected sch chk then tag else (t.ext.lookup id).getD []))

def step (sch : Schema) (t : SState) : Op → Except (List Err) SState
  | .create .parent id v _ =>
    if id = [] then .error [.other]
    else if (t.ents.lookup id).isSome then .error [.exists]
    else put sch t id (persistCreate v) true none
  | .create .child id v tag =>
    if id = [] then .error [.other]
    else if hasExt t id then .error [.exists]
    else put sch t id (persistCreate v) true (some tag)     -- a new entity, or the plain parent entity replaced
  | .update .child id v tag chk => updateBoth sch t id v tag chk
  | .update .parent id v _ chk =>
    if hasExt t id then updateBoth sch t id v ((t.ext.lookup id).getD []) chk
    else if id = [] then .error [.other]
    else match t.ents.lookup id with
      | none => .error [.notFound]
      | some old => put sch t id (persist old v (resolveOpt sch chk)) t.hasEnts none
  | .delete _ id =>
    if id = [] then .error [.notFound]
    else match t.ents.lookup id with
      | none => .error [.notFound]
      | some _ => .ok ⟨t.hasEnts, t.ents.erase id, t.ext.erase id⟩

def applyOps (sch : Schema) : SState → List Op → Nat → Except (Nat × List Err) SState
  | t, [], _ => .ok t
  | t, op :: rest, i =>
    match step sch t op with
    | .ok t' => applyOps sch t' rest (i + 1)
    | .error es => .error (i, es)

def txStep (sch : Schema) (t : SState) (ops : List Op) : SState × Option (List Err) :=
  match applyOps sch t ops 0 with
  | .ok t' => (t', none)
  | .error (_, es) => (t, some es)

/-! the indexes, derived -/

def uniqueIndexOf (f : Ent → Bytes) (ents : Map Id Ent) : Map Bytes Id :=
  ents.entries.filterMap (fun p => if f p.2 ≠ [] then some (f p.2, p.1) else none)

def setIndexOf (r : Ent → List Bytes) (ents : Map Id Ent) : Map Bytes (List Id) :=
  (ents.entries.flatMap (fun p => r p.2)).map fun v =>
    (v, (ents.entries.filter (fun p => decide (v ∈ r p.2))).map (·.1))

def nameIndex (sch : Schema) (ents : Map Id Ent) : Map Bytes Id := uniqueIndexOf (vName sch) ents
def aliasIndex (sch : Schema) (ents : Map Id Ent) : Map Bytes Id := uniqueIndexOf (vAlias sch) ents
def rolesIndex (sch : Schema) (ents : Map Id Ent) : Map Bytes (List Id) := setIndexOf (vRoles sch) ents

/-- the dump derived from the entity table alone -/
def render (sch : Schema) (t : SState) : List Line :=
  renderTable sch t.hasEnts t.ents t.ext ++
  (nameIndex sch t.ents).flatMap (renderUnique (idxPath sch sch.name.sym)) ++
  (aliasIndex sch t.ents).flatMap (renderUnique (idxPath sch sch.alias.sym)) ++
  (rolesIndex sch t.ents).flatMap (renderSetKey (idxPath sch sch.roles.sym))

end StorageModel.C03.Layered.Spec
