import StorageModel.C03.Layered
/-
  C03 specification for the enlarged operation set (parent store + plain child store, schema with
  separate symbol / key / checker names).  As in Spec.lean the entity table — now with the child
  data next to it — is the only state; the indexes are *defined* as its image, and a write is
  refused exactly when the resulting entity would break a constraint against the OTHER entities.
  Nothing of the index protocol (captures, contexts, passes) appears here.
-/
namespace StorageModel.C03.Layered.Spec
open StorageModel StorageModel.C03 StorageModel.C03.Layered

structure SState where
  base : C03.Spec.SState
  ext : Map Id Bytes
  deriving Repr

def SState.empty : SState := ⟨C03.Spec.SState.empty, []⟩

def hasExt (t : SState) (id : Id) : Bool := (t.base.ents.lookup id).isSome && (t.ext.lookup id).isSome

/-- store the entity `e` under `id` unless that breaks a constraint; the child data becomes `x` -/
def putBoth (t : SState) (id : Id) (e : Ent) (hasEnts : Bool) (x : Bytes) : Except (List Err) SState :=
  match C03.Spec.put t.base id e hasEnts with
  | .ok b => .ok ⟨b, t.ext.insert id x⟩
  | .error es => .error es

/-- an update of an entity with child data (through the child store, or through the parent store,
    which delegates): parent fields under the resolved checker, the child field when selected -/
def updateBoth (sch : Schema) (t : SState) (id : Id) (v : Vals) (tag : Bytes) (chk : Option (List Bytes)) :
    Except (List Err) SState :=
  if id = [] then .error [.other]
  else if !hasExt t id then .error [.notFound]
  else
    match t.base.ents.lookup id with
    | none => .error [.notFound]
    | some old =>
      putBoth t id (persist old v (resolveOpt sch chk)) t.base.hasEnts
        (if tagSelected sch chk then tag else (t.ext.lookup id).getD [])

def step (sch : Schema) (t : SState) : Op → Except (List Err) SState
  | .create .parent id v _ =>
    match C03.Spec.step t.base (.create id v) with
    | .ok b => .ok { t with base := b }
    | .error es => .error es
  | .create .child id v tag =>
    if id = [] then .error [.other]
    else if hasExt t id then .error [.exists]
    else putBoth t id (persistCreate v) true tag          -- a new entity, or the plain parent entity replaced
  | .update .child id v tag chk => updateBoth sch t id v tag chk
  | .update .parent id v _ chk =>
    if hasExt t id then updateBoth sch t id v ((t.ext.lookup id).getD []) chk
    else
      match C03.Spec.step t.base (.update id v (resolveOpt sch chk)) with
      | .ok b => .ok { t with base := b }
      | .error es => .error es
  | .delete _ id =>
    match C03.Spec.step t.base (.delete id) with
    | .ok b => .ok ⟨b, t.ext.erase id⟩
    | .error es => .error es

def applyOps (sch : Schema) : SState → List Op → Nat → Except (Nat × List Err) SState
  | t, [], _ => .ok t
  | t, op :: rest, i =>
    match step sch t op with
    | .ok t' => applyOps sch t' rest (i + 1)
    | .error es => .error (i, es)

def txStep (sch : Schema) (t : SState) (ops : List Op) : SState × Option (List Err) :=
  match applyOps sch t ops 0 with
  | .ok t' => (t', none)
  | .error (_, es) => (t, some es)

/-- the dump derived from the entity table alone (indexes: `Spec.nameIndex` etc. of Spec.lean) -/
def render (sch : Schema) (t : SState) : List Line :=
  renderTable sch t.base.hasEnts t.base.ents t.ext ++
  (C03.Spec.nameIndex t.base.ents).flatMap (renderUnique sch.name.sym) ++
  (C03.Spec.aliasIndex t.base.ents).flatMap (renderUnique sch.alias.sym) ++
  (C03.Spec.rolesIndex t.base.ents).flatMap (renderSetKey sch.roles.sym)

end StorageModel.C03.Layered.Spec
