import StorageModel.C03.Spec
/-
  C03: invariants of the store model and the lemmas behind the property theorems
  (the property theorems themselves are in StorageModel/Properties/C03.lean).
-/
namespace StorageModel.C03
open StorageModel

/-- unique-index invariant, generic in the indexed field -/
def UI {E : Type} (f : E → Bytes) (ents : Map Id E) (idx : Map Bytes Id) : Prop :=
  ∀ v id, idx.lookup v = some id ↔ (v ≠ [] ∧ ∃ e, ents.lookup id = some e ∧ f e = v)

theorem uniqueAfter_create_ok {E : Type} {f : E → Bytes} {ents : Map Id E} {idx idx' : Map Bytes Id} {id : Id} {e : E} {nullable : Bool}
    (hui : UI f ents idx) (hfresh : ents.lookup id = none)
    (h : uniqueAfter true nullable [] (f e) id idx = .ok idx') :
    UI f (ents.insert id e) idx' := by
  unfold uniqueAfter at h
  simp only [Bool.not_true, Bool.false_and, Bool.false_eq_true, ↓reduceIte, ne_eq, not_true_eq_false] at h
  intro v i
  have h1 := hui v i
  have h2 := hui (f e)
  split at h
  · split at h
    · cases h
    · next hn =>
      cases h
      simp only [Map.lookup_insert]
      grind
  · split at h
    · cases h
    · cases h
      simp only [Map.lookup_insert]
      grind

def NEK (idx : Map Bytes (List Id)) : Prop := ∀ v ids, idx.lookup v = some ids → ids ≠ []

theorem mem_setIdxDel (id : Id) (idx : Map Bytes (List Id)) (v' v : Bytes) (i : Id) :
    i ∈ ((setIdxDel id idx v').lookup v).getD [] ↔ (i ∈ (idx.lookup v).getD [] ∧ ¬ (i = id ∧ v = v')) := by
  unfold setIdxDel
  simp only
  split
  · next h =>
    simp only [Map.lookup_erase]
    by_cases hv : v = v'
    · subst hv
      have : ∀ x, x ∈ setErase id ((Map.lookup idx v).getD []) → False := by rw [h]; simp
      have := this i
      simp only [mem_setErase] at this
      simp; grind
    · simp [hv]
  · simp only [Map.lookup_insert]
    by_cases hv : v = v'
    · subst hv; simp; grind
    · simp [hv]

theorem nek_setIdxDel (id : Id) (idx : Map Bytes (List Id)) (v' : Bytes) (h : NEK idx) : NEK (setIdxDel id idx v') := by
  intro v ids
  unfold setIdxDel
  simp only
  split
  · simp only [Map.lookup_erase]; split
    · simp
    · exact h v ids
  · next hne =>
    simp only [Map.lookup_insert]; split
    · intro h2; cases h2; exact hne
    · exact h v ids

theorem mem_setIdxAdd (id : Id) (idx : Map Bytes (List Id)) (v' v : Bytes) (i : Id) :
    i ∈ ((setIdxAdd id idx v').lookup v).getD [] ↔ (i ∈ (idx.lookup v).getD [] ∨ (i = id ∧ v = v')) := by
  unfold setIdxAdd
  simp only [Map.lookup_insert]
  by_cases hv : v = v'
  · subst hv; simp; grind
  · simp [hv]

theorem nek_setIdxAdd (id : Id) (idx : Map Bytes (List Id)) (v' : Bytes) (h : NEK idx) : NEK (setIdxAdd id idx v') := by
  intro v ids
  unfold setIdxAdd
  simp only [Map.lookup_insert]; split
  · intro h2; cases h2
    intro h3
    have : id ∈ setInsert id ((Map.lookup idx v').getD []) := by simp
    rw [h3] at this; simp at this
  · exact h v ids

theorem mem_foldl_del (id : Id) (vals : List Bytes) (idx : Map Bytes (List Id)) (v : Bytes) (i : Id) :
    i ∈ ((vals.foldl (setIdxDel id) idx).lookup v).getD [] ↔ (i ∈ (idx.lookup v).getD [] ∧ ¬ (i = id ∧ v ∈ vals)) := by
  induction vals generalizing idx with
  | nil => simp
  | cons a t ih => simp only [List.foldl_cons, ih, mem_setIdxDel, List.mem_cons]; grind

theorem nek_foldl_del (id : Id) (vals : List Bytes) (idx : Map Bytes (List Id)) (h : NEK idx) :
    NEK (vals.foldl (setIdxDel id) idx) := by
  induction vals generalizing idx with
  | nil => exact h
  | cons a t ih => exact ih _ (nek_setIdxDel id idx a h)

theorem mem_foldl_add (id : Id) (vals : List Bytes) (idx : Map Bytes (List Id)) (v : Bytes) (i : Id) :
    i ∈ ((vals.foldl (setIdxAdd id) idx).lookup v).getD [] ↔ (i ∈ (idx.lookup v).getD [] ∨ (i = id ∧ v ∈ vals)) := by
  induction vals generalizing idx with
  | nil => simp
  | cons a t ih => simp only [List.foldl_cons, ih, mem_setIdxAdd, List.mem_cons]; grind

theorem nek_foldl_add (id : Id) (vals : List Bytes) (idx : Map Bytes (List Id)) (h : NEK idx) :
    NEK (vals.foldl (setIdxAdd id) idx) := by
  induction vals generalizing idx with
  | nil => exact h
  | cons a t ih => exact ih _ (nek_setIdxAdd id idx a h)

theorem changedAt_false (a b : List Bytes) (hl : a.length = b.length) : changedAt a b = false ↔ a = b := by
  induction a generalizing b with
  | nil => cases b <;> simp_all [changedAt]
  | cons x t ih =>
    cases b with
    | nil => simp at hl
    | cons y u =>
      simp only [List.length_cons, Nat.add_right_cancel_iff] at hl
      simp only [changedAt, ne_eq, ite_not, List.cons.injEq]
      split
      · next h => subst h; simp [ih u hl]
      · next h => simp [h]

theorem setChanged_false (a b : List Bytes) : setChanged a b = false ↔ a = b := by
  unfold setChanged
  by_cases hl : a.length = b.length
  · simp [hl, changedAt_false a b hl]
  · simp [hl]; intro h; subst h; exact hl rfl


theorem uniqueAfter_update_ok {E : Type} {f : E → Bytes} {ents : Map Id E} {idx idx' : Map Bytes Id} {id : Id} {old e : E}
    {nullable : Bool} (hui : UI f ents idx) (hold : ents.lookup id = some old)
    (h : uniqueAfter false nullable (f old) (f e) id idx = .ok idx') :
    UI f (ents.insert id e) idx' := by
  unfold uniqueAfter at h
  simp only [Bool.not_false, Bool.true_and, beq_iff_eq, ne_eq] at h
  intro v i
  have h1 := hui v i
  have h2 := hui (f e)
  have h3 := hui (f old)
  have h4 := hui v id
  split at h
  · next heq =>
    cases h
    simp only [Map.lookup_insert]
    grind
  · next hne =>
    by_cases ho : f old = []
    · simp only [ho, not_true_eq_false, if_false] at h
      split at h
      · split at h
        · cases h
        · next hn => cases h; simp only [Map.lookup_insert] at hn ⊢; grind
      · split at h
        · cases h
        · cases h; simp only [Map.lookup_insert]; grind
    · simp only [ho, not_false_eq_true, if_true] at h
      split at h
      · split at h
        · cases h
        · next hn => cases h; simp only [Map.lookup_insert, Map.lookup_erase] at hn ⊢; grind
      · split at h
        · cases h
        · cases h; simp only [Map.lookup_insert, Map.lookup_erase]; grind

theorem uniqueBeforeDelete_ok {E : Type} {f : E → Bytes} {ents : Map Id E} {idx : Map Bytes Id} {id : Id} {e : E}
    (hui : UI f ents idx) (hold : ents.lookup id = some e) :
    UI f (ents.erase id) (uniqueBeforeDelete (f e) idx) := by
  unfold uniqueBeforeDelete
  intro v i
  have h1 := hui v i
  have h2 := hui (f e) id
  have h3 := hui v id
  split
  · simp only [Map.lookup_erase]; grind
  · simp only [Map.lookup_erase]; grind

/-- set-index invariant -/
def SI {E : Type} (r : E → List Bytes) (ents : Map Id E) (idx : Map Bytes (List Id)) : Prop :=
  ∀ v id, id ∈ (idx.lookup v).getD [] ↔ ∃ e, ents.lookup id = some e ∧ v ∈ r e

theorem setAfter_ok {E : Type} {r : E → List Bytes} {ents : Map Id E} {idx idx' : Map Bytes (List Id)} {id : Id}
    {oldRoles : List Bytes} {e : E}
    (hsi : SI r ents idx) (hnek : NEK idx)
    (hold : ∀ v, v ∈ oldRoles ↔ ∃ o, ents.lookup id = some o ∧ v ∈ r o)
    (h : setAfter oldRoles (r e) id idx = .ok idx') :
    SI r (ents.insert id e) idx' ∧ NEK idx' := by
  unfold setAfter at h
  split at h
  · next hc =>
    cases h
    have heq : oldRoles = r e := by
      have := (setChanged_false oldRoles (r e)).1 (by simpa using hc)
      exact this
    refine ⟨?_, hnek⟩
    intro v i
    have := hsi v i
    have := hold v
    simp only [Map.lookup_insert]
    grind
  · split at h
    · cases h
    · split at h
      · cases h
      · cases h
        refine ⟨?_, nek_foldl_add _ _ _ (nek_foldl_del _ _ _ hnek)⟩
        intro v i
        have := hsi v i
        have := hold v
        simp only [mem_foldl_add, mem_foldl_del, Map.lookup_insert]
        grind

theorem setBeforeDelete_ok {E : Type} {r : E → List Bytes} {ents : Map Id E} {idx idx' : Map Bytes (List Id)} {id : Id} {e : E}
    (hsi : SI r ents idx) (hnek : NEK idx) (hold : ents.lookup id = some e)
    (h : setBeforeDelete (r e) id idx = .ok idx') :
    SI r (ents.erase id) idx' ∧ NEK idx' := by
  unfold setBeforeDelete at h
  split at h
  · cases h
  · cases h
    refine ⟨?_, nek_foldl_del _ _ _ hnek⟩
    intro v i
    have := hsi v i
    simp only [mem_foldl_del, Map.lookup_erase]
    grind

/-! ### the invariant -/

structure Inv (s : State) : Prop where
  uName : UI (·.name) s.ents s.uName
  uAlias : UI (fun e => e.alias.getD []) s.ents s.uAlias
  sRoles : SI (·.roles) s.ents s.sRoles
  noEmptyKeys : NEK s.sRoles
  namesNonEmpty : ∀ id e, s.ents.lookup id = some e → e.name ≠ []
  rolesNonEmpty : ∀ id e, s.ents.lookup id = some e → [] ∉ e.roles
  idsNonEmpty : s.ents.lookup [] = none
  entsBucket : ∀ id e, s.ents.lookup id = some e → s.hasEnts = true

theorem inv_empty : Inv State.empty := by
  constructor <;> simp [State.empty, UI, SI, NEK]

theorem uniqueAfter_create_nonempty {nullable : Bool} {new : Bytes} {id : Id} {idx idx' : Map Bytes Id}
    (h : uniqueAfter true nullable [] new id idx = .ok idx') (hn : nullable = false) : new ≠ [] := by
  subst hn
  unfold uniqueAfter at h
  intro hnew
  subst hnew
  simp at h

theorem uniqueAfter_update_nonempty {old new : Bytes} {id : Id} {idx idx' : Map Bytes Id}
    (h : uniqueAfter false false old new id idx = .ok idx') (ho : old ≠ []) : new ≠ [] := by
  unfold uniqueAfter at h
  intro hnew
  subst hnew
  simp [ho] at h

theorem setAfter_ok_nonempty {old new : List Bytes} {id : Id} {idx idx' : Map Bytes (List Id)}
    (h : setAfter old new id idx = .ok idx') (ho : [] ∉ old) : [] ∉ new := by
  unfold setAfter at h
  split at h
  · next hc =>
    have := (setChanged_false old new).1 (by simpa using hc)
    subst this; exact ho
  · split at h
    · cases h
    · split at h
      · cases h
      · next hn => simpa using hn

theorem inv_create {s s' : State} {id : Id} {v : Vals} (hi : Inv s) (h : create s id v = .ok s') : Inv s' := by
  unfold create at h
  split at h
  · cases h
  · next hid =>
    split at h
    · cases h
    · next hfresh =>
      have hfresh : s.ents.lookup id = none := by simpa using hfresh
      simp only [afterUpdate, Captured.none, bind, Except.bind, Map.lookup_insert, if_true, evalName, evalAlias,
        evalRoles, pure, Except.pure] at h
      split at h
      · cases h
      · next un hun =>
        split at h
        · cases h
        · next ua hua =>
          split at h
          · cases h
          · next sr hsr =>
            cases h
            have hsr' := setAfter_ok (r := (·.roles)) (e := persistCreate v) hi.sRoles hi.noEmptyKeys
              (oldRoles := []) (id := id) (by intro x; simp [hfresh]) hsr
            have hne := uniqueAfter_create_nonempty hun rfl
            have hre := setAfter_ok_nonempty hsr (by simp)
            refine ⟨uniqueAfter_create_ok hi.uName hfresh hun, uniqueAfter_create_ok hi.uAlias hfresh hua,
              hsr'.1, hsr'.2, ?_, ?_, ?_, ?_⟩
            · intro i e; simp only [Map.lookup_insert]; split
              · intro h2; cases h2; exact hne
              · exact hi.namesNonEmpty i e
            · intro i e; simp only [Map.lookup_insert]; split
              · intro h2; cases h2; exact hre
              · exact hi.rolesNonEmpty i e
            · simp only [Map.lookup_insert]
              have : ¬ ([] : Id) = id := fun e => hid e.symm
              simp [this, hi.idsNonEmpty]
            · intros; rfl

theorem inv_update {s s' : State} {id : Id} {v : Vals} {chk : Option Checker} (hi : Inv s)
    (h : update s id v chk = .ok s') : Inv s' := by
  unfold update at h
  split at h
  · cases h
  · next hid =>
    split at h
    · cases h
    · next old hold =>
      simp only [afterUpdate, capture, hold, bind, Except.bind, Map.lookup_insert, if_true, evalName, evalAlias,
        evalRoles, pure, Except.pure] at h
      split at h
      · cases h
      · next un hun =>
        split at h
        · cases h
        · next ua hua =>
          split at h
          · cases h
          · next sr hsr =>
            cases h
            have hsr' := setAfter_ok (r := (·.roles)) (e := persist old v chk) hi.sRoles hi.noEmptyKeys
              (oldRoles := old.roles) (id := id) (by intro x; simp [hold]) hsr
            have hne := uniqueAfter_update_nonempty hun (hi.namesNonEmpty id old hold)
            have hre := setAfter_ok_nonempty hsr (hi.rolesNonEmpty id old hold)
            refine ⟨uniqueAfter_update_ok (f := (·.name)) hi.uName hold hun,
              uniqueAfter_update_ok (f := fun e => e.alias.getD []) hi.uAlias hold hua,
              hsr'.1, hsr'.2, ?_, ?_, ?_, ?_⟩
            · intro i e; simp only [Map.lookup_insert]; split
              · intro h2; cases h2; exact hne
              · exact hi.namesNonEmpty i e
            · intro i e; simp only [Map.lookup_insert]; split
              · intro h2; cases h2; exact hre
              · exact hi.rolesNonEmpty i e
            · simp only [Map.lookup_insert]
              have : ¬ ([] : Id) = id := fun e => hid e.symm
              simp [this, hi.idsNonEmpty]
            · intro i e; simp only [Map.lookup_insert]; split
              · intro _; exact hi.entsBucket id old hold
              · exact hi.entsBucket i e

theorem inv_delete {s s' : State} {id : Id} (hi : Inv s) (h : delete s id = .ok s') : Inv s' := by
  unfold delete at h
  split at h
  · cases h
  · split at h
    · cases h
    · next e hold =>
      simp only [bind, Except.bind, evalName, evalAlias, evalRoles, pure, Except.pure] at h
      split at h
      · cases h
      · next sr hsr =>
        cases h
        have hsr' := setBeforeDelete_ok (r := (·.roles)) hi.sRoles hi.noEmptyKeys hold hsr
        refine ⟨uniqueBeforeDelete_ok (f := (·.name)) hi.uName hold,
          uniqueBeforeDelete_ok (f := fun e => e.alias.getD []) hi.uAlias hold, hsr'.1, hsr'.2, ?_, ?_, ?_, ?_⟩
        · intro i e'; simp only [Map.lookup_erase]; split
          · simp
          · exact hi.namesNonEmpty i e'
        · intro i e'; simp only [Map.lookup_erase]; split
          · simp
          · exact hi.rolesNonEmpty i e'
        · simp only [Map.lookup_erase]; split <;> simp [hi.idsNonEmpty]
        · intro i e'; simp only [Map.lookup_erase]; split
          · simp
          · exact hi.entsBucket i e'

theorem inv_stepRaw {s s' : State} {op : Op} (hi : Inv s) (h : stepRaw s op = .ok s') : Inv s' := by
  cases op with
  | create id v => exact inv_create hi h
  | update id v chk => exact inv_update hi h
  | delete id => exact inv_delete hi h

theorem inv_applyOps {s s' : State} {ops : List Op} {i : Nat} (hi : Inv s) (h : applyOps s ops i = .ok s') : Inv s' := by
  induction ops generalizing s i with
  | nil => simp only [applyOps] at h; cases h; exact hi
  | cons op rest ih =>
    simp only [applyOps] at h
    split at h
    · next s1 h1 => exact ih (inv_stepRaw hi h1) h
    · cases h

theorem inv_txStep {s : State} (ops : List Op) (hi : Inv s) : Inv (txStep s ops).1 := by
  unfold txStep
  split
  · next s' h => exact inv_applyOps hi h
  · exact hi


/-- a create context (`IsCreate`) whose old value was nevertheless captured from an existing entity
    (child-store create over an existing parent): the old entry is replaced -/
theorem uniqueAfter_true_ok {E : Type} {f : E → Bytes} {ents : Map Id E} {idx idx' : Map Bytes Id} {id : Id} {old e : E}
    {nullable : Bool} (hui : UI f ents idx) (hold : ents.lookup id = some old)
    (h : uniqueAfter true nullable (f old) (f e) id idx = .ok idx') :
    UI f (ents.insert id e) idx' := by
  unfold uniqueAfter at h
  simp only [Bool.not_true, Bool.false_and, Bool.false_eq_true, if_false, ne_eq] at h
  intro v i
  have h1 := hui v i
  have h2 := hui (f e)
  have h3 := hui (f old)
  have h4 := hui v id
  by_cases ho : f old = []
  · simp only [ho, not_true_eq_false, if_false] at h
    split at h
    · split at h
      · cases h
      · next hn => cases h; simp only [Map.lookup_insert] at hn ⊢; grind
    · split at h
      · cases h
      · cases h; simp only [Map.lookup_insert]; grind
  · simp only [ho, not_false_eq_true, if_true] at h
    split at h
    · split at h
      · cases h
      · next hn => cases h; simp only [Map.lookup_insert, Map.lookup_erase] at hn ⊢; grind
    · split at h
      · cases h
      · cases h; simp only [Map.lookup_insert, Map.lookup_erase]; grind

theorem uniqueAfter_true_nonempty {old new : Bytes} {id : Id} {idx idx' : Map Bytes Id}
    (h : uniqueAfter true false old new id idx = .ok idx') : new ≠ [] := by
  unfold uniqueAfter at h
  intro hnew
  subst hnew
  simp at h


end StorageModel.C03
