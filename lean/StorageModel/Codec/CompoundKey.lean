import StorageModel.Codec.Varint
/-
  Model of boltz/encode.go: EncodeStringSlice / EncodeByteSlice / DecodeStringSlice / DecodeNext.
  `MaxLinkedSetKeySize = 4096` (boltz/link_collection.go).
-/
namespace StorageModel.Codec
open StorageModel

inductive KeyErr
  | encodeTooLong      -- "On encode, linked key component … exceeds max size"
  | badVarint          -- Uvarint read < 1: "incorrectly encoded compound key?"
  | decodeTooLong      -- "On decoded, linked key component exceeds max size"
  | short              -- "Not enough bytes left to decode"
  deriving DecidableEq, Repr

def maxLinkedSetKeySize : Nat := 4096

/-- `EncodeByteSlice` -/
def encodeByteSlice (value : Bytes) : Except KeyErr Bytes :=
  if value.length > maxLinkedSetKeySize then .error .encodeTooLong
  else .ok (putUvarint value.length ++ value)

/-- `EncodeStringSlice`: the loop `compoundKey = append(compoundKey, encoded...)`, first error wins -/
def encodeFrom (acc : Bytes) : List Bytes → Except KeyErr Bytes
  | [] => .ok acc
  | v :: rest =>
    match encodeByteSlice v with
    | .error e => .error e
    | .ok enc => encodeFrom (acc ++ enc) rest

def encodeStringSlice (values : List Bytes) : Except KeyErr Bytes := encodeFrom [] values

/-- `DecodeNext` : (next, remaining) -/
def decodeNext (val : Bytes) : Except KeyErr (Bytes × Bytes) :=
  let (keyLen, read) := uvarint val
  if read < 1 then .error .badVarint
  else if keyLen > maxLinkedSetKeySize then .error .decodeTooLong
  else
    let val' := val.drop read.toNat
    if val'.length < keyLen then .error .short
    else .ok (val'.take keyLen, val'.drop keyLen)

/-- the loop of `DecodeStringSlice`; `fuel` bounds the number of iterations (every iteration
    consumes at least one byte, so `fuel = len(compoundKey)` is never exhausted) -/
def decodeLoop : Nat → Bytes → List Bytes → Except KeyErr (List Bytes)
  | _, [], acc => .ok acc
  | 0, _ :: _, _ => .error .badVarint   -- unreachable with fuel = length
  | fuel + 1, c :: key, acc =>
    match decodeNext (c :: key) with
    | .error e => .error e
    | .ok (next, rest) => decodeLoop fuel rest (acc ++ [next])

def decodeStringSlice (compoundKey : Bytes) : Except KeyErr (List Bytes) :=
  decodeLoop compoundKey.length compoundKey []

/-! ### lemmas -/

def AllWithin (xs : List Bytes) : Prop := ∀ x ∈ xs, x.length ≤ maxLinkedSetKeySize

/-- the plain concatenation the encoder produces when nothing is rejected -/
def encodeSpec : List Bytes → Bytes
  | [] => []
  | v :: rest => putUvarint v.length ++ v ++ encodeSpec rest

theorem encodeFrom_ok (xs : List Bytes) (h : AllWithin xs) (acc : Bytes) :
    encodeFrom acc xs = .ok (acc ++ encodeSpec xs) := by
  induction xs generalizing acc with
  | nil => simp [encodeFrom, encodeSpec]
  | cons v rest ih =>
    have hv : ¬ v.length > maxLinkedSetKeySize := by
      have := h v (List.mem_cons_self ..); omega
    have hr : AllWithin rest := fun x hx => h x (List.mem_cons_of_mem _ hx)
    simp only [encodeFrom, encodeByteSlice, hv, if_false]
    rw [ih hr]; simp [encodeSpec, List.append_assoc]

theorem encodeFrom_err (xs : List Bytes) (h : ∃ x ∈ xs, x.length > maxLinkedSetKeySize) (acc : Bytes) :
    encodeFrom acc xs = .error .encodeTooLong := by
  induction xs generalizing acc with
  | nil => obtain ⟨x, hx, _⟩ := h; cases hx
  | cons v rest ih =>
    by_cases hv : v.length > maxLinkedSetKeySize
    · simp [encodeFrom, encodeByteSlice, hv]
    · have : ∃ x ∈ rest, x.length > maxLinkedSetKeySize := by
        obtain ⟨x, hx, hl⟩ := h
        rcases List.mem_cons.mp hx with rfl | hx
        · exact absurd hl hv
        · exact ⟨x, hx, hl⟩
      simp only [encodeFrom, encodeByteSlice, hv, if_false]
      exact ih this _

theorem decodeNext_encoded (v rest : Bytes) (hv : v.length ≤ maxLinkedSetKeySize) :
    decodeNext (putUvarint v.length ++ v ++ rest) = .ok (v, rest) := by
  have hlt : v.length < 2 ^ 64 := by unfold maxLinkedSetKeySize at hv; omega
  have hu := uvarint_put v.length (v ++ rest) hlt
  have hpos := putUvarint_length_pos v.length
  simp only [decodeNext, List.append_assoc, hu]
  have h1 : ¬ (((putUvarint v.length).length : Int) < 1) := by omega
  have h2 : ¬ v.length > maxLinkedSetKeySize := by omega
  simp only [h1, h2, if_false, Int.toNat_natCast, List.drop_left]
  simp

theorem decodeLoop_encoded (xs : List Bytes) (h : AllWithin xs) :
    ∀ (fuel : Nat) (acc : List Bytes), (encodeSpec xs).length ≤ fuel →
      decodeLoop fuel (encodeSpec xs) acc = .ok (acc ++ xs) := by
  induction xs with
  | nil => intro fuel acc _; simp [encodeSpec, decodeLoop]
  | cons v rest ih =>
    intro fuel acc hf
    have hv : v.length ≤ maxLinkedSetKeySize := h v (List.mem_cons_self ..)
    have hr : AllWithin rest := fun x hx => h x (List.mem_cons_of_mem _ hx)
    have hpos := putUvarint_length_pos v.length
    have hne : encodeSpec (v :: rest) ≠ [] := by
      simp [encodeSpec, putUvarint_ne_nil]
    obtain ⟨c, key, hck⟩ := List.exists_cons_of_ne_nil hne
    have hlen : (encodeSpec (v :: rest)).length =
        (putUvarint v.length).length + v.length + (encodeSpec rest).length := by
      simp [encodeSpec, Nat.add_assoc]
    cases fuel with
    | zero => rw [hlen] at hf; omega
    | succ fuel =>
      have hspec : encodeSpec (v :: rest) = putUvarint v.length ++ v ++ encodeSpec rest := rfl
      rw [hck, decodeLoop, ← hck, hspec, decodeNext_encoded v _ hv]
      show decodeLoop fuel (encodeSpec rest) (acc ++ [v]) = _
      rw [ih hr fuel (acc ++ [v]) (by rw [hlen] at hf; omega)]
      simp

end StorageModel.Codec
