import StorageModel.Codec.Bucket
/-
  Lemmas about the model of `time.Time` binary marshalling (`Codec/TypedValue.lean`):
  big-endian round trip, `UnmarshalBinary ∘ MarshalBinary` preserves the instant for every valid
  time in every representation `MarshalBinary` accepts, which representations it refuses, and that
  the UTC normalisation of `SetTime` / `SetTimeP` makes the stored bytes a function of the instant.
-/
namespace StorageModel.Codec
open StorageModel

theorem be_length (w n : Nat) : (be w n).length = w := by simp [be, le_length]

theorem ofBE_be (w n : Nat) : ofBE (be w n) = n % 256 ^ w := by
  simp [ofBE, be, ofLE_le]

/-- the three fixed fields are found again where `UnmarshalBinary` looks for them -/
theorem fields_split (a b c : Nat) (rest : Bytes) :
    let buf := be 8 a ++ be 4 b ++ be 2 c ++ rest
    buf.take 8 = be 8 a ∧ (buf.drop 8).take 4 = be 4 b ∧ (buf.drop 12).take 2 = be 2 c ∧ buf.drop 14 = rest := by
  intro buf
  have e8 : buf = be 8 a ++ (be 4 b ++ (be 2 c ++ rest)) := by simp [buf]
  have d8 : buf.drop 8 = be 4 b ++ (be 2 c ++ rest) := by
    rw [e8]; exact List.drop_left' (be_length 8 a)
  have d12 : buf.drop 12 = be 2 c ++ rest := by
    have : buf.drop 12 = (buf.drop 8).drop 4 := by simp [List.drop_drop]
    rw [this, d8]; exact List.drop_left' (be_length 4 b)
  have d14 : buf.drop 14 = rest := by
    have : buf.drop 14 = (buf.drop 12).drop 2 := by simp [List.drop_drop]
    rw [this, d12]; exact List.drop_left' (be_length 2 c)
  refine ⟨?_, ?_, ?_, d14⟩
  · rw [e8]; exact List.take_left' (be_length 8 a)
  · rw [d8]; exact List.take_left' (be_length 4 b)
  · rw [d12]; exact List.take_left' (be_length 2 c)

theorem timeFields_length (v : UInt8) (t : GoTime) (m : Int) : (timeFields v t m).length = 15 := by
  simp [timeFields, be_length]

/-- the seconds of a valid time come back from their 8 bytes -/
theorem sec_back (s : Int) (h : InInt64 s) : toSigned 64 (ofBE (be 8 (toUnsigned 64 s))) = s := by
  rw [ofBE_be]
  have hlt := toUnsigned_lt 64 s
  rw [Nat.mod_eq_of_lt (by simpa using hlt)]
  exact toSigned_toUnsigned 64 (by omega) s (by have := h.1; simpa using this) (by have := h.2; simpa using this)

theorem nsec_back (n : Nat) (h : n < 1000000000) : ofBE (be 4 n) = n := by
  rw [ofBE_be]; exact Nat.mod_eq_of_lt (by omega)

theorem offmin_back (m : Int) (hlo : -32768 ≤ m) (hhi : m ≤ 32767) :
    toSigned 16 (ofBE (be 2 (toUnsigned 16 m))) = m := by
  rw [ofBE_be]
  have hlt := toUnsigned_lt 16 m
  rw [Nat.mod_eq_of_lt (by simpa using hlt)]
  exact toSigned_toUnsigned 16 (by omega) m (by simp; omega) (by simp; omega)

/-- `UnmarshalBinary` on bytes with the layout of `MarshalBinary`, field by field -/
theorem unmarshal_layout (v : UInt8) (a b c : Nat) (rest : Bytes) (hv : v = 1 ∨ v = 2)
    (hlen : rest.length = if v = 2 then 1 else 0) :
    unmarshalBinary (v :: (be 8 a ++ be 4 b ++ be 2 c ++ rest)) =
      .ok { sec := if ofBE (be 4 b) < 2 ^ 31 then toSigned 64 (ofBE (be 8 a))
                   else wallToInternal + (2 ^ 33 - 2 + ((ofBE (be 4 b) / 2 ^ 30 % 2 : Nat) : Int)),
            nsec := ofBE (be 4 b) % 2 ^ 30,
            loc := if toSigned 16 (ofBE (be 2 c)) * 60 + (if v = 2 then ((rest.headD 0).toNat : Int) else 0) = -60 then .utc
                   else .zone (toSigned 16 (ofBE (be 2 c)) * 60 + (if v = 2 then ((rest.headD 0).toNat : Int) else 0)),
            mono := false } := by
  obtain ⟨h1, h2, h3, h4⟩ := fields_split a b c rest
  unfold unmarshalBinary
  have hver : ¬ (v ≠ 1 ∧ v ≠ 2) := by rcases hv with rfl | rfl <;> decide
  have hl : ¬ ((v :: (be 8 a ++ be 4 b ++ be 2 c ++ rest)).length ≠ (if v = 2 then 16 else 15)) := by
    simp only [List.length_cons, List.length_append, be_length, hlen]
    rcases hv with rfl | rfl <;> simp
  simp only [hver, hl, if_false, h1, h2, h3, h4]

/-- what `UnmarshalBinary` makes of bytes laid out as `MarshalBinary` lays them out: the instant of
    the time that was marshalled, whatever the version and the offset fields hold -/
theorem unmarshal_fields (v : UInt8) (t : GoTime) (m : Int) (rest : Bytes) (ht : t.valid)
    (hv : v = 1 ∨ v = 2) (hlen : rest.length = if v = 2 then 1 else 0) :
    ∃ u, unmarshalBinary (timeFields v t m ++ rest) = .ok u ∧ u.sec = t.sec ∧ u.nsec = t.nsec ∧ u.mono = false := by
  have hn : t.nsec < 2 ^ 31 := by have := ht.2; omega
  have hn30 : t.nsec % 2 ^ 30 = t.nsec := Nat.mod_eq_of_lt (by have := ht.2; omega)
  have e : timeFields v t m ++ rest = v :: (be 8 (toUnsigned 64 t.sec) ++ be 4 t.nsec ++ be 2 (toUnsigned 16 m) ++ rest) := by
    simp [timeFields]
  rw [e, unmarshal_layout v _ _ _ rest hv hlen]
  refine ⟨_, rfl, ?_, ?_, rfl⟩
  · simp only [nsec_back t.nsec ht.2, hn, if_true, sec_back t.sec ht.1]
  · simp only [nsec_back t.nsec ht.2, hn30]

/-- `MarshalBinary` never refuses a UTC time, and its bytes depend on `sec()` / `nsec()` only -/
theorem marshal_utc (t : GoTime) : marshalBinary t.utc = .ok (timeFields 1 t (-1)) := rfl

theorem timePayload_eq (t : GoTime) : timePayload t = .ok (timeFields 1 t (-1)) := rfl

/-- the UTC bytes read back as the same instant, in UTC, without monotonic reading -/
theorem unmarshal_utc_bytes (t : GoTime) (ht : t.valid) :
    unmarshalBinary (timeFields 1 t (-1)) = .ok t.utc := by
  have hn : t.nsec < 2 ^ 31 := by have := ht.2; omega
  have hn30 : t.nsec % 2 ^ 30 = t.nsec := Nat.mod_eq_of_lt (by have := ht.2; omega)
  have e : timeFields 1 t (-1) = 1 :: (be 8 (toUnsigned 64 t.sec) ++ be 4 t.nsec ++ be 2 (toUnsigned 16 (-1)) ++ []) := by
    simp [timeFields]
  rw [e, unmarshal_layout 1 _ _ _ [] (Or.inl rfl) (by simp)]
  simp only [nsec_back t.nsec ht.2, hn, hn30, if_true, sec_back t.sec ht.1, offmin_back (-1) (by omega) (by omega)]
  simp [GoTime.utc]

/-- Go's truncated division by 60 is -1 exactly on -119 … -60 -/
theorem tdiv60_eq_neg_one (off : Int) : off.tdiv 60 = -1 ↔ -119 ≤ off ∧ off ≤ -60 := by
  by_cases h : 0 ≤ off
  · rw [Int.tdiv_eq_ediv_of_nonneg h]; omega
  · have e : off.tdiv 60 = -((-off) / 60) := by
      have := Int.neg_tdiv (-off) 60
      rw [Int.neg_neg] at this
      rw [this, Int.tdiv_eq_ediv_of_nonneg (by omega)]
    rw [e]; omega

theorem tdiv60_bounds (off : Int) :
    (off.tdiv 60 < -32768 ↔ off ≤ -1966140) ∧ (off.tdiv 60 > 32767 ↔ 1966080 ≤ off) := by
  by_cases h : 0 ≤ off
  · rw [Int.tdiv_eq_ediv_of_nonneg h]; omega
  · have e : off.tdiv 60 = -((-off) / 60) := by
      have := Int.neg_tdiv (-off) 60
      rw [Int.neg_neg] at this
      rw [this, Int.tdiv_eq_ediv_of_nonneg (by omega)]
    rw [e]; omega

/-- **which representations `MarshalBinary` refuses**: exactly the non-UTC locations whose offset is
    one minute west of UTC up to (not including) two (-119 s … -60 s: the minute count -1 is the UTC
    marker) or does not fit an int16 of minutes (≤ -32769 min, ≥ 32768 min) — whatever the instant
    and the monotonic reading. -/
theorem marshal_refuses_iff (t : GoTime) :
    marshalBinary t = .error .zoneOffset ↔
      ∃ off, t.loc = .zone off ∧ ((-119 ≤ off ∧ off ≤ -60) ∨ off ≤ -1966140 ∨ 1966080 ≤ off) := by
  unfold marshalBinary
  cases hl : t.loc with
  | utc => simp
  | zone off =>
    have h1 := tdiv60_eq_neg_one off
    have h2 := tdiv60_bounds off
    simp only [Loc.zone.injEq, exists_eq_left']
    by_cases hc : off.tdiv 60 < -32768 ∨ off.tdiv 60 = -1 ∨ off.tdiv 60 > 32767
    · rw [if_pos hc]
      simp only [true_iff]
      rcases hc with hc | hc | hc
      · exact Or.inr (Or.inl (h2.1.mp hc))
      · exact Or.inl (h1.mp hc)
      · exact Or.inr (Or.inr (h2.2.mp hc))
    · rw [if_neg hc]
      have : ¬ ((-119 ≤ off ∧ off ≤ -60) ∨ off ≤ -1966140 ∨ 1966080 ≤ off) := by
        intro h
        apply hc
        rcases h with h | h | h
        · exact Or.inr (Or.inl (h1.mpr h))
        · exact Or.inl (h2.1.mpr h)
        · exact Or.inr (Or.inr (h2.2.mpr h))
      split <;> simp [this]

/-- **`UnmarshalBinary ∘ MarshalBinary` preserves the instant**: whatever bytes `MarshalBinary`
    returns for a valid time — any accepted zone (version 1 or 2), any monotonic reading — are read
    back as a time with the same `sec()` and `nsec()`. -/
theorem unmarshal_marshal_instant (t : GoTime) (p : Bytes) (ht : t.valid) (h : marshalBinary t = .ok p) :
    ∃ u, unmarshalBinary p = .ok u ∧ u.sameInstant t := by
  unfold marshalBinary at h
  cases hl : t.loc with
  | utc =>
    rw [hl] at h; injection h with h; subst h
    obtain ⟨u, hu, h1, h2, _⟩ := unmarshal_fields 1 t (-1) [] ht (Or.inl rfl) (by simp)
    exact ⟨u, by simpa using hu, h1, h2⟩
  | zone off =>
    rw [hl] at h
    simp only at h
    split at h
    · cases h
    · split at h
      · injection h with h; subst h
        obtain ⟨u, hu, h1, h2, _⟩ := unmarshal_fields 2 t (off.tdiv 60) [UInt8.ofNat (toUnsigned 8 (off.tmod 60))] ht
          (Or.inr rfl) (by simp)
        exact ⟨u, hu, h1, h2⟩
      · injection h with h; subst h
        obtain ⟨u, hu, h1, h2, _⟩ := unmarshal_fields 1 t (off.tdiv 60) [] ht (Or.inl rfl) (by simp)
        exact ⟨u, by simpa using hu, h1, h2⟩

/-- two representations of one instant have the same UTC bytes -/
theorem timePayload_instant (t u : GoTime) (h : t.sameInstant u) : timePayload t = timePayload u := by
  rw [timePayload_eq, timePayload_eq]
  simp [timeFields, h.1, h.2]

theorem scalarOf_time (t : GoTime) (ht : t.valid) : scalarOf (some (typeTime :: timeFields 1 t (-1))) = .time t.utc := by
  unfold scalarOf
  have hne : timeFields 1 t (-1) = 1 :: (timeFields 1 t (-1)).tail := rfl
  have hg : getTypeAndValue (some (typeTime :: timeFields 1 t (-1))) = (typeTime, some (timeFields 1 t (-1))) := by
    rw [hne]; rfl
  rw [hg]
  have e1 : typeTime ≠ typeString := by decide
  have e2 : typeTime ≠ typeInt32 := by decide
  have e3 : typeTime ≠ typeInt64 := by decide
  have e4 : typeTime ≠ typeFloat64 := by decide
  simp [e1, e2, e3, e4, bytesToDatetime, unmarshal_utc_bytes t ht]

theorem timeFields_ne_nil (v : UInt8) (t : GoTime) (m : Int) : timeFields v t m ≠ [] := by simp [timeFields]

/-! ### times inside maps and lists -/

mutual
/-- the value with every time (at any depth) replaced by its UTC representation: two values with
    the same `utcRep` differ only in how their times are represented -/
def utcRep : Value → Value
  | .time t => .time t.utc
  | .map kvs => .map (utcKvs kvs)
  | .list xs => .list (utcXs xs)
  | .nil => .nil
  | .str s => .str s
  | .i32 i => .i32 i
  | .i64 i => .i64 i
  | .goInt i => .goInt i
  | .f64 b => .f64 b
  | .bool b => .bool b
  | .unsupported => .unsupported
def utcKvs : List (Bytes × Value) → List (Bytes × Value)
  | [] => []
  | (k, v) :: r => (k, utcRep v) :: utcKvs r
def utcXs : List Value → List Value
  | [] => []
  | v :: r => utcRep v :: utcXs r
end

theorem utcXs_length (xs : List Value) : (utcXs xs).length = xs.length := by
  induction xs with
  | nil => rfl
  | cons v r ih => simp [utcXs, ih]

mutual
/-- `setMarshaled` (hence `PutMap` / `PutList`) does not look at the representation of the times in
    the value, at any depth: same tree, same refusal -/
theorem setMarshaled_utcRep (v : Value) (es : Bkt) (name : Bytes) (a : Bool) :
    setMarshaled es name (utcRep v) a = setMarshaled es name v a := by
  match v with
  | .time t => rfl
  | .map kvs => simp only [utcRep, setMarshaled, putEntries_utcRep kvs [] true]
  | .list xs => simp only [utcRep, setMarshaled, putElems_utcRep xs [] 0, utcXs_length]
  | .nil => rfl
  | .str s => rfl
  | .i32 i => rfl
  | .i64 i => rfl
  | .goInt i => rfl
  | .f64 b => rfl
  | .bool b => rfl
  | .unsupported => rfl
theorem putEntries_utcRep (kvs : List (Bytes × Value)) (child : Bkt) (a : Bool) :
    putEntries child (utcKvs kvs) a = putEntries child kvs a := by
  match kvs with
  | [] => rfl
  | (k, v) :: r =>
    simp only [utcKvs, putEntries, setMarshaled_utcRep v child k a]
    split
    · rfl
    · exact putEntries_utcRep r _ a
theorem putElems_utcRep (xs : List Value) (child : Bkt) (idx : Nat) :
    putElems child (utcXs xs) idx = putElems child xs idx := by
  match xs with
  | [] => rfl
  | v :: r =>
    simp only [utcXs, putElems, setMarshaled_utcRep v child (idxKey idx) true]
    split
    · rfl
    · exact putElems_utcRep r _ (idx + 1)
end

mutual
/-- what is expected back does not depend on the representation either -/
theorem normalize_utcRep (v : Value) : normalize (utcRep v) = normalize v := by
  match v with
  | .time t => rfl
  | .map kvs => simp only [utcRep, normalize, normKvs_utcRep kvs []]
  | .list xs => simp only [utcRep, normalize, normXs_utcRep xs]
  | .nil => rfl
  | .str s => rfl
  | .i32 i => rfl
  | .i64 i => rfl
  | .goInt i => rfl
  | .f64 b => rfl
  | .bool b => rfl
  | .unsupported => rfl
theorem normKvs_utcRep (kvs : List (Bytes × Value)) (acc : List (Bytes × Value)) :
    normKvs (utcKvs kvs) acc = normKvs kvs acc := by
  match kvs with
  | [] => rfl
  | (k, v) :: r => simp only [utcKvs, normKvs, normalize_utcRep v, normKvs_utcRep r]
theorem normXs_utcRep (xs : List Value) : normXs (utcXs xs) = normXs xs := by
  match xs with
  | [] => rfl
  | v :: r => simp only [utcXs, normXs, normalize_utcRep v, normXs_utcRep r]
end

end StorageModel.Codec
