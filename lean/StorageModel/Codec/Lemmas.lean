import StorageModel.Codec.Time
/- helper lemmas about the bucket model (no property theorems here) -/
namespace StorageModel.Codec
open StorageModel

/-! ### `look` / `ins` -/

@[simp] theorem look_nil {α : Type} (k : Bytes) : look ([] : List (Bytes × α)) k = none := rfl

theorem look_ins_self {α : Type} (l : List (Bytes × α)) (k : Bytes) (a : α) : look (ins l k a) k = some a := by
  induction l with
  | nil => simp [ins, look]
  | cons e r ih =>
    obtain ⟨k', a'⟩ := e
    unfold ins
    split
    · simp [look]
    · split
      · simp [look]
      · next h1 h2 => simp [look, h2, ih]

theorem look_ins_ne {α : Type} (l : List (Bytes × α)) (k j : Bytes) (a : α) (h : j ≠ k) :
    look (ins l k a) j = look l j := by
  induction l with
  | nil => simp [ins, look, h]
  | cons e r ih =>
    obtain ⟨k', a'⟩ := e
    unfold ins
    split
    · simp [look, h]
    · split
      · next h1 h2 => subst h2; simp [look, h]
      · simp [look, ih]

theorem ins_ins {α : Type} (l : List (Bytes × α)) (k : Bytes) (a b : α) : ins (ins l k a) k b = ins l k b := by
  induction l with
  | nil => simp [ins, List.lt_irrefl]
  | cons e r ih =>
    obtain ⟨k', a'⟩ := e
    by_cases h1 : k < k'
    · simp [ins, h1, List.lt_irrefl]
    · by_cases h2 : k = k'
      · subst h2; simp [ins, List.lt_irrefl]
      · simp [ins, h1, h2, ih]

theorem ins_ne_nil {α : Type} (l : List (Bytes × α)) (k : Bytes) (a : α) : ins l k a ≠ [] := by
  cases l with
  | nil => simp [ins]
  | cons e r =>
    obtain ⟨k', a'⟩ := e
    unfold ins; split
    · simp
    · split <;> simp

/-- keys of an association list -/
def keys {α : Type} (l : List (Bytes × α)) : List Bytes := l.map Prod.fst

theorem mem_keys_ins {α : Type} (l : List (Bytes × α)) (k j : Bytes) (a : α) :
    j ∈ keys (ins l k a) ↔ j = k ∨ j ∈ keys l := by
  induction l with
  | nil => simp [ins, keys]
  | cons e r ih =>
    obtain ⟨k', a'⟩ := e
    unfold ins
    split
    · simp [keys]
    · split
      · next h1 h2 => subst h2; simp [keys]
      · have : j ∈ keys (ins r k a) ↔ j = k ∨ j ∈ keys r := ih
        simp only [keys, List.map_cons, List.mem_cons] at this ⊢
        rw [this]
        constructor
        · rintro (h | h | h)
          · exact Or.inr (Or.inl h)
          · exact Or.inl h
          · exact Or.inr (Or.inr h)
        · rintro (h | h | h)
          · exact Or.inr (Or.inl h)
          · exact Or.inl h
          · exact Or.inr (Or.inr h)

/-- strictly increasing keys: what a bbolt cursor walk delivers -/
def Sorted {α : Type} (l : List (Bytes × α)) : Prop := (keys l).Pairwise (· < ·)

theorem sorted_nil {α : Type} : Sorted ([] : List (Bytes × α)) := List.Pairwise.nil

theorem sorted_ins {α : Type} (l : List (Bytes × α)) (k : Bytes) (a : α) (h : Sorted l) : Sorted (ins l k a) := by
  induction l with
  | nil => simp [ins, Sorted, keys]
  | cons e r ih =>
    obtain ⟨k', a'⟩ := e
    have hk' : ∀ x ∈ keys r, k' < x := by
      simp only [Sorted, keys, List.map_cons, List.pairwise_cons] at h
      exact h.1
    have hr : Sorted r := by
      simp only [Sorted, keys, List.map_cons, List.pairwise_cons] at h
      exact h.2
    unfold ins
    split
    · next hlt =>
      simp only [Sorted, keys, List.map_cons, List.pairwise_cons]
      refine ⟨?_, ?_⟩
      · intro x hx
        rcases List.mem_cons.mp hx with rfl | hx
        · exact hlt
        · exact List.lt_trans hlt (hk' x hx)
      · simpa [Sorted, keys] using h
    · split
      · next h1 h2 => subst h2; simpa [Sorted, keys] using h
      · next h1 h2 =>
        have hgt : k' < k := by
          rcases Std.lt_trichotomy k k' with h | h | h
          · exact absurd h h1
          · exact absurd h h2
          · exact h
        simp only [Sorted, keys, List.map_cons, List.pairwise_cons]
        refine ⟨?_, ih hr⟩
        intro x hx
        rcases (mem_keys_ins r k x a).mp hx with rfl | hx
        · exact hgt
        · exact hk' x hx

theorem look_none_of_not_mem {α : Type} (l : List (Bytes × α)) (k : Bytes) (h : k ∉ keys l) : look l k = none := by
  induction l with
  | nil => rfl
  | cons e r ih =>
    obtain ⟨k', a'⟩ := e
    simp only [keys, List.map_cons, List.mem_cons, not_or] at h
    simp [look, h.1, ih (by simpa [keys] using h.2)]

theorem mem_keys_of_look {α : Type} (l : List (Bytes × α)) (k : Bytes) (a : α) (h : look l k = some a) : k ∈ keys l := by
  induction l with
  | nil => simp [look] at h
  | cons e r ih =>
    obtain ⟨k', a'⟩ := e
    simp only [look] at h
    split at h
    · next hk => subst hk; simp [keys]
    · have := ih h; simp only [keys, List.map_cons, List.mem_cons]; exact Or.inr (by simpa [keys] using this)

/-- two strictly sorted lists with the same members are equal -/
theorem sorted_ext (l₁ l₂ : List Bytes) (h₁ : l₁.Pairwise (· < ·)) (h₂ : l₂.Pairwise (· < ·))
    (h : ∀ x, x ∈ l₁ ↔ x ∈ l₂) : l₁ = l₂ := by
  induction l₁ generalizing l₂ with
  | nil =>
    cases l₂ with
    | nil => rfl
    | cons b r => exact absurd ((h b).mpr (List.mem_cons_self ..)) (by simp)
  | cons a r ih =>
    cases l₂ with
    | nil => exact absurd ((h a).mp (List.mem_cons_self ..)) (by simp)
    | cons b s =>
      rw [List.pairwise_cons] at h₁ h₂
      have hab : a = b := by
        have ha : a ∈ b :: s := (h a).mp (List.mem_cons_self ..)
        have hb : b ∈ a :: r := (h b).mpr (List.mem_cons_self ..)
        rcases List.mem_cons.mp ha with e | ha'
        · exact e
        · rcases List.mem_cons.mp hb with e | hb'
          · exact e.symm
          · exact absurd (List.lt_trans (h₁.1 b hb') (h₂.1 a ha')) (List.lt_irrefl a)
      subst hab
      congr 1
      apply ih s h₁.2 h₂.2
      intro x
      constructor
      · intro hx
        have := (h x).mp (List.mem_cons_of_mem _ hx)
        rcases List.mem_cons.mp this with e | hx'
        · subst e; exact absurd (h₁.1 x hx) (List.lt_irrefl x)
        · exact hx'
      · intro hx
        have := (h x).mpr (List.mem_cons_of_mem _ hx)
        rcases List.mem_cons.mp this with e | hx'
        · subst e; exact absurd (h₂.1 x hx) (List.lt_irrefl x)
        · exact hx'

/-! ### bbolt primitives -/

theorem bput_ok {es es' : Bkt} {k v : Bytes} (h : bput es k v = .ok es') : es' = ins es k (.val v) := by
  unfold bput at h
  split at h
  · cases h
  · split at h
    · cases h
    · split at h
      · cases h
      · injection h with h; exact h.symm

theorem bput_ok_key {es es' : Bkt} {k v : Bytes} (h : bput es k v = .ok es') : k ≠ [] ∧ k.length ≤ maxKeySize := by
  unfold bput at h
  split at h
  · cases h
  · next h1 =>
    split at h
    · cases h
    · next h2 => exact ⟨h1, by omega⟩

/-- a key a plain value may be stored under -/
def Writable (es : Bkt) (k : Bytes) : Prop :=
  k ≠ [] ∧ k.length ≤ maxKeySize ∧ ∀ c, look es k ≠ some (.sub c)

theorem bput_of_writable {es : Bkt} {k : Bytes} (v : Bytes) (h : Writable es k) :
    bput es k v = .ok (ins es k (.val v)) := by
  obtain ⟨h1, h2, h3⟩ := h
  unfold bput
  rw [if_neg h1, if_neg (by omega)]
  split
  · next c hc => exact absurd hc (h3 c)
  · rfl

theorem bget_ins_self (es : Bkt) (k v : Bytes) : bget (ins es k (.val v)) k = some v := by
  simp [bget, look_ins_self]

theorem bget_ins_ne (es : Bkt) (k j : Bytes) (n : Node) (h : j ≠ k) : bget (ins es k n) j = bget es j := by
  simp [bget, look_ins_ne _ _ _ _ h]

theorem bbucket_ins_self (es : Bkt) (k : Bytes) (c : Bkt) : bbucket (ins es k (.sub c)) k = some c := by
  simp [bbucket, look_ins_self]

theorem emptyBucket_ok {es es' : Bkt} {k : Bytes} (h : emptyBucket es k = .ok es') : es' = ins es k (.sub []) := by
  unfold emptyBucket at h
  split at h
  · cases h
  · split at h
    · cases h
    · injection h with h; exact h.symm

/-- a key a child bucket may be (re)created under -/
def BucketWritable (es : Bkt) (k : Bytes) : Prop := k ≠ [] ∧ ∀ v, look es k ≠ some (.val v)

theorem emptyBucket_of_writable {es : Bkt} {k : Bytes} (h : BucketWritable es k) :
    emptyBucket es k = .ok (ins es k (.sub [])) := by
  obtain ⟨h1, h2⟩ := h
  unfold emptyBucket
  rw [if_neg h1]
  split
  · next v hv => exact absurd hv (h2 v)
  · rfl

/-! ### the typed bucket wrapper -/

theorem apply_err_none {tb : TB} {r : Except BErr Bkt} (h : (tb.apply r).err = none) :
    ∃ es', r = .ok es' ∧ (tb.apply r).es = es' ∧ tb.err = none := by
  cases r with
  | error e => simp [TB.apply] at h
  | ok es' => exact ⟨es', rfl, rfl, by simpa [TB.apply] using h⟩

theorem proceed_err {tb : TB} {name : Bytes} {chk : Checker} (h : proceedWithSet tb name chk = true) : tb.err = none := by
  unfold proceedWithSet at h
  cases he : tb.err with
  | none => rfl
  | some e => simp [he] at h

/-! ### tag handling -/

theorem getTypeAndValue_cons (t : UInt8) (v : Bytes) :
    getTypeAndValue (some (t :: v)) = (t, if v = [] then none else some v) := by
  cases v with
  | nil => rfl
  | cons c r => rfl

theorem getTyped_ins_self (es : Bkt) (k : Bytes) (t : UInt8) (v : Bytes) :
    getTyped (ins es k (.val (t :: v))) k = (t, if v = [] then none else some v) := by
  simp [getTyped, bget_ins_self, getTypeAndValue_cons]

end StorageModel.Codec
