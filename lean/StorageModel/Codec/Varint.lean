import StorageModel.Base.Bytes
/-
  LEB128 unsigned varints as `encoding/binary` `PutUvarint` / `Uvarint` do them (Go 1.23):

    func PutUvarint(buf []byte, x uint64) int {            func Uvarint(buf []byte) (uint64, int) {
      i := 0                                                 var x uint64; var s uint
      for x >= 0x80 {                                        for i, b := range buf {
        buf[i] = byte(x) | 0x80; x >>= 7; i++                  if i == MaxVarintLen64 { return 0, -(i + 1) }
      }                                                        if b < 0x80 {
      buf[i] = byte(x); return i + 1                             if i == MaxVarintLen64-1 && b > 1 { return 0, -(i + 1) }
    }                                                            return x | uint64(b)<<s, i + 1 }
                                                               x |= uint64(b&0x7f) << s; s += 7 }
                                                             return 0, 0 }

  Modelled, not verified: that the Go functions behave as transcribed (exercised by the
  correspondence on every run).  The bit operations act on disjoint bit ranges, so they are
  written with `+`, `*`, `%` and `/` over `Nat`.
-/
namespace StorageModel.Codec
open StorageModel

/-- `PutUvarint` (the bytes written; their number is the returned count). -/
def putUvarint (x : Nat) : Bytes :=
  if x < 128 then [UInt8.ofNat x] else UInt8.ofNat (x % 128 + 128) :: putUvarint (x / 128)
termination_by x
decreasing_by omega

/-- the loop of `Uvarint` from iteration `i` on, with accumulator `x`; the shift is `s = 7 * i`.
    Result: (value, n) with n > 0 bytes read, n = 0 buffer too small, n < 0 overflow. -/
def uvarintGo : Bytes → Nat → Nat → Nat × Int
  | [], _, _ => (0, 0)
  | b :: rest, i, x =>
    if i = 10 then (0, -((i : Int) + 1))
    else if b.toNat < 128 then
      if i = 9 ∧ b.toNat > 1 then (0, -((i : Int) + 1))
      else (x + b.toNat * 2 ^ (7 * i), (i : Int) + 1)
    else uvarintGo rest (i + 1) (x + (b.toNat % 128) * 2 ^ (7 * i))

/-- `binary.Uvarint` -/
def uvarint (buf : Bytes) : Nat × Int := uvarintGo buf 0 0

/-! ### round trip -/

theorem putUvarint_lt (x : Nat) (h : x < 128) : putUvarint x = [UInt8.ofNat x] := by
  rw [putUvarint]; simp [h]

theorem putUvarint_ge (x : Nat) (h : ¬ x < 128) :
    putUvarint x = UInt8.ofNat (x % 128 + 128) :: putUvarint (x / 128) := by
  rw [putUvarint]; simp [h]

theorem putUvarint_ne_nil (x : Nat) : putUvarint x ≠ [] := by
  rw [putUvarint]; split <;> simp

theorem putUvarint_length_pos (x : Nat) : 0 < (putUvarint x).length :=
  List.length_pos_iff.mpr (putUvarint_ne_nil x)

private theorem toNat_ofNat_lt (n : Nat) (h : n < 256) : (UInt8.ofNat n).toNat = n := by
  simp [UInt8.toNat_ofNat', Nat.mod_eq_of_lt h]

/-- invariant of the decoding loop on an encoding: starting iteration `i` with `y < 2^(64-7i)`
    still to be read, the loop returns `x + y·2^(7i)` and the position after the encoding. -/
theorem uvarintGo_put (y : Nat) : ∀ (i x : Nat) (rest : Bytes), i ≤ 9 → y < 2 ^ (64 - 7 * i) →
    uvarintGo (putUvarint y ++ rest) i x = (x + y * 2 ^ (7 * i), (i : Int) + (putUvarint y).length) := by
  induction y using Nat.strongRecOn with
  | _ y ih =>
    intro i x rest hi hy
    by_cases h : y < 128
    · rw [putUvarint_lt y h]
      have hb : (UInt8.ofNat y).toNat = y := toNat_ofNat_lt y (by omega)
      have h9 : ¬ (i = 9 ∧ y > 1) := by
        rintro ⟨rfl, h1⟩
        have : y < 2 := by simpa using hy
        omega
      simp only [List.cons_append, List.nil_append, uvarintGo, hb]
      have : i ≠ 10 := by omega
      simp [this, h, h9]
    · rw [putUvarint_ge y h]
      have hb : (UInt8.ofNat (y % 128 + 128)).toNat = y % 128 + 128 := toNat_ofNat_lt _ (by omega)
      have hi9 : i ≠ 9 := by
        rintro rfl
        have : y < 2 := by simpa using hy
        omega
      have hy' : y / 128 < 2 ^ (64 - 7 * (i + 1)) := by
        have e : 2 ^ (64 - 7 * i) = 128 * 2 ^ (64 - 7 * (i + 1)) := by
          have : 64 - 7 * i = 7 + (64 - 7 * (i + 1)) := by omega
          rw [this, Nat.pow_add]
        rw [e] at hy
        exact Nat.div_lt_of_lt_mul hy
      have hrec := ih (y / 128) (by omega) (i + 1) (x + (y % 128) * 2 ^ (7 * i)) rest (by omega) hy'
      simp only [List.cons_append, uvarintGo, hb]
      have : i ≠ 10 := by omega
      have hm : (y % 128 + 128) % 128 = y % 128 := by omega
      have hnl : ¬ (y % 128 + 128 < 128) := by omega
      simp only [this, if_false, hnl, hm]
      rw [hrec]
      have e2 : 2 ^ (7 * (i + 1)) = 128 * 2 ^ (7 * i) := by
        have : 7 * (i + 1) = 7 + 7 * i := by omega
        rw [this, Nat.pow_add]
      have hyd : y = y % 128 + 128 * (y / 128) := (Nat.mod_add_div y 128).symm
      refine Prod.ext ?_ ?_
      · show x + y % 128 * 2 ^ (7 * i) + y / 128 * 2 ^ (7 * (i + 1)) = x + y * 2 ^ (7 * i)
        rw [e2]
        conv => rhs; rw [hyd]
        rw [Nat.add_mul, Nat.add_assoc, Nat.mul_assoc, Nat.mul_comm (y / 128), Nat.mul_assoc]
        congr 2
        rw [Nat.mul_comm (y / 128)]
      · show ((i + 1 : Nat) : Int) + _ = (i : Int) + _
        simp only [List.length_cons]
        omega

/-- **varint round trip**: every `uint64` is read back, with the exact number of bytes consumed,
    whatever follows the encoding. -/
theorem uvarint_put (y : Nat) (rest : Bytes) (hy : y < 2 ^ 64) :
    uvarint (putUvarint y ++ rest) = (y, ((putUvarint y).length : Int)) := by
  have := uvarintGo_put y 0 0 rest (by omega) (by simpa using hy)
  simpa [uvarint] using this

end StorageModel.Codec
