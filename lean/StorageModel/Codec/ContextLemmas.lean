import StorageModel.Codec.Context
import StorageModel.Codec.Fields
/- helper lemmas about writes through derived contexts (no property theorems here) -/
namespace StorageModel.Codec
open StorageModel

/-! ### in-place replacement, paths -/

theorem look_replFirst_ne (es : Bkt) (k j : Bytes) (n : Node) (h : j ≠ k) : look (replFirst es k n) j = look es j := by
  induction es with
  | nil => rfl
  | cons e r ih =>
    obtain ⟨k', n'⟩ := e
    unfold replFirst
    split
    · next hk => subst hk; simp [look, h]
    · simp [look, ih]

theorem look_replFirst_self (es : Bkt) (k : Bytes) (n m : Node) (h : look es k = some m) : look (replFirst es k n) k = some n := by
  induction es with
  | nil => simp [look] at h
  | cons e r ih =>
    obtain ⟨k', n'⟩ := e
    unfold replFirst
    split
    · next hk => subst hk; simp [look]
    · next hk =>
      simp only [look, hk, if_false] at h ⊢
      exact ih h

theorem replFirst_self (es : Bkt) (k : Bytes) (n : Node) (h : look es k = some n) : replFirst es k n = es := by
  induction es with
  | nil => rfl
  | cons e r ih =>
    obtain ⟨k', n'⟩ := e
    unfold replFirst
    split
    · next hk =>
      subst hk
      simp only [look, if_true] at h
      injection h with h
      rw [h]
    · next hk =>
      simp only [look, hk, if_false] at h
      rw [ih h]

theorem bbucket_some {es : Bkt} {k : Bytes} {c : Bkt} (h : bbucket es k = some c) : look es k = some (.sub c) := by
  unfold bbucket at h
  split at h
  · next c' hc => injection h with h; rw [hc, h]
  · cases h

theorem bbucket_of_look {es : Bkt} {k : Bytes} {c : Bkt} (h : look es k = some (.sub c)) : bbucket es k = some c := by
  simp [bbucket, h]

theorem bbucket_congr {a b : Bkt} {j : Bytes} (h : look a j = look b j) : bbucket a j = bbucket b j := by
  simp [bbucket, h]

theorem bbucket_replFirst_self (es : Bkt) (k : Bytes) (c s : Bkt) (h : bbucket es k = some c) :
    bbucket (replFirst es k (.sub s)) k = some s :=
  bbucket_of_look (look_replFirst_self es k _ _ (bbucket_some h))

theorem nodeAt_cons (es : Bkt) (k : Bytes) (rt : List Bytes) (h : rt ≠ []) :
    nodeAt es (k :: rt) = (match bbucket es k with
      | some c => nodeAt c rt
      | none => none) := by
  cases rt with
  | nil => exact absurd rfl h
  | cons j r => rfl

theorem nodeAt_single (es : Bkt) (k : Bytes) : nodeAt es [k] = look es k := rfl

/-- the node a path leads to depends on the bucket only through the entry of the first key -/
theorem nodeAt_congr {a b : Bkt} {j : Bytes} (rt : List Bytes) (h : look a j = look b j) :
    nodeAt a (j :: rt) = nodeAt b (j :: rt) := by
  cases rt with
  | nil => exact h
  | cons j2 r2 => rw [nodeAt_cons _ _ _ (by simp), nodeAt_cons _ _ _ (by simp), bbucket_congr h]

theorem nodeAt_nil_bkt (t : List Bytes) : nodeAt ([] : Bkt) t = none := by
  cases t with
  | nil => rfl
  | cons j r =>
    cases r with
    | nil => rfl
    | cons j2 r2 => rfl

theorem subAt_cons {es : Bkt} {k : Bytes} {r : List Bytes} {b : Bkt} (h : subAt es (k :: r) = some b) :
    ∃ c, bbucket es k = some c ∧ subAt c r = some b := by
  simp only [subAt] at h
  split at h
  · next c hc => exact ⟨c, hc, h⟩
  · cases h

theorem setAt_cons {es : Bkt} {k : Bytes} {c : Bkt} (r : List Bytes) (new : Bkt) (h : bbucket es k = some c) :
    setAt es (k :: r) new = replFirst es k (.sub (setAt c r new)) := by
  simp [setAt, h]

/-- putting back what is there changes nothing -/
theorem setAt_self (p : List Bytes) (es b : Bkt) (h : subAt es p = some b) : setAt es p b = es := by
  induction p generalizing es with
  | nil => simp only [subAt] at h; injection h with h; simp [setAt, h]
  | cons k r ih =>
    obtain ⟨c, hc, hr⟩ := subAt_cons h
    rw [setAt_cons r b hc, ih c hr]
    exact replFirst_self es k _ (bbucket_some hc)

theorem subAt_setAt_self (p : List Bytes) (es b new : Bkt) (h : subAt es p = some b) : subAt (setAt es p new) p = some new := by
  induction p generalizing es with
  | nil => rfl
  | cons k r ih =>
    obtain ⟨c, hc, hr⟩ := subAt_cons h
    rw [setAt_cons r new hc]
    simp only [subAt, bbucket_replFirst_self es k c _ hc]
    exact ih c hr

/-- **tree frame**: replacing the bucket at `p` leaves every node alone that is not an ancestor of
    the bucket (or the bucket itself), provided the new bucket agrees with the old one on the node's
    path below `p` (if it lies below `p` at all) -/
theorem setAt_frame (p : List Bytes) (es b new : Bkt) (t : List Bytes) (hb : subAt es p = some b)
    (hnew : ∀ t', t' ≠ [] → p ++ t' = t → nodeAt new t' = nodeAt b t') (hnp : ¬ t <+: p) :
    nodeAt (setAt es p new) t = nodeAt es t := by
  induction p generalizing es t with
  | nil =>
    simp only [subAt] at hb
    injection hb with hb
    subst hb
    have ht : t ≠ [] := fun e => hnp (by rw [e]; exact List.nil_prefix)
    exact hnew t ht rfl
  | cons k p' ih =>
    obtain ⟨c, hc, hr⟩ := subAt_cons hb
    rw [setAt_cons p' new hc]
    cases t with
    | nil => exact absurd List.nil_prefix hnp
    | cons j rt =>
      by_cases hj : j = k
      · subst hj
        have hrt : rt ≠ [] := by
          intro e
          apply hnp
          rw [e, List.cons_prefix_cons]
          exact ⟨rfl, List.nil_prefix⟩
        rw [nodeAt_cons _ _ _ hrt, nodeAt_cons _ _ _ hrt, bbucket_replFirst_self es j c _ hc, hc]
        apply ih c rt hr
        · intro t' ht' he
          exact hnew t' ht' (by rw [List.cons_append, he])
        · intro hp
          exact hnp (by rw [List.cons_prefix_cons]; exact ⟨rfl, hp⟩)
      · exact nodeAt_congr rt (look_replFirst_ne es k j _ hj)

/-! ### the error holder, the checker -/

theorem applyOp_err (tb : TB) (name : Bytes) (op : FieldOp) (chk : Checker) (e : BErr) (h : tb.err = some e) :
    applyOp tb name op chk = tb := by
  have hp : proceedWithSet tb name chk = false := by simp [proceedWithSet, h]
  cases op <;>
    simp [applyOp, setString, setStringP, setRequiredString, setInt32, setInt64, setFloat64, setBool, setTime,
      setTimeP, setStringList, putMap, putList, setNil, hp, h]

theorem persist_err (ops : List (Bytes × FieldOp)) (tb : TB) (chk : Checker) (e : BErr) (h : tb.err = some e) :
    persist tb ops chk = tb := by
  induction ops with
  | nil => rfl
  | cons p r ih => obtain ⟨name, op⟩ := p; simp only [persist]; rw [applyOp_err tb name op chk e h]; exact ih

/-- the operation does nothing because the checker does not select its field -/
def Skips (chk : Checker) (name : Bytes) (op : FieldOp) : Prop :=
  ∃ f, chk = some f ∧ f name = false ∧ op.checked = true

/-- node `t` is neither (an ancestor of) the entry written at `w` nor inside it -/
def Apart (w t : List Bytes) : Prop := ¬ t <+: w ∧ ¬ w <+: t

theorem applyOp_skips {tb : TB} {name : Bytes} {op : FieldOp} {chk : Checker} (h : Skips chk name op) :
    applyOp tb name op chk = tb := by
  obtain ⟨f, hc, hf, hck⟩ := h
  rw [hc]
  exact applyOp_unselected tb name op f hf hck

/-- an entry of the bucket survives a sequence of field operations none of which both names it and
    is let through by the checker -/
theorem persist_look (ops : List (Bytes × FieldOp)) (tb : TB) (chk : Checker) (j : Bytes)
    (h : ∀ p ∈ ops, Skips chk p.1 p.2 ∨ p.1 ≠ j) : look (persist tb ops chk).es j = look tb.es j := by
  induction ops generalizing tb with
  | nil => rfl
  | cons p r ih =>
    obtain ⟨name, op⟩ := p
    simp only [persist]
    rw [ih _ (fun q hq => h q (List.mem_cons_of_mem _ hq))]
    rcases h (name, op) (List.mem_cons_self ..) with hs | hne
    · rw [applyOp_skips hs]
    · exact applyOp_frame tb name op chk j (Ne.symm hne)

/-! ### one operation / a block through a context -/

theorem ctxApply_skips (tb : TB) (ctx : PCtx) (name : Bytes) (op : FieldOp) (h : Skips ctx.chk name op) :
    ctxApply tb ctx name op = tb := by
  unfold ctxApply
  split
  · rfl
  · next b hb =>
    rw [applyOp_skips h]
    simp only [setAt_self ctx.path tb.es b hb]

/-- **shared error holder**: once the holder of the family is in error, a write through ANY context
    of the family (the context itself, a parent context derived from it) does nothing -/
theorem ctxApply_err (tb : TB) (ctx : PCtx) (name : Bytes) (op : FieldOp) (e : BErr) (h : tb.err = some e) :
    ctxApply tb ctx name op = tb := by
  unfold ctxApply
  split
  · rfl
  · next b hb =>
    rw [applyOp_err { es := b, err := tb.err } name op ctx.chk e h]
    simp only [setAt_self ctx.path tb.es b hb]

theorem apart_head {p : List Bytes} {name j : Bytes} {rt t : List Bytes} (he : p ++ j :: rt = t)
    (ha : Apart (p ++ [name]) t) : j ≠ name := by
  intro e
  subst e
  apply ha.2
  rw [← he]
  have : p ++ j :: rt = (p ++ [j]) ++ rt := by simp
  rw [this]
  exact List.prefix_append _ _

theorem not_prefix_of_apart {p : List Bytes} {name : Bytes} {t : List Bytes} (ha : Apart (p ++ [name]) t) : ¬ t <+: p :=
  fun h => ha.1 (List.IsPrefix.trans h (List.prefix_append _ _))

theorem ctxApply_frame (tb : TB) (ctx : PCtx) (name : Bytes) (op : FieldOp) (t : List Bytes)
    (ha : Apart (ctx.path ++ [name]) t) : nodeAt (ctxApply tb ctx name op).es t = nodeAt tb.es t := by
  unfold ctxApply
  split
  · rfl
  · next b hb =>
    apply setAt_frame ctx.path tb.es b _ t hb _ (not_prefix_of_apart ha)
    intro t' ht' he
    cases t' with
    | nil => exact absurd rfl ht'
    | cons j rt =>
      exact nodeAt_congr rt (applyOp_frame { es := b, err := tb.err } name op ctx.chk j (apart_head he ha))

theorem ctxPersist_frame (ops : List (Bytes × FieldOp)) (tb : TB) (ctx : PCtx) (t : List Bytes)
    (h : ∀ p ∈ ops, Skips ctx.chk p.1 p.2 ∨ Apart (ctx.path ++ [p.1]) t) :
    nodeAt (ctxPersist tb ctx ops).es t = nodeAt tb.es t := by
  induction ops generalizing tb with
  | nil => rfl
  | cons p r ih =>
    obtain ⟨name, op⟩ := p
    simp only [ctxPersist]
    rw [ih _ (fun q hq => h q (List.mem_cons_of_mem _ hq))]
    rcases h (name, op) (List.mem_cons_self ..) with hs | ha
    · rw [ctxApply_skips tb ctx name op hs]
    · exact ctxApply_frame tb ctx name op t ha

theorem ctxPersist_err (ops : List (Bytes × FieldOp)) (tb : TB) (ctx : PCtx) (e : BErr) (h : tb.err = some e) :
    ctxPersist tb ctx ops = tb := by
  induction ops with
  | nil => rfl
  | cons p r ih => obtain ⟨name, op⟩ := p; simp only [ctxPersist]; rw [ctxApply_err tb ctx name op e h]; exact ih

/-! ### `GetOrCreatePath` -/

theorem getOrCreateBucket_look {es es1 : Bkt} {k : Bytes} (h : getOrCreateBucket es k = .ok es1) (j : Bytes) (hj : j ≠ k) :
    look es1 j = look es j := by
  unfold getOrCreateBucket at h
  split at h
  · injection h with h; rw [h]
  · cases h
  · split at h
    · cases h
    · injection h with h; rw [← h, look_ins_ne _ _ _ _ hj]

/-- after a successful `GetOrCreateBucket` the child is the one that was there, or a new empty one -/
theorem getOrCreateBucket_child {es es1 : Bkt} {k : Bytes} (h : getOrCreateBucket es k = .ok es1) :
    (∃ c, bbucket es k = some c ∧ bbucket es1 k = some c) ∨ (bbucket es k = none ∧ bbucket es1 k = some []) := by
  unfold getOrCreateBucket at h
  split at h
  · next c hc => injection h with h; subst h; exact Or.inl ⟨c, bbucket_of_look hc, bbucket_of_look hc⟩
  · cases h
  · next hn =>
    split at h
    · cases h
    · injection h with h
      subst h
      exact Or.inr ⟨by simp [bbucket, hn], bbucket_ins_self es k []⟩

/-- `GetOrCreatePath` changes only the nodes on the path (it creates them) -/
theorem getOrCreatePath_frame (np : List Bytes) (es : Bkt) (t : List Bytes) (h : ¬ t <+: np) :
    nodeAt (getOrCreatePath es np).1 t = nodeAt es t := by
  induction np generalizing es t with
  | nil => rfl
  | cons k r ih =>
    simp only [getOrCreatePath]
    split
    · rfl
    · next es1 h1 =>
      split
      · next hnone =>
        rcases getOrCreateBucket_child h1 with ⟨c, _, hc⟩ | ⟨_, hc⟩ <;> simp [hc] at hnone
      · next c hc =>
        cases t with
        | nil => exact absurd List.nil_prefix h
        | cons j rt =>
          by_cases hj : j = k
          · subst hj
            have hrt : rt ≠ [] := by
              intro e
              apply h
              rw [e, List.cons_prefix_cons]
              exact ⟨rfl, List.nil_prefix⟩
            have hnp : ¬ rt <+: r := fun hp => h (by rw [List.cons_prefix_cons]; exact ⟨rfl, hp⟩)
            simp only [nodeAt_cons _ _ _ hrt, bbucket_replFirst_self es1 j c _ hc]
            rw [ih c rt hnp]
            rcases getOrCreateBucket_child h1 with ⟨c0, h0, h0'⟩ | ⟨h0, h0'⟩
            · rw [h0] ; rw [h0'] at hc; injection hc with hc; rw [hc]
            · rw [h0]; rw [h0'] at hc; injection hc with hc; rw [← hc]; exact nodeAt_nil_bkt rt
          · simp only []
            rw [nodeAt_congr rt (look_replFirst_ne es1 k j _ hj)]
            exact nodeAt_congr rt (getOrCreateBucket_look h1 j hj)

/-! ### a block written into a nested bucket -/

theorem nestedPersist_err (tb : TB) (ctx : PCtx) (np : List Bytes) (ops : List (Bytes × FieldOp)) :
    (nestedPersist tb ctx np ops).1.err = tb.err := by
  unfold nestedPersist
  split
  · rfl
  · split
    · rfl
    · dsimp only
      split
      · rfl
      · split <;> rfl

theorem nestedPersist_frame (tb : TB) (ctx : PCtx) (np : List Bytes) (ops : List (Bytes × FieldOp)) (t : List Bytes)
    (hcreate : ¬ t <+: ctx.path ++ np)
    (h : ∀ p ∈ ops, Skips ctx.chk p.1 p.2 ∨ Apart (ctx.path ++ np ++ [p.1]) t) :
    nodeAt (nestedPersist tb ctx np ops).1.es t = nodeAt tb.es t := by
  have hnp : ¬ t <+: ctx.path := fun hp => hcreate (List.IsPrefix.trans hp (List.prefix_append _ _))
  have hrel : ∀ t', ctx.path ++ t' = t → ¬ t' <+: np := by
    intro t' he hp
    apply hcreate
    rw [← he]
    exact (List.prefix_append_right_inj _).mpr hp
  unfold nestedPersist
  split
  · rfl
  · split
    · rfl
    · next b hb =>
      simp only []
      split
      · apply setAt_frame ctx.path tb.es b _ t hb _ hnp
        intro t' _ he
        exact getOrCreatePath_frame np b t' (hrel t' he)
      · split
        · apply setAt_frame ctx.path tb.es b _ t hb _ hnp
          intro t' _ he
          exact getOrCreatePath_frame np b t' (hrel t' he)
        · next sub hsub =>
          apply setAt_frame ctx.path tb.es b _ t hb _ hnp
          intro t' _ he
          rw [← getOrCreatePath_frame np b t' (hrel t' he)]
          apply setAt_frame np _ sub _ t' hsub _ (hrel t' he)
          intro t'' ht'' he'
          cases t'' with
          | nil => exact absurd rfl ht''
          | cons j rt =>
            apply nodeAt_congr rt
            apply persist_look
            intro p hp
            rcases h p hp with hs | ha
            · exact Or.inl hs
            · refine Or.inr ?_
              intro e
              apply ha.2
              rw [← he, ← he', e]
              have : ctx.path ++ (np ++ j :: rt) = (ctx.path ++ np ++ [j]) ++ rt := by simp
              rw [this]
              exact List.prefix_append _ _

/-! ### the blocks of an entity strategy -/

/-- the bucket a block writes into -/
def Group.bucket (own : List Bytes) (pp : Option (List Bytes)) (g : Group) : List Bytes :=
  (if g.parent then pp.getD [] else own) ++ g.np

theorem runGroup_frame (st : RunState) (g : Group) (t : List Bytes) (hovr : g.ovr = [])
    (hcreate : g.np ≠ [] → ¬ t <+: g.bucket st.ctx.path st.ctx.parentPath)
    (h : ∀ p ∈ g.ops, Skips st.ctx.chk p.1 p.2 ∨ Apart (g.bucket st.ctx.path st.ctx.parentPath ++ [p.1]) t) :
    nodeAt (runGroup st g).tb.es t = nodeAt st.tb.es t ∧ (runGroup st g).ctx = st.ctx := by
  unfold runGroup
  split
  · exact ⟨rfl, rfl⟩
  · cases hpar : g.parent with
    | false =>
      have hb : g.bucket st.ctx.path st.ctx.parentPath = st.ctx.path ++ g.np := by simp [Group.bucket, hpar]
      rw [hb] at h hcreate
      simp only [groupCtx, hpar, hovr, applyOvr, Bool.false_eq_true, if_false]
      split
      · next hnp =>
        rw [hnp, List.append_nil] at h
        exact ⟨ctxPersist_frame g.ops st.tb st.ctx t h, rfl⟩
      · next hnp =>
        exact ⟨nestedPersist_frame st.tb st.ctx g.np g.ops t (hcreate hnp) h, rfl⟩
    | true =>
      simp only [groupCtx, hpar, if_true, PCtx.getParentContext]
      cases hpp : st.ctx.parentPath with
      | none => exact ⟨rfl, rfl⟩
      | some pp =>
        have hb : g.bucket st.ctx.path st.ctx.parentPath = pp ++ g.np := by simp [Group.bucket, hpar, hpp]
        rw [hb] at h hcreate
        simp only []
        cases hs : subAt st.tb.es pp with
        | none => exact ⟨rfl, rfl⟩
        | some b0 =>
          simp only [hovr, applyOvr]
          split
          · next hnp =>
            rw [hnp, List.append_nil] at h
            exact ⟨ctxPersist_frame g.ops st.tb _ t h, rfl⟩
          · next hnp =>
            exact ⟨nestedPersist_frame st.tb _ g.np g.ops t (hcreate hnp) h, rfl⟩

theorem runGroups_frame (gs : List Group) (st : RunState) (t : List Bytes) (hovr : ∀ g ∈ gs, g.ovr = [])
    (hcreate : ∀ g ∈ gs, g.np ≠ [] → ¬ t <+: g.bucket st.ctx.path st.ctx.parentPath)
    (h : ∀ g ∈ gs, ∀ p ∈ g.ops, Skips st.ctx.chk p.1 p.2 ∨ Apart (g.bucket st.ctx.path st.ctx.parentPath ++ [p.1]) t) :
    nodeAt (runGroups st gs).tb.es t = nodeAt st.tb.es t := by
  induction gs generalizing st with
  | nil => rfl
  | cons g r ih =>
    simp only [runGroups]
    have h1 := runGroup_frame st g t (hovr g (List.mem_cons_self ..)) (hcreate g (List.mem_cons_self ..))
      (h g (List.mem_cons_self ..))
    rw [ih (runGroup st g) (fun g' hg' => hovr g' (List.mem_cons_of_mem _ hg'))
      (by rw [h1.2]; exact fun g' hg' => hcreate g' (List.mem_cons_of_mem _ hg'))
      (by rw [h1.2]; exact fun g' hg' => h g' (List.mem_cons_of_mem _ hg'))]
    exact h1.1

end StorageModel.Codec
