import StorageModel.Codec.TypedValue
/-
  Model of `boltz.TypedBucket` (boltz/typed_bucket.go) over a bucket tree, and of the
  `PersistContext` setters of boltz/base.go.

  bbolt is modelled, not verified: a bucket is a finite map from keys to either value bytes or a
  child bucket, kept in `bytes.Compare` order (`ins` is the ordered insert-or-replace; a cursor
  walk is the list order); `Put` refuses an empty key, a key longer than `MaxKeySize`, and a key
  that names a child bucket; `CreateBucketIfNotExists` refuses an empty name and a key that holds
  a plain value.  The correspondence compares a full dump of the real bucket tree with this model
  after every case.

  `TypedBucket.Err` is sticky: every setter is a no-op once it is set.  What the tree holds after
  an error is not modelled (the transaction is expected to be rolled back; a Go map is written
  in random order, so the partial state is not even deterministic): the model keeps the tree
  unchanged and the correspondence compares only the error.
-/
namespace StorageModel.Codec
open StorageModel

inductive Node where
  | val (b : Bytes)
  | sub (es : List (Bytes × Node))
  deriving Repr

abbrev Bkt := List (Bytes × Node)

/-- first entry with the key -/
def look {α : Type} : List (Bytes × α) → Bytes → Option α
  | [], _ => none
  | (k', a) :: r, k => if k = k' then some a else look r k

/-- ordered insert-or-replace (keys in `bytes.Compare` order = lexicographic order of `List UInt8`) -/
def ins {α : Type} : List (Bytes × α) → Bytes → α → List (Bytes × α)
  | [], k, a => [(k, a)]
  | (k', a') :: r, k, a =>
    if k < k' then (k, a) :: (k', a') :: r
    else if k = k' then (k, a) :: r
    else (k', a') :: ins r k a

inductive BErr
  | keyRequired          -- bbolt ErrKeyRequired
  | keyTooLarge          -- bbolt ErrKeyTooLarge
  | incompatible         -- bbolt ErrIncompatibleValue
  | bucketNameRequired   -- bbolt ErrBucketNameRequired
  | nestedMaps           -- "nested maps not supported"
  | nestedLists          -- "nested lists not supported"
  | unsupported          -- "unsupported type … in map"
  | required             -- errorz.FieldError "<field> is required"
  | timeMarshal          -- the error of `time.Time.MarshalBinary` ("unexpected zone offset")
  deriving DecidableEq, Repr

def maxKeySize : Nat := 32768

/-- `bbolt.Bucket.Put` -/
def bput (es : Bkt) (k v : Bytes) : Except BErr Bkt :=
  if k = [] then .error .keyRequired
  else if k.length > maxKeySize then .error .keyTooLarge
  else match look es k with
    | some (.sub _) => .error .incompatible
    | _ => .ok (ins es k (.val v))

/-- `bbolt.Bucket.Get`: nil for an absent key and for a child bucket -/
def bget (es : Bkt) (k : Bytes) : Option Bytes :=
  match look es k with
  | some (.val v) => some v
  | _ => none

/-- `bbolt.Bucket.Bucket` -/
def bbucket (es : Bkt) (k : Bytes) : Option Bkt :=
  match look es k with
  | some (.sub c) => some c
  | _ => none

/-- `TypedBucket.EmptyBucket`: delete the child bucket if there is one, then
    `CreateBucketIfNotExists`; the result has an empty child bucket under `k` -/
def emptyBucket (es : Bkt) (k : Bytes) : Except BErr Bkt :=
  if k = [] then .error .bucketNameRequired
  else match look es k with
    | some (.val _) => .error .incompatible
    | _ => .ok (ins es k (.sub []))

/-! ### values of `map[string]interface{}` / `[]interface{}` -/

inductive Value where
  | nil
  | str (s : Bytes)
  | i32 (i : Int)
  | i64 (i : Int)
  | goInt (i : Int)            -- Go `int` (stored as int64)
  | f64 (bits : Nat)           -- math.Float64bits
  | bool (b : Bool)
  | time (t : GoTime)          -- a `time.Time` in whatever representation (zone, monotonic reading)
  | map (kvs : List (Bytes × Value))
  | list (xs : List Value)
  | unsupported                -- any other dynamic type
  deriving Repr

/-- `value.UTC().MarshalBinary()` as `SetTime` / `SetTimeP` call it, the error being what they put
    into `bucket.Err` -/
def timePayload (t : GoTime) : Except BErr Bytes :=
  match marshalBinary t.utc with
  | .ok p => .ok p
  | .error _ => .error .timeMarshal

/-- the bytes a scalar is stored as (`setMarshaled` → `Set*`); `none` for containers -/
def encScalar : Value → Option Bytes
  | .nil => some [typeNil]
  | .str s => some (typeString :: s)
  | .i32 i => some (int32ToBytes i)
  | .i64 i => some (typeInt64 :: encInt64 i)
  | .goInt i => some (typeInt64 :: encInt64 i)
  | .f64 bits => some (typeFloat64 :: le 8 bits)
  | .bool b => some [typeBool, if b then 1 else 0]
  | .time t => (match timePayload t with | .ok p => some (typeTime :: p) | .error _ => none)
  | _ => none

/-- list element key: `string(Int32ToBytes(int32(idx)))` -/
def idxKey (i : Nat) : Bytes := int32ToBytes (i : Int)

mutual
/-- `setMarshaled(name, value, allowNested)` on a bucket without error; the map and list cases
    are the bodies of `PutMap` / `PutList` (`putMapRaw` / `putListRaw` below) -/
def setMarshaled (es : Bkt) (name : Bytes) (v : Value) (allowNested : Bool) : Except BErr Bkt :=
  match v with
  | .map kvs =>
    if allowNested then
      match emptyBucket es name with
      | .error e => .error e
      | .ok es' =>
        match putEntries [] kvs true with
        | .error e => .error e
        | .ok child => .ok (ins es' name (.sub child))
    else .error .nestedMaps
  | .list xs =>
    if allowNested then
      match emptyBucket es name with
      | .error e => .error e
      | .ok es' =>
        match putElems [] xs 0 with
        | .error e => .error e
        | .ok child =>
          match bput child listSizeKey (int32ToBytes (xs.length : Int)) with
          | .error e => .error e
          | .ok child' => .ok (ins es' name (.sub child'))
    else .error .nestedLists
  | .unsupported => .error .unsupported
  | .nil => bput es name [typeNil]
  | .str s => bput es name (typeString :: s)
  | .i32 i => bput es name (int32ToBytes i)
  | .i64 i => bput es name (typeInt64 :: encInt64 i)
  | .goInt i => bput es name (typeInt64 :: encInt64 i)
  | .f64 bits => bput es name (typeFloat64 :: le 8 bits)
  | .bool b => bput es name [typeBool, if b then 1 else 0]
  | .time t =>
    match timePayload t with
    | .ok p => bput es name (typeTime :: p)
    | .error e => .error e
/-- `for key, val := range value { tagsBucket.setMarshaled(key, val, allowNested) }` -/
def putEntries (child : Bkt) (kvs : List (Bytes × Value)) (allowNested : Bool) : Except BErr Bkt :=
  match kvs with
  | [] => .ok child
  | (k, v) :: r =>
    match setMarshaled child k v allowNested with
    | .error e => .error e
    | .ok child' => putEntries child' r allowNested
/-- `for idx, val := range value { listBucket.setMarshaled(string(Int32ToBytes(int32(idx))), val, true) }` -/
def putElems (child : Bkt) (xs : List Value) (idx : Nat) : Except BErr Bkt :=
  match xs with
  | [] => .ok child
  | v :: r =>
    match setMarshaled child (idxKey idx) v true with
    | .error e => .error e
    | .ok child' => putElems child' r (idx + 1)
end

/-- body of `PutMap` after `ProceedWithSet` -/
def putMapRaw (es : Bkt) (name : Bytes) (kvs : List (Bytes × Value)) (allowNested : Bool) : Except BErr Bkt :=
  match emptyBucket es name with
  | .error e => .error e
  | .ok es' =>
    match putEntries [] kvs allowNested with
    | .error e => .error e
    | .ok child => .ok (ins es' name (.sub child))

/-- body of `PutList` after `ProceedWithSet` -/
def putListRaw (es : Bkt) (name : Bytes) (xs : List Value) : Except BErr Bkt :=
  match emptyBucket es name with
  | .error e => .error e
  | .ok es' =>
    match putElems [] xs 0 with
    | .error e => .error e
    | .ok child =>
      match bput child listSizeKey (int32ToBytes (xs.length : Int)) with
      | .error e => .error e
      | .ok child' => .ok (ins es' name (.sub child'))

/-! ### typed bucket with sticky error, field checkers -/

structure TB where
  es : Bkt
  err : Option BErr := none
  deriving Repr

/-- a `FieldChecker` (`none` = Go nil checker) -/
abbrev Checker := Option (Bytes → Bool)

/-- `MappedFieldChecker.IsUpdated` -/
def mappedChecker (f : Bytes → Bool) (mappings : List (Bytes × Bytes)) : Bytes → Bool :=
  fun field => match look mappings field with
    | some override => f override
    | none => f field

/-- `PersistContext.WithFieldOverrides` -/
def withFieldOverrides (chk : Checker) (overrides : List (Bytes × Bytes)) : Checker :=
  match chk with
  | none => none
  | some f => some (mappedChecker f overrides)

/-- `ProceedWithSet`: `bucket.Err == nil && (checker == nil || checker.IsUpdated(name))` -/
def proceedWithSet (tb : TB) (name : Bytes) (chk : Checker) : Bool :=
  tb.err.isNone && (match chk with
    | none => true
    | some f => f name)

def TB.apply (tb : TB) (r : Except BErr Bkt) : TB :=
  match r with
  | .ok es => { tb with es := es }
  | .error e => { tb with err := some e }

/-- `setTyped` -/
def setTyped (tb : TB) (t : UInt8) (name : Bytes) (value : Option Bytes) : TB :=
  match value with
  | none => tb.apply (bput tb.es name [typeNil])
  | some v =>
    if t = typeNil then tb.apply (bput tb.es name [typeNil])
    else tb.apply (bput tb.es name (prependFieldType t v))

/-- `SetNil` -/
def setNil (tb : TB) (name : Bytes) : TB :=
  if tb.err.isNone then setTyped tb typeNil name none else tb

def setString (tb : TB) (name s : Bytes) (chk : Checker) : TB :=
  if proceedWithSet tb name chk then setTyped tb typeString name (some s) else tb

def setStringP (tb : TB) (name : Bytes) (s : Option Bytes) (chk : Checker) : TB :=
  if proceedWithSet tb name chk then
    match s with
    | none => setNil tb name
    | some v => setTyped tb typeString name (some v)
  else tb

/-- `PersistContext.SetRequiredString` -/
def setRequiredString (tb : TB) (name s : Bytes) (chk : Checker) : TB :=
  if proceedWithSet tb name chk then
    if s = [] then { tb with err := some .required }
    else setTyped tb typeString name (some s)
  else tb

def setBool (tb : TB) (name : Bytes) (b : Bool) (chk : Checker) : TB :=
  if proceedWithSet tb name chk then tb.apply (bput tb.es name [typeBool, if b then 1 else 0]) else tb

def setInt32 (tb : TB) (name : Bytes) (i : Int) (chk : Checker) : TB :=
  if proceedWithSet tb name chk then tb.apply (bput tb.es name (int32ToBytes i)) else tb

def setInt64 (tb : TB) (name : Bytes) (i : Int) (chk : Checker) : TB :=
  if proceedWithSet tb name chk then tb.apply (bput tb.es name (typeInt64 :: encInt64 i)) else tb

def setFloat64 (tb : TB) (name : Bytes) (bits : Nat) (chk : Checker) : TB :=
  if proceedWithSet tb name chk then tb.apply (bput tb.es name (typeFloat64 :: le 8 bits)) else tb

/-- `SetTime`: `value.UTC().MarshalBinary()`, the bytes stored under the time tag, an error kept in
    `bucket.Err` -/
def setTime (tb : TB) (name : Bytes) (t : GoTime) (chk : Checker) : TB :=
  if proceedWithSet tb name chk then
    match timePayload t with
    | .ok p => setTyped tb typeTime name (some p)
    | .error e => { tb with err := some e }
  else tb

def setTimeP (tb : TB) (name : Bytes) (t : Option GoTime) (chk : Checker) : TB :=
  if proceedWithSet tb name chk then
    match t with
    | none => setNil tb name
    | some v =>
      match timePayload v with
      | .ok p => setTyped tb typeTime name (some p)
      | .error e => { tb with err := some e }
  else tb

/-- `SetListEntry(TypeString, key)` for each element, first error stops -/
def setListEntries (child : Bkt) : List Bytes → Except BErr Bkt
  | [] => .ok child
  | x :: r =>
    match bput child (prependFieldType typeString x) [] with
    | .error e => .error e
    | .ok child' => setListEntries child' r

def setStringListRaw (es : Bkt) (name : Bytes) (xs : List Bytes) : Except BErr Bkt :=
  match emptyBucket es name with
  | .error e => .error e
  | .ok es' =>
    match setListEntries [] xs with
    | .error e => .error e
    | .ok child => .ok (ins es' name (.sub child))

/-- `SetStringList` (and the writing half of `GetAndSetStringList`) -/
def setStringList (tb : TB) (name : Bytes) (xs : List Bytes) (chk : Checker) : TB :=
  if proceedWithSet tb name chk then tb.apply (setStringListRaw tb.es name xs) else tb

def putMap (tb : TB) (name : Bytes) (kvs : List (Bytes × Value)) (chk : Checker) (allowNested : Bool) : TB :=
  if proceedWithSet tb name chk then tb.apply (putMapRaw tb.es name kvs allowNested) else tb

def putList (tb : TB) (name : Bytes) (xs : List Value) (chk : Checker) : TB :=
  if proceedWithSet tb name chk then tb.apply (putListRaw tb.es name xs) else tb

/-! ### readers -/

inductive Res (α : Type) where
  | ok (a : α)
  | panic
  deriving Repr

def Res.map {α β : Type} (f : α → β) : Res α → Res β
  | .ok a => .ok (f a)
  | .panic => .panic

def getTyped (es : Bkt) (name : Bytes) : UInt8 × Option Bytes := getTypeAndValue (bget es name)

def getString (es : Bkt) (name : Bytes) : StrRead := fieldToString (getTyped es name).1 (getTyped es name).2
def getBool (es : Bkt) (name : Bytes) : Option Bool := fieldToBool (getTyped es name).1 (getTyped es name).2
def getInt32 (es : Bkt) (name : Bytes) : Option Int := fieldToInt32 (getTyped es name).1 (getTyped es name).2
def getInt64 (es : Bkt) (name : Bytes) : Option Int := fieldToInt64 (getTyped es name).1 (getTyped es name).2
def getFloat64 (es : Bkt) (name : Bytes) : Option FloatRead := fieldToFloat64 (getTyped es name).1 (getTyped es name).2
def getTime (es : Bkt) (name : Bytes) : Option GoTime := fieldToDatetime (getTyped es name).1 (getTyped es name).2

/-- `ReadStringList`: cursor walk, each key without its type byte -/
def readStringList (c : Bkt) : List Bytes := c.map fun e => obytes (getTypeAndValue (some e.1)).2

/-- `GetStringList`: nil when there is no such child bucket -/
def getStringList (es : Bkt) (name : Bytes) : Option (List Bytes) := (bbucket es name).map readStringList

/-- the `switch fieldType` of `getMarshaled` on a plain value (`none` = key absent) -/
def scalarOf (raw : Option Bytes) : Value :=
  let t := (getTypeAndValue raw).1
  let v := (getTypeAndValue raw).2
  if t = typeString then .str (bytesToString v)
  else if t = typeInt32 then (match bytesToInt32 v with | some i => .i32 i | none => .nil)
  else if t = typeInt64 then (match bytesToInt64 v with | some i => .i64 i | none => .nil)
  else if t = typeFloat64 then (match bytesToFloat64 v with | some b => .f64 b | none => .nil)
  else if t = typeTime then (match bytesToDatetime v with | some p => .time p | none => .nil)
  else if t = typeBool then (match bytesToBool v with | some b => .bool b | none => .nil)
  else .nil

def seqAll : List (Res Value) → Res (List Value)
  | [] => .ok []
  | .panic :: _ => .panic
  | .ok v :: r => match seqAll r with
    | .ok vs => .ok (v :: vs)
    | .panic => .panic

def seqKvs : List (Bytes × Res Value) → Res (List (Bytes × Value))
  | [] => .ok []
  | (_, .panic) :: _ => .panic
  | (k, .ok v) :: r => match seqKvs r with
    | .ok kvs => .ok ((k, v) :: kvs)
    | .panic => .panic

/-- `listBucket.getMarshaled(string(Int32ToBytes(idx)))` given the readings of all entries -/
def elemAt (rs : List (Bytes × Res Value)) (i : Nat) : Res Value :=
  match look rs (idxKey i) with
  | some r => r
  | none => .ok .nil

/-- the loop of `GetList`: `result := make([]interface{}, size)` panics for a negative size -/
def listFrom (rs : List (Bytes × Res Value)) (size : Int) : Res Value :=
  if size < 0 then .panic
  else (seqAll ((List.range size.toNat).map (elemAt rs))).map .list

/-- the loop of `GetMap` -/
def mapFrom (rs : List (Bytes × Res Value)) : Res Value := (seqKvs rs).map .map

/-- the stored list size of a bucket: `GetInt32(ListSizeKeyName)` -/
def listSize (c : Bkt) : Option Int := getInt32 c listSizeKey

mutual
/-- `getMarshaled` on a present key: a child bucket is a list if it has an int32 size entry, else
    a map; a plain value is decoded by its tag -/
def readNode : Node → Res Value
  | .val b => .ok (scalarOf (some b))
  | .sub c =>
    match listSize c with
    | some n => listFrom (readEs c) n
    | none => mapFrom (readEs c)
/-- the reading of every entry of a bucket (taken on demand by `listFrom` / `mapFrom`) -/
def readEs : List (Bytes × Node) → List (Bytes × Res Value)
  | [] => []
  | (k, n) :: r => (k, readNode n) :: readEs r
end

/-- `getMarshaled(name)` -/
def getMarshaled (es : Bkt) (name : Bytes) : Res Value :=
  match look es name with
  | none => .ok .nil
  | some n => readNode n

/-- `GetMap(name)`: an empty map when there is no such child bucket -/
def getMap (es : Bkt) (name : Bytes) : Res Value :=
  match bbucket es name with
  | none => .ok (.map [])
  | some c => mapFrom (readEs c)

/-- `GetList(name)`: nil dereference when there is no such child bucket; Go-nil (`none`) when the
    child bucket has no int32 size entry -/
def getList (es : Bkt) (name : Bytes) : Res (Option Value) :=
  match bbucket es name with
  | none => .panic
  | some c =>
    match listSize c with
    | none => .ok none
    | some n => (listFrom (readEs c) n).map some

/-- the text `FieldToString` yields where the model knows it (`none`: a formatted float / time) -/
def strReadBytes : StrRead → Option (Option Bytes)
  | .nil => some none
  | .str s => some (some s)
  | .ofBool b => some (some (if b then "true".toUTF8.toList else "false".toUTF8.toList))
  | .ofInt i => some (some (toString i).toUTF8.toList)
  | .opaque => none
  | .panic => none

/-- what `GetAndSetString` returns: (old value, changed); `changed = none` where the old value is
    a formatted float / time.  The write itself is `setString`. -/
def getAndSetStringObs (tb : TB) (name s : Bytes) (chk : Checker) : StrRead × Option Bool :=
  if proceedWithSet tb name chk then
    let old := getString tb.es name
    match strReadBytes old with
    | some none => (old, some true)
    | some (some b) => (old, some (b ≠ s))
    | none => (old, none)
  else (.nil, some false)

/-- what `GetAndSetStringList` returns: (the list before, whether the checker let the write through) -/
def getAndSetStringListObs (tb : TB) (name : Bytes) (chk : Checker) : Option (List Bytes) × Bool :=
  (getStringList tb.es name, proceedWithSet tb name chk)

/-! ### field operations of an entity write -/

inductive FieldOp where
  | str (s : Bytes)
  | strP (s : Option Bytes)
  | requiredStr (s : Bytes)
  | getAndSetStr (s : Bytes)
  | i32 (i : Int)
  | i64 (i : Int)
  | f64 (bits : Nat)
  | bool (b : Bool)
  | time (t : GoTime)
  | timeP (t : Option GoTime)
  | strList (xs : List Bytes)
  | getAndSetStrList (xs : List Bytes)
  | map (kvs : List (Bytes × Value)) (allowNested : Bool)
  | list (xs : List Value)
  | setNil

def applyOp (tb : TB) (name : Bytes) (op : FieldOp) (chk : Checker) : TB :=
  match op with
  | .str s => setString tb name s chk
  | .strP s => setStringP tb name s chk
  | .requiredStr s => setRequiredString tb name s chk
  | .getAndSetStr s => setString tb name s chk
  | .i32 i => setInt32 tb name i chk
  | .i64 i => setInt64 tb name i chk
  | .f64 b => setFloat64 tb name b chk
  | .bool b => setBool tb name b chk
  | .time p => setTime tb name p chk
  | .timeP p => setTimeP tb name p chk
  | .strList xs => setStringList tb name xs chk
  | .getAndSetStrList xs => setStringList tb name xs chk
  | .map kvs a => putMap tb name kvs chk a
  | .list xs => putList tb name xs chk
  | .setNil => setNil tb name

/-- an entity write: the field operations of `PersistEntity`, in order, under one checker -/
def persist (tb : TB) (ops : List (Bytes × FieldOp)) (chk : Checker) : TB :=
  match ops with
  | [] => tb
  | (name, op) :: r => persist (applyOp tb name op chk) r chk

/-! ### what the property expects to read back -/

mutual
/-- the value as it is expected back: Go `int` widened to int64, map entries in key order, a time as
    the same instant (`sec`, `nsec` untouched) in UTC without monotonic reading -/
def normalize : Value → Value
  | .goInt i => .i64 i
  | .map kvs => .map (normKvs kvs [])
  | .list xs => .list (normXs xs)
  | .nil => .nil
  | .str s => .str s
  | .i32 i => .i32 i
  | .i64 i => .i64 i
  | .f64 b => .f64 b
  | .bool b => .bool b
  | .time t => .time t.utc
  | .unsupported => .unsupported
def normKvs : List (Bytes × Value) → List (Bytes × Value) → List (Bytes × Value)
  | [], acc => acc
  | (k, v) :: r, acc => normKvs r (ins acc k (normalize v))
def normXs : List Value → List Value
  | [] => []
  | v :: r => normalize v :: normXs r
end

/-- ordered insert into a strictly sorted list of strings, dropping a duplicate -/
def insertSorted (x : Bytes) : List Bytes → List Bytes
  | [] => [x]
  | y :: r => if x < y then x :: y :: r else if x = y then y :: r else y :: insertSorted x r

/-- the sorted duplicate-free list of the members of `xs` (what a string list is expected back as) -/
def sortDedup (xs : List Bytes) : List Bytes := xs.foldr insertSorted []

mutual
/-- values a write accepts on a fresh key: non-empty map keys of at most `MaxKeySize` bytes, no
    key twice (a Go map cannot hold one), lists shorter than 2^31, only supported dynamic types -/
def wellKeyed : Value → Bool
  | .map kvs => wellKeyedKvs kvs
  | .list xs => decide (xs.length < 2 ^ 31) && wellKeyedXs xs
  | .unsupported => false
  | _ => true
def wellKeyedKvs : List (Bytes × Value) → Bool
  | [] => true
  | (k, v) :: r => k ≠ [] && decide (k.length ≤ maxKeySize) && !((r.map Prod.fst).contains k) && wellKeyed v && wellKeyedKvs r
def wellKeyedXs : List Value → Bool
  | [] => true
  | v :: r => wellKeyed v && wellKeyedXs r
end

mutual
/-- values the round trip is claimed for: integers in range, float bit patterns below 2^64,
    valid `time.Time` values (`sec()` an int64, `nsec() < 1e9`; any zone, any monotonic reading), lists shorter than 2^31, no map key equal to the reserved
    list-size key, only supported dynamic types -/
def supported : Value → Bool
  | .i32 i => decide (InInt32 i)
  | .i64 i => decide (InInt64 i)
  | .goInt i => decide (InInt64 i)
  | .f64 b => decide (b < 2 ^ 64)
  | .time t => decide t.valid
  | .map kvs => supportedKvs kvs
  | .list xs => decide (xs.length < 2 ^ 31) && supportedXs xs
  | .unsupported => false
  | .nil => true
  | .str _ => true
  | .bool _ => true
def supportedKvs : List (Bytes × Value) → Bool
  | [] => true
  | (k, v) :: r => k ≠ listSizeKey && supported v && supportedKvs r
def supportedXs : List Value → Bool
  | [] => true
  | v :: r => supported v && supportedXs r
end

end StorageModel.Codec
