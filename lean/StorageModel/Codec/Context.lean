import StorageModel.Codec.Bucket
/-
  Context derivation: every way a `PersistContext` / `TypedBucket` used by an entity write is derived
  from another one (boltz/base.go `GetParentContext`, `WithFieldOverrides`; boltz/typed_bucket.go
  `GetPath`, `GetOrCreateBucket`, `GetOrCreatePath`; boltz/store.go `GetEntityBucket`).

  The tree is the entity bucket of the ROOT store (`<entities>/<id>`).  A child store keeps its part
  of the entity in the child bucket `<id>/<entityPath...>` of that very bucket
  (`getOrCreateEntityBucket`), so every bucket an entity write touches is a path below the root:

    * the context a store's `Create` / `Update` builds has `Bucket` = the store's entity bucket and
      `FieldChecker` = the caller's checker (`nil` for `Create`);
    * `ctx.GetParentContext()` has `Bucket` = the parent store's entity bucket (looked up afresh; a
      nil parent store or a missing bucket is a nil dereference), THE SAME `FieldChecker`, the same
      `IsCreate`, and shares the error holder (`result.Bucket.ErrorHolderImpl = ctx.Bucket.ErrorHolderImpl`):
      an error raised through either context stops the writes through both;
    * `ctx.WithFieldOverrides(m)` replaces the context's own checker by the mapped one (nothing
      for a nil checker); contexts derived afterwards inherit it;
    * `bucket.GetOrCreatePath(p...)` returns the bucket itself when it is in error or `p` is
      empty, otherwise walks / creates the child buckets: the result has a FRESH error holder
      (`NewTypedBucket`), or is a detached `ErrBucket(err)` when a creation is refused (the buckets
      created on the way stay).  Fields written into it by the entity strategy are written with the
      deriving context's checker.
-/
namespace StorageModel.Codec
open StorageModel

/-- `TypedBucket.GetPath` -/
def subAt : Bkt → List Bytes → Option Bkt
  | es, [] => some es
  | es, k :: r =>
    match bbucket es k with
    | some c => subAt c r
    | none => none

/-- the entry of an existing key replaced in place (writing into a child bucket does not move it) -/
def replFirst : Bkt → Bytes → Node → Bkt
  | [], _, _ => []
  | (k', n') :: r, k, n => if k = k' then (k', n) :: r else (k', n') :: replFirst r k n

/-- the tree with the bucket at `path` (which exists) replaced -/
def setAt : Bkt → List Bytes → Bkt → Bkt
  | _, [], new => new
  | es, k :: r, new =>
    match bbucket es k with
    | some c => replFirst es k (.sub (setAt c r new))
    | none => es

/-- the node (plain value or child bucket) a non-empty path of keys leads to -/
def nodeAt : Bkt → List Bytes → Option Node
  | _, [] => none
  | es, [k] => look es k
  | es, k :: r =>
    match bbucket es k with
    | some c => nodeAt c r
    | none => none

/-- `GetOrCreateBucket` on a bucket without error: the tree with the child bucket present, or the
    refusal of `CreateBucketIfNotExists` -/
def getOrCreateBucket (es : Bkt) (k : Bytes) : Except BErr Bkt :=
  match look es k with
  | some (.sub _) => .ok es
  | some (.val _) => .error .incompatible
  | none => if k = [] then .error .bucketNameRequired else .ok (ins es k (.sub []))

/-- `GetOrCreatePath` on a bucket without error: the tree afterwards (buckets created before a
    refusal stay) and the refusal, if any -/
def getOrCreatePath : Bkt → List Bytes → Bkt × Option BErr
  | es, [] => (es, none)
  | es, k :: r =>
    match getOrCreateBucket es k with
    | .error e => (es, some e)
    | .ok es1 =>
      match bbucket es1 k with
      | none => (es1, none)
      | some c => (replFirst es1 k (.sub (getOrCreatePath c r).1), (getOrCreatePath c r).2)

/-- a `PersistContext`, as far as field writes are concerned -/
structure PCtx where
  /-- `ctx.Bucket`: the store's entity bucket, as a path below the root store's entity bucket -/
  path : List Bytes
  /-- the entity bucket of `ctx.Store.GetParentStore()` (`none`: the store has no parent) -/
  parentPath : Option (List Bytes)
  /-- `ctx.FieldChecker` -/
  chk : Checker
  isCreate : Bool := false

/-- `PersistContext.GetParentContext`: same checker, same `IsCreate`; the error holder is the shared
    `TB.err` of the family.  A nil parent store / a missing parent bucket is a nil dereference. -/
def PCtx.getParentContext (ctx : PCtx) (root : Bkt) : Res PCtx :=
  match ctx.parentPath with
  | none => .panic
  | some pp =>
    match subAt root pp with
    | none => .panic
    | some _ => .ok { path := pp, parentPath := none, chk := ctx.chk, isCreate := ctx.isCreate }

/-- `PersistContext.WithFieldOverrides` (an empty map included: the checker is still wrapped) -/
def PCtx.withOverrides (ctx : PCtx) (m : List (Bytes × Bytes)) : PCtx :=
  { ctx with chk := withFieldOverrides ctx.chk m }

/-- one field operation through a context; `tb.es` is the root tree, `tb.err` the error holder the
    context family shares -/
def ctxApply (tb : TB) (ctx : PCtx) (name : Bytes) (op : FieldOp) : TB :=
  match subAt tb.es ctx.path with
  | none => tb
  | some b =>
    { es := setAt tb.es ctx.path (applyOp { es := b, err := tb.err } name op ctx.chk).es,
      err := (applyOp { es := b, err := tb.err } name op ctx.chk).err }

/-- the field operations of an entity strategy through one context, in order -/
def ctxPersist (tb : TB) (ctx : PCtx) : List (Bytes × FieldOp) → TB
  | [] => tb
  | (name, op) :: r => ctxPersist (ctxApply tb ctx name op) ctx r

/-- `sub := ctx.Bucket.GetOrCreatePath(np...)` (np non-empty) followed by field operations on `sub`
    under the context's checker.  Returns the tree and the error `sub` ends with (its own holder; the
    context family's holder is untouched).  A context already in error hands out its own bucket:
    nothing is created, every setter is a no-op. -/
def nestedPersist (tb : TB) (ctx : PCtx) (np : List Bytes) (ops : List (Bytes × FieldOp)) : TB × Option BErr :=
  if tb.err.isSome then (tb, tb.err)
  else
    match subAt tb.es ctx.path with
    | none => (tb, none)
    | some b =>
      let created := (getOrCreatePath b np).1
      match (getOrCreatePath b np).2 with
      | some e => ({ tb with es := setAt tb.es ctx.path created }, some e)
      | none =>
        match subAt created np with
        | none => ({ tb with es := setAt tb.es ctx.path created }, none)
        | some sub =>
          let r := persist { es := sub, err := none } ops ctx.chk
          ({ tb with es := setAt tb.es ctx.path (setAt created np r.es) }, r.err)

/-- one block of an entity strategy: derive a context / bucket, write fields through it -/
structure Group where
  /-- through `ctx.GetParentContext()` instead of `ctx` itself -/
  parent : Bool
  /-- `WithFieldOverrides(m)` on the context first, once per table, in order (empty: not called; each
      call STACKS another `MappedFieldChecker`, so a later table renames before an earlier one).  On
      `ctx` itself the change stays for the rest of the entity write; a parent context is derived
      afresh for every block. -/
  ovr : List (List (Bytes × Bytes))
  /-- `GetOrCreatePath(np...)` below the context's bucket (empty: the context's bucket itself) -/
  np : List Bytes
  ops : List (Bytes × FieldOp)

structure RunState where
  tb : TB
  ctx : PCtx
  /-- the error each nested bucket ended with, in block order -/
  nested : List (Option BErr) := []
  panicked : Bool := false

def applyOvr (ctx : PCtx) : List (List (Bytes × Bytes)) → PCtx
  | [] => ctx
  | m :: r => applyOvr (ctx.withOverrides m) r

/-- the context a block writes through (`none`: `GetParentContext` dereferences nil) -/
def groupCtx (st : RunState) (g : Group) : Option PCtx :=
  if g.parent then
    match st.ctx.getParentContext st.tb.es with
    | .panic => none
    | .ok q => some (applyOvr q g.ovr)
  else some (applyOvr st.ctx g.ovr)

def runGroup (st : RunState) (g : Group) : RunState :=
  if st.panicked then st
  else
    match groupCtx st g with
    | none => { st with panicked := true }
    | some c =>
      let own := if g.parent then st.ctx else c
      if g.np = [] then { st with tb := ctxPersist st.tb c g.ops, ctx := own }
      else
        { st with tb := (nestedPersist st.tb c g.np g.ops).1, ctx := own,
                  nested := st.nested ++ [(nestedPersist st.tb c g.np g.ops).2] }

/-- the blocks of `PersistEntity`, in order -/
def runGroups (st : RunState) : List Group → RunState
  | [] => st
  | g :: r => runGroups (runGroup st g) r

end StorageModel.Codec
