import StorageModel.Codec.Lists
/- helper lemmas: field operations, frames, checkers (no property theorems here) -/
namespace StorageModel.Codec
open StorageModel

theorem apply_es_of_ok {tb : TB} {r : Except BErr Bkt} {es' : Bkt} (h : r = .ok es') : (tb.apply r).es = es' := by
  subst h; rfl

/-- a successful `Put` through the typed bucket leaves exactly `ins` -/
theorem put_es {tb : TB} {k v : Bytes} (hok : (tb.apply (bput tb.es k v)).err = none) :
    (tb.apply (bput tb.es k v)).es = ins tb.es k (.val v) := by
  obtain ⟨es', h1, h2, _⟩ := apply_err_none hok
  rw [h2, bput_ok h1]

theorem typeString_ne_nil : typeString ≠ typeNil := by decide
theorem typeTime_ne_nil : typeTime ≠ typeNil := by decide

theorem setTyped_some {tb : TB} {t : UInt8} {name v : Bytes} (ht : t ≠ typeNil) :
    setTyped tb t name (some v) = tb.apply (bput tb.es name (t :: v)) := by
  simp [setTyped, ht, prependFieldType]

theorem setNil_eq {tb : TB} {name : Bytes} (h : tb.err = none) :
    setNil tb name = tb.apply (bput tb.es name [typeNil]) := by
  simp [setNil, h, setTyped]

/-! ### shapes of the bucket-valued writers -/

theorem putMapRaw_shape {es es' : Bkt} {name : Bytes} {kvs : List (Bytes × Value)} {a : Bool}
    (h : putMapRaw es name kvs a = .ok es') : ∃ child, putEntries [] kvs a = .ok child ∧ es' = ins es name (.sub child) := by
  unfold putMapRaw at h
  split at h
  · cases h
  · next es1 he =>
    split at h
    · cases h
    · next child hc => injection h with h; exact ⟨child, hc, by rw [← h, emptyBucket_ok he, ins_ins]⟩

theorem putListRaw_shape {es es' : Bkt} {name : Bytes} {xs : List Value}
    (h : putListRaw es name xs = .ok es') :
    ∃ child child', putElems [] xs 0 = .ok child ∧
      bput child listSizeKey (int32ToBytes (xs.length : Int)) = .ok child' ∧ es' = ins es name (.sub child') := by
  unfold putListRaw at h
  split at h
  · cases h
  · next es1 he =>
    split at h
    · cases h
    · next child hc =>
      split at h
      · cases h
      · next child' hb => injection h with h; exact ⟨child, child', hc, hb, by rw [← h, emptyBucket_ok he, ins_ins]⟩

theorem setStringListRaw_shape {es es' : Bkt} {name : Bytes} {xs : List Bytes}
    (h : setStringListRaw es name xs = .ok es') :
    ∃ child, setListEntries [] xs = .ok child ∧ es' = ins es name (.sub child) := by
  unfold setStringListRaw at h
  split at h
  · cases h
  · next es1 he =>
    split at h
    · cases h
    · next child hc => injection h with h; exact ⟨child, hc, by rw [← h, emptyBucket_ok he, ins_ins]⟩

/-- the map / list cases of `setMarshaled` are the bodies of `PutMap` / `PutList` -/
theorem setMarshaled_map (es : Bkt) (name : Bytes) (kvs : List (Bytes × Value)) :
    setMarshaled es name (.map kvs) true = putMapRaw es name kvs true := by
  simp [setMarshaled, putMapRaw]

theorem setMarshaled_list (es : Bkt) (name : Bytes) (xs : List Value) :
    setMarshaled es name (.list xs) true = putListRaw es name xs := by
  simp [setMarshaled, putListRaw]

/-! ### frames: a write changes nothing but its own key -/

/-- every raw writer either fails or yields `ins es name n` -/
def InsShape (es : Bkt) (name : Bytes) (r : Except BErr Bkt) : Prop :=
  ∀ es', r = .ok es' → ∃ n, es' = ins es name n

theorem insShape_bput (es : Bkt) (name v : Bytes) : InsShape es name (bput es name v) :=
  fun _ h => ⟨_, bput_ok h⟩

theorem apply_frame {tb : TB} {name : Bytes} {r : Except BErr Bkt} (hs : InsShape tb.es name r)
    (j : Bytes) (hj : j ≠ name) : look (tb.apply r).es j = look tb.es j := by
  cases r with
  | error e => rfl
  | ok es' =>
    obtain ⟨n, hn⟩ := hs es' rfl
    show look es' j = _
    rw [hn, look_ins_ne _ _ _ _ hj]

theorem setTyped_frame (tb : TB) (t : UInt8) (name : Bytes) (v : Option Bytes) (j : Bytes) (hj : j ≠ name) :
    look (setTyped tb t name v).es j = look tb.es j := by
  unfold setTyped
  split
  · exact apply_frame (insShape_bput _ _ _) j hj
  · split <;> exact apply_frame (insShape_bput _ _ _) j hj

theorem setNil_frame (tb : TB) (name : Bytes) (j : Bytes) (hj : j ≠ name) :
    look (setNil tb name).es j = look tb.es j := by
  unfold setNil
  split
  · exact setTyped_frame _ _ _ _ j hj
  · rfl

/-- operations that consult the field checker (`SetNil` has no checker argument) -/
def FieldOp.checked : FieldOp → Bool
  | .setNil => false
  | _ => true

theorem applyOp_frame (tb : TB) (name : Bytes) (op : FieldOp) (chk : Checker) (j : Bytes) (hj : j ≠ name) :
    look (applyOp tb name op chk).es j = look tb.es j := by
  cases op with
  | str s => simp only [applyOp, setString]; split; exact setTyped_frame _ _ _ _ j hj; rfl
  | getAndSetStr s => simp only [applyOp, setString]; split; exact setTyped_frame _ _ _ _ j hj; rfl
  | strP s =>
    simp only [applyOp, setStringP]; split
    · cases s with
      | none => exact setNil_frame _ _ j hj
      | some v => exact setTyped_frame _ _ _ _ j hj
    · rfl
  | requiredStr s =>
    simp only [applyOp, setRequiredString]; split
    · split
      · rfl
      · exact setTyped_frame _ _ _ _ j hj
    · rfl
  | i32 i => simp only [applyOp, setInt32]; split; exact apply_frame (insShape_bput _ _ _) j hj; rfl
  | i64 i => simp only [applyOp, setInt64]; split; exact apply_frame (insShape_bput _ _ _) j hj; rfl
  | f64 b => simp only [applyOp, setFloat64]; split; exact apply_frame (insShape_bput _ _ _) j hj; rfl
  | bool b => simp only [applyOp, setBool]; split; exact apply_frame (insShape_bput _ _ _) j hj; rfl
  | time p => simp only [applyOp, setTime, timePayload_eq]; split; exact setTyped_frame _ _ _ _ j hj; rfl
  | timeP p =>
    simp only [applyOp, setTimeP, timePayload_eq]; split
    · cases p with
      | none => exact setNil_frame _ _ j hj
      | some v => exact setTyped_frame _ _ _ _ j hj
    · rfl
  | strList xs =>
    simp only [applyOp, setStringList]; split
    · exact apply_frame (fun es' h => by obtain ⟨c, _, hc⟩ := setStringListRaw_shape h; exact ⟨_, hc⟩) j hj
    · rfl
  | getAndSetStrList xs =>
    simp only [applyOp, setStringList]; split
    · exact apply_frame (fun es' h => by obtain ⟨c, _, hc⟩ := setStringListRaw_shape h; exact ⟨_, hc⟩) j hj
    · rfl
  | map kvs a =>
    simp only [applyOp, putMap]; split
    · exact apply_frame (fun es' h => by obtain ⟨c, _, hc⟩ := putMapRaw_shape h; exact ⟨_, hc⟩) j hj
    · rfl
  | list xs =>
    simp only [applyOp, putList]; split
    · exact apply_frame (fun es' h => by obtain ⟨c, c', _, _, hc⟩ := putListRaw_shape h; exact ⟨_, hc⟩) j hj
    · rfl
  | setNil => exact setNil_frame _ _ j hj

theorem proceed_false {tb : TB} {name : Bytes} {f : Bytes → Bool} (h : f name = false) :
    proceedWithSet tb name (some f) = false := by
  simp [proceedWithSet, h]

theorem applyOp_unselected (tb : TB) (name : Bytes) (op : FieldOp) (f : Bytes → Bool)
    (hf : f name = false) (hc : op.checked = true) : applyOp tb name op (some f) = tb := by
  have hp := proceed_false (tb := tb) hf
  cases op <;> first
    | (simp [FieldOp.checked] at hc; done)
    | simp [applyOp, setString, setStringP, setRequiredString, setInt32, setInt64, setFloat64, setBool, setTime,
        setTimeP, setStringList, putMap, putList, hp]

theorem persist_frame (ops : List (Bytes × FieldOp)) (tb : TB) (chk : Checker) (j : Bytes)
    (h : ∀ p ∈ ops, p.1 ≠ j) : look (persist tb ops chk).es j = look tb.es j := by
  induction ops generalizing tb with
  | nil => rfl
  | cons p r ih =>
    obtain ⟨name, op⟩ := p
    simp only [persist]
    rw [ih _ (fun q hq => h q (List.mem_cons_of_mem _ hq))]
    exact applyOp_frame tb name op chk j (Ne.symm (h (name, op) (List.mem_cons_self ..)))

theorem persist_unselected (ops : List (Bytes × FieldOp)) (tb : TB) (f : Bytes → Bool) (j : Bytes)
    (hf : f j = false) (hc : ∀ p ∈ ops, p.1 = j → p.2.checked = true) :
    look (persist tb ops (some f)).es j = look tb.es j := by
  induction ops generalizing tb with
  | nil => rfl
  | cons p r ih =>
    obtain ⟨name, op⟩ := p
    simp only [persist]
    rw [ih _ (fun q hq => hc q (List.mem_cons_of_mem _ hq))]
    by_cases hn : name = j
    · subst hn
      rw [applyOp_unselected tb name op f hf (hc (name, op) (List.mem_cons_self ..) rfl)]
    · exact applyOp_frame tb name op (some f) j (Ne.symm hn)

theorem persist_append (ops₁ ops₂ : List (Bytes × FieldOp)) (tb : TB) (chk : Checker) :
    persist tb (ops₁ ++ ops₂) chk = persist (persist tb ops₁ chk) ops₂ chk := by
  induction ops₁ generalizing tb with
  | nil => rfl
  | cons p r ih => obtain ⟨name, op⟩ := p; simp only [List.cons_append, persist, ih]

end StorageModel.Codec
