import StorageModel.Codec.Lemmas
/- helper lemmas for nested maps / lists (no property theorems here) -/
namespace StorageModel.Codec
open StorageModel

def okify (l : List (Bytes × Value)) : List (Bytes × Res Value) := l.map fun e => (e.1, .ok e.2)

theorem map_ins {α β : Type} (f : α → β) (l : List (Bytes × α)) (k : Bytes) (a : α) :
    (ins l k a).map (fun e => (e.1, f e.2)) = ins (l.map fun e => (e.1, f e.2)) k (f a) := by
  induction l with
  | nil => simp [ins]
  | cons e r ih =>
    obtain ⟨k', a'⟩ := e
    by_cases h1 : k < k'
    · simp [ins, h1]
    · by_cases h2 : k = k'
      · subst h2; simp [ins, List.lt_irrefl]
      · simp only [ins, h1, h2, if_false, List.map_cons, ih]

theorem look_map {α β : Type} (f : α → β) (l : List (Bytes × α)) (k : Bytes) :
    look (l.map fun e => (e.1, f e.2)) k = (look l k).map f := by
  induction l with
  | nil => rfl
  | cons e r ih =>
    obtain ⟨k', a'⟩ := e
    simp only [List.map_cons, look]
    split
    · rfl
    · exact ih

theorem readEs_eq_map (es : Bkt) : readEs es = es.map fun e => (e.1, readNode e.2) := by
  induction es with
  | nil => simp [readEs]
  | cons e r ih => obtain ⟨k, n⟩ := e; simp [readEs, ih]

theorem readEs_ins (es : Bkt) (k : Bytes) (n : Node) : readEs (ins es k n) = ins (readEs es) k (readNode n) := by
  rw [readEs_eq_map, readEs_eq_map, map_ins]

theorem look_readEs (es : Bkt) (k : Bytes) : look (readEs es) k = (look es k).map readNode := by
  rw [readEs_eq_map, look_map]

theorem okify_ins (l : List (Bytes × Value)) (k : Bytes) (v : Value) : okify (ins l k v) = ins (okify l) k (.ok v) := by
  unfold okify; exact map_ins (fun v => Res.ok v) l k v

theorem seqKvs_okify (l : List (Bytes × Value)) : seqKvs (okify l) = .ok l := by
  induction l with
  | nil => rfl
  | cons e r ih =>
    obtain ⟨k, v⟩ := e
    have : okify ((k, v) :: r) = (k, Res.ok v) :: okify r := rfl
    rw [this, seqKvs, ih]

theorem seqAll_ok (l : List Nat) (f : Nat → Res Value) (g : Nat → Value) (h : ∀ i ∈ l, f i = .ok (g i)) :
    seqAll (l.map f) = .ok (l.map g) := by
  induction l with
  | nil => rfl
  | cons a r ih =>
    have ha := h a (List.mem_cons_self ..)
    have hr := ih (fun i hi => h i (List.mem_cons_of_mem _ hi))
    simp only [List.map_cons, ha, seqAll, hr]

theorem map_range_getD (l : List Value) (d : Value) : (List.range l.length).map (fun i => l.getD i d) = l := by
  apply List.ext_getElem
  · simp
  · intro i h1 h2
    simp [List.getD, List.getElem?_eq_getElem h2]

/-! ### the list-size entry -/

theorem typeNil_ne_int32 : typeNil ≠ typeInt32 := by decide

theorem getInt32_congr {es es' : Bkt} {k : Bytes} (h : look es k = look es' k) : getInt32 es k = getInt32 es' k := by
  simp [getInt32, getTyped, bget, h]

theorem getInt32_absent {es : Bkt} {k : Bytes} (h : look es k = none) : getInt32 es k = none := by
  simp [getInt32, getTyped, bget, h, getTypeAndValue, fieldToInt32, typeNil_ne_int32]

theorem getInt32_sub {es : Bkt} {k : Bytes} {c : Bkt} (h : look es k = some (.sub c)) : getInt32 es k = none := by
  simp [getInt32, getTyped, bget, h, getTypeAndValue, fieldToInt32, typeNil_ne_int32]

theorem encInt32_ne_nil (i : Int) : encInt32 i ≠ [] := by
  simp [encInt32, le]

theorem getInt32_stored (es : Bkt) (k : Bytes) (i : Int) (h : InInt32 i) :
    getInt32 (ins es k (.val (int32ToBytes i))) k = some i := by
  unfold getInt32
  rw [show int32ToBytes i = typeInt32 :: encInt32 i from rfl, getTyped_ins_self]
  simp [fieldToInt32, encInt32_ne_nil, bytesToInt32_enc i h]

theorem listSizeKey_length : listSizeKey.length = 50 := by decide

theorem idxKey_length (i : Nat) : (idxKey i).length = 5 := by
  simp [idxKey, int32ToBytes, encInt32, le_length]

theorem idxKey_ne_listSizeKey (i : Nat) : idxKey i ≠ listSizeKey := by
  intro h
  have := congrArg List.length h
  rw [idxKey_length, listSizeKey_length] at this
  omega

theorem toUnsigned_nat (bits n : Nat) (h : n < 2 ^ bits) : toUnsigned bits (n : Int) = n := by
  unfold toUnsigned
  have : ((n : Int) % ((2 ^ bits : Nat) : Int)) = (n : Int) := Int.emod_eq_of_lt (by omega) (by omega)
  rw [this]; simp

theorem idxKey_inj (i j : Nat) (hi : i < 2 ^ 31) (hj : j < 2 ^ 31) (h : idxKey i = idxKey j) : i = j := by
  unfold idxKey int32ToBytes encInt32 at h
  injection h with _ h
  have hi' : toUnsigned 32 (i : Int) = i := toUnsigned_nat 32 i (by omega)
  have hj' : toUnsigned 32 (j : Int) = j := toUnsigned_nat 32 j (by omega)
  rw [hi', hj'] at h
  have := congrArg ofLE h
  rw [ofLE_le, ofLE_le] at this
  have e : 256 ^ 4 = 4294967296 := by decide
  rw [e] at this
  omega

/-! ### scalars read back -/

theorem typeTags_distinct : typeBool ≠ typeString ∧ typeInt32 ≠ typeString ∧ typeInt64 ≠ typeString ∧
    typeFloat64 ≠ typeString ∧ typeTime ≠ typeString ∧ typeNil ≠ typeString := by decide

theorem scalarOf_nil : scalarOf (some [typeNil]) = .nil := by rfl

theorem scalarOf_str (s : Bytes) : scalarOf (some (typeString :: s)) = .str s := by
  unfold scalarOf
  rw [getTypeAndValue_cons]
  cases s <;> simp [bytesToString, obytes]

theorem scalarOf_bool (b : Bool) : scalarOf (some [typeBool, if b then 1 else 0]) = .bool b := by
  cases b <;> rfl

theorem scalarOf_i32 (i : Int) (h : InInt32 i) : scalarOf (some (int32ToBytes i)) = .i32 i := by
  unfold scalarOf
  rw [show int32ToBytes i = typeInt32 :: encInt32 i from rfl, getTypeAndValue_cons]
  have e1 : typeInt32 ≠ typeString := by decide
  simp [e1, encInt32_ne_nil, bytesToInt32_enc i h]

theorem encInt64_ne_nil (i : Int) : encInt64 i ≠ [] := by
  simp [encInt64, le]

theorem scalarOf_i64 (i : Int) (h : InInt64 i) : scalarOf (some (typeInt64 :: encInt64 i)) = .i64 i := by
  unfold scalarOf
  rw [getTypeAndValue_cons]
  have e1 : typeInt64 ≠ typeString := by decide
  have e2 : typeInt64 ≠ typeInt32 := by decide
  simp [e1, e2, encInt64_ne_nil, bytesToInt64_enc i h]

theorem le8_ne_nil (n : Nat) : le 8 n ≠ [] := by simp [le]

theorem scalarOf_f64 (bits : Nat) (h : bits < 2 ^ 64) : scalarOf (some (typeFloat64 :: le 8 bits)) = .f64 bits := by
  unfold scalarOf
  rw [getTypeAndValue_cons]
  have e1 : typeFloat64 ≠ typeString := by decide
  have e2 : typeFloat64 ≠ typeInt32 := by decide
  have e3 : typeFloat64 ≠ typeInt64 := by decide
  simp [e1, e2, e3, le8_ne_nil, bytesToFloat64_le bits h]

theorem normXs_length (xs : List Value) : (normXs xs).length = xs.length := by
  induction xs with
  | nil => rfl
  | cons v r ih => simp [normXs, ih]

theorem normXs_getD_succ (v : Value) (r : List Value) (i : Nat) :
    (normXs (v :: r)).getD (i + 1) .nil = (normXs r).getD i .nil := by
  simp [normXs, List.getD]

/-! ### the nested round trip -/

mutual
theorem setMarshaled_spec (v : Value) (es : Bkt) (name : Bytes) (a : Bool) (es' : Bkt)
    (h : setMarshaled es name v a = .ok es') (hs : supported v = true) :
    ∃ n, es' = ins es name n ∧ readNode n = .ok (normalize v) := by
  match v with
  | .nil =>
    simp only [setMarshaled] at h
    exact ⟨_, bput_ok h, by simp [readNode, scalarOf_nil, normalize]⟩
  | .str s =>
    simp only [setMarshaled] at h
    exact ⟨_, bput_ok h, by simp [readNode, scalarOf_str, normalize]⟩
  | .i32 i =>
    simp only [setMarshaled] at h
    have hr : InInt32 i := by simpa [supported] using hs
    exact ⟨_, bput_ok h, by simp [readNode, scalarOf_i32 i hr, normalize]⟩
  | .i64 i =>
    simp only [setMarshaled] at h
    have hr : InInt64 i := by simpa [supported] using hs
    exact ⟨_, bput_ok h, by simp [readNode, scalarOf_i64 i hr, normalize]⟩
  | .goInt i =>
    simp only [setMarshaled] at h
    have hr : InInt64 i := by simpa [supported] using hs
    exact ⟨_, bput_ok h, by simp [readNode, scalarOf_i64 i hr, normalize]⟩
  | .f64 bits =>
    simp only [setMarshaled] at h
    have hr : bits < 2 ^ 64 := by simpa [supported] using hs
    exact ⟨_, bput_ok h, by simp [readNode, scalarOf_f64 bits hr, normalize]⟩
  | .bool b =>
    simp only [setMarshaled] at h
    exact ⟨_, bput_ok h, by simp [readNode, scalarOf_bool, normalize]⟩
  | .time t =>
    simp only [setMarshaled, timePayload_eq] at h
    have hr : t.valid := by simpa [supported] using hs
    exact ⟨_, bput_ok h, by simp [readNode, scalarOf_time t hr, normalize]⟩
  | .unsupported => simp [supported] at hs
  | .map kvs =>
    simp only [setMarshaled] at h
    split at h
    · split at h
      · cases h
      · next es1 he =>
        split at h
        · cases h
        · next child hc =>
          injection h with h
          have hk : supportedKvs kvs = true := by simpa [supported] using hs
          have hspec := putEntries_spec kvs [] [] true child hc hk rfl rfl
          refine ⟨.sub child, ?_, ?_⟩
          · rw [← h, emptyBucket_ok he, ins_ins]
          · have hls : listSize child = none := getInt32_absent hspec.2
            simp only [readNode, hls, hspec.1, mapFrom, seqKvs_okify, Res.map, normalize]
    · cases h
  | .list xs =>
    simp only [setMarshaled] at h
    split at h
    · split at h
      · cases h
      · next es1 he =>
        split at h
        · cases h
        · next child hc =>
          split at h
          · cases h
          · next child' hb =>
            injection h with h
            have hlen : xs.length < 2 ^ 31 := by
              have : decide (xs.length < 2 ^ 31) = true ∧ supportedXs xs = true := by simpa [supported] using hs
              simpa using this.1
            have hk : supportedXs xs = true := by
              have : decide (xs.length < 2 ^ 31) = true ∧ supportedXs xs = true := by simpa [supported] using hs
              exact this.2
            have hspec := putElems_spec xs [] 0 child hc hk (by omega)
            have hc' : child' = ins child listSizeKey (.val (int32ToBytes (xs.length : Int))) := bput_ok hb
            refine ⟨.sub child', ?_, ?_⟩
            · rw [← h, emptyBucket_ok he, ins_ins]
            · have hin : InInt32 (xs.length : Int) := by
                unfold InInt32; constructor <;> omega
              have hls : listSize child' = some (xs.length : Int) := by
                rw [hc']; exact getInt32_stored child listSizeKey _ hin
              have helem : ∀ i ∈ List.range xs.length,
                  elemAt (readEs child') i = .ok ((normXs xs).getD i .nil) := by
                intro i hi
                have hi' : i < xs.length := List.mem_range.mp hi
                obtain ⟨n, hn, hrn⟩ := hspec.2 i hi'
                unfold elemAt
                rw [look_readEs, hc', look_ins_ne _ _ _ _ (idxKey_ne_listSizeKey i)]
                rw [Nat.zero_add] at hn
                simp [hn, hrn]
              have hnot : ¬ ((xs.length : Int) < 0) := by omega
              simp only [readNode, hls, listFrom, hnot, if_false, Int.toNat_natCast]
              rw [seqAll_ok _ _ _ helem]
              have := map_range_getD (normXs xs) .nil
              rw [normXs_length] at this
              rw [this]
              simp [Res.map, normalize]
    · cases h

theorem putEntries_spec (kvs : List (Bytes × Value)) (child : Bkt) (acc : List (Bytes × Value)) (a : Bool)
    (child' : Bkt) (h : putEntries child kvs a = .ok child') (hs : supportedKvs kvs = true)
    (hacc : readEs child = okify acc) (hl : look child listSizeKey = none) :
    readEs child' = okify (normKvs kvs acc) ∧ look child' listSizeKey = none := by
  match kvs with
  | [] =>
    simp only [putEntries] at h
    injection h with h
    subst h
    exact ⟨by simpa [normKvs] using hacc, hl⟩
  | (k, v) :: r =>
    simp only [putEntries] at h
    split at h
    · cases h
    · next c1 hc1 =>
      have hsup : k ≠ listSizeKey ∧ supported v = true ∧ supportedKvs r = true := by
        simpa [supportedKvs, and_assoc] using hs
      obtain ⟨n, hn, hrn⟩ := setMarshaled_spec v child k a c1 hc1 hsup.2.1
      have hacc1 : readEs c1 = okify (ins acc k (normalize v)) := by
        rw [hn, readEs_ins, hrn, hacc, okify_ins]
      have hl1 : look c1 listSizeKey = none := by
        rw [hn, look_ins_ne _ _ _ _ (Ne.symm hsup.1)]; exact hl
      have := putEntries_spec r c1 (ins acc k (normalize v)) a child' h hsup.2.2 hacc1 hl1
      simpa [normKvs] using this

theorem putElems_spec (xs : List Value) (child : Bkt) (idx : Nat) (child' : Bkt)
    (h : putElems child xs idx = .ok child') (hs : supportedXs xs = true) (hb : idx + xs.length ≤ 2 ^ 31) :
    (∀ j, (∀ i, i < xs.length → j ≠ idxKey (idx + i)) → look child' j = look child j) ∧
    (∀ i, i < xs.length → ∃ n, look child' (idxKey (idx + i)) = some n ∧
        readNode n = .ok ((normXs xs).getD i .nil)) := by
  match xs with
  | [] =>
    simp only [putElems] at h
    injection h with h
    subst h
    exact ⟨fun _ _ => rfl, fun i hi => absurd hi (by simp)⟩
  | v :: r =>
    simp only [putElems] at h
    split at h
    · cases h
    · next c1 hc1 =>
      have hsup : supported v = true ∧ supportedXs r = true := by simpa [supportedXs] using hs
      obtain ⟨n, hn, hrn⟩ := setMarshaled_spec v child (idxKey idx) true c1 hc1 hsup.1
      have hlen : (v :: r).length = r.length + 1 := rfl
      have ih := putElems_spec r c1 (idx + 1) child' h hsup.2 (by rw [hlen] at hb; omega)
      refine ⟨?_, ?_⟩
      · intro j hj
        have h1 : look child' j = look c1 j := by
          apply ih.1
          intro i hi
          have := hj (i + 1) (by rw [hlen]; omega)
          rwa [show idx + (i + 1) = idx + 1 + i by omega] at this
        have h0 : j ≠ idxKey idx := by simpa using hj 0 (by rw [hlen]; omega)
        rw [h1, hn, look_ins_ne _ _ _ _ h0]
      · intro i hi
        cases i with
        | zero =>
          refine ⟨n, ?_, ?_⟩
          · have h1 : look child' (idxKey idx) = look c1 (idxKey idx) := by
              apply ih.1
              intro i hi' heq
              have := idxKey_inj idx (idx + 1 + i) (by rw [hlen] at hb; omega) (by rw [hlen] at hb; omega) heq
              omega
            rw [Nat.add_zero, h1, hn, look_ins_self]
          · simpa [normXs, List.getD] using hrn
        | succ i =>
          obtain ⟨m, hm, hrm⟩ := ih.2 i (by rw [hlen] at hi; omega)
          refine ⟨m, ?_, ?_⟩
          · rwa [show idx + (i + 1) = idx + 1 + i by omega]
          · rw [normXs_getD_succ]; exact hrm
end

end StorageModel.Codec
