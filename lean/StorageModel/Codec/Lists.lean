import StorageModel.Codec.Nested
/- helper lemmas: string lists, acceptance of well-keyed values, `normalize` (no property theorems) -/
namespace StorageModel.Codec
open StorageModel

/-! ### string lists -/

/-- a list key without its type byte, as `ReadStringList` computes it -/
def untag (k : Bytes) : Bytes := obytes (getTypeAndValue (some k)).2

theorem untag_cons (t : UInt8) (x : Bytes) : untag (t :: x) = x := by
  unfold untag
  rw [getTypeAndValue_cons]
  cases x <;> simp [obytes]

theorem readStringList_eq (c : Bkt) : readStringList c = (keys c).map untag := by
  simp [readStringList, keys, untag, List.map_map, Function.comp_def]

def AllTagged (l : List Bytes) : Prop := ∀ k ∈ l, ∃ x, k = typeString :: x

theorem pairwise_untag (l : List Bytes) (h : l.Pairwise (· < ·)) (ht : AllTagged l) :
    (l.map untag).Pairwise (· < ·) := by
  induction l with
  | nil => simp
  | cons k r ih =>
    rw [List.pairwise_cons] at h
    have htr : AllTagged r := fun x hx => ht x (List.mem_cons_of_mem _ hx)
    simp only [List.map_cons, List.pairwise_cons]
    refine ⟨?_, ih h.2 htr⟩
    intro y hy
    obtain ⟨k2, hk2, rfl⟩ := List.mem_map.mp hy
    obtain ⟨x1, rfl⟩ := ht k (List.mem_cons_self ..)
    obtain ⟨x2, rfl⟩ := htr k2 hk2
    have hlt := h.1 _ hk2
    rw [untag_cons, untag_cons]
    rcases List.cons_lt_cons_iff.mp hlt with h1 | ⟨_, h2⟩
    · exact absurd h1 (by decide)
    · exact h2

theorem mem_untag (l : List Bytes) (ht : AllTagged l) (y : Bytes) :
    y ∈ l.map untag ↔ (typeString :: y) ∈ l := by
  constructor
  · intro h
    obtain ⟨k, hk, rfl⟩ := List.mem_map.mp h
    obtain ⟨x, rfl⟩ := ht k hk
    rwa [untag_cons]
  · intro h
    exact List.mem_map.mpr ⟨_, h, untag_cons _ _⟩

theorem setListEntries_spec (xs : List Bytes) (child child' : Bkt) (h : setListEntries child xs = .ok child')
    (hs : Sorted child) (ht : AllTagged (keys child)) :
    Sorted child' ∧ AllTagged (keys child') ∧
      ∀ y, (typeString :: y) ∈ keys child' ↔ ((typeString :: y) ∈ keys child ∨ y ∈ xs) := by
  induction xs generalizing child with
  | nil =>
    simp only [setListEntries] at h
    injection h with h; subst h
    exact ⟨hs, ht, fun y => by simp⟩
  | cons x r ih =>
    simp only [setListEntries] at h
    split at h
    · cases h
    · next c1 hc1 =>
      have e1 : c1 = ins child (prependFieldType typeString x) (.val []) := bput_ok hc1
      have hs1 : Sorted c1 := by rw [e1]; exact sorted_ins _ _ _ hs
      have ht1 : AllTagged (keys c1) := by
        intro k hk
        rw [e1] at hk
        rcases (mem_keys_ins _ _ _ _).mp hk with rfl | hk
        · exact ⟨x, rfl⟩
        · exact ht k hk
      obtain ⟨a, b, c⟩ := ih c1 h hs1 ht1
      refine ⟨a, b, ?_⟩
      intro y
      rw [c y, e1, mem_keys_ins]
      simp only [prependFieldType, List.cons.injEq, true_and, List.mem_cons]
      constructor
      · rintro ((h | h) | h)
        · exact Or.inr (Or.inl h)
        · exact Or.inl h
        · exact Or.inr (Or.inr h)
      · rintro (h | h | h)
        · exact Or.inl (Or.inr h)
        · exact Or.inl (Or.inl h)
        · exact Or.inr h

theorem setListEntries_ok (xs : List Bytes) (child : Bkt) (hlen : ∀ x ∈ xs, x.length < maxKeySize)
    (hv : ∀ k c, look child k ≠ some (.sub c)) :
    ∃ child', setListEntries child xs = .ok child' := by
  induction xs generalizing child with
  | nil => exact ⟨child, rfl⟩
  | cons x r ih =>
    have hw : Writable child (prependFieldType typeString x) := by
      refine ⟨by simp [prependFieldType], ?_, fun c => hv _ c⟩
      have := hlen x (List.mem_cons_self ..)
      simp [prependFieldType]; omega
    simp only [setListEntries, bput_of_writable [] hw]
    apply ih _ (fun y hy => hlen y (List.mem_cons_of_mem _ hy))
    intro k c
    by_cases hk : k = prependFieldType typeString x
    · subst hk; rw [look_ins_self]; simp
    · rw [look_ins_ne _ _ _ _ hk]; exact hv k c

theorem insertSorted_mem (x y : Bytes) (l : List Bytes) : y ∈ insertSorted x l ↔ y = x ∨ y ∈ l := by
  induction l with
  | nil => simp [insertSorted]
  | cons z r ih =>
    unfold insertSorted
    split
    · simp
    · split
      · next h1 h2 => subst h2; simp
      · simp only [List.mem_cons, ih]
        constructor
        · rintro (h | h | h)
          · exact Or.inr (Or.inl h)
          · exact Or.inl h
          · exact Or.inr (Or.inr h)
        · rintro (h | h | h)
          · exact Or.inr (Or.inl h)
          · exact Or.inl h
          · exact Or.inr (Or.inr h)

theorem insertSorted_sorted (x : Bytes) (l : List Bytes) (h : l.Pairwise (· < ·)) :
    (insertSorted x l).Pairwise (· < ·) := by
  induction l with
  | nil => simp [insertSorted]
  | cons z r ih =>
    rw [List.pairwise_cons] at h
    unfold insertSorted
    split
    · next hlt =>
      rw [List.pairwise_cons]
      refine ⟨?_, List.pairwise_cons.mpr h⟩
      intro y hy
      rcases List.mem_cons.mp hy with rfl | hy
      · exact hlt
      · exact List.lt_trans hlt (h.1 y hy)
    · split
      · exact List.pairwise_cons.mpr h
      · next h1 h2 =>
        have hgt : z < x := by
          rcases Std.lt_trichotomy x z with h | h | h
          · exact absurd h h1
          · exact absurd h h2
          · exact h
        rw [List.pairwise_cons]
        refine ⟨?_, ih h.2⟩
        intro y hy
        rcases (insertSorted_mem x y r).mp hy with rfl | hy
        · exact hgt
        · exact h.1 y hy

theorem sortDedup_sorted (xs : List Bytes) : (sortDedup xs).Pairwise (· < ·) := by
  induction xs with
  | nil => simp [sortDedup]
  | cons x r ih => exact insertSorted_sorted x _ ih

theorem mem_sortDedup (xs : List Bytes) (y : Bytes) : y ∈ sortDedup xs ↔ y ∈ xs := by
  induction xs with
  | nil => simp [sortDedup]
  | cons x r ih =>
    show y ∈ insertSorted x (sortDedup r) ↔ _
    rw [insertSorted_mem, ih]; simp

/-! ### shape and frame of the nested writers (no hypothesis on the value) -/

theorem setMarshaled_shape {v : Value} {es es' : Bkt} {name : Bytes} {a : Bool}
    (h : setMarshaled es name v a = .ok es') : ∃ n, es' = ins es name n := by
  cases v with
  | map kvs =>
    simp only [setMarshaled] at h
    split at h
    · split at h
      · cases h
      · next es1 he =>
        split at h
        · cases h
        · next child hc => injection h with h; exact ⟨_, by rw [← h, emptyBucket_ok he, ins_ins]⟩
    · cases h
  | list xs =>
    simp only [setMarshaled] at h
    split at h
    · split at h
      · cases h
      · next es1 he =>
        split at h
        · cases h
        · split at h
          · cases h
          · injection h with h; exact ⟨_, by rw [← h, emptyBucket_ok he, ins_ins]⟩
    · cases h
  | unsupported => simp [setMarshaled] at h
  | nil => simp only [setMarshaled] at h; exact ⟨_, bput_ok h⟩
  | str s => simp only [setMarshaled] at h; exact ⟨_, bput_ok h⟩
  | i32 i => simp only [setMarshaled] at h; exact ⟨_, bput_ok h⟩
  | i64 i => simp only [setMarshaled] at h; exact ⟨_, bput_ok h⟩
  | goInt i => simp only [setMarshaled] at h; exact ⟨_, bput_ok h⟩
  | f64 b => simp only [setMarshaled] at h; exact ⟨_, bput_ok h⟩
  | bool b => simp only [setMarshaled] at h; exact ⟨_, bput_ok h⟩
  | time t => simp only [setMarshaled, timePayload_eq] at h; exact ⟨_, bput_ok h⟩

theorem putElems_frame (xs : List Value) (child : Bkt) (idx : Nat) (child' : Bkt)
    (h : putElems child xs idx = .ok child') (j : Bytes) (hj : ∀ i, i < xs.length → j ≠ idxKey (idx + i)) :
    look child' j = look child j := by
  induction xs generalizing child idx with
  | nil => simp only [putElems] at h; injection h with h; subst h; rfl
  | cons v r ih =>
    simp only [putElems] at h
    split at h
    · cases h
    · next c1 hc1 =>
      obtain ⟨n, hn⟩ := setMarshaled_shape hc1
      have h1 := ih c1 (idx + 1) h (fun i hi => by
        have := hj (i + 1) (by simp; omega)
        rwa [show idx + (i + 1) = idx + 1 + i by omega] at this)
      have h0 : j ≠ idxKey idx := by simpa using hj 0 (by simp)
      rw [h1, hn, look_ins_ne _ _ _ _ h0]

/-! ### a well-keyed value is accepted on a fresh key -/

theorem idxKey_ne_nil (i : Nat) : idxKey i ≠ [] := by simp [idxKey, int32ToBytes]

theorem bput_fresh {es : Bkt} {k : Bytes} (v : Bytes) (h1 : k ≠ []) (h2 : k.length ≤ maxKeySize) (h3 : look es k = none) :
    bput es k v = .ok (ins es k (.val v)) :=
  bput_of_writable v ⟨h1, h2, fun c => by rw [h3]; simp⟩

theorem emptyBucket_fresh {es : Bkt} {k : Bytes} (h1 : k ≠ []) (h3 : look es k = none) :
    emptyBucket es k = .ok (ins es k (.sub [])) :=
  emptyBucket_of_writable ⟨h1, fun v => by rw [h3]; simp⟩

mutual
theorem setMarshaled_ok (v : Value) (es : Bkt) (name : Bytes) (hw : wellKeyed v = true)
    (h1 : name ≠ []) (h2 : name.length ≤ maxKeySize) (h3 : look es name = none) :
    ∃ es', setMarshaled es name v true = .ok es' := by
  match v with
  | .nil => exact ⟨_, by simp only [setMarshaled]; exact bput_fresh _ h1 h2 h3⟩
  | .str s => exact ⟨_, by simp only [setMarshaled]; exact bput_fresh _ h1 h2 h3⟩
  | .i32 i => exact ⟨_, by simp only [setMarshaled]; exact bput_fresh _ h1 h2 h3⟩
  | .i64 i => exact ⟨_, by simp only [setMarshaled]; exact bput_fresh _ h1 h2 h3⟩
  | .goInt i => exact ⟨_, by simp only [setMarshaled]; exact bput_fresh _ h1 h2 h3⟩
  | .f64 b => exact ⟨_, by simp only [setMarshaled]; exact bput_fresh _ h1 h2 h3⟩
  | .bool b => exact ⟨_, by simp only [setMarshaled]; exact bput_fresh _ h1 h2 h3⟩
  | .time t => exact ⟨_, by simp only [setMarshaled, timePayload_eq]; exact bput_fresh _ h1 h2 h3⟩
  | .unsupported => simp [wellKeyed] at hw
  | .map kvs =>
    have hk : wellKeyedKvs kvs = true := by simpa [wellKeyed] using hw
    obtain ⟨child, hc⟩ := putEntries_ok kvs [] hk (fun k _ => rfl)
    exact ⟨ins (ins es name (.sub [])) name (.sub child), by simp only [setMarshaled, if_true, emptyBucket_fresh h1 h3, hc]⟩
  | .list xs =>
    have hk : decide (xs.length < 2 ^ 31) = true ∧ wellKeyedXs xs = true := by simpa [wellKeyed] using hw
    have hlen : xs.length < 2 ^ 31 := by simpa using hk.1
    obtain ⟨child, hc⟩ := putElems_ok xs [] 0 hk.2 (by omega) (fun i _ => rfl)
    have hfr : look child listSizeKey = none := by
      rw [putElems_frame xs [] 0 child hc listSizeKey (fun i _ => (idxKey_ne_listSizeKey _).symm)]; rfl
    have hb := bput_fresh (es := child) (k := listSizeKey) (int32ToBytes (xs.length : Int)) (by decide)
      (by rw [listSizeKey_length]; decide) hfr
    exact ⟨ins (ins es name (.sub [])) name (.sub (ins child listSizeKey (.val (int32ToBytes (xs.length : Int))))),
      by simp only [setMarshaled, if_true, emptyBucket_fresh h1 h3, hc, hb]⟩

theorem putEntries_ok (kvs : List (Bytes × Value)) (child : Bkt) (hw : wellKeyedKvs kvs = true)
    (hf : ∀ k ∈ kvs.map Prod.fst, look child k = none) :
    ∃ child', putEntries child kvs true = .ok child' := by
  match kvs with
  | [] => exact ⟨child, by simp [putEntries]⟩
  | (k, v) :: r =>
    have hk : (((k ≠ []) ∧ k.length ≤ maxKeySize) ∧ ¬ (k ∈ r.map Prod.fst)) ∧ wellKeyed v = true ∧ wellKeyedKvs r = true := by
      simpa [wellKeyedKvs, and_assoc] using hw
    obtain ⟨⟨⟨k1, k2⟩, k3⟩, k4, k5⟩ := hk
    obtain ⟨c1, hc1⟩ := setMarshaled_ok v child k k4 k1 k2 (hf k (by simp))
    obtain ⟨n, hn⟩ := setMarshaled_shape hc1
    have hf1 : ∀ k' ∈ r.map Prod.fst, look c1 k' = none := by
      intro k' hk'
      have hne : k' ≠ k := fun e => k3 (e ▸ hk')
      rw [hn, look_ins_ne _ _ _ _ hne]
      exact hf k' (by simp only [List.map_cons, List.mem_cons]; exact Or.inr hk')
    obtain ⟨child', hc'⟩ := putEntries_ok r c1 k5 hf1
    exact ⟨child', by simp only [putEntries, hc1, hc']⟩

theorem putElems_ok (xs : List Value) (child : Bkt) (idx : Nat) (hw : wellKeyedXs xs = true)
    (hb : idx + xs.length ≤ 2 ^ 31) (hf : ∀ i, i < xs.length → look child (idxKey (idx + i)) = none) :
    ∃ child', putElems child xs idx = .ok child' := by
  match xs with
  | [] => exact ⟨child, by simp [putElems]⟩
  | v :: r =>
    have hk : wellKeyed v = true ∧ wellKeyedXs r = true := by simpa [wellKeyedXs] using hw
    have hlen : (v :: r).length = r.length + 1 := rfl
    obtain ⟨c1, hc1⟩ := setMarshaled_ok v child (idxKey idx) hk.1 (idxKey_ne_nil idx)
      (by rw [idxKey_length]; decide) (by simpa using hf 0 (by rw [hlen]; omega))
    obtain ⟨n, hn⟩ := setMarshaled_shape hc1
    have hf1 : ∀ i, i < r.length → look c1 (idxKey (idx + 1 + i)) = none := by
      intro i hi
      have hne : idxKey (idx + 1 + i) ≠ idxKey idx := by
        intro e
        have := idxKey_inj _ _ (by rw [hlen] at hb; omega) (by rw [hlen] at hb; omega) e
        omega
      rw [hn, look_ins_ne _ _ _ _ hne]
      have := hf (i + 1) (by rw [hlen]; omega)
      rwa [show idx + (i + 1) = idx + 1 + i by omega] at this
    obtain ⟨child', hc'⟩ := putElems_ok r c1 (idx + 1) hk.2 (by rw [hlen] at hb; omega) hf1
    exact ⟨child', by simp only [putElems, hc1, hc']⟩
end

/-! ### `normalize` on maps is sorting by key -/

theorem normKvs_sorted (kvs acc : List (Bytes × Value)) (h : Sorted acc) : Sorted (normKvs kvs acc) := by
  induction kvs generalizing acc with
  | nil => simpa [normKvs] using h
  | cons e r ih => obtain ⟨k, v⟩ := e; simp only [normKvs]; exact ih _ (sorted_ins _ _ _ h)

theorem normKvs_look (kvs acc : List (Bytes × Value)) (hn : (kvs.map Prod.fst).Nodup) (k : Bytes) :
    look (normKvs kvs acc) k = match look kvs k with
      | some v => some (normalize v)
      | none => look acc k := by
  induction kvs generalizing acc with
  | nil => simp [normKvs, look]
  | cons e r ih =>
    obtain ⟨k', v'⟩ := e
    simp only [List.map_cons, List.nodup_cons] at hn
    simp only [normKvs]
    rw [ih _ hn.2]
    by_cases hk : k = k'
    · subst hk
      have : look r k = none := look_none_of_not_mem r k (by simpa [keys] using hn.1)
      simp [this, look, look_ins_self]
    · simp [look, hk, look_ins_ne _ _ _ _ hk]

end StorageModel.Codec
