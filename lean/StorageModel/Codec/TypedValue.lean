import StorageModel.Base.Bytes
/-
  Model of the typed value encoding of boltz/typed_bucket.go: one type-tag byte followed by the
  payload (`PrependFieldType` / `GetTypeAndValue`), and the `BytesTo*` / `FieldTo*` readers.

  * int32 / int64: little-endian two's complement (`binary.LittleEndian.PutUint32(uint32(v))`),
    modelled over `Int` with `le w n` = the `w` little-endian bytes of `n mod 256^w`;
  * float64: the 8 little-endian bytes of `math.Float64bits(v)`; the model carries the bit pattern
    (a `Nat`), `Float64bits` / `Float64frombits` being mutually inverse is assumed (Go stdlib);
  * time: a `time.Time` is modelled by what `UTC`, `MarshalBinary`, `UnmarshalBinary` and `Equal` look at
    (`GoTime`: the instant as `t.sec()` / `t.nsec()`, the location as "UTC or a zone with this offset",
    the presence of a monotonic clock reading); `MarshalBinary` / `UnmarshalBinary` are transcribed from
    Go 1.23 `src/time/time.go` (version byte, 8 + 4 big-endian bytes, zone offset in minutes with -1
    reserved for UTC, an optional seconds byte in version 2, the refusals) and compared with the real
    functions by the `tm` / `tu` cases of the harness;
  * Go `nil` vs empty `[]byte` is `Option Bytes` where the code tests it (`GetTypeAndValue` returns
    nil for a value that holds only the type byte; `BytesToDatetime(nil) = nil`).
-/
namespace StorageModel.Codec
open StorageModel

def typeBool : UInt8 := 1
def typeInt32 : UInt8 := 2
def typeInt64 : UInt8 := 3
def typeFloat64 : UInt8 := 4
def typeString : UInt8 := 5
def typeTime : UInt8 := 6
def typeNil : UInt8 := 7

/-- `ListSizeKeyName = "__list__size__36484231-110c-4767-afe2-01b6e3db107a"` -/
def listSizeKey : Bytes :=
  [95, 95, 108, 105, 115, 116, 95, 95, 115, 105, 122, 101, 95, 95, 51, 54, 52, 56, 52, 50, 51, 49, 45, 49, 49,
   48, 99, 45, 52, 55, 54, 55, 45, 97, 102, 101, 50, 45, 48, 49, 98, 54, 101, 51, 100, 98, 49, 48, 55, 97]

#guard listSizeKey == "__list__size__36484231-110c-4767-afe2-01b6e3db107a".toUTF8.toList

/-- `PrependFieldType` -/
def prependFieldType (t : UInt8) (value : Bytes) : Bytes := t :: value

/-- `GetTypeAndValue`: (type, value) where value is Go-nil (`none`) unless more than the type byte
    is present. -/
def getTypeAndValue : Option Bytes → UInt8 × Option Bytes
  | none => (typeNil, none)
  | some [] => (typeNil, none)
  | some [t] => (t, none)
  | some (t :: v) => (t, some v)

/-- Go `len(buf)` of a possibly-nil slice -/
def olen : Option Bytes → Nat
  | none => 0
  | some b => b.length

def obytes : Option Bytes → Bytes
  | none => []
  | some b => b

/-! ### little-endian integers -/

/-- the `w` little-endian bytes of `n mod 256^w` (`binary.LittleEndian.PutUint32/64`) -/
def le : Nat → Nat → Bytes
  | 0, _ => []
  | w + 1, n => UInt8.ofNat (n % 256) :: le w (n / 256)

/-- `binary.LittleEndian.Uint32/64` -/
def ofLE : Bytes → Nat
  | [] => 0
  | b :: r => b.toNat + 256 * ofLE r

/-- `uint32(v)` / `uint64(v)` of a signed value: reduction mod 2^bits -/
def toUnsigned (bits : Nat) (i : Int) : Nat := (i % (2 ^ bits : Nat)).toNat

/-- `int32(u)` / `int64(u)` of an unsigned value below 2^bits -/
def toSigned (bits : Nat) (u : Nat) : Int :=
  if u < 2 ^ (bits - 1) then (u : Int) else (u : Int) - (2 ^ bits : Nat)

def encInt32 (i : Int) : Bytes := le 4 (toUnsigned 32 i)
def encInt64 (i : Int) : Bytes := le 8 (toUnsigned 64 i)

/-- `Int32ToBytes` (tag included) -/
def int32ToBytes (i : Int) : Bytes := typeInt32 :: encInt32 i

/-- `BytesToInt32`: nil unless exactly 4 bytes -/
def bytesToInt32 (buf : Option Bytes) : Option Int :=
  if olen buf ≠ 4 then none else some (toSigned 32 (ofLE (obytes buf)))

/-- `BytesToInt64`: nil unless exactly 8 bytes -/
def bytesToInt64 (buf : Option Bytes) : Option Int :=
  if olen buf ≠ 8 then none else some (toSigned 64 (ofLE (obytes buf)))

/-- `BytesToFloat64`: the bit pattern, nil unless exactly 8 bytes -/
def bytesToFloat64 (buf : Option Bytes) : Option Nat :=
  if olen buf ≠ 8 then none else some (ofLE (obytes buf))

/-- `BytesToBool`: nil for an empty/nil buffer, else `value[0] == 1` -/
def bytesToBool (buf : Option Bytes) : Option Bool :=
  match buf with
  | none => none
  | some [] => none
  | some (b :: _) => some (b == 1)

/-- `BytesToString`: never nil (`string(clone(nil)) = ""`) -/
def bytesToString (buf : Option Bytes) : Bytes := obytes buf

/-! ### `time.Time` and its binary form (Go 1.23 `src/time/time.go`) -/

/-- `t.Location() == UTC`, or any other location (a `FixedZone`, `Local`, a loaded zone) together
    with the offset `t.Zone()` reports for the instant (seconds east of UTC, a Go `int`) -/
inductive Loc
  | utc
  | zone (offset : Int)
  deriving DecidableEq, Repr

/-- a `time.Time` as far as `UTC`, `MarshalBinary`, `UnmarshalBinary` and `Equal` look at it:
    `sec` = `t.sec()` (seconds since January 1, year 1, 00:00:00 UTC; an int64), `nsec` = `t.nsec()`,
    the location, and whether the value carries a monotonic clock reading (`wall&hasMonotonic`). -/
structure GoTime where
  sec : Int
  nsec : Nat
  loc : Loc := .utc
  mono : Bool := false
  deriving DecidableEq, Repr

/-- `t.UTC()` = `t.setLoc(&utcLoc)`: the monotonic reading is stripped, the location becomes UTC,
    `sec()` / `nsec()` are unchanged -/
def GoTime.utc (t : GoTime) : GoTime := { t with loc := .utc, mono := false }

/-- `t.Equal(u)` for two values without monotonic reading (and what the property calls "equal as
    instants"): same `sec()` and `nsec()`, whatever the locations -/
def GoTime.sameInstant (t u : GoTime) : Prop := t.sec = u.sec ∧ t.nsec = u.nsec

/-- the `w` big-endian bytes of `n mod 256^w` (`byte(x >> 8*(w-1)), …, byte(x)`) -/
def be (w n : Nat) : Bytes := (le w n).reverse

/-- `int64(buf[w-1]) | int64(buf[w-2])<<8 | …` -/
def ofBE (b : Bytes) : Nat := ofLE b.reverse

inductive TimeErr
  | zoneOffset      -- "Time.MarshalBinary: unexpected zone offset"
  | noData          -- "Time.UnmarshalBinary: no data"
  | version         -- "Time.UnmarshalBinary: unsupported version"
  | length          -- "Time.UnmarshalBinary: invalid length"
  deriving DecidableEq, Repr

/-- version byte, bytes 1-8 seconds, bytes 9-12 nanoseconds, bytes 13-14 zone offset in minutes -/
def timeFields (version : UInt8) (t : GoTime) (offsetMin : Int) : Bytes :=
  version :: (be 8 (toUnsigned 64 t.sec) ++ be 4 t.nsec ++ be 2 (toUnsigned 16 offsetMin))

/-- `Time.MarshalBinary`: offset minutes -1 is the UTC marker, so a zone whose offset truncates to
    -1 minute (-119 s … -60 s) is refused, as is one beyond an int16 of minutes; an offset that is
    not a whole number of minutes makes it version 2 with the (Go-truncated) remainder as one more
    byte.  `/` and `%` on Go ints truncate towards zero (`Int.tdiv` / `Int.tmod`).  The monotonic
    reading plays no part. -/
def marshalBinary (t : GoTime) : Except TimeErr Bytes :=
  match t.loc with
  | .utc => .ok (timeFields 1 t (-1))
  | .zone off =>
    let m := off.tdiv 60
    if m < -32768 ∨ m = -1 ∨ m > 32767 then .error .zoneOffset
    else if off.tmod 60 ≠ 0 then .ok (timeFields 2 t m ++ [UInt8.ofNat (toUnsigned 8 (off.tmod 60))])
    else .ok (timeFields 1 t m)

/-- `wallToInternal`: seconds from year 1 to 1885 -/
def wallToInternal : Int := 59453308800

/-- `Time.UnmarshalBinary`.  `t.wall = uint64(nsec)` with `nsec` an int32: a pattern with bit 31 set
    sign-extends into `hasMonotonic` and the wall seconds (which `setLoc` then folds into `ext`), bit
    30 is outside `nsecMask`; none of that is reachable from bytes `MarshalBinary` wrote.  The seconds
    byte of version 2 is added as an unsigned byte.  Offset -60 s (minutes = -1) means UTC; otherwise
    the location is `Local` or a `FixedZone` with that offset (not distinguished here). -/
def unmarshalBinary (data : Bytes) : Except TimeErr GoTime :=
  match data with
  | [] => .error .noData
  | version :: buf =>
    if version ≠ 1 ∧ version ≠ 2 then .error .version
    else if data.length ≠ (if version = 2 then 16 else 15) then .error .length
    else
      let sec := toSigned 64 (ofBE (buf.take 8))
      let n := ofBE ((buf.drop 8).take 4)
      let offsetMin := toSigned 16 (ofBE ((buf.drop 12).take 2))
      let offset : Int := offsetMin * 60 + (if version = 2 then (((buf.drop 14).headD 0).toNat : Int) else 0)
      let sec' : Int := if n < 2 ^ 31 then sec else wallToInternal + (2 ^ 33 - 2 + ((n / 2 ^ 30 % 2 : Nat) : Int))
      .ok { sec := sec', nsec := n % 2 ^ 30, loc := if offset = -60 then .utc else .zone offset, mono := false }

/-- `BytesToDatetime`: nil for a nil buffer and when `UnmarshalBinary` refuses the bytes -/
def bytesToDatetime (buf : Option Bytes) : Option GoTime :=
  match buf with
  | none => none
  | some b =>
    match unmarshalBinary b with
    | .ok t => some t
    | .error _ => none

def fieldToBool (t : UInt8) (v : Option Bytes) : Option Bool :=
  if t = typeBool then bytesToBool v else none

def fieldToInt32 (t : UInt8) (v : Option Bytes) : Option Int :=
  if t = typeInt32 then bytesToInt32 v else none

/-- `FieldToInt64`: an int32 widens -/
def fieldToInt64 (t : UInt8) (v : Option Bytes) : Option Int :=
  if t = typeInt32 then bytesToInt32 v
  else if t = typeInt64 then bytesToInt64 v
  else none

/-- `FieldToFloat64`; the result is either a bit pattern or an integer still to be converted
    with `float64(int64)` (conversion not modelled) -/
inductive FloatRead
  | bits (b : Nat)
  | ofInt (i : Int)
  deriving DecidableEq, Repr

def fieldToFloat64 (t : UInt8) (v : Option Bytes) : Option FloatRead :=
  if t = typeInt32 ∨ t = typeInt64 then (fieldToInt64 t v).map .ofInt
  else if t = typeFloat64 then (bytesToFloat64 v).map .bits
  else none

def fieldToDatetime (t : UInt8) (v : Option Bytes) : Option GoTime :=
  if t = typeTime then bytesToDatetime v else none

/-- result of `FieldToString`; `strconv` / `MarshalText` formatting of floats and times is not
    modelled (`opaque`), `*boolVal` / `*intVal` on a malformed payload is a nil dereference -/
inductive StrRead
  | nil
  | str (s : Bytes)
  | ofBool (b : Bool)        -- strconv.FormatBool
  | ofInt (i : Int)          -- strconv.Itoa
  | opaque                   -- float / time formatting
  | panic
  deriving DecidableEq, Repr

def fieldToString (t : UInt8) (v : Option Bytes) : StrRead :=
  if t = typeString then .str (bytesToString v)
  else if t = typeBool then
    match fieldToBool t v with
    | some b => .ofBool b
    | none => .panic
  else if t = typeInt32 ∨ t = typeInt64 then
    match fieldToInt64 t v with
    | some i => .ofInt i
    | none => .panic
  else if t = typeFloat64 then
    match fieldToFloat64 t v with
    | some _ => .opaque
    | none => .panic
  else if t = typeTime then
    match fieldToDatetime t v with
    | some _ => .opaque
    | none => .nil
  else .nil

/-! ### lemmas: little-endian round trip -/

theorem le_length (w n : Nat) : (le w n).length = w := by
  induction w generalizing n with
  | zero => rfl
  | succ w ih => simp [le, ih]

theorem ofLE_le (w n : Nat) : ofLE (le w n) = n % 256 ^ w := by
  induction w generalizing n with
  | zero => simp [le, ofLE, Nat.mod_one]
  | succ w ih =>
    have hb : (UInt8.ofNat (n % 256)).toNat = n % 256 := by
      simp [UInt8.toNat_ofNat']
    simp only [le, ofLE, hb, ih]
    rw [Nat.pow_succ, Nat.mul_comm (256 ^ w) 256, Nat.mod_mul]

theorem toSigned_toUnsigned (bits : Nat) (hb : 0 < bits) (i : Int)
    (hlo : -(2 ^ (bits - 1) : Nat) ≤ i) (hhi : i < (2 ^ (bits - 1) : Nat)) :
    toSigned bits (toUnsigned bits i) = i := by
  have hpow : (2 ^ bits : Nat) = 2 * 2 ^ (bits - 1) := by
    have : bits = (bits - 1) + 1 := by omega
    conv => lhs; rw [this, Nat.pow_succ]
    omega
  unfold toSigned toUnsigned
  generalize hP : (2 ^ (bits - 1) : Nat) = P at *
  generalize hQ : (2 ^ bits : Nat) = Q at *
  have hPpos : 0 < P := by rw [← hP]; exact Nat.pow_pos (by omega)
  by_cases hneg : i < 0
  · have hm : i % (Q : Int) = i + Q := by
      rw [← Int.add_emod_right i (Q : Int)]
      exact Int.emod_eq_of_lt (by omega) (by omega)
    rw [hm]
    have : ¬ ((i + (Q : Int)).toNat < P) := by omega
    rw [if_neg this]
    omega
  · have hm : i % (Q : Int) = i := Int.emod_eq_of_lt (by omega) (by omega)
    rw [hm]
    have : i.toNat < P := by omega
    rw [if_pos this]
    omega

theorem toUnsigned_lt (bits : Nat) (i : Int) : toUnsigned bits i < 2 ^ bits := by
  unfold toUnsigned
  have hpos : (0 : Int) < ((2 ^ bits : Nat) : Int) := by
    have := Nat.pow_pos (n := bits) (show 0 < 2 by omega); omega
  have h1 := Int.emod_lt_of_pos i hpos
  have h2 := Int.emod_nonneg i (by omega : ((2 ^ bits : Nat) : Int) ≠ 0)
  omega

def InInt32 (i : Int) : Prop := -2147483648 ≤ i ∧ i < 2147483648
def InInt64 (i : Int) : Prop := -9223372036854775808 ≤ i ∧ i < 9223372036854775808
instance (i : Int) : Decidable (InInt32 i) := by unfold InInt32; infer_instance
instance (i : Int) : Decidable (InInt64 i) := by unfold InInt64; infer_instance

/-- what every `time.Time` satisfies: `sec()` is an int64, `0 ≤ nsec() < 1e9` -/
def GoTime.valid (t : GoTime) : Prop := InInt64 t.sec ∧ t.nsec < 1000000000
instance (t : GoTime) : Decidable t.valid := by unfold GoTime.valid; infer_instance

theorem bytesToInt32_enc (i : Int) (h : InInt32 i) : bytesToInt32 (some (encInt32 i)) = some i := by
  have hl : olen (some (encInt32 i)) = 4 := by simp [olen, encInt32, le_length]
  unfold bytesToInt32
  rw [if_neg (by omega)]
  simp only [obytes, encInt32, ofLE_le]
  have hlt := toUnsigned_lt 32 i
  rw [Nat.mod_eq_of_lt (by simpa using hlt)]
  rw [toSigned_toUnsigned 32 (by omega) i (by have := h.1; simpa using this) (by have := h.2; simpa using this)]

theorem bytesToInt64_enc (i : Int) (h : InInt64 i) : bytesToInt64 (some (encInt64 i)) = some i := by
  have hl : olen (some (encInt64 i)) = 8 := by simp [olen, encInt64, le_length]
  unfold bytesToInt64
  rw [if_neg (by omega)]
  simp only [obytes, encInt64, ofLE_le]
  have hlt := toUnsigned_lt 64 i
  rw [Nat.mod_eq_of_lt (by simpa using hlt)]
  rw [toSigned_toUnsigned 64 (by omega) i (by have := h.1; simpa using this) (by have := h.2; simpa using this)]

theorem bytesToFloat64_le (bits : Nat) (h : bits < 2 ^ 64) : bytesToFloat64 (some (le 8 bits)) = some bits := by
  have hl : olen (some (le 8 bits)) = 8 := by simp [olen, le_length]
  unfold bytesToFloat64
  rw [if_neg (by omega)]
  simp only [obytes, ofLE_le]
  rw [Nat.mod_eq_of_lt (by simpa using h)]

end StorageModel.Codec
