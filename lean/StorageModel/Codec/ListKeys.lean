import StorageModel.Codec.Nested
/-
  The keys of a list bucket (`PutList`): `string(Int32ToBytes(int32(idx)))` = the tag byte 02 and the
  four LITTLE-endian bytes of the index, in a bucket that bbolt keeps in `bytes.Compare` order.
  Key order is index order only below index 256 (`idxKey_lt_of_lt_256`); from 256 on the keys of
  later elements sort between earlier ones (`idxKey_256_lt`: element 256 is the second entry a
  cursor delivers).  `GetList` looks every index up, which is why `list_roundtrip` holds for every
  length; `getListByCursor` is the other strategy ("walk the bucket once, append in key order"),
  for which the round trip fails on every list of 257 … 65536 elements whose elements 1 and 256
  differ (`cursor_walk_breaks_roundtrip`).  No property theorems here.
-/
namespace StorageModel.Codec
open StorageModel

theorem idxKey_eq (i : Nat) (h : i < 2 ^ 32) : idxKey i = typeInt32 :: le 4 i := by
  unfold idxKey int32ToBytes encInt32
  rw [toUnsigned_nat 32 i h]

theorem u8_ofNat_lt (a b : Nat) (hb : b < 256) (h : a < b) : UInt8.ofNat a < UInt8.ofNat b := by
  rw [UInt8.lt_iff_toNat_lt, UInt8.toNat_ofNat', UInt8.toNat_ofNat']
  have e : 2 ^ 8 = 256 := by decide
  rw [e, Nat.mod_eq_of_lt (by omega), Nat.mod_eq_of_lt hb]
  exact h

/-- below 256 the byte order of the keys is the index order -/
theorem idxKey_lt_of_lt_256 (i j : Nat) (hij : i < j) (hj : j < 256) : idxKey i < idxKey j := by
  rw [idxKey_eq i (by omega), idxKey_eq j (by omega)]
  simp only [le]
  rw [List.cons_lt_cons_iff]
  refine Or.inr ⟨rfl, ?_⟩
  rw [List.cons_lt_cons_iff]
  refine Or.inl ?_
  rw [Nat.mod_eq_of_lt (by omega : i < 256), Nat.mod_eq_of_lt hj]
  exact u8_ofNat_lt i j hj hij

theorem idxKey_256 : idxKey 256 = [2, 0, 1, 0, 0] := by decide

/-- … and not beyond: the key of element 256 sorts before the key of every other element but
    element 0 (of a list of at most 65536 elements) -/
theorem idxKey_256_lt (i : Nat) (h0 : i ≠ 0) (h256 : i ≠ 256) (hi : i < 65536) : idxKey 256 < idxKey i := by
  rw [idxKey_256, idxKey_eq i (by omega)]
  simp only [le]
  rw [show typeInt32 = (2 : UInt8) from rfl, List.cons_lt_cons_iff]
  refine Or.inr ⟨rfl, ?_⟩
  rw [List.cons_lt_cons_iff]
  by_cases hm : i % 256 = 0
  · refine Or.inr ⟨by rw [hm]; rfl, ?_⟩
    rw [List.cons_lt_cons_iff]
    refine Or.inl ?_
    have hb : i / 256 % 256 = i / 256 := Nat.mod_eq_of_lt (by omega)
    rw [hb]
    exact u8_ofNat_lt 1 (i / 256) (by omega) (by omega)
  · refine Or.inl ?_
    exact u8_ofNat_lt 0 (i % 256) (by omega) (by omega)

theorem idxKey_0_lt_256 : idxKey 0 < idxKey 256 := by decide
theorem idxKey_256_lt_1 : idxKey 256 < idxKey 1 := by decide
theorem idxKey_256_lt_listSizeKey : idxKey 256 < listSizeKey := by decide

/-! ### the list bucket is sorted, its keys are the index keys and the size key -/

theorem putElems_sorted (xs : List Value) (child : Bkt) (idx : Nat) (child' : Bkt)
    (h : putElems child xs idx = .ok child') (hs : supportedXs xs = true) (hsd : Sorted child) : Sorted child' := by
  induction xs generalizing child idx with
  | nil =>
    simp only [putElems] at h
    injection h with h
    subst h
    exact hsd
  | cons v r ih =>
    simp only [putElems] at h
    split at h
    · cases h
    · next c1 hc1 =>
      have hsup : supported v = true ∧ supportedXs r = true := by simpa [supportedXs] using hs
      obtain ⟨n, hn, _⟩ := setMarshaled_spec v child (idxKey idx) true c1 hc1 hsup.1
      exact ih c1 (idx + 1) h hsup.2 (by rw [hn]; exact sorted_ins _ _ _ hsd)

theorem look_some_of_mem_keys {α : Type} (l : List (Bytes × α)) (k : Bytes) (h : k ∈ keys l) : ∃ a, look l k = some a := by
  induction l with
  | nil => simp [keys] at h
  | cons e r ih =>
    obtain ⟨k', a'⟩ := e
    by_cases hk : k = k'
    · exact ⟨a', by simp [look, hk]⟩
    · have : k ∈ keys r := by
        simp only [keys, List.map_cons, List.mem_cons] at h
        rcases h with h | h
        · exact absurd h hk
        · simpa [keys] using h
      obtain ⟨a, ha⟩ := ih this
      exact ⟨a, by simp [look, hk, ha]⟩

/-- a strictly sorted association list that contains `a < b`, all other keys above `b`, starts
    with the entries of `a` and `b` -/
theorem sorted_head2 {α : Type} (l : List (Bytes × α)) (a b : Bytes) (hs : Sorted l) (ha : a ∈ keys l) (hb : b ∈ keys l)
    (hab : a < b) (hall : ∀ k ∈ keys l, k = a ∨ k = b ∨ b < k) :
    ∃ na nb rest, l = (a, na) :: (b, nb) :: rest := by
  have asym : ∀ {x y : Bytes}, x < y → y < x → False := fun h1 h2 => List.lt_irrefl _ (List.lt_trans h1 h2)
  cases l with
  | nil => simp [keys] at ha
  | cons e0 t =>
    obtain ⟨k0, n0⟩ := e0
    simp only [Sorted, keys, List.map_cons, List.pairwise_cons] at hs
    have hk0 : k0 = a := by
      apply Classical.byContradiction
      intro hne
      have hat : a ∈ List.map Prod.fst t := by
        simp only [keys, List.map_cons, List.mem_cons] at ha
        rcases ha with h | h
        · exact absurd h.symm hne
        · exact h
      have h1 : k0 < a := hs.1 a hat
      rcases hall k0 (by simp [keys]) with h | h | h
      · exact hne h
      · rw [h] at h1; exact asym h1 hab
      · exact asym (List.lt_trans hab h) h1
    subst hk0
    have hbt : b ∈ List.map Prod.fst t := by
      simp only [keys, List.map_cons, List.mem_cons] at hb
      rcases hb with h | h
      · rw [h] at hab; exact absurd hab (List.lt_irrefl _)
      · exact h
    cases t with
    | nil => simp at hbt
    | cons e1 t' =>
      obtain ⟨k1, n1⟩ := e1
      have hs2 := hs.2
      simp only [List.map_cons, List.pairwise_cons] at hs2
      have hk1 : k1 = b := by
        apply Classical.byContradiction
        intro hne
        have hbt' : b ∈ List.map Prod.fst t' := by
          simp only [List.map_cons, List.mem_cons] at hbt
          rcases hbt with h | h
          · exact absurd h.symm hne
          · exact h
        have h1 : k1 < b := hs2.1 b hbt'
        have h0 : k0 < k1 := hs.1 k1 (by simp)
        rcases hall k1 (by simp [keys]) with h | h | h
        · rw [h] at h0; exact List.lt_irrefl _ h0
        · exact hne h
        · exact asym h h1
      subst hk1
      exact ⟨n0, n1, t', rfl⟩

/-! ### the other reading strategy -/

/-- what a single cursor pass over a list bucket delivers: the readings of the entries in key
    order, the size entry skipped -/
def cursorWalk (c : Bkt) : List (Res Value) :=
  ((readEs c).filter fun e => e.1 ≠ listSizeKey).map (·.2)

/-- "walk the list bucket once and append in key order" -/
def getListByCursor (c : Bkt) : Res Value := (seqAll (cursorWalk c)).map .list

theorem seqAll_second {a : Res Value} {v : Value} {rest : List (Res Value)} {l : List Value}
    (h : seqAll (a :: .ok v :: rest) = .ok l) : l.getD 1 .nil = v := by
  cases a with
  | panic => simp [seqAll] at h
  | ok a0 =>
    simp only [seqAll] at h
    cases hr : seqAll rest with
    | panic => simp [hr] at h
    | ok vs =>
      simp only [hr] at h
      injection h with h
      subst h
      rfl

/-- the list bucket `PutList` leaves for a list of 257 … 65536 elements starts with element 0
    followed by element 256 -/
theorem list_bucket_head (xs : List Value) (child child' : Bkt)
    (h256 : 256 < xs.length) (hle : xs.length ≤ 65536) (hs : supportedXs xs = true)
    (hc : putElems [] xs 0 = .ok child)
    (hb : bput child listSizeKey (int32ToBytes (xs.length : Int)) = .ok child') :
    ∃ n0 n256 rest, child' = (idxKey 0, n0) :: (idxKey 256, n256) :: rest ∧
      readNode n256 = .ok ((normXs xs).getD 256 .nil) := by
  have hspec := putElems_spec xs [] 0 child hc hs (by omega)
  have hsorted : Sorted child' := by
    rw [bput_ok hb]
    exact sorted_ins _ _ _ (putElems_sorted xs [] 0 child hc hs sorted_nil)
  have hc' : child' = ins child listSizeKey (.val (int32ToBytes (xs.length : Int))) := bput_ok hb
  have hlook : ∀ i, i < xs.length → ∃ n, look child' (idxKey i) = some n ∧ readNode n = .ok ((normXs xs).getD i .nil) := by
    intro i hi
    obtain ⟨n, hn, hr⟩ := hspec.2 i hi
    rw [Nat.zero_add] at hn
    exact ⟨n, by rw [hc', look_ins_ne _ _ _ _ (idxKey_ne_listSizeKey i)]; exact hn, hr⟩
  have hmem : ∀ i, i < xs.length → idxKey i ∈ keys child' := by
    intro i hi
    obtain ⟨n, hn, _⟩ := hlook i hi
    exact mem_keys_of_look _ _ _ hn
  have hall : ∀ k ∈ keys child', k = idxKey 0 ∨ k = idxKey 256 ∨ idxKey 256 < k := by
    intro k hk
    by_cases hks : k = listSizeKey
    · exact Or.inr (Or.inr (by rw [hks]; exact idxKey_256_lt_listSizeKey))
    · have hex : ∃ i, i < xs.length ∧ k = idxKey (0 + i) := by
        apply Classical.byContradiction
        intro hne
        have hnone : look child k = look ([] : Bkt) k :=
          hspec.1 k (fun i hi heq => hne ⟨i, hi, heq⟩)
        obtain ⟨a, ha⟩ := look_some_of_mem_keys child' k hk
        rw [hc', look_ins_ne _ _ _ _ hks, hnone] at ha
        simp at ha
      obtain ⟨i, hi, hki⟩ := hex
      rw [Nat.zero_add] at hki
      by_cases h0 : i = 0
      · exact Or.inl (by rw [hki, h0])
      · by_cases h2 : i = 256
        · exact Or.inr (Or.inl (by rw [hki, h2]))
        · exact Or.inr (Or.inr (by rw [hki]; exact idxKey_256_lt i h0 h2 (by omega)))
  obtain ⟨n0, n256, rest, hshape⟩ :=
    sorted_head2 child' (idxKey 0) (idxKey 256) hsorted (hmem 0 (by omega)) (hmem 256 h256) idxKey_0_lt_256 hall
  obtain ⟨n, hn, hr⟩ := hlook 256 h256
  refine ⟨n0, n256, rest, hshape, ?_⟩
  have hne : idxKey 256 ≠ idxKey 0 := by decide
  rw [hshape] at hn
  simp only [look, hne, if_false, if_true] at hn
  injection hn with hn
  rw [hn]
  exact hr

end StorageModel.Codec
