import StorageModel.C20.Table
/-
  C20 — executable model of public-symbol validation.

  * `Tree`: a generic AST over node kinds named by strings; what a node *is* (its children,
    which of them `Accept` forwards the visitor to, whether it calls `VisitSymbol`) comes from
    a `Table` — in every theorem and in the driver that is `Generated.acceptTable`,
    regenerated from ast/*.go.
  * `visit`: the sequence of `VisitSymbol(symbol, _)` calls a visitor receives from
    `tree.Accept(visitor)` (ast/*.go, one interpreter for all kinds, driven by the table).
  * `panics`: whether `Accept` dereferences a nil child (Go partiality made explicit).
  * `isPublicSymbol`, `visitSymbol`, `validate`: boltz/store_query.go IsPublicSymbol,
    boltz/validate.go publicSymbolValidator.VisitSymbol / ValidateSymbolsArePublic.
-/
namespace StorageModel.C20
open StorageModel

inductive Outcome (α : Type) where
  | ok (a : α)
  | panic
  deriving DecidableEq, Repr

/- A node: its kind, its string-typed fields (field name, value) and its node-valued fields as
   a flat labelled list — a slice field contributes one entry per element, a nil pointer /
   nil interface is `Tree.nil`. -/
mutual
inductive Tree where
  | nil
  /-- a typed nil pointer `(*kind)(nil)` stored in an interface-typed field or slice element: not
      a nil interface (`!= nil` holds), calling Accept on it runs the method with a nil receiver -/
  | tnil (kind : String)
  | node (kind : String) (strs : List (String × Bytes)) (kids : Kids)
inductive Kids where
  | none
  | cons (field : String) (t : Tree) (rest : Kids)
end

/-- values of the string field(s) named `f` -/
def fieldValues (strs : List (String × Bytes)) (f : String) : List Bytes :=
  (strs.filter (fun p => p.1 == f)).map (fun p => p.2)

/- ---------------------------------------------------------------- Accept, as a list of events -/

/-- what one statement of an Accept body contributes; `fwd f` = events of forwarding to field `f` -/
def stepEvents (strs : List (String × Bytes)) (fwd : String → List Bytes) : Step → List Bytes
  | .announce f => fieldValues strs f
  | .forward f _ => fwd f
  | .hook _ => []
  | .unknown _ => []

mutual
/-- the `VisitSymbol` calls made by `t.Accept(visitor)`, in order -/
def visit (T : Table) : Tree → List Bytes
  | .nil => []
  | .tnil _ => []
  | .node k strs kids =>
    match T.lookup k with
    | none => []
    | some ki => ki.steps.flatMap (stepEvents strs (fun f => visitField T f kids))
/-- `recv.f.Accept(visitor)` / `for _, c := range recv.f { c.Accept(visitor) }` -/
def visitField (T : Table) (f : String) : Kids → List Bytes
  | .none => []
  | .cons g t rest => (if g == f then visit T t else []) ++ visitField T f rest
end

/- ------------------------------------------------------------------------- nil dereferences -/

/-- `(*K)(nil).Accept(visitor)`: a value receiver is dereferenced by the call itself; a body under
    `if recv != nil` does nothing; otherwise every statement that reads a field of the receiver
    (`VisitSymbol(recv.f, …)`, `recv.f.Accept(…)`) dereferences nil, callbacks that only pass the
    receiver on do not -/
def nilRecvPanics (ki : KindInfo) : Bool :=
  ki.valueRecv || (!ki.nilSafe && ki.steps.any fun
    | .announce _ => true
    | .forward _ _ => true
    | _ => false)

/-- Is a nil child in field `f` tolerated by `recv.f.Accept(visitor)`?  Yes if the call sits under
    `if recv.f != nil`, or the static type of the field is `*K` and K's Accept does not touch a
    nil receiver (`nilRecvPanics`: calling a method on a nil *K is fine in Go, on a nil interface
    it is not). -/
def tolerant (T : Table) (ki : KindInfo) (f : String) (guarded : Bool) : Bool :=
  guarded ||
    match ki.children.find? (fun c => c.field == f) with
    | some c =>
      match c.static with
      | .ptr k => (match T.lookup k with | some kk => !nilRecvPanics kk | none => false)
      | .val _ => true
      | .iface => false
    | none => false

def Tree.isNil : Tree → Bool
  | .nil => true
  | .tnil _ => false
  | .node _ _ _ => false

mutual
/-- does `t.Accept(visitor)` dereference nil somewhere? -/
def panics (T : Table) : Tree → Bool
  | .nil => false
  | .tnil k =>
    match T.lookup k with
    | none => false
    | some ki => nilRecvPanics ki
  | .node k _ kids =>
    match T.lookup k with
    | none => false
    | some ki => ki.steps.any fun
        | .forward f g => panicsField T (tolerant T ki f g) f kids
        | _ => false
def panicsField (T : Table) (tol : Bool) (f : String) : Kids → Bool
  | .none => false
  | .cons g t rest =>
    (g == f && ((t.isNil && !tol) || panics T t)) || panicsField T tol f rest
end

/- ----------------------------------------------------------- boltz: IsPublicSymbol, validator -/

/-- `strings.Split(s, ".")` on bytes: never empty, `len > 1` iff `s` contains a dot -/
def splitDot : Bytes → List Bytes
  | [] => [[]]
  | c :: rest =>
    if c == 46 then [] :: splitDot rest
    else match splitDot rest with
      | [] => [[c]]          -- unreachable: splitDot is never empty
      | h :: t => (c :: h) :: t

/-- the store's `mapSymbols` keys and `publicSymbols` keys, and the same two key sets of each store up
    its `parent` chain (nearest first; empty for a store without `StoreDefinition.Parent`).  A child store
    has its own `publicSymbols` / `mapSymbols` maps: `GrantSymbols` copies the parent's symbols into them
    once, later `MakeSymbolPublic` calls on either store change only that store's set. -/
structure PubCfg where
  maps : List Bytes
  pub : List Bytes
  parents : List (List Bytes × List Bytes) := []
  /-- naming: a symbol is addressed by its NAME (what `maps` / `pub` list, what a query writes) and stored under a
      KEY — `AddMapSymbol(name, type, key)`, `AddSymbolWithKey(name, type, key)`, `AddFkSymbolWithKey(name, key, …)`.
      `mapKeys`: (name, key) of the entries of `store.mapSymbols`; `symKeys`: (name, key) of the entries of
      `store.symbols`.  A name not listed is stored under itself.  Arbitrary lists: a key may equal the name of any
      other symbol, two symbols may share a key. -/
  mapKeys : List (Bytes × Bytes) := []
  symKeys : List (Bytes × Bytes) := []

/-- `store.mapSymbols[n].key` -/
def PubCfg.mapKey (c : PubCfg) (n : Bytes) : Bytes := (c.mapKeys.lookup n).getD n
/-- key of `store.symbols.Get(n)` -/
def PubCfg.symKey (c : PubCfg) (n : Bytes) : Bytes := (c.symKeys.lookup n).getD n

/-- BaseStore.IsPublicSymbol -/
def isPublicSymbol (c : PubCfg) (s : Bytes) : Bool :=
  if c.pub.contains s then true
  else match splitDot s with
    | base :: _ :: _ => if c.maps.contains base then c.pub.contains base else false
    | _ => false

/-- publicSymbolValidator.VisitSymbol: `err` is the validator's state -/
def visitSymbol (c : PubCfg) (err : Option Bytes) (s : Bytes) : Option Bytes :=
  if err.isNone && !isPublicSymbol c s then some s else err

/-- ValidateSymbolsArePublic: `ok none` = nil error, `ok (some s)` = UnknownSymbolError{s} -/
def validate (T : Table) (c : PubCfg) (q : Tree) : Outcome (Option Bytes) :=
  if panics T q then .panic else .ok ((visit T q).foldl (visitSymbol c) none)

/- --------------------------------------------- agreement of a tree with the table (checked per case) -/

def countField (f : String) : Kids → Nat
  | .none => 0
  | .cons g _ rest => (if g == f then 1 else 0) + countField f rest

mutual
/-- every node's kind is in the table, its string / enumeration fields and child labels are fields the table
    lists for that kind, and every non-slice child field occurs exactly once -/
def shaped (T : Table) : Tree → Bool
  | .nil => true
  | .tnil k => (T.lookup k).isSome
  | .node k strs kids =>
    match T.lookup k with
    | none => false
    | some ki =>
      strs.all (fun p => ki.strFields.contains p.1 || ki.enumFields.contains p.1) &&
      ki.children.all (fun c => c.many || countField c.field kids == 1) &&
      shapedKids T ki kids
def shapedKids (T : Table) (ki : KindInfo) : Kids → Bool
  | .none => true
  | .cons g t rest => ki.children.any (fun c => c.field == g) && shaped T t && shapedKids T ki rest
end

/-- symbols announced anywhere below the node (through whatever the table forwards) -/
def visitKids (T : Table) : Kids → List Bytes
  | .none => []
  | .cons _ t rest => visit T t ++ visitKids T rest

/-- symbol-holding string fields that the kind's Accept does not announce -/
def silentSyms (ki : KindInfo) : List String :=
  ki.symFields.filter (fun f => !ki.steps.contains (.announce f))

mutual
/-- every symbol a node holds only as a string (AllOfSetExprNode.name, AnyOfSetExprNode.name)
    is announced by some node below it -/
def namesCovered (T : Table) : Tree → Bool
  | .nil => true
  | .tnil _ => true
  | .node k strs kids =>
    (match T.lookup k with
     | none => true
     | some ki => (silentSyms ki).all fun f => (fieldValues strs f).all fun v => (visitKids T kids).contains v) &&
    namesCoveredKids T kids
def namesCoveredKids (T : Table) : Kids → Bool
  | .none => true
  | .cons _ t rest => namesCovered T t && namesCoveredKids T rest
end

end StorageModel.C20
