import StorageModel.Base.Bytes
/-
  C20 — shape of the regenerated visitor-forwarding table.

  One `KindInfo` per Go type of package `ast` that has an `Accept(Visitor)` method.  The
  values are written by /verif/extract/accept.go (go/ast) into
  `Generated/AcceptTable.lean` on every run; nothing here is specific to the kinds that exist
  today.
-/
namespace StorageModel.C20

/-- static Go type of a node-valued struct field (element type for slices) -/
inductive Static
  | iface                    -- a node interface (BoolNode, Int64Node, SymbolNode, Node, Query, …)
  | ptr (kind : String)      -- `*K` for a concrete kind K
  | val (kind : String)      -- `K` by value (cannot be nil)
  deriving DecidableEq, Repr

structure Child where
  field : String
  many : Bool                -- `[]T`
  static : Static
  deriving DecidableEq, Repr

/-- one statement of an `Accept` body, in source order -/
inductive Step
  | announce (field : String)                    -- `visitor.VisitSymbol(recv.field, …)`
  | forward (field : String) (guarded : Bool)    -- `recv.field.Accept(visitor)` / `for _, c := range recv.field { c.Accept(visitor) }`;
                                                 -- guarded = enclosed in `if recv.field != nil { … }`
  | hook (method : String)                       -- `visitor.VisitXxx(recv)`: a callback other than VisitSymbol
  | unknown (what : String)                      -- anything the extractor does not recognise
  deriving DecidableEq, Repr

structure KindInfo where
  name : String
  nilSafe : Bool             -- the whole body is `if recv != nil { … }`
  children : List Child      -- node-valued fields (embedded structs flattened), declaration order
  strFields : List String    -- string-typed fields
  symFields : List String    -- string fields holding a symbol name: returned by the kind's `Symbol()` method
                             -- or passed to `VisitSymbol`
  opaqueFields : List String       -- fields of interface / func / map type that are not node interfaces
  enumFields : List String := []   -- fields whose type is a named integer type of package ast (BinaryOp, SetFunction, boolBinaryOp)
  ifaces : List String := []       -- interfaces of package ast whose method set is contained in the method set of *Kind
  getType : String := ""           -- the constant `GetType()` returns ("" if it computes something)
  valueRecv : Bool := false        -- Accept has a value receiver: the kind cannot be a nil pointer inside an interface
  steps : List Step
  deriving Repr

abbrev Table := List KindInfo

def Table.lookup (T : Table) (k : String) : Option KindInfo := T.find? (fun ki => ki.name == k)

/- ------------------------------------------------------------------------------------------------
   The validator itself, as data (regenerated from boltz/store_query.go IsPublicSymbol and
   boltz/validate.go publicSymbolValidator.VisitSymbol / ValidateSymbolsArePublic by
   /verif/extract/accept.go).  The model *interprets* these programs (C20/Model.lean); the
   decidable predicate `GoodShape` (C20/Shape.lean) says which programs decide "public" the way
   the property demands, and the property theorems are proved for every good shape.
   ---------------------------------------------------------------------------------------------- -/

/-- a string-valued expression in the body of IsPublicSymbol -/
inductive NameE
  | sym                      -- the parameter `symbol`
  | firstSeg                 -- `strings.Split(symbol, ".")[0]`, or `symbol[:i]` with `i := strings.Index…(symbol, ".")`
  | uptoLastDot              -- `symbol[:i]` with `i := strings.LastIndex…(symbol, ".")`
  | other (src : String)
  | mapKey (n : NameE)       -- `m.key` for `m := store.mapSymbols[<n>]`: the bucket KEY the map symbol NAMED <n> is stored under
  | symKey (n : NameE)       -- the key (last path element) of the store's non-map symbol named <n>
  deriving DecidableEq, Repr

/-- the two key sets of the store that IsPublicSymbol consults -/
inductive StoreTbl
  | pub                      -- `store.publicSymbols`
  | maps                     -- `store.mapSymbols`
  | other (src : String)
  deriving DecidableEq, Repr

/-- a condition in the body of IsPublicSymbol -/
inductive CondE
  | const (b : Bool)
  | lookup (t : StoreTbl) (n : NameE)     -- `_, ok := store.<t>[<n>]` … `ok`
  | segsMoreThan (n : Nat)                -- `len(strings.Split(symbol, ".")) > n`; n = 1 also for `strings.Index…(symbol, ".") >= 0`
  | dotNotFirst                           -- `strings.Index…(symbol, ".") > 0`
  | lastDotNotFirst                       -- `strings.LastIndex…(symbol, ".") > 0`
  | hasParent                             -- `store.parent != nil` (a child store: StoreDefinition.Parent was set)
  | parentPublic (n : NameE)              -- `store.parent.IsPublicSymbol(<n>)`: the same method, run by the parent store
  | not (c : CondE)
  | and (a b : CondE)
  | or (a b : CondE)
  | other (src : String)
  deriving DecidableEq, Repr

/-- the body of IsPublicSymbol as a decision tree: `if c { A }; B` is `ite c (A; B) B` -/
inductive DTree
  | ret (c : CondE)                       -- `return <c>`
  | ite (c : CondE) (t e : DTree)
  | unknown (src : String)                -- a statement the extractor does not recognise, or falling off the end
  deriving DecidableEq, Repr

/-- atoms of the guard in publicSymbolValidator.VisitSymbol -/
inductive VAtom
  | errNil                                -- `visitor.err == nil`
  | isPublic                              -- `visitor.store.IsPublicSymbol(symbol)`
  | other (src : String)
  deriving DecidableEq, Repr

structure VLit where
  atom : VAtom
  pos : Bool                              -- false: negated
  deriving DecidableEq, Repr

/-- what the error names -/
inductive VArg
  | symbol                                -- `ast.NewUnknownSymbolError(symbol)`
  | other (src : String)
  deriving DecidableEq, Repr

/-- one statement of VisitSymbol -/
inductive VStmt
  | setErrIf (conds : List VLit) (arg : VArg)   -- `if c1 && c2 … { visitor.err = ast.NewUnknownSymbolError(arg) }`
  | returnIf (conds : List VLit)                -- `if c1 && … { return }`
  | other (src : String)
  deriving DecidableEq, Repr

/-- one statement of ValidateSymbolsArePublic -/
inductive WStmt
  | newVisitor (fields : List String)     -- `visitor := &publicSymbolValidator{f: …}`: a fresh validator; the fields named in the literal
  | acceptQuery                           -- `query.Accept(visitor)`
  | acceptGetter (getter : String)        -- `query.<Getter>().Accept(visitor)`
  | returnErr                             -- `return visitor.err`
  | returnNilIf (src : String)            -- `if <src> { return nil }`
  | other (src : String)
  deriving DecidableEq, Repr

structure ValidatorShape where
  isPublic : DTree
  visitSymbol : List VStmt
  walk : List WStmt
  /-- methods of queryNode that return one of its node-valued fields: (method, field) -/
  getters : List (String × String)
  deriving Repr

/- ------------------------------------------------------------------------------------------------
   Routes other than Accept by which a node gets into or out of a query (regenerated by
   /verif/extract/accept_api.go).
   ---------------------------------------------------------------------------------------------- -/

/-- how a kind's `Symbol()` method computes its result -/
inductive SymVia
  | field (f : String)       -- `return recv.f`
  | child (c : String)       -- `return recv.c.Symbol()`
  | other (src : String)
  deriving DecidableEq, Repr

/-- one method of queryNode that belongs to the exported interface ast.Query -/
inductive ApiMethod
  | get (method : String) (path : List String)      -- returns `recv.F` ([F]) or the elements of `recv.F.G` ([F, G])
  | set (method field : String)                     -- `recv.F = param`
  | adopt (method field : String)                   -- `recv.F = other.F` for `other := param.(*queryNode)`
  | build (method field kind : String)              -- `recv.F = &kind{…}` from scalars
  | scalar (method field : String)                  -- returns a non-node value read through `recv.F`
  | eval (method field : String)                    -- delegates evaluation to `recv.F`
  | unknown (method src : String)
  deriving DecidableEq, Repr

end StorageModel.C20
