import StorageModel.Base.Bytes
/-
  C20 — shape of the regenerated visitor-forwarding table.

  One `KindInfo` per Go type of package `ast` that has an `Accept(Visitor)` method.  The
  values are written by /verif/extract/accept.go (go/ast) into
  `Generated/AcceptTable.lean` on every run; nothing here is specific to the kinds that exist
  today.
-/
namespace StorageModel.C20

/-- static Go type of a node-valued struct field (element type for slices) -/
inductive Static
  | iface                    -- a node interface (BoolNode, Int64Node, SymbolNode, Node, Query, …)
  | ptr (kind : String)      -- `*K` for a concrete kind K
  | val (kind : String)      -- `K` by value (cannot be nil)
  deriving DecidableEq, Repr

structure Child where
  field : String
  many : Bool                -- `[]T`
  static : Static
  deriving DecidableEq, Repr

/-- one statement of an `Accept` body, in source order -/
inductive Step
  | announce (field : String)                    -- `visitor.VisitSymbol(recv.field, …)`
  | forward (field : String) (guarded : Bool)    -- `recv.field.Accept(visitor)` / `for _, c := range recv.field { c.Accept(visitor) }`;
                                                 -- guarded = enclosed in `if recv.field != nil { … }`
  | hook (method : String)                       -- `visitor.VisitXxx(recv)`: a callback other than VisitSymbol
  | unknown (what : String)                      -- anything the extractor does not recognise
  deriving DecidableEq, Repr

structure KindInfo where
  name : String
  nilSafe : Bool             -- the whole body is `if recv != nil { … }`
  children : List Child      -- node-valued fields (embedded structs flattened), declaration order
  strFields : List String    -- string-typed fields
  symFields : List String    -- string fields holding a symbol name: returned by the kind's `Symbol()` method
                             -- or passed to `VisitSymbol`
  opaqueFields : List String       -- fields of interface / func / map type that are not node interfaces
  steps : List Step
  deriving Repr

abbrev Table := List KindInfo

def Table.lookup (T : Table) (k : String) : Option KindInfo := T.find? (fun ki => ki.name == k)

end StorageModel.C20
