import StorageModel.C20.Lemmas
/-
  C20 — `Accept` with a stateful visitor, literally: the visitor's state is threaded through
  the statements of each Accept body in source order (as Go does with
  `visitor *publicSymbolValidator`), and the proof that this is the fold of the visitor's
  `VisitSymbol` over the event list `visit` that the rest of the development uses.
-/
namespace StorageModel.C20
open StorageModel

mutual
/-- `t.Accept(visitor)` where `vs` is the visitor's VisitSymbol and `st` its state -/
def accept {σ : Type} (T : Table) (vs : σ → Bytes → σ) : Tree → σ → σ
  | .nil, st => st
  | .tnil _, st => st
  | .node k strs kids, st =>
    match T.lookup k with
    | none => st
    | some ki =>
      ki.steps.foldl (fun st step =>
        match step with
        | .announce f => (fieldValues strs f).foldl vs st
        | .forward f _ => acceptField T vs f kids st
        | .hook _ => st
        | .unknown _ => st) st
def acceptField {σ : Type} (T : Table) (vs : σ → Bytes → σ) (f : String) : Kids → σ → σ
  | .none, st => st
  | .cons g t rest, st => acceptField T vs f rest (if g == f then accept T vs t st else st)
end

/-- ValidateSymbolsArePublic, literally: a fresh validator, `query.Accept(visitor)`, return `visitor.err` -/
def validateRun (T : Table) (c : PubCfg) (q : Tree) : Outcome (Option Bytes) :=
  if panics T q then .panic else .ok (accept T (visitSymbol c) q none)

mutual
theorem accept_eq_foldl {σ : Type} (T : Table) (vs : σ → Bytes → σ) :
    ∀ (t : Tree) (st : σ), accept T vs t st = (visit T t).foldl vs st
  | .nil, st => by simp [accept, visit]
  | .tnil _, st => by simp [accept, visit]
  | .node k strs kids, st => by
    rw [accept, visit]
    cases T.lookup k with
    | none => rfl
    | some ki =>
      simp only
      generalize ki.steps = steps
      induction steps generalizing st with
      | nil => rfl
      | cons step rest ih =>
        simp only [List.foldl_cons, List.flatMap_cons, List.foldl_append]
        rw [ih]
        congr 1
        cases step with
        | announce f => rfl
        | forward f g => exact acceptField_eq_foldl T vs f kids st
        | hook m => rfl
        | unknown w => rfl
theorem acceptField_eq_foldl {σ : Type} (T : Table) (vs : σ → Bytes → σ) (f : String) :
    ∀ (kids : Kids) (st : σ), acceptField T vs f kids st = (visitField T f kids).foldl vs st
  | .none, st => by simp [acceptField, visitField]
  | .cons g t rest, st => by
    rw [acceptField, visitField, List.foldl_append, acceptField_eq_foldl T vs f rest]
    congr 1
    by_cases hg : (g == f) = true
    · simp only [hg, if_true]; exact accept_eq_foldl T vs t st
    · simp [hg]
end

/-- the event-list formulation `validate` is the stateful run -/
theorem validate_eq_run (T : Table) (c : PubCfg) (q : Tree) : validate T c q = validateRun T c q := by
  simp [validate, validateRun, accept_eq_foldl]

end StorageModel.C20
