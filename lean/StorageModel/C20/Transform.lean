import StorageModel.C20.Lemmas
/-
  C20 — the type-directed transformation (ast/node_convert.go transformTypes and the
  TypeTransform / TypeTransformBool methods of node_convert.go, node_query.go, node_symbol.go,
  node_expr.go) as a deterministic FUNCTION on the generic `Tree`:

      transform env n Σ u = .ok t      t is the typed query that PostProcess builds from the
                                       untyped tree u the parse listener left on its stack,
                                       for the symbol types Σ (ast.SymbolTypes)

  * Dynamic dispatch follows the regenerated table: a Go type assertion `x.(I)` is
    `impl T x "I"` (`KindInfo.ifaces`, the node interfaces whose method set the kind's method set
    contains), `x.GetType()` is `KindInfo.getType` (the constant the kind's GetType returns);
    operators and set functions are compared with the regenerated constants `env.E`.
  * An unchecked assertion that would panic, and anything the grammar cannot produce, is an
    `.error`; the driver compares `transform` with the real typed tree only for queries the real
    parser accepted.
  * Nodes that are neither TypeTransformable nor BoolTypeTransformable (constants, arrays, the
    skip / limit nodes) are kept as they are, provided they are what the table describes and
    hold no symbol (`constOk`, evaluated by the function itself).

  `n` bounds the nesting depth (the driver passes the length of the line).
-/
namespace StorageModel.C20
open StorageModel

mutual
/-- equality of trees, executable (the driver compares the model's typed tree with the real one) -/
def treeEq : Tree → Tree → Bool
  | .nil, .nil => true
  | .tnil k, .tnil k' => k == k'
  | .node k strs kids, .node k' strs' kids' => k == k' && strs == strs' && kidsEq kids kids'
  | _, _ => false
def kidsEq : Kids → Kids → Bool
  | .none, .none => true
  | .cons g t rest, .cons g' t' rest' => g == g' && treeEq t t' && kidsEq rest rest'
  | _, _ => false
end

mutual
theorem treeEq_sound : ∀ (a b : Tree), treeEq a b = true → a = b
  | .nil, .nil, _ => rfl
  | .nil, .tnil _, h => by simp [treeEq] at h
  | .nil, .node _ _ _, h => by simp [treeEq] at h
  | .tnil _, .nil, h => by simp [treeEq] at h
  | .tnil k, .tnil k', h => by simp only [treeEq, beq_iff_eq] at h; rw [h]
  | .tnil _, .node _ _ _, h => by simp [treeEq] at h
  | .node _ _ _, .nil, h => by simp [treeEq] at h
  | .node _ _ _, .tnil _, h => by simp [treeEq] at h
  | .node k strs kids, .node k' strs' kids', h => by
    simp only [treeEq, Bool.and_eq_true, beq_iff_eq] at h
    obtain ⟨⟨rfl, rfl⟩, hk⟩ := h
    rw [kidsEq_sound kids kids' hk]
theorem kidsEq_sound : ∀ (a b : Kids), kidsEq a b = true → a = b
  | .none, .none, _ => rfl
  | .none, .cons _ _ _, h => by simp [kidsEq] at h
  | .cons _ _ _, .none, h => by simp [kidsEq] at h
  | .cons g t rest, .cons g' t' rest', h => by
    simp only [kidsEq, Bool.and_eq_true, beq_iff_eq] at h
    obtain ⟨⟨rfl, ht⟩, hr⟩ := h
    rw [treeEq_sound t t' ht, kidsEq_sound rest rest' hr]
end

/-- `r` is `.ok t` for a tree equal to `want` -/
def okIs (r : Except String Tree) (want : Tree) : Bool :=
  match r with
  | .ok t => treeEq t want
  | .error _ => false

theorem okIs_sound {r : Except String Tree} {want : Tree} (h : okIs r want = true) : r = .ok want := by
  unfold okIs at h
  split at h
  · rw [treeEq_sound _ _ h]
  · cases h

/-- ast.NodeType -/
inductive NT where
  | bool | datetime | float64 | int64 | string | anyType | other
  deriving DecidableEq, Repr

def NT.ofGo : String → NT
  | "NodeTypeBool" => .bool
  | "NodeTypeDatetime" => .datetime
  | "NodeTypeFloat64" => .float64
  | "NodeTypeInt64" => .int64
  | "NodeTypeString" => .string
  | "NodeTypeAnyType" => .anyType
  | _ => .other

/-- `ast.SymbolTypes`: GetSymbolType and GetSetSymbolTypes (IsSet is used by the symbol
    validator only, which runs before the transformation and can only reject) -/
inductive SymTab where
  | mk (getType : Bytes → Option NT) (sub : Bytes → Option SymTab)

def SymTab.getType : SymTab → Bytes → Option NT | .mk g _ => g
def SymTab.sub : SymTab → Bytes → Option SymTab | .mk _ s => s

/-- the regenerated facts the transformation consults -/
structure Env where
  T : Table
  /-- constants of the enumerations BinaryOp, SetFunction, boolBinaryOp: name ↦ value -/
  E : List (String × Nat)

def kindOf : Tree → String
  | .nil => ""
  | .tnil k => k
  | .node k _ _ => k

/-- `x.(I)` (comma-ok) -/
def impl (T : Table) (t : Tree) (i : String) : Bool :=
  match t with
  | .nil => false
  | .tnil k =>      -- the dynamic type of a typed nil pointer is still *K
    match T.lookup k with
    | some ki => ki.ifaces.contains i
    | none => false
  | .node k _ _ =>
    match T.lookup k with
    | some ki => ki.ifaces.contains i
    | none => false

/-- `x.GetType()` -/
def typeOf (T : Table) (t : Tree) : NT :=
  match T.lookup (kindOf t) with
  | some ki => NT.ofGo ki.getType
  | none => .other

/-- value of an enumeration field on the wire: one byte -/
def Env.const (e : Env) (c : String) : Option Bytes := (e.E.lookup c).map fun n => [UInt8.ofNat n]

/-- `<field value> == <constant c>` for an enumeration field -/
def Env.is (e : Env) (v : Bytes) (c : String) : Bool := e.const c == some v

def symKindOf : NT → Option String
  | .string => some "StringSymbolNode"
  | .bool => some "BoolSymbolNode"
  | .int64 => some "Int64SymbolNode"
  | .float64 => some "Float64SymbolNode"
  | .datetime => some "DatetimeSymbolNode"
  | .anyType => some "AnyTypeSymbolNode"
  | .other => none

def symLeaf (k : String) (s : Bytes) : Tree := .node k [("symbol", s)] .none

/-- UntypedSymbolNode.TypeTransform -/
def transformSymbol (st : SymTab) (s : Bytes) : Except String Tree :=
  match st.getType s with
  | none => .error "unknown symbol"
  | some nt =>
    match symKindOf nt with
    | some k => .ok (symLeaf k s)
    | none => .error "unhandled symbol type"

/-- what is kept as it is: described by the table, nil only where the parser leaves it, no symbol -/
def constOk (T : Table) (t : Tree) : Bool :=
  shaped T t && nilOk t && (allSymbols T t).isEmpty && namesCovered T t

/-- `ToFloat64()` of the Int64Node kinds -/
def toFloat64 (t : Tree) : Tree :=
  match t with
  | .node "Int64ConstNode" [] .none => .node "Float64ConstNode" [] .none
  | .node "AnyTypeSymbolNode" strs kids => .node "AnyTypeSymbolNode" strs kids
  | t => .node "Int64ToFloat64Node" [] (.cons "wrapped" t .none)

def upperByte (b : UInt8) : UInt8 := if 97 ≤ b ∧ b ≤ 122 then b - 32 else b

def toUpperLabel : Bytes := [116, 111, 85, 112, 112, 101, 114]

/-- BinaryExprNode.toUpper: a string constant is upper-cased, anything else is wrapped
    (strings.ToUpper is modelled on ASCII; other constants are not modelled) -/
def toUpperNode (T : Table) (t : Tree) : Except String Tree :=
  match t with
  | .node "StringConstNode" [("value", v)] .none =>
    if v.all (· < 128) then .ok (.node "StringConstNode" [("value", v.map upperByte)] .none)
    else .error "unmodelled: strings.ToUpper beyond ASCII"
  | t =>
    if impl T t "SymbolNode" then .ok (.node "StringFuncNode" [("label", toUpperLabel)] (.cons "expr" t .none))
    else .error "unmodelled: toUpper of a constant that is not a string constant"

def bin2 (k : String) (strs : List (String × Bytes)) (l r : Tree) : Tree :=
  .node k strs (.cons "left" l (.cons "right" r .none))

def invalidOps : Except String Tree := .error "operation is not supported with operand types"

/-- BinaryExprNode.handleStringOps / handleCaseInsensitive -/
def handleStringOps (e : Env) (o : Bytes) (l r : Tree) : Except String Tree :=
  if impl e.T l "StringNode" && impl e.T r "StringNode" then
    if e.is o "BinaryOpIContains" || e.is o "BinaryOpNotIContains" then
      match toUpperNode e.T l, toUpperNode e.T r,
            e.const (if e.is o "BinaryOpNotIContains" then "BinaryOpNotContains" else "BinaryOpContains") with
      | .ok ul, .ok ur, some op => .ok (bin2 "BinaryStringExprNode" [("op", op)] ul ur)
      | _, _, _ => .error "unmodelled case-insensitive operand"
    else .ok (bin2 "BinaryStringExprNode" [("op", o)] l r)
  else invalidOps

/-- BinaryExprNode.getTypedExpr -/
def binaryTypedExpr (e : Env) (o : Bytes) (l r : Tree) : Except String Tree :=
  if kindOf r == "NullConstNode" then
    if impl e.T l "SymbolNode" && (e.is o "BinaryOpEQ" || e.is o "BinaryOpNEQ") then
      .ok (.node "IsNilExprNode" [("op", o)] (.cons "symbol" l .none))
    else invalidOps
  else if e.is o "BinaryOpContains" || e.is o "BinaryOpNotContains" then
    handleStringOps e o l r
  else
    match (if typeOf e.T l == .anyType then typeOf e.T r else typeOf e.T l) with
    | .bool =>
      if typeOf e.T r == .bool && (e.is o "BinaryOpEQ" || e.is o "BinaryOpNEQ") then
        if impl e.T l "BoolNode" && impl e.T r "BoolNode" then .ok (bin2 "BinaryBoolExprNode" [("op", o)] l r)
        else .error "panic: interface conversion in handleBoolOps"
      else invalidOps
    | .datetime =>
      if !impl e.T l "DatetimeNode" then .error "panic: interface conversion in handleDatetimeOps"
      else if typeOf e.T r == .datetime then
        if impl e.T r "DatetimeNode" then .ok (bin2 "BinaryDatetimeExprNode" [("op", o)] l r)
        else .error "panic: interface conversion in handleDatetimeOps"
      else invalidOps
    | .float64 =>
      if !impl e.T l "Float64Node" then .error "panic: interface conversion in handleFloat64Ops"
      else if typeOf e.T r == .float64 then
        if impl e.T r "Float64Node" then .ok (bin2 "BinaryFloat64ExprNode" [("op", o)] l r)
        else .error "panic: interface conversion in handleFloat64Ops"
      else if typeOf e.T r == .int64 then
        if impl e.T r "Int64Node" then .ok (bin2 "BinaryFloat64ExprNode" [("op", o)] l (toFloat64 r))
        else .error "panic: interface conversion in handleFloat64Ops"
      else invalidOps
    | .int64 =>
      if !impl e.T l "Int64Node" then .error "panic: interface conversion in handleInt64Ops"
      else if typeOf e.T r == .int64 then
        if impl e.T r "Int64Node" then .ok (bin2 "BinaryInt64ExprNode" [("op", o)] l r)
        else .error "panic: interface conversion in handleInt64Ops"
      else if typeOf e.T r == .float64 then
        if impl e.T r "Float64Node" then .ok (bin2 "BinaryFloat64ExprNode" [("op", o)] (toFloat64 l) r)
        else .error "panic: interface conversion in handleInt64Ops"
      else invalidOps
    | .string => handleStringOps e o l r
    | _ => invalidOps

/-- the elements of an array node, each under `ToFloat64()` -/
def kidsToFloat : Kids → Kids
  | .none => .none
  | .cons g t rest => .cons g (toFloat64 t) (kidsToFloat rest)

/-- a converted constant array: what the table describes, no symbol -/
def keptArray (T : Table) (arr : Tree) : Except String Tree :=
  if constOk T arr then .ok arr else .error "unmodelled array conversion"

/-- InArrayExprNode.getTypedExpr (every assertion there is comma-ok) -/
def inArrayTypedExpr (T : Table) (l r : Tree) : Except String Tree :=
  match r with
  | .node rk [] vals =>
    if impl T l "DatetimeNode" && rk == "DatetimeArrayNode" then .ok (bin2 "InDatetimeArrayExprNode" [] l r)
    else if impl T l "Int64Node" && rk == "Int64ArrayNode" then .ok (bin2 "InInt64ArrayExprNode" [] l r)
    else if impl T l "Int64Node" && rk == "Float64ArrayNode" then .ok (bin2 "InFloat64ArrayExprNode" [] (toFloat64 l) r)
    else if impl T l "Float64Node" && rk == "Int64ArrayNode" then
      -- rightIntArr.ToFloat64ArrayNode()
      match keptArray T (.node "Float64ArrayNode" [] (kidsToFloat vals)) with
      | .ok arr => .ok (bin2 "InFloat64ArrayExprNode" [] l arr)
      | .error m => .error m
    else if impl T l "Float64Node" && rk == "Float64ArrayNode" then .ok (bin2 "InFloat64ArrayExprNode" [] l r)
    else if impl T l "StringNode" && impl T r "AsStringArrayable" then
      -- rightStrArray.AsStringArray(): the same elements in a StringArrayNode
      match keptArray T (.node "StringArrayNode" [] vals) with
      | .ok arr => .ok (bin2 "InStringArrayExprNode" [] l arr)
      | .error m => .error m
    else .error "operation in is not supported with operand types"
  | _ => .error "operation in is not supported with operand types"

/-- `toFloat64Nodes`, one element -/
def asFloat64 (T : Table) (t : Tree) : Option Tree :=
  if impl T t "Int64Node" then some (toFloat64 t)
  else if impl T t "Float64Node" then some t
  else none

def bin3 (k : String) (a lo hi : Tree) : Tree :=
  .node k [] (.cons "left" a (.cons "lower" lo (.cons "upper" hi .none)))

/-- BetweenExprNode.getTypedExpr -/
def betweenTypedExpr (T : Table) (l lo hi : Tree) : Except String Tree :=
  if impl T l "DatetimeNode" && impl T lo "DatetimeNode" && impl T hi "DatetimeNode" then
    .ok (bin3 "DatetimeBetweenExprNode" l lo hi)
  else if impl T l "Int64Node" && impl T lo "Int64Node" && impl T hi "Int64Node" then
    .ok (bin3 "Int64BetweenExprNode" l lo hi)
  else
    match asFloat64 T l, asFloat64 T lo, asFloat64 T hi with
    | some a, some b, some c => .ok (bin3 "Float64BetweenExprNode" a b c)
    | _, _, _ => .error "operation between is not supported with operand types"

/-- `Symbol()` of a symbol node without children: the string field the table lists as holding the symbol -/
def symbolOf (T : Table) : Tree → Option Bytes
  | .node k strs .none =>
    match ownSymbols T k strs with
    | [s] => some s
    | _ => none
  | _ => none

/-- SetFunctionNode.MoveUpTree (specializeSetAnyOf stores the same predicate a second time in
    `seekablePredicate`, which is not a child: see `aliasFields`) -/
def moveUpTree (e : Env) (f : Bytes) (sym : Tree) (pred : Tree) : Except String Tree :=
  match symbolOf e.T sym with
  | some s =>
    if e.is f "SetFunctionAllOf" then
      .ok (.node "AllOfSetExprNode" [("name", s)] (.cons "predicate" pred .none))
    else if e.is f "SetFunctionAnyOf" then
      .ok (.node "AnyOfSetExprNode" [("name", s)] (.cons "predicate" pred .none))
    else .error "unhandled set function"
  | none => .error "unmodelled: set function over something that is not a plain symbol"

/-- the operand a comparison works on, and the set function (if any) that is hoisted above it:
    `node.left = setFunction.symbol` -/
def splitSetFunction (tl : Tree) : Tree × Option Bytes :=
  match tl with
  | .node "SetFunctionNode" [("setFunction", f)] (.cons "symbol" sym .none) => (sym, some f)
  | t => (t, none)

/-- `subQuery, ok := symbol.(*subQueryNode)`: (symbol, query), query nil if it is not one -/
def unpackSubQuery (ts : Tree) : Tree × Tree :=
  match ts with
  | .node "subQueryNode" [] (.cons "symbol" sy (.cons "query" q .none)) => (sy, q)
  | t => (t, .nil)

/-- SortByNode.TypeTransform / SortFieldNode.TypeTransform: every field's symbol, in place -/
def transformSortFields (st : SymTab) : Kids → Except String Kids
  | .none => .ok .none
  | .cons "SortFields" (.node "SortFieldNode" [] (.cons "symbol" (.node "UntypedSymbolNode" [("symbol", s)] .none) .none)) rest =>
    match transformSymbol st s, transformSortFields st rest with
    | .ok ts, .ok more => .ok (.cons "SortFields" (.node "SortFieldNode" [] (.cons "symbol" ts .none)) more)
    | .error m, _ => .error m
    | _, .error m => .error m
  | _ => .error "unmodelled sort field"

def transformSort (st : SymTab) : Tree → Except String Tree
  | .nil => .ok .nil
  | .node "SortByNode" [] fields =>
    match transformSortFields st fields with
    | .ok fs => .ok (.node "SortByNode" [] fs)
    | .error m => .error m
  | _ => .error "unmodelled sort clause"

/-- `Symbol()` of a node in symbol position of the untyped tree -/
def untypedSymbolName : Tree → Option Bytes
  | .node "UntypedSymbolNode" [("symbol", s)] .none => some s
  | _ => none

/- The methods, with the recursive call `transformTypes(s, &child)` as a parameter `rec`. -/

/-- SetFunctionNode.TypeTransform -/
def ttSetFunction (e : Env) (rec : SymTab → Tree → Except String Tree) (st : SymTab) (f : Bytes) (s : Tree) :
    Except String Tree :=
  match rec st s with
  | .error m => .error m
  | .ok ts =>
    if !impl e.T ts "SymbolNode" then .error "identifier symbol was transformed to non-identifier node"
    else if e.is f "SetFunctionAllOf" || e.is f "SetFunctionAnyOf" then
      .ok (.node "SetFunctionNode" [("setFunction", f)] (.cons "symbol" ts .none))
    else
      let sq := unpackSubQuery ts
      if e.is f "SetFunctionCount" then
        .ok (.node "CountSetExprNode" [] (.cons "symbol" sq.1 (.cons "query" sq.2 .none)))
      else if e.is f "SetFunctionIsEmpty" then
        .ok (.node "IsEmptySetExprNode" [] (.cons "symbol" sq.1 (.cons "query" sq.2 .none)))
      else .error "unhandled set function"

/-- UntypedSubQueryNode.TypeTransform -/
def ttSubQuery (e : Env) (rec : SymTab → Tree → Except String Tree) (st : SymTab) (s q : Tree) : Except String Tree :=
  match untypedSymbolName s with
  | none => .error "unmodelled: from symbol is not a plain symbol"
  | some name =>
    match transformSymbol st name, st.sub name with
    | .error m, _ => .error m
    | .ok _, none => .error "symbol for sub-query is not an entity type"
    | .ok ts, some sub =>
      match rec sub q with
      | .error m => .error m
      | .ok tq =>
        if !impl e.T ts "SymbolNode" then .error "from symbol must be an expr"
        else if !impl e.T tq "Query" then .error "from query must be a query instance"
        else .ok (.node "subQueryNode" [] (.cons "symbol" ts (.cons "query" tq .none)))

/-- BooleanLogicExprNode.TypeTransformBool -/
def ttLogic (e : Env) (rec : SymTab → Tree → Except String Tree) (st : SymTab) (o : Bytes) (l r : Tree) : Except String Tree :=
  match rec st l, rec st r with
  | .error m, _ => .error m
  | _, .error m => .error m
  | .ok tl, .ok tr =>
    if !impl e.T tl "BoolNode" then .error "boolean logic expression LHS is not bool"
    else if !impl e.T tr "BoolNode" then .error "boolean logic expression RHS is not bool"
    else if e.is o "AndOp" then .ok (bin2 "AndExprNode" [] tl tr)
    else if e.is o "OrOp" then .ok (bin2 "OrExprNode" [] tl tr)
    else .error "unsupported boolean logic expression operation"

/-- `node.left = setFunction.symbol`, getTypedExpr, `setFunction.MoveUpTree(typedExpr)` -/
def hoisted (e : Env) (tl : Tree) (typed : Tree → Except String Tree) : Except String Tree :=
  match splitSetFunction tl with
  | (sym, some f) =>
    match typed sym with
    | .ok ex => moveUpTree e f sym ex
    | .error m => .error m
  | (_, none) => typed tl

/-- BinaryExprNode.TypeTransformBool -/
def ttBinary (e : Env) (rec : SymTab → Tree → Except String Tree) (st : SymTab) (o : Bytes) (l r : Tree) : Except String Tree :=
  match rec st l, rec st r with
  | .error m, _ => .error m
  | _, .error m => .error m
  | .ok tl, .ok tr => hoisted e tl (fun x => binaryTypedExpr e o x tr)

/-- InArrayExprNode.TypeTransformBool -/
def ttInArray (e : Env) (rec : SymTab → Tree → Except String Tree) (st : SymTab) (l r : Tree) : Except String Tree :=
  match rec st l, rec st r with
  | .error m, _ => .error m
  | _, .error m => .error m
  | .ok tl, .ok tr => hoisted e tl (fun x => inArrayTypedExpr e.T x tr)

/-- BetweenExprNode.TypeTransformBool -/
def ttBetween (e : Env) (rec : SymTab → Tree → Except String Tree) (st : SymTab) (l lo hi : Tree) : Except String Tree :=
  match rec st l, rec st lo, rec st hi with
  | .error m, _, _ => .error m
  | _, .error m, _ => .error m
  | _, _, .error m => .error m
  | .ok tl, .ok tlo, .ok thi => hoisted e tl (fun x => betweenTypedExpr e.T x tlo thi)

/-- UntypedNotExprNode.TypeTransformBool -/
def ttUntypedNot (e : Env) (rec : SymTab → Tree → Except String Tree) (st : SymTab) (x : Tree) : Except String Tree :=
  match rec st x with
  | .error m => .error m
  | .ok tx =>
    if !impl e.T tx "BoolNode" then .error "not expr must wrap bool expr"
    else .ok (.node "NotExprNode" [] (.cons "expr" tx .none))

/-- NotExprNode.TypeTransformBool (the listener wraps `not in` / `not between` in it): transformBools on expr -/
def ttNot (e : Env) (rec : SymTab → Tree → Except String Tree) (st : SymTab) (x : Tree) : Except String Tree :=
  if impl e.T x "BoolTypeTransformable" && !impl e.T x "TypeTransformable" then
    match rec st x with
    | .error m => .error m
    | .ok tx => .ok (.node "NotExprNode" [] (.cons "expr" tx .none))
  else .error "unmodelled: NotExprNode over a node that is not BoolTypeTransformable"

/-- untypedQueryNode.TypeTransformBool -/
def ttQuery (e : Env) (rec : SymTab → Tree → Except String Tree) (st : SymTab) (p sb sk li : Tree) : Except String Tree :=
  match rec st p, transformSort st sb with
  | .error m, _ => .error m
  | _, .error m => .error m
  | .ok tp, .ok tsb =>
    if !impl e.T tp "BoolNode" then .error "query expr predicate must be a boolean expr"
    else if !(constOk e.T sk && constOk e.T li) then .error "unmodelled skip / limit node"
    else .ok (.node "queryNode" [] (.cons "Predicate" tp (.cons "SortBy" tsb (.cons "Skip" sk (.cons "Limit" li .none)))))

/-- neither TypeTransformable nor BoolTypeTransformable: kept -/
def ttKeep (e : Env) (u : Tree) : Except String Tree :=
  if impl e.T u "TypeTransformable" || impl e.T u "BoolTypeTransformable" then .error "unmodelled transformable node"
  else if !u.isNil && constOk e.T u then .ok u
  else .error "unmodelled constant"

/-- `transformTypes(s, &node)` for one node: TypeTransform, then TypeTransformBool -/
def transform (e : Env) : Nat → SymTab → Tree → Except String Tree
  | 0, _, _ => .error "depth bound"
  | n + 1, st, u =>
    match u with
    | .node "UntypedSymbolNode" [("symbol", s)] .none => transformSymbol st s
    | .node "SetFunctionNode" [("setFunction", f)] (.cons "symbol" s .none) => ttSetFunction e (transform e n) st f s
    | .node "UntypedSubQueryNode" [] (.cons "symbol" s (.cons "query" q .none)) => ttSubQuery e (transform e n) st s q
    | .node "BooleanLogicExprNode" [("op", o)] (.cons "left" l (.cons "right" r .none)) => ttLogic e (transform e n) st o l r
    | .node "BinaryExprNode" [("op", o)] (.cons "left" l (.cons "right" r .none)) => ttBinary e (transform e n) st o l r
    | .node "InArrayExprNode" [] (.cons "left" l (.cons "right" r .none)) => ttInArray e (transform e n) st l r
    | .node "BetweenExprNode" [] (.cons "left" l (.cons "lower" lo (.cons "upper" hi .none))) =>
      ttBetween e (transform e n) st l lo hi
    | .node "UntypedNotExprNode" [] (.cons "expr" x .none) => ttUntypedNot e (transform e n) st x
    | .node "NotExprNode" [] (.cons "expr" x .none) => ttNot e (transform e n) st x
    | .node "untypedQueryNode" [] (.cons "predicate" p (.cons "sortBy" sb (.cons "skip" sk (.cons "limit" li .none)))) =>
      ttQuery e (transform e n) st p sb sk li
    | u => ttKeep e u

end StorageModel.C20
