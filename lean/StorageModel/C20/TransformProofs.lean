import StorageModel.C20.Transform
/-
  C20 — what the typing transformation guarantees about the tree it builds.

  `transform_good`: for every table that passes the obligations `tableComplete` and
  `transformFacts` (both `decide`d on the regenerated table), every depth bound, every symbol-type
  table Σ and every untyped tree u:

      transform env n Σ u = .ok t  →  t ≠ nil  ∧  shaped T t  ∧  nilOk t  ∧  namesCovered T t  ∧
                                      t references exactly the symbols of u

  i.e. the hypotheses `Admissible` / `nilOk` of the traversal theorems are *consequences* for the
  tree the transformation builds, and the transformation neither drops nor invents a symbol.
-/
namespace StorageModel.C20
open StorageModel

/- ------------------------------------------------------------------------------ table facts -/

/-- node-level agreement of a node (its string/enumeration field names `fs`, its child labels `ls`)
    with the table: everything `shaped` asks of the node itself -/
def nodeFits (T : Table) (k : String) (fs ls : List String) : Bool :=
  match T.lookup k with
  | none => false
  | some ki =>
    fs.all (fun f => ki.strFields.contains f || ki.enumFields.contains f) &&
    ki.children.all (fun c => c.many || ls.count c.field == 1) &&
    ls.all (fun g => ki.children.any (fun c => c.field == g))

def typedSymbolKinds : List String :=
  ["StringSymbolNode", "BoolSymbolNode", "Int64SymbolNode", "Float64SymbolNode", "DatetimeSymbolNode", "AnyTypeSymbolNode"]

/-- the node shapes the transformation builds: (kind, string/enumeration fields, child labels) -/
def tfTemplates : List (String × List String × List String) :=
  (typedSymbolKinds.map fun k => (k, ["symbol"], [])) ++
  [("AndExprNode", [], ["left", "right"]), ("OrExprNode", [], ["left", "right"]), ("NotExprNode", [], ["expr"]),
   ("queryNode", [], ["Predicate", "SortBy", "Skip", "Limit"]), ("SortFieldNode", [], ["symbol"]),
   ("CountSetExprNode", [], ["symbol", "query"]), ("IsEmptySetExprNode", [], ["symbol", "query"]),
   ("subQueryNode", [], ["symbol", "query"]), ("SetFunctionNode", ["setFunction"], ["symbol"]),
   ("IsNilExprNode", ["op"], ["symbol"]),
   ("BinaryBoolExprNode", ["op"], ["left", "right"]), ("BinaryDatetimeExprNode", ["op"], ["left", "right"]),
   ("BinaryFloat64ExprNode", ["op"], ["left", "right"]), ("BinaryInt64ExprNode", ["op"], ["left", "right"]),
   ("BinaryStringExprNode", ["op"], ["left", "right"]),
   ("Int64ToFloat64Node", [], ["wrapped"]), ("StringFuncNode", ["label"], ["expr"]),
   ("Float64ConstNode", [], []), ("StringConstNode", ["value"], []),
   ("InDatetimeArrayExprNode", [], ["left", "right"]), ("InInt64ArrayExprNode", [], ["left", "right"]),
   ("InFloat64ArrayExprNode", [], ["left", "right"]), ("InStringArrayExprNode", [], ["left", "right"]),
   ("DatetimeBetweenExprNode", [], ["left", "lower", "upper"]), ("Int64BetweenExprNode", [], ["left", "lower", "upper"]),
   ("Float64BetweenExprNode", [], ["left", "lower", "upper"]),
   ("AllOfSetExprNode", ["name"], ["predicate"]), ("AnyOfSetExprNode", ["name"], ["predicate"])]

/-- kinds that hold no symbol in their own string fields (typed kinds built, untyped kinds consumed) -/
def plainKinds : List String :=
  ["AndExprNode", "OrExprNode", "NotExprNode", "queryNode", "SortByNode", "SortFieldNode", "CountSetExprNode",
   "IsEmptySetExprNode", "subQueryNode", "SetFunctionNode", "IsNilExprNode", "BinaryBoolExprNode", "BinaryDatetimeExprNode",
   "BinaryFloat64ExprNode", "BinaryInt64ExprNode", "BinaryStringExprNode", "Int64ToFloat64Node", "StringFuncNode",
   "Float64ConstNode", "StringConstNode", "InDatetimeArrayExprNode", "InInt64ArrayExprNode", "InFloat64ArrayExprNode",
   "InStringArrayExprNode", "DatetimeBetweenExprNode", "Int64BetweenExprNode", "Float64BetweenExprNode",
   "BinaryExprNode", "BooleanLogicExprNode", "InArrayExprNode", "BetweenExprNode", "UntypedNotExprNode",
   "UntypedSubQueryNode", "untypedQueryNode", "NullConstNode", "Int64ConstNode"]

/-- **Obligation on the regenerated table** for the typing transformation: every node shape it
    builds is one the table describes (fields exist, single-valued children exactly those it
    fills); the kinds it builds and consumes hold no symbol in their own strings, except the symbol
    kinds (which keep it in `symbol` and announce it); SortByNode has only slice children, one of
    them `SortFields`; NullConstNode has no children. -/
def transformFacts (T : Table) : Bool :=
  tfTemplates.all (fun tp => nodeFits T tp.1 tp.2.1 tp.2.2) &&
  plainKinds.all (fun k => match T.lookup k with
    | some ki => ki.symFields.isEmpty
    | none => true) &&
  ("UntypedSymbolNode" :: typedSymbolKinds).all (fun k => match T.lookup k with
    | some ki => ki.symFields == ["symbol"] && ki.steps.contains (.announce "symbol")
    | none => false) &&
  (match T.lookup "SortByNode" with
   | some ki => ki.children.all (·.many) && ki.children.any (fun c => c.field == "SortFields")
   | none => false) &&
  (match T.lookup "NullConstNode" with
   | some ki => ki.children.isEmpty
   | none => false)

/- --------------------------------------------------------------------------------- invariant -/

def SameSyms (a b : List Bytes) : Prop := ∀ s, s ∈ a ↔ s ∈ b

theorem SameSyms.refl (a : List Bytes) : SameSyms a a := fun _ => Iff.rfl
theorem SameSyms.trans {a b c : List Bytes} (h1 : SameSyms a b) (h2 : SameSyms b c) : SameSyms a c :=
  fun s => (h1 s).trans (h2 s)
theorem SameSyms.symm {a b : List Bytes} (h : SameSyms a b) : SameSyms b a := fun s => (h s).symm
theorem SameSyms.append {a b c d : List Bytes} (h1 : SameSyms a b) (h2 : SameSyms c d) : SameSyms (a ++ c) (b ++ d) := by
  intro s; simp only [List.mem_append, h1 s, h2 s]

/-- what a (sub)tree built by the transformation satisfies, relative to the symbols `src` of its source -/
structure GoodS (T : Table) (src : List Bytes) (t : Tree) : Prop where
  nonnil : t.isNil = false
  shaped : shaped T t = true
  nilok : nilOk t = true
  covered : namesCovered T t = true
  syms : SameSyms (allSymbols T t) src

/-- the same, allowing nil (an absent sort / skip / limit clause, an absent sub-query) -/
structure GoodN (T : Table) (src : List Bytes) (t : Tree) : Prop where
  shaped : shaped T t = true
  nilok : nilOk t = true
  covered : namesCovered T t = true
  syms : SameSyms (allSymbols T t) src

theorem GoodS.toN {T : Table} {src : List Bytes} {t : Tree} (h : GoodS T src t) : GoodN T src t :=
  ⟨h.shaped, h.nilok, h.covered, h.syms⟩

theorem GoodS.mono {T : Table} {a b : List Bytes} {t : Tree} (h : GoodS T a t) (hab : SameSyms a b) : GoodS T b t :=
  ⟨h.nonnil, h.shaped, h.nilok, h.covered, h.syms.trans hab⟩

theorem goodN_nil (T : Table) : GoodN T [] .nil :=
  ⟨by simp [C20.shaped], by simp [nilOk], by simp [namesCovered], by simp [allSymbols, SameSyms]⟩

/- ------------------------------------------------------------------------ generic node lemmas -/

def labels : Kids → List String
  | .none => []
  | .cons g _ rest => g :: labels rest

theorem countField_eq (f : String) : ∀ kids : Kids, countField f kids = (labels kids).count f
  | .none => by simp [countField, labels]
  | .cons g t rest => by
    simp only [countField, labels, List.count_cons, countField_eq f rest]
    by_cases h : g = f <;> simp [h, Nat.add_comm]

theorem shapedKids_of {T : Table} {ki : KindInfo} : ∀ (kids : Kids),
    (labels kids).all (fun g => ki.children.any (fun c => c.field == g)) = true →
    (∀ g t, (g, t) ∈ kids.toList → C20.shaped T t = true) → shapedKids T ki kids = true
  | .none, _, _ => by simp [shapedKids]
  | .cons g t rest, hl, hk => by
    simp only [labels, List.all_cons, Bool.and_eq_true] at hl
    simp only [shapedKids, Bool.and_eq_true]
    refine ⟨⟨hl.1, hk g t (by simp [Kids.toList])⟩, shapedKids_of rest hl.2 ?_⟩
    intro g' t' hm
    exact hk g' t' (by simp [Kids.toList, hm])

/-- a node that fits the table and whose children are shaped is shaped -/
theorem shaped_of_fits {T : Table} {k : String} {strs : List (String × Bytes)} {kids : Kids}
    (hf : nodeFits T k (strs.map (·.1)) (labels kids) = true)
    (hk : ∀ g t, (g, t) ∈ kids.toList → C20.shaped T t = true) : C20.shaped T (.node k strs kids) = true := by
  unfold nodeFits at hf
  rw [C20.shaped]
  cases hl : T.lookup k with
  | none => simp [hl] at hf
  | some ki =>
    simp only [hl, Bool.and_eq_true] at hf ⊢
    refine ⟨⟨?_, ?_⟩, shapedKids_of kids hf.2 hk⟩
    · have := hf.1.1
      simp only [List.all_map] at this
      exact this
    · have := hf.1.2
      simp only [List.all_eq_true] at this ⊢
      intro c hc
      have := this c hc
      rw [countField_eq]
      exact this

theorem fits_of_template {T : Table} (hF : transformFacts T = true) {k : String} {fs ls : List String}
    (hm : (k, fs, ls) ∈ tfTemplates) : nodeFits T k fs ls = true := by
  simp only [transformFacts, Bool.and_eq_true, List.all_eq_true] at hF
  exact hF.1.1.1.1 _ hm

theorem ownSymbols_nil (T : Table) (k : String) : ownSymbols T k [] = [] := by
  unfold ownSymbols; cases T.lookup k <;> rfl

theorem ownSymbols_plain {T : Table} (hF : transformFacts T = true) {k : String} (hk : k ∈ plainKinds)
    (strs : List (String × Bytes)) : ownSymbols T k strs = [] := by
  simp only [transformFacts, Bool.and_eq_true, List.all_eq_true] at hF
  have := hF.1.1.1.2 k hk
  unfold ownSymbols
  cases hl : T.lookup k with
  | none => rfl
  | some ki =>
    simp only [hl, List.isEmpty_iff] at this
    simp [this]

theorem symFacts {T : Table} (hF : transformFacts T = true) {k : String} (hk : k ∈ "UntypedSymbolNode" :: typedSymbolKinds) :
    ∃ ki, T.lookup k = some ki ∧ ki.symFields = ["symbol"] ∧ Step.announce "symbol" ∈ ki.steps := by
  simp only [transformFacts, Bool.and_eq_true, List.all_eq_true] at hF
  have := hF.1.1.2 k hk
  cases hl : T.lookup k with
  | none => simp [hl] at this
  | some ki =>
    simp only [hl, Bool.and_eq_true, beq_iff_eq, List.contains_iff_mem] at this
    exact ⟨ki, rfl, this.1, this.2⟩

theorem ownSymbols_sym {T : Table} (hF : transformFacts T = true) {k : String}
    (hk : k ∈ "UntypedSymbolNode" :: typedSymbolKinds) (s : Bytes) : ownSymbols T k [("symbol", s)] = [s] := by
  obtain ⟨ki, hl, hs, _⟩ := symFacts hF hk
  simp [ownSymbols, hl, hs]

/-- a typed symbol leaf -/
theorem good_symLeaf {T : Table} (hF : transformFacts T = true) {k : String} (hk : k ∈ typedSymbolKinds) (s : Bytes) :
    GoodS T [s] (symLeaf k s) := by
  have hk' : k ∈ "UntypedSymbolNode" :: typedSymbolKinds := List.mem_cons_of_mem _ hk
  obtain ⟨ki, hl, hs, ha⟩ := symFacts hF hk'
  refine ⟨rfl, ?_, by simp [symLeaf, nilOk, nilOkKids], ?_, ?_⟩
  · apply shaped_of_fits
    · exact fits_of_template hF (k := k) (fs := ["symbol"]) (ls := []) (by
        simp only [tfTemplates, List.mem_append, List.mem_map]
        exact Or.inl ⟨k, hk, rfl⟩)
    · intro g t hm; simp [Kids.toList] at hm
  · have : silentSyms ki = [] := by simp [silentSyms, hs, ha]
    simp [symLeaf, namesCovered, namesCoveredKids, hl, this]
  · simp [symLeaf, allSymbols, allSymbolsKids, ownSymbols_sym hF hk', SameSyms]

theorem constOk_good {T : Table} {t : Tree} (h : constOk T t = true) : GoodN T [] t := by
  simp only [constOk, Bool.and_eq_true, List.isEmpty_iff] at h
  exact ⟨h.1.1.1, h.1.1.2, h.2, by rw [h.1.2]; exact SameSyms.refl _⟩

theorem namesCovered_plain {T : Table} (hF : transformFacts T = true) {k : String} (hk : k ∈ plainKinds)
    (strs : List (String × Bytes)) (kids : Kids) :
    namesCovered T (.node k strs kids) = namesCoveredKids T kids := by
  simp only [transformFacts, Bool.and_eq_true, List.all_eq_true] at hF
  have := hF.1.1.1.2 k hk
  rw [namesCovered]
  cases hl : T.lookup k with
  | none => simp
  | some ki =>
    simp only [hl, List.isEmpty_iff] at this
    simp [silentSyms, this]

/-- unary node of a plain kind -/
theorem good_un {T : Table} (hF : transformFacts T = true) {k f : String} {strs : List (String × Bytes)}
    (hp : k ∈ plainKinds) (ht : (k, strs.map (·.1), [f]) ∈ tfTemplates) {src : List Bytes} {a : Tree} (ha : GoodS T src a) :
    GoodS T src (.node k strs (.cons f a .none)) := by
  refine ⟨rfl, ?_, ?_, ?_, ?_⟩
  · apply shaped_of_fits
    · exact fits_of_template hF ht
    · intro g t hm
      simp only [Kids.toList, List.mem_cons, Prod.mk.injEq, List.mem_nil_iff, or_false] at hm
      rw [hm.2]; exact ha.shaped
  · simp [nilOk, nilOkKids, ha.nonnil, ha.nilok]
  · rw [namesCovered_plain hF hp]; simp [namesCoveredKids, ha.covered]
  · intro s
    simp only [allSymbols, allSymbolsKids, ownSymbols_plain hF hp, List.nil_append, List.append_nil]
    exact ha.syms s

/-- binary node of a plain kind -/
theorem good_bin {T : Table} (hF : transformFacts T = true) {k f g : String} {strs : List (String × Bytes)}
    (hp : k ∈ plainKinds) (ht : (k, strs.map (·.1), [f, g]) ∈ tfTemplates) {s1 s2 : List Bytes} {a b : Tree}
    (ha : GoodS T s1 a) (hb : GoodS T s2 b) :
    GoodS T (s1 ++ s2) (.node k strs (.cons f a (.cons g b .none))) := by
  refine ⟨rfl, ?_, ?_, ?_, ?_⟩
  · apply shaped_of_fits
    · exact fits_of_template hF ht
    · intro g' t hm
      simp only [Kids.toList, List.mem_cons, Prod.mk.injEq, List.mem_nil_iff, or_false] at hm
      rcases hm with ⟨_, rfl⟩ | ⟨_, rfl⟩
      · exact ha.shaped
      · exact hb.shaped
  · simp [nilOk, nilOkKids, ha.nonnil, ha.nilok, hb.nonnil, hb.nilok]
  · rw [namesCovered_plain hF hp]; simp [namesCoveredKids, ha.covered, hb.covered]
  · intro s
    simp only [allSymbols, allSymbolsKids, ownSymbols_plain hF hp, List.nil_append, List.append_nil, List.mem_append,
      ha.syms s, hb.syms s]

/-- ternary node of a plain kind -/
theorem good_tern {T : Table} (hF : transformFacts T = true) {k f g h : String} {strs : List (String × Bytes)}
    (hp : k ∈ plainKinds) (ht : (k, strs.map (·.1), [f, g, h]) ∈ tfTemplates) {s1 s2 s3 : List Bytes} {a b c : Tree}
    (ha : GoodS T s1 a) (hb : GoodS T s2 b) (hc : GoodS T s3 c) :
    GoodS T (s1 ++ s2 ++ s3) (.node k strs (.cons f a (.cons g b (.cons h c .none)))) := by
  refine ⟨rfl, ?_, ?_, ?_, ?_⟩
  · apply shaped_of_fits
    · exact fits_of_template hF ht
    · intro g' t hm
      simp only [Kids.toList, List.mem_cons, Prod.mk.injEq, List.mem_nil_iff, or_false] at hm
      rcases hm with ⟨_, rfl⟩ | ⟨_, rfl⟩ | ⟨_, rfl⟩
      · exact ha.shaped
      · exact hb.shaped
      · exact hc.shaped
  · simp [nilOk, nilOkKids, ha.nonnil, ha.nilok, hb.nonnil, hb.nilok, hc.nonnil, hc.nilok]
  · rw [namesCovered_plain hF hp]; simp [namesCoveredKids, ha.covered, hb.covered, hc.covered]
  · intro s
    simp only [allSymbols, allSymbolsKids, ownSymbols_plain hF hp, List.nil_append, List.append_nil, List.mem_append,
      ha.syms s, hb.syms s, hc.syms s, or_assoc]

/- ------------------------------------------------------------------------- operand wrappers -/

theorem goodS_leaf_plain {T : Table} (hF : transformFacts T = true) {k : String} {strs : List (String × Bytes)}
    (hp : k ∈ plainKinds) (ht : (k, strs.map (·.1), []) ∈ tfTemplates) : GoodS T [] (.node k strs .none) := by
  refine ⟨rfl, ?_, by simp [nilOk, nilOkKids], ?_, ?_⟩
  · apply shaped_of_fits
    · exact fits_of_template hF ht
    · intro g t hm; simp [Kids.toList] at hm
  · rw [namesCovered_plain hF hp]; simp [namesCoveredKids]
  · simp [allSymbols, allSymbolsKids, ownSymbols_plain hF hp, SameSyms]

theorem good_toFloat64 {T : Table} (hF : transformFacts T = true) {src : List Bytes} {t : Tree} (h : GoodS T src t) :
    GoodS T src (toFloat64 t) := by
  unfold toFloat64
  split
  · -- Int64ConstNode ↦ Float64ConstNode: neither holds a symbol
    have hsrc : SameSyms [] src := by
      have := h.syms
      simpa [allSymbols, allSymbolsKids, ownSymbols_nil] using this
    exact (goodS_leaf_plain hF (k := "Float64ConstNode") (strs := []) (by simp [plainKinds]) (by simp [tfTemplates])).mono hsrc
  · exact h
  · exact good_un hF (k := "Int64ToFloat64Node") (strs := []) (by simp [plainKinds]) (by simp [tfTemplates]) h

theorem good_toUpper {T : Table} (hF : transformFacts T = true) {src : List Bytes} {t t' : Tree} (h : GoodS T src t)
    (hu : toUpperNode T t = .ok t') : GoodS T src t' := by
  unfold toUpperNode at hu
  split at hu
  · next v =>
    split at hu
    · cases hu
      have hsrc : SameSyms [] src := by
        have := h.syms
        simpa [allSymbols, allSymbolsKids, ownSymbols_plain hF (k := "StringConstNode") (by simp [plainKinds])] using this
      exact (goodS_leaf_plain hF (k := "StringConstNode") (strs := [("value", v.map upperByte)]) (by simp [plainKinds])
        (by simp [tfTemplates])).mono hsrc
    · cases hu
  · split at hu
    · cases hu
      exact good_un hF (k := "StringFuncNode") (strs := [("label", toUpperLabel)]) (by simp [plainKinds]) (by simp [tfTemplates]) h
    · cases hu

/-- a NullConstNode the table describes holds no symbol -/
theorem null_syms {T : Table} (hF : transformFacts T = true) {r : Tree} (hk : kindOf r = "NullConstNode")
    (hs : C20.shaped T r = true) : allSymbols T r = [] := by
  cases r with
  | nil => rfl
  | tnil k => rfl
  | node k strs kids =>
    simp only [kindOf] at hk; subst hk
    have hF' := hF
    simp only [transformFacts, Bool.and_eq_true] at hF'
    have hnull := hF'.2
    rw [C20.shaped] at hs
    cases hl : T.lookup "NullConstNode" with
    | none => simp [hl] at hs
    | some ki =>
      simp only [hl, Bool.and_eq_true, List.isEmpty_iff] at hs hnull
      cases kids with
      | none => simp [allSymbols, allSymbolsKids, ownSymbols_plain hF (k := "NullConstNode") (by simp [plainKinds])]
      | cons g t rest =>
        have := hs.2
        simp [shapedKids, hnull] at this

/- ------------------------------------------------------------------------------ getTypedExpr -/

theorem good_stringOps {e : Env} (hF : transformFacts e.T = true) {o : Bytes} {l r ex : Tree} {s1 s2 : List Bytes}
    (hl : GoodS e.T s1 l) (hr : GoodS e.T s2 r) (h : handleStringOps e o l r = .ok ex) : GoodS e.T (s1 ++ s2) ex := by
  unfold handleStringOps at h
  split at h
  · split at h
    · split at h
      · next ul ur op hul hur _ =>
        cases h
        exact good_bin hF (k := "BinaryStringExprNode") (strs := [("op", op)]) (by simp [plainKinds]) (by simp [tfTemplates])
          (good_toUpper hF hl hul) (good_toUpper hF hr hur)
      · cases h
    · cases h
      exact good_bin hF (k := "BinaryStringExprNode") (strs := [("op", o)]) (by simp [plainKinds]) (by simp [tfTemplates]) hl hr
  · cases h

theorem good_binary {e : Env} (hF : transformFacts e.T = true) {o : Bytes} {l r ex : Tree} {s1 s2 : List Bytes}
    (hl : GoodS e.T s1 l) (hr : GoodS e.T s2 r) (h : binaryTypedExpr e o l r = .ok ex) : GoodS e.T (s1 ++ s2) ex := by
  unfold binaryTypedExpr at h
  split at h
  · next hnull =>
    split at h
    · cases h
      have hk : kindOf r = "NullConstNode" := by simpa using hnull
      have hs2 : SameSyms s2 [] := by
        have := hr.syms
        rw [null_syms hF hk hr.shaped] at this
        exact this.symm
      have := good_un hF (k := "IsNilExprNode") (f := "symbol") (strs := [("op", o)]) (by simp [plainKinds]) (by simp [tfTemplates]) hl
      refine this.mono ?_
      intro s; simp only [List.mem_append, hs2 s, List.not_mem_nil, or_false]
    · cases h
  · split at h
    · exact good_stringOps hF hl hr h
    · split at h
      all_goals first
        | exact good_stringOps hF hl hr h
        | (repeat' (split at h)
           all_goals first
             | cases h
             | skip
           all_goals first
             | exact good_bin hF (strs := [("op", o)]) (by simp [plainKinds]) (by simp [tfTemplates]) hl hr
             | exact good_bin hF (strs := [("op", o)]) (by simp [plainKinds]) (by simp [tfTemplates]) (good_toFloat64 hF hl) hr
             | exact good_bin hF (strs := [("op", o)]) (by simp [plainKinds]) (by simp [tfTemplates]) hl (good_toFloat64 hF hr))

theorem toFloat64_syms {T : Table} (_hF : transformFacts T = true) (t : Tree) :
    SameSyms (allSymbols T (toFloat64 t)) (allSymbols T t) := by
  unfold toFloat64
  split
  · simp [allSymbols, allSymbolsKids, ownSymbols_nil, SameSyms]
  · exact SameSyms.refl _
  · simp [allSymbols, allSymbolsKids, ownSymbols_nil, SameSyms]

theorem kidsToFloat_syms {T : Table} (hF : transformFacts T = true) : ∀ kids : Kids,
    SameSyms (allSymbolsKids T (kidsToFloat kids)) (allSymbolsKids T kids)
  | .none => SameSyms.refl _
  | .cons g t rest => by
    simp only [kidsToFloat, allSymbolsKids]
    exact (toFloat64_syms hF t).append (kidsToFloat_syms hF rest)

theorem keptArray_good {T : Table} {arr t : Tree} {src : List Bytes} (h : keptArray T arr = .ok t)
    (hn : arr.isNil = false) (hs : SameSyms (allSymbols T arr) src) : GoodS T src t := by
  unfold keptArray at h
  split at h
  · next hc =>
    cases h
    have := constOk_good hc
    exact ⟨hn, this.shaped, this.nilok, this.covered, hs⟩
  · cases h

theorem good_inArray {T : Table} (hF : transformFacts T = true) {l r ex : Tree} {s1 s2 : List Bytes}
    (hl : GoodS T s1 l) (hr : GoodS T s2 r) (h : inArrayTypedExpr T l r = .ok ex) : GoodS T (s1 ++ s2) ex := by
  unfold inArrayTypedExpr at h
  split at h
  · next rk vals =>
    have hbin : ∀ {k : String} {a b : Tree}, k ∈ plainKinds → (k, [], ["left", "right"]) ∈ tfTemplates →
        GoodS T s1 a → GoodS T s2 b → GoodS T (s1 ++ s2) (bin2 k [] a b) :=
      fun hp ht ha hb => good_bin hF (strs := []) hp ht ha hb
    split at h
    · cases h; exact hbin (by simp [plainKinds]) (by simp [tfTemplates]) hl hr
    · split at h
      · cases h; exact hbin (by simp [plainKinds]) (by simp [tfTemplates]) hl hr
      · split at h
        · cases h; exact hbin (by simp [plainKinds]) (by simp [tfTemplates]) (good_toFloat64 hF hl) hr
        · split at h
          · split at h
            · next arr harr =>
              cases h
              have hsy : SameSyms (allSymbols T (.node "Float64ArrayNode" [] (kidsToFloat vals))) s2 := by
                have h1 := hr.syms
                simp only [allSymbols, ownSymbols_nil, List.nil_append] at h1 ⊢
                exact (kidsToFloat_syms hF vals).trans h1
              exact hbin (by simp [plainKinds]) (by simp [tfTemplates]) hl (keptArray_good harr rfl hsy)
            · cases h
          · split at h
            · cases h; exact hbin (by simp [plainKinds]) (by simp [tfTemplates]) hl hr
            · split at h
              · split at h
                · next arr harr =>
                  cases h
                  have hsy : SameSyms (allSymbols T (.node "StringArrayNode" [] vals)) s2 := by
                    have h1 := hr.syms
                    simp only [allSymbols, ownSymbols_nil, List.nil_append] at h1 ⊢
                    exact h1
                  exact hbin (by simp [plainKinds]) (by simp [tfTemplates]) hl (keptArray_good harr rfl hsy)
                · cases h
              · cases h
  · cases h

theorem good_asFloat64 {T : Table} (hF : transformFacts T = true) {t a : Tree} {src : List Bytes} (ht : GoodS T src t)
    (h : asFloat64 T t = some a) : GoodS T src a := by
  unfold asFloat64 at h
  split at h
  · cases h; exact good_toFloat64 hF ht
  · split at h
    · cases h; exact ht
    · cases h

theorem good_between {T : Table} (hF : transformFacts T = true) {l lo hi ex : Tree} {s1 s2 s3 : List Bytes}
    (hl : GoodS T s1 l) (hlo : GoodS T s2 lo) (hhi : GoodS T s3 hi) (h : betweenTypedExpr T l lo hi = .ok ex) :
    GoodS T (s1 ++ s2 ++ s3) ex := by
  unfold betweenTypedExpr at h
  split at h
  · cases h
    exact good_tern hF (k := "DatetimeBetweenExprNode") (strs := []) (by simp [plainKinds]) (by simp [tfTemplates]) hl hlo hhi
  · split at h
    · cases h
      exact good_tern hF (k := "Int64BetweenExprNode") (strs := []) (by simp [plainKinds]) (by simp [tfTemplates]) hl hlo hhi
    · split at h
      · next a b c ha hb hc =>
        cases h
        exact good_tern hF (k := "Float64BetweenExprNode") (strs := []) (by simp [plainKinds]) (by simp [tfTemplates])
          (good_asFloat64 hF hl ha) (good_asFloat64 hF hlo hb) (good_asFloat64 hF hhi hc)
      · cases h

/- ---------------------------------------------------------------------------------- hoisting -/

theorem symbolOf_mem {T : Table} {sym : Tree} {s : Bytes} (h : symbolOf T sym = some s) : s ∈ allSymbols T sym := by
  unfold symbolOf at h
  split at h
  · next k strs =>
    split at h
    · next s' heq =>
      cases h
      simp [allSymbols, heq]
    · cases h
  · cases h

/-- SetFunctionNode.MoveUpTree: the hoisted node carries the set symbol's name, which the
    comparison below it announces -/
theorem good_moveUp {e : Env} (hT : tableComplete e.T = true) (hF : transformFacts e.T = true) {f : Bytes}
    {sym ex t : Tree} {src : List Bytes} (hex : GoodS e.T src ex) (hsym : ∀ s, s ∈ allSymbols e.T sym → s ∈ src)
    (h : moveUpTree e f sym ex = .ok t) : GoodS e.T src t := by
  unfold moveUpTree at h
  split at h
  · next s hs =>
    have hmem : s ∈ src := hsym s (symbolOf_mem hs)
    have hvis : s ∈ visit e.T ex := all_sub_visit hT ex s hex.shaped hex.covered ((hex.syms s).mpr hmem)
    have key : ∀ kh : String, (kh, ["name"], ["predicate"]) ∈ tfTemplates →
        GoodS e.T src (.node kh [("name", s)] (.cons "predicate" ex .none)) := by
      intro kh ht
      refine ⟨rfl, ?_, ?_, ?_, ?_⟩
      · apply shaped_of_fits
        · exact fits_of_template hF ht
        · intro g t' hm
          simp only [Kids.toList, List.mem_cons, Prod.mk.injEq, List.mem_nil_iff, or_false] at hm
          rw [hm.2]; exact hex.shaped
      · simp [nilOk, nilOkKids, hex.nonnil, hex.nilok]
      · rw [namesCovered]
        simp only [namesCoveredKids, hex.covered, Bool.and_true]
        cases hl : e.T.lookup kh with
        | none => rfl
        | some ki =>
          simp only [List.all_eq_true, List.contains_iff_mem]
          intro fld _ v hv
          have := mem_fieldValues.mp hv
          simp only [List.mem_cons, Prod.mk.injEq, List.mem_nil_iff, or_false] at this
          rw [this.2]
          simp [visitKids, hvis]
      · intro x
        simp only [allSymbols, allSymbolsKids, List.append_nil, List.mem_append]
        constructor
        · rintro (hx | hx)
          · obtain ⟨ki, _, fld, _, hm⟩ := mem_ownSymbols.mp hx
            simp only [List.mem_cons, Prod.mk.injEq, List.mem_nil_iff, or_false] at hm
            rw [hm.2]; exact hmem
          · exact (hex.syms x).mp hx
        · intro hx; exact Or.inr ((hex.syms x).mpr hx)
    split at h
    · cases h; exact key _ (by simp [tfTemplates])
    · split at h
      · cases h; exact key _ (by simp [tfTemplates])
      · cases h
  · cases h

/-- the parts of a good unary node of a plain kind -/
theorem good_un_inv {T : Table} (hF : transformFacts T = true) {k f : String} {strs : List (String × Bytes)} {a : Tree}
    {src : List Bytes} (hp : k ∈ plainKinds) (hopt : optionalSlots.contains (k, f) = false)
    (h : GoodS T src (.node k strs (.cons f a .none))) : GoodS T src a := by
  have hki : ∃ ki, T.lookup k = some ki ∧ shapedKids T ki (.cons f a .none) = true := by
    have := h.shaped
    rw [C20.shaped] at this
    cases hl : T.lookup k with
    | none => simp [hl] at this
    | some ki =>
      simp only [hl, Bool.and_eq_true] at this
      exact ⟨ki, rfl, this.2⟩
  obtain ⟨ki, _, hk⟩ := hki
  have hn := h.nilok
  simp only [nilOk, nilOkKids, hopt, Bool.or_false, Bool.and_true, Bool.and_eq_true, Bool.not_eq_true'] at hn
  have hc := h.covered
  rw [namesCovered_plain hF hp] at hc
  simp only [namesCoveredKids, Bool.and_true] at hc
  refine ⟨hn.1, (shapedKids_mem hk (g := f) (t := a) (by simp [Kids.toList])).2, hn.2, hc, ?_⟩
  intro s
  have := h.syms s
  simpa [allSymbols, allSymbolsKids, ownSymbols_plain hF hp] using this

theorem good_hoisted {e : Env} (hT : tableComplete e.T = true) (hF : transformFacts e.T = true) {tl t : Tree}
    {typed : Tree → Except String Tree} {s1 s2 : List Bytes} (htl : GoodS e.T s1 tl)
    (htyped : ∀ x ex, GoodS e.T s1 x → typed x = .ok ex → GoodS e.T (s1 ++ s2) ex)
    (h : hoisted e tl typed = .ok t) : GoodS e.T (s1 ++ s2) t := by
  unfold hoisted at h
  split at h
  · next sym f hsplit =>
    have hshape : tl = .node "SetFunctionNode" [("setFunction", f)] (.cons "symbol" sym .none) := by
      unfold splitSetFunction at hsplit
      split at hsplit
      · simp only [Prod.mk.injEq, Option.some.injEq] at hsplit
        obtain ⟨rfl, rfl⟩ := hsplit; rfl
      · simp at hsplit
    rw [hshape] at htl
    have hsym := good_un_inv hF (k := "SetFunctionNode") (f := "symbol") (by simp [plainKinds]) (by decide) htl
    split at h
    · next ex hex =>
      refine good_moveUp hT hF (htyped sym ex hsym hex) ?_ h
      intro s hs
      exact List.mem_append_left _ ((hsym.syms s).mp hs)
    · cases h
  · exact htyped tl t htl h

/- ----------------------------------------------------------------------------- sort clauses -/

theorem transformSymbol_shape {st : SymTab} {s : Bytes} {ts : Tree} (h : transformSymbol st s = .ok ts) :
    ∃ k, k ∈ typedSymbolKinds ∧ ts = symLeaf k s := by
  unfold transformSymbol at h
  split at h
  · cases h
  · next nt _ =>
    split at h
    · next k hk =>
      cases h
      refine ⟨k, ?_, rfl⟩
      cases nt <;> simp [symKindOf] at hk <;> subst hk <;> simp [typedSymbolKinds]
    · cases h

theorem usym_syms {T : Table} (hF : transformFacts T = true) (s : Bytes) :
    allSymbols T (.node "UntypedSymbolNode" [("symbol", s)] .none) = [s] := by
  simp [allSymbols, allSymbolsKids, ownSymbols_sym hF (k := "UntypedSymbolNode") (by simp)]

theorem good_transformSymbol {T : Table} (hF : transformFacts T = true) {st : SymTab} {s : Bytes} {ts : Tree}
    (h : transformSymbol st s = .ok ts) : GoodS T (allSymbols T (.node "UntypedSymbolNode" [("symbol", s)] .none)) ts := by
  obtain ⟨k, hk, rfl⟩ := transformSymbol_shape h
  rw [usym_syms hF]
  exact good_symLeaf hF hk s

theorem sortFields_good {T : Table} (hF : transformFacts T = true) (st : SymTab) (ki : KindInfo)
    (hany : ki.children.any (fun c => c.field == "SortFields") = true) :
    ∀ (fields fs : Kids), transformSortFields st fields = .ok fs →
      shapedKids T ki fs = true ∧ nilOkKids "SortByNode" fs = true ∧ namesCoveredKids T fs = true ∧
        SameSyms (allSymbolsKids T fs) (allSymbolsKids T fields)
  | .none, fs, h => by
    simp only [transformSortFields] at h
    cases h
    exact ⟨rfl, rfl, rfl, SameSyms.refl _⟩
  | .cons g t rest, fs, h => by
    unfold transformSortFields at h
    split at h
    · next _ heq => cases heq
    · next _ s rest' heq =>
      simp only [Kids.cons.injEq] at heq
      obtain ⟨rfl, rfl, rfl⟩ := heq
      split at h
      · next ts more hts hmore =>
        cases h
        obtain ⟨h1, h2, h3, h4⟩ := sortFields_good hF st ki hany _ more hmore
        have hsym := good_transformSymbol (T := T) hF hts
        have hfield := good_un hF (k := "SortFieldNode") (f := "symbol") (strs := []) (by simp [plainKinds]) (by simp [tfTemplates]) hsym
        refine ⟨?_, ?_, ?_, ?_⟩
        · simp only [shapedKids, Bool.and_eq_true]
          exact ⟨⟨hany, hfield.shaped⟩, h1⟩
        · simp [nilOkKids, Tree.isNil, hfield.nilok, h2]
        · simp [namesCoveredKids, hfield.covered, h3]
        · simp only [allSymbolsKids]
          refine SameSyms.append ?_ h4
          refine hfield.syms.trans ?_
          intro x
          simp [allSymbols, allSymbolsKids, ownSymbols_nil]
      · cases h
      · cases h
    · cases h

theorem good_transformSort {T : Table} (hF : transformFacts T = true) {st : SymTab} {sb tsb : Tree}
    (h : transformSort st sb = .ok tsb) : GoodN T (allSymbols T sb) tsb := by
  unfold transformSort at h
  split at h
  · cases h; exact goodN_nil T
  · next fields =>
    split at h
    · next fs hfs =>
      cases h
      have hF' := hF
      simp only [transformFacts, Bool.and_eq_true] at hF'
      have hsort := hF'.1.2
      cases hl : T.lookup "SortByNode" with
      | none => simp [hl] at hsort
      | some ki =>
        simp only [hl, Bool.and_eq_true] at hsort
        obtain ⟨h1, h2, h3, h4⟩ := sortFields_good hF st ki hsort.2 fields fs hfs
        refine ⟨?_, ?_, ?_, ?_⟩
        · rw [C20.shaped]
          simp only [hl, List.all_nil, Bool.true_and, Bool.and_eq_true]
          refine ⟨?_, h1⟩
          have := hsort.1
          simp only [List.all_eq_true] at this ⊢
          intro c hc
          simp [this c hc]
        · simpa [nilOk] using h2
        · rw [namesCovered_plain hF (k := "SortByNode") (by simp [plainKinds])]; exact h3
        · intro x
          simp only [allSymbols, ownSymbols_nil, List.nil_append]
          exact h4 x
    · cases h
  · cases h

/- ------------------------------------------------------------------- the TypeTransform methods -/

/-- what the recursive call `transformTypes(s, &child)` is assumed to guarantee -/
def RecGood (T : Table) (rec : SymTab → Tree → Except String Tree) : Prop :=
  ∀ st u t, rec st u = .ok t → GoodS T (allSymbols T u) t

theorem good_bin_inv {T : Table} (hF : transformFacts T = true) {k f g : String} {strs : List (String × Bytes)} {a b : Tree}
    {src : List Bytes} (hp : k ∈ plainKinds) (hf : optionalSlots.contains (k, f) = false) (hg : optionalSlots.contains (k, g) = false)
    (h : GoodS T src (.node k strs (.cons f a (.cons g b .none)))) :
    GoodS T (allSymbols T a) a ∧ GoodS T (allSymbols T b) b ∧ SameSyms (allSymbols T a ++ allSymbols T b) src := by
  have hki : ∃ ki, T.lookup k = some ki ∧ shapedKids T ki (.cons f a (.cons g b .none)) = true := by
    have := h.shaped
    rw [C20.shaped] at this
    cases hl : T.lookup k with
    | none => simp [hl] at this
    | some ki =>
      simp only [hl, Bool.and_eq_true] at this
      exact ⟨ki, rfl, this.2⟩
  obtain ⟨ki, _, hk⟩ := hki
  have hn := h.nilok
  simp only [nilOk, nilOkKids, hf, hg, Bool.or_false, Bool.and_true, Bool.and_eq_true, Bool.not_eq_true'] at hn
  have hc := h.covered
  rw [namesCovered_plain hF hp] at hc
  simp only [namesCoveredKids, Bool.and_true, Bool.and_eq_true] at hc
  refine ⟨⟨hn.1.1, (shapedKids_mem hk (g := f) (t := a) (by simp [Kids.toList])).2, hn.1.2, hc.1, SameSyms.refl _⟩,
    ⟨hn.2.1, (shapedKids_mem hk (g := g) (t := b) (by simp [Kids.toList])).2, hn.2.2, hc.2, SameSyms.refl _⟩, ?_⟩
  intro s
  have := h.syms s
  simpa [allSymbols, allSymbolsKids, ownSymbols_plain hF hp] using this

/-- `symbol` + optional `query` (CountSetExprNode / IsEmptySetExprNode) -/
theorem good_symq {T : Table} (hF : transformFacts T = true) {k : String} (hp : k ∈ plainKinds)
    (ht : (k, [], ["symbol", "query"]) ∈ tfTemplates) (hopt : optionalSlots.contains (k, "query") = true)
    {s1 s2 : List Bytes} {a q : Tree} (ha : GoodS T s1 a) (hq : GoodN T s2 q) :
    GoodS T (s1 ++ s2) (.node k [] (.cons "symbol" a (.cons "query" q .none))) := by
  refine ⟨rfl, ?_, ?_, ?_, ?_⟩
  · apply shaped_of_fits
    · exact fits_of_template hF ht
    · intro g' t hm
      simp only [Kids.toList, List.mem_cons, Prod.mk.injEq, List.mem_nil_iff, or_false] at hm
      rcases hm with ⟨_, rfl⟩ | ⟨_, rfl⟩
      · exact ha.shaped
      · exact hq.shaped
  · have hopt' : (k, "query") ∈ optionalSlots := List.contains_iff_mem.mp hopt
    simp [nilOk, nilOkKids, ha.nonnil, ha.nilok, hq.nilok, hopt']
  · rw [namesCovered_plain hF hp]; simp [namesCoveredKids, ha.covered, hq.covered]
  · intro s
    simp only [allSymbols, allSymbolsKids, ownSymbols_nil, List.nil_append, List.append_nil, List.mem_append,
      ha.syms s, hq.syms s]

theorem good_unpack {T : Table} (hF : transformFacts T = true) {ts : Tree} {src : List Bytes} (h : GoodS T src ts) :
    ∃ s1 s2, GoodS T s1 (unpackSubQuery ts).1 ∧ GoodN T s2 (unpackSubQuery ts).2 ∧ SameSyms (s1 ++ s2) src := by
  unfold unpackSubQuery
  split
  · next sy q =>
    obtain ⟨h1, h2, h3⟩ := good_bin_inv hF (k := "subQueryNode") (by simp [plainKinds]) (by decide) (by decide) h
    exact ⟨_, _, h1, h2.toN, h3⟩
  · exact ⟨src, [], h, goodN_nil T, by intro s; simp⟩

theorem good_ttSetFunction {e : Env} (hF : transformFacts e.T = true) {rec : SymTab → Tree → Except String Tree}
    (hrec : RecGood e.T rec) {st : SymTab} {f : Bytes} {s t : Tree} (h : ttSetFunction e rec st f s = .ok t) :
    GoodS e.T (allSymbols e.T (.node "SetFunctionNode" [("setFunction", f)] (.cons "symbol" s .none))) t := by
  have hsrc : SameSyms (allSymbols e.T s)
      (allSymbols e.T (.node "SetFunctionNode" [("setFunction", f)] (.cons "symbol" s .none))) := by
    intro x; simp [allSymbols, allSymbolsKids, ownSymbols_plain hF (k := "SetFunctionNode") (by simp [plainKinds])]
  unfold ttSetFunction at h
  split at h
  · cases h
  · next ts hts =>
    have hg := hrec st s ts hts
    split at h
    · cases h
    · split at h
      · cases h
        exact (good_un hF (k := "SetFunctionNode") (f := "symbol") (strs := [("setFunction", f)]) (by simp [plainKinds])
          (by simp [tfTemplates]) hg).mono hsrc
      · obtain ⟨s1, s2, h1, h2, h3⟩ := good_unpack hF hg
        simp only at h
        split at h
        · cases h
          exact (good_symq hF (k := "CountSetExprNode") (by simp [plainKinds]) (by simp [tfTemplates]) (by decide) h1 h2).mono
            (h3.trans hsrc)
        · split at h
          · cases h
            exact (good_symq hF (k := "IsEmptySetExprNode") (by simp [plainKinds]) (by simp [tfTemplates]) (by decide) h1 h2).mono
              (h3.trans hsrc)
          · cases h

theorem untypedSymbolName_shape {s : Tree} {name : Bytes} (h : untypedSymbolName s = some name) :
    s = .node "UntypedSymbolNode" [("symbol", name)] .none := by
  unfold untypedSymbolName at h
  split at h
  · cases h; rfl
  · cases h

theorem good_ttSubQuery {e : Env} (hF : transformFacts e.T = true) {rec : SymTab → Tree → Except String Tree}
    (hrec : RecGood e.T rec) {st : SymTab} {s q t : Tree} (h : ttSubQuery e rec st s q = .ok t) :
    GoodS e.T (allSymbols e.T (.node "UntypedSubQueryNode" [] (.cons "symbol" s (.cons "query" q .none)))) t := by
  unfold ttSubQuery at h
  split at h
  · cases h
  · next name hname =>
    have hs := untypedSymbolName_shape hname
    split at h
    · cases h
    · cases h
    · next ts sub hts _ =>
      split at h
      · cases h
      · next tq htq =>
        split at h
        · cases h
        · split at h
          · cases h
          · cases h
            have h1 := good_transformSymbol (T := e.T) hF hts
            rw [← hs] at h1
            have h2 := hrec sub q tq htq
            refine (good_bin hF (k := "subQueryNode") (strs := []) (by simp [plainKinds]) (by simp [tfTemplates]) h1 h2).mono ?_
            intro x
            simp [allSymbols, allSymbolsKids, ownSymbols_nil]

theorem good_ttLogic {e : Env} (hF : transformFacts e.T = true) {rec : SymTab → Tree → Except String Tree}
    (hrec : RecGood e.T rec) {st : SymTab} {o : Bytes} {l r t : Tree} (h : ttLogic e rec st o l r = .ok t) :
    GoodS e.T (allSymbols e.T (.node "BooleanLogicExprNode" [("op", o)] (.cons "left" l (.cons "right" r .none)))) t := by
  have hsrc : SameSyms (allSymbols e.T l ++ allSymbols e.T r)
      (allSymbols e.T (.node "BooleanLogicExprNode" [("op", o)] (.cons "left" l (.cons "right" r .none)))) := by
    intro x; simp [allSymbols, allSymbolsKids, ownSymbols_plain hF (k := "BooleanLogicExprNode") (by simp [plainKinds])]
  unfold ttLogic at h
  split at h
  · cases h
  · cases h
  · next tl tr htl htr =>
    have h1 := hrec st l tl htl
    have h2 := hrec st r tr htr
    split at h
    · cases h
    · split at h
      · cases h
      · split at h
        · cases h
          exact (good_bin hF (k := "AndExprNode") (strs := []) (by simp [plainKinds]) (by simp [tfTemplates]) h1 h2).mono hsrc
        · split at h
          · cases h
            exact (good_bin hF (k := "OrExprNode") (strs := []) (by simp [plainKinds]) (by simp [tfTemplates]) h1 h2).mono hsrc
          · cases h

theorem good_ttBinary {e : Env} (hT : tableComplete e.T = true) (hF : transformFacts e.T = true)
    {rec : SymTab → Tree → Except String Tree} (hrec : RecGood e.T rec) {st : SymTab} {o : Bytes} {l r t : Tree}
    (h : ttBinary e rec st o l r = .ok t) :
    GoodS e.T (allSymbols e.T (.node "BinaryExprNode" [("op", o)] (.cons "left" l (.cons "right" r .none)))) t := by
  have hsrc : SameSyms (allSymbols e.T l ++ allSymbols e.T r)
      (allSymbols e.T (.node "BinaryExprNode" [("op", o)] (.cons "left" l (.cons "right" r .none)))) := by
    intro x; simp [allSymbols, allSymbolsKids, ownSymbols_plain hF (k := "BinaryExprNode") (by simp [plainKinds])]
  unfold ttBinary at h
  split at h
  · cases h
  · cases h
  · next tl tr htl htr =>
    have h1 := hrec st l tl htl
    have h2 := hrec st r tr htr
    exact (good_hoisted hT hF h1 (fun x ex hx hex => good_binary hF hx h2 hex) h).mono hsrc

theorem good_ttInArray {e : Env} (hT : tableComplete e.T = true) (hF : transformFacts e.T = true)
    {rec : SymTab → Tree → Except String Tree} (hrec : RecGood e.T rec) {st : SymTab} {l r t : Tree}
    (h : ttInArray e rec st l r = .ok t) :
    GoodS e.T (allSymbols e.T (.node "InArrayExprNode" [] (.cons "left" l (.cons "right" r .none)))) t := by
  have hsrc : SameSyms (allSymbols e.T l ++ allSymbols e.T r)
      (allSymbols e.T (.node "InArrayExprNode" [] (.cons "left" l (.cons "right" r .none)))) := by
    intro x; simp [allSymbols, allSymbolsKids, ownSymbols_nil]
  unfold ttInArray at h
  split at h
  · cases h
  · cases h
  · next tl tr htl htr =>
    have h1 := hrec st l tl htl
    have h2 := hrec st r tr htr
    exact (good_hoisted hT hF h1 (fun x ex hx hex => good_inArray hF hx h2 hex) h).mono hsrc

theorem good_ttBetween {e : Env} (hT : tableComplete e.T = true) (hF : transformFacts e.T = true)
    {rec : SymTab → Tree → Except String Tree} (hrec : RecGood e.T rec) {st : SymTab} {l lo hi t : Tree}
    (h : ttBetween e rec st l lo hi = .ok t) :
    GoodS e.T (allSymbols e.T (.node "BetweenExprNode" [] (.cons "left" l (.cons "lower" lo (.cons "upper" hi .none))))) t := by
  have hsrc : SameSyms (allSymbols e.T l ++ (allSymbols e.T lo ++ allSymbols e.T hi))
      (allSymbols e.T (.node "BetweenExprNode" [] (.cons "left" l (.cons "lower" lo (.cons "upper" hi .none))))) := by
    intro x; simp [allSymbols, allSymbolsKids, ownSymbols_nil]
  unfold ttBetween at h
  split at h
  · cases h
  · cases h
  · cases h
  · next tl tlo thi htl htlo hthi =>
    have h1 := hrec st l tl htl
    have h2 := hrec st lo tlo htlo
    have h3 := hrec st hi thi hthi
    refine (good_hoisted hT hF (s2 := allSymbols e.T lo ++ allSymbols e.T hi) h1 (fun x ex hx hex => ?_) h).mono hsrc
    refine (good_between hF hx h2 h3 hex).mono ?_
    intro y; simp [List.mem_append]

theorem good_ttUntypedNot {e : Env} (hF : transformFacts e.T = true) {rec : SymTab → Tree → Except String Tree}
    (hrec : RecGood e.T rec) {st : SymTab} {x t : Tree} (h : ttUntypedNot e rec st x = .ok t) :
    GoodS e.T (allSymbols e.T (.node "UntypedNotExprNode" [] (.cons "expr" x .none))) t := by
  unfold ttUntypedNot at h
  split at h
  · cases h
  · next tx htx =>
    split at h
    · cases h
    · cases h
      refine (good_un hF (k := "NotExprNode") (f := "expr") (strs := []) (by simp [plainKinds]) (by simp [tfTemplates])
        (hrec st x tx htx)).mono ?_
      intro y; simp [allSymbols, allSymbolsKids, ownSymbols_nil]

theorem good_ttNot {e : Env} (hF : transformFacts e.T = true) {rec : SymTab → Tree → Except String Tree}
    (hrec : RecGood e.T rec) {st : SymTab} {x t : Tree} (h : ttNot e rec st x = .ok t) :
    GoodS e.T (allSymbols e.T (.node "NotExprNode" [] (.cons "expr" x .none))) t := by
  unfold ttNot at h
  split at h
  · split at h
    · cases h
    · next tx htx =>
      cases h
      refine (good_un hF (k := "NotExprNode") (f := "expr") (strs := []) (by simp [plainKinds]) (by simp [tfTemplates])
        (hrec st x tx htx)).mono ?_
      intro y; simp [allSymbols, allSymbolsKids, ownSymbols_nil]
  · cases h

theorem good_ttQuery {e : Env} (hF : transformFacts e.T = true) {rec : SymTab → Tree → Except String Tree}
    (hrec : RecGood e.T rec) {st : SymTab} {p sb sk li t : Tree} (h : ttQuery e rec st p sb sk li = .ok t) :
    GoodS e.T (allSymbols e.T (.node "untypedQueryNode" []
      (.cons "predicate" p (.cons "sortBy" sb (.cons "skip" sk (.cons "limit" li .none)))))) t := by
  unfold ttQuery at h
  split at h
  · cases h
  · cases h
  · next tp tsb htp htsb =>
    have h1 := hrec st p tp htp
    have h2 := good_transformSort (T := e.T) hF htsb
    split at h
    · cases h
    · split at h
      · cases h
      · next hc =>
        cases h
        simp only [Bool.not_eq_true, Bool.not_eq_false', Bool.and_eq_true] at hc
        have h3 := constOk_good hc.1
        have h4 := constOk_good hc.2
        refine ⟨rfl, ?_, ?_, ?_, ?_⟩
        · apply shaped_of_fits
          · exact fits_of_template hF (k := "queryNode") (fs := []) (ls := ["Predicate", "SortBy", "Skip", "Limit"]) (by simp [tfTemplates])
          · intro g' t' hm
            simp only [Kids.toList, List.mem_cons, Prod.mk.injEq, List.mem_nil_iff, or_false] at hm
            rcases hm with ⟨_, rfl⟩ | ⟨_, rfl⟩ | ⟨_, rfl⟩ | ⟨_, rfl⟩
            · exact h1.shaped
            · exact h2.shaped
            · exact h3.shaped
            · exact h4.shaped
        · have o1 : ("queryNode", "SortBy") ∈ optionalSlots := by decide
          have o2 : ("queryNode", "Skip") ∈ optionalSlots := by decide
          have o3 : ("queryNode", "Limit") ∈ optionalSlots := by decide
          simp [nilOk, nilOkKids, h1.nonnil, h1.nilok, h2.nilok, h3.nilok, h4.nilok, o1, o2, o3]
        · rw [namesCovered_plain hF (k := "queryNode") (by simp [plainKinds])]
          simp [namesCoveredKids, h1.covered, h2.covered, h3.covered, h4.covered]
        · intro x
          have e3 : allSymbols e.T sk = [] := by
            have := hc.1; simp only [constOk, Bool.and_eq_true, List.isEmpty_iff] at this; exact this.1.2
          have e4 : allSymbols e.T li = [] := by
            have := hc.2; simp only [constOk, Bool.and_eq_true, List.isEmpty_iff] at this; exact this.1.2
          simp only [allSymbols, allSymbolsKids, ownSymbols_nil, List.nil_append, List.append_nil, List.mem_append,
            h1.syms x, h2.syms x, e3, e4]

theorem good_ttKeep {e : Env} {u t : Tree} (h : ttKeep e u = .ok t) : GoodS e.T (allSymbols e.T u) t := by
  unfold ttKeep at h
  split at h
  · cases h
  · split at h
    · next hc =>
      cases h
      simp only [Bool.and_eq_true, Bool.not_eq_true'] at hc
      have := constOk_good hc.2
      exact ⟨hc.1, this.shaped, this.nilok, this.covered, SameSyms.refl _⟩
    · cases h

/-- **The typing transformation builds a tree that the table describes, with nil children only
    where the parser leaves them, every hoisted set-function name announced below its node, and
    exactly the symbols of the untyped tree** — for every depth bound, symbol-type table and input. -/
theorem transform_good (e : Env) (hT : tableComplete e.T = true) (hF : transformFacts e.T = true) :
    ∀ (n : Nat) (st : SymTab) (u t : Tree), transform e n st u = .ok t → GoodS e.T (allSymbols e.T u) t
  | 0, _, _, _, h => by simp [transform] at h
  | n + 1, st, u, t, h => by
    have hrec : RecGood e.T (transform e n) := fun st u t h => transform_good e hT hF n st u t h
    unfold transform at h
    split at h
    · exact good_transformSymbol hF h
    · exact good_ttSetFunction hF hrec h
    · exact good_ttSubQuery hF hrec h
    · exact good_ttLogic hF hrec h
    · exact good_ttBinary hT hF hrec h
    · exact good_ttInArray hT hF hrec h
    · exact good_ttBetween hT hF hrec h
    · exact good_ttUntypedNot hF hrec h
    · exact good_ttNot hF hrec h
    · exact good_ttQuery hF hrec h
    · exact good_ttKeep h

end StorageModel.C20
