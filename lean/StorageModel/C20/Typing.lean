import StorageModel.C20.Lemmas
/-
  C20 — the typing transformation (ast/node_convert.go, node_query.go, node_symbol.go), as a
  relation between the untyped tree the parse listener builds and the typed query, at the
  level of detail that matters for C20: where the nodes of the untyped tree end up.

  `Typing T u t` over-approximates `transformTypes / transformBools`: one constructor per
  shape of `return` in the TypeTransform* methods; which typed kind is chosen (by symbol type)
  is left open, where the operands go is not.  The driver evaluates the decidable checker
  `isTyping` on (real untyped tree, real typed tree) of every parsed case.

  Proved for every derivation: the typed tree references exactly the symbols of the untyped
  tree (`typing_symbols`) and every set-function name hoisted above its comparison is announced
  below it (`typing_namesCovered`).
-/
namespace StorageModel.C20
open StorageModel

def leaf (k : String) (strs : List (String × Bytes)) : Tree := .node k strs .none
def un (k f : String) (a : Tree) : Tree := .node k [] (.cons f a .none)
def bin (k f g : String) (a b : Tree) : Tree := .node k [] (.cons f a (.cons g b .none))

def typedSymbolKinds : List String :=
  ["StringSymbolNode", "BoolSymbolNode", "Int64SymbolNode", "Float64SymbolNode", "DatetimeSymbolNode", "AnyTypeSymbolNode"]

def usym (s : Bytes) : Tree := leaf "UntypedSymbolNode" [("symbol", s)]
def tsym (k : String) (s : Bytes) : Tree := leaf k [("symbol", s)]

/-- `y` is `x`, or `x` under `Int64Node.ToFloat64()` (Int64ToFloat64Node{x}) or under
    `BinaryExprNode.toUpper` (StringFuncNode{expr: x}) -/
inductive Wrap : Tree → Tree → Prop
  | id (x : Tree) : Wrap x x
  | toFloat (x : Tree) : Wrap x (un "Int64ToFloat64Node" "wrapped" x)
  | toUpper (x : Tree) (l : Bytes) : Wrap x (.node "StringFuncNode" [("label", l)] (.cons "expr" x .none))

/-- the `SortFields` slice, element by element -/
inductive SortFieldsTyping : Kids → Kids → Prop
  | nil : SortFieldsTyping .none .none
  | cons (s : Bytes) (k : String) (us ts : Kids) : k ∈ typedSymbolKinds → SortFieldsTyping us ts →
      SortFieldsTyping (.cons "SortFields" (un "SortFieldNode" "symbol" (usym s)) us)
                       (.cons "SortFields" (un "SortFieldNode" "symbol" (tsym k s)) ts)

/-- sort clause: absent stays absent; `SortFieldNode.TypeTransform` types the symbol in place -/
inductive SortTyping : Tree → Tree → Prop
  | absent : SortTyping .nil .nil
  | fields (us ts : Kids) : SortFieldsTyping us ts → SortTyping (.node "SortByNode" [] us) (.node "SortByNode" [] ts)
inductive Typing (T : Table) : Tree → Tree → Prop
  /-- UntypedSymbolNode.TypeTransform -/
  | sym (s : Bytes) (k : String) : k ∈ typedSymbolKinds → Typing T (usym s) (tsym k s)
  /-- constants and arrays of constants: untouched or converted (ToFloat64, upper-casing, AsStringArray) -/
  | const (c c' : Tree) : allSymbols T c = [] → allSymbols T c' = [] → namesCovered T c' = true → Typing T c c'
  /-- BooleanLogicExprNode.TypeTransformBool -/
  | logic (k' : String) (l r l' r' : Tree) : k' ∈ ["AndExprNode", "OrExprNode"] → Typing T l l' → Typing T r r' →
      Typing T (bin "BooleanLogicExprNode" "left" "right" l r) (bin k' "left" "right" l' r')
  /-- UntypedNotExprNode.TypeTransformBool, NotExprNode.TypeTransformBool (not in / not between) -/
  | neg (k : String) (e e' : Tree) : k ∈ ["UntypedNotExprNode", "NotExprNode"] → Typing T e e' →
      Typing T (un k "expr" e) (un "NotExprNode" "expr" e')
  /-- untypedQueryNode.TypeTransformBool -/
  | query (p p' sb sb' sk li sk' li' : Tree) : Typing T p p' → SortTyping sb sb' →
      allSymbols T sk = [] → allSymbols T li = [] → allSymbols T sk' = [] → allSymbols T li' = [] →
      namesCovered T sk' = true → namesCovered T li' = true →
      Typing T (.node "untypedQueryNode" [] (.cons "predicate" p (.cons "sortBy" sb (.cons "skip" sk (.cons "limit" li .none)))))
               (.node "queryNode" [] (.cons "Predicate" p' (.cons "SortBy" sb' (.cons "Skip" sk' (.cons "Limit" li' .none)))))
  /-- SetFunctionNode.TypeTransform, count / isEmpty of a set symbol -/
  | count (k' : String) (s : Bytes) (k : String) : k' ∈ ["CountSetExprNode", "IsEmptySetExprNode"] → k ∈ typedSymbolKinds →
      Typing T (un "SetFunctionNode" "symbol" (usym s)) (bin k' "symbol" "query" (tsym k s) .nil)
  /-- … of a sub-query (UntypedSubQueryNode.TypeTransform, then unpacked into symbol + query) -/
  | countSub (k' : String) (s : Bytes) (k : String) (q q' : Tree) : k' ∈ ["CountSetExprNode", "IsEmptySetExprNode"] →
      k ∈ typedSymbolKinds → Typing T q q' →
      Typing T (un "SetFunctionNode" "symbol" (bin "UntypedSubQueryNode" "symbol" "query" (usym s) q))
               (bin k' "symbol" "query" (tsym k s) q')
  /-- BinaryExprNode / InArrayExprNode / BetweenExprNode .getTypedExpr: the left operand (typed,
      possibly wrapped) becomes the `left` (or, for `= null`, the `symbol`) child of the typed
      comparison; the other operands are constants -/
  | cmp (ku kt lf : String) (L L' Lw : Tree) (restU restT : Kids) :
      ku ∈ ["BinaryExprNode", "InArrayExprNode", "BetweenExprNode"] → lf ∈ ["left", "symbol"] →
      Typing T L L' → Wrap L' Lw → allSymbolsKids T restU = [] → allSymbolsKids T restT = [] →
      namesCoveredKids T restT = true →
      Typing T (.node ku [] (.cons "left" L restU)) (.node kt [] (.cons lf Lw restT))
  /-- SetFunctionNode.MoveUpTree: `node.left = setFunction.symbol` (the typed set symbol), the
      comparison is typed as above, then wrapped into AllOfSetExprNode / AnyOfSetExprNode carrying
      the symbol's name -/
  | hoist (kh ku kt lf : String) (s : Bytes) (k : String) (Lw : Tree) (restU restT : Kids) :
      kh ∈ ["AllOfSetExprNode", "AnyOfSetExprNode"] → ku ∈ ["BinaryExprNode", "InArrayExprNode", "BetweenExprNode"] →
      lf ∈ ["left", "symbol"] → k ∈ typedSymbolKinds → Wrap (tsym k s) Lw →
      allSymbolsKids T restU = [] → allSymbolsKids T restT = [] → namesCoveredKids T restT = true →
      Typing T (.node ku [] (.cons "left" (un "SetFunctionNode" "symbol" (usym s)) restU))
               (.node kh [("name", s)] (.cons "predicate" (.node kt [] (.cons lf Lw restT)) .none))

/-- what the proofs need to know about the kinds named above, as a check on the table -/
def typingFacts (T : Table) : Bool :=
  ("UntypedSymbolNode" :: typedSymbolKinds).all (fun k =>
    match T.lookup k with
    | some ki => ki.symFields == ["symbol"] && ki.steps.contains (.announce "symbol")
    | none => false) &&
  (match T.lookup "StringFuncNode" with
   | some ki => ki.symFields.isEmpty
   | none => false)

theorem ownSymbols_nil (T : Table) (k : String) : ownSymbols T k [] = [] := by
  unfold ownSymbols; cases T.lookup k <;> rfl

theorem typingFacts_sym {T : Table} (h : typingFacts T = true) {k : String} (hk : k ∈ "UntypedSymbolNode" :: typedSymbolKinds) :
    ∃ ki, T.lookup k = some ki ∧ ki.symFields = ["symbol"] ∧ Step.announce "symbol" ∈ ki.steps := by
  simp only [typingFacts, Bool.and_eq_true, List.all_eq_true] at h
  have := h.1 k hk
  cases hl : T.lookup k with
  | none => simp [hl] at this
  | some ki =>
    simp only [hl, Bool.and_eq_true, beq_iff_eq, List.contains_iff_mem] at this
    exact ⟨ki, rfl, this.1, this.2⟩

theorem ownSymbols_sym {T : Table} (h : typingFacts T = true) {k : String}
    (hk : k ∈ "UntypedSymbolNode" :: typedSymbolKinds) (s : Bytes) :
    ownSymbols T k [("symbol", s)] = [s] := by
  obtain ⟨ki, hl, hs, _⟩ := typingFacts_sym h hk
  simp [ownSymbols, hl, hs]

theorem allSymbols_symleaf {T : Table} (h : typingFacts T = true) {k : String}
    (hk : k ∈ "UntypedSymbolNode" :: typedSymbolKinds) (s : Bytes) :
    allSymbols T (leaf k [("symbol", s)]) = [s] := by
  obtain ⟨ki, hl, hs, _⟩ := typingFacts_sym h hk
  simp [leaf, allSymbols, allSymbolsKids, ownSymbols, hl, hs]

theorem allSymbols_stringFunc {T : Table} (h : typingFacts T = true) (l : Bytes) (x : Tree) :
    allSymbols T (.node "StringFuncNode" [("label", l)] (.cons "expr" x .none)) = allSymbols T x := by
  simp only [typingFacts, Bool.and_eq_true] at h
  cases hl : T.lookup "StringFuncNode" with
  | none => simp [hl] at h
  | some ki =>
    have : ki.symFields = [] := by simpa [hl] using h.2
    simp [allSymbols, allSymbolsKids, ownSymbols, hl, this]

theorem wrap_symbols {T : Table} (h : typingFacts T = true) {x y : Tree} (w : Wrap x y) :
    allSymbols T y = allSymbols T x := by
  cases w with
  | id => rfl
  | toFloat => simp [un, allSymbols, allSymbolsKids, ownSymbols_nil]
  | toUpper l => exact allSymbols_stringFunc h l x

theorem sortFields_symbols {T : Table} (h : typingFacts T = true) {us ts : Kids} (st : SortFieldsTyping us ts) :
    allSymbolsKids T ts = allSymbolsKids T us := by
  induction st with
  | nil => rfl
  | cons s k us ts hk _ ih =>
    have h1 := ownSymbols_sym h (List.mem_cons_of_mem _ hk) s
    have h2 := ownSymbols_sym h (List.mem_cons_self (a := "UntypedSymbolNode") (l := typedSymbolKinds)) s
    simp [allSymbolsKids, un, tsym, usym, leaf, allSymbols, ownSymbols_nil, h1, h2, ih]

theorem sort_symbols {T : Table} (h : typingFacts T = true) {sb sb' : Tree} (st : SortTyping sb sb') :
    allSymbols T sb' = allSymbols T sb := by
  cases st with
  | absent => rfl
  | fields us ts hf => simp [allSymbols, ownSymbols_nil, sortFields_symbols h hf]

/-- **The typing transformation neither drops nor invents a symbol.** -/
theorem typing_symbols {T : Table} (h : typingFacts T = true) {u t : Tree} (ty : Typing T u t) :
    ∀ s, s ∈ allSymbols T t ↔ s ∈ allSymbols T u := by
  induction ty with
  | sym s k hk =>
    intro x
    rw [tsym, usym, allSymbols_symleaf h (List.mem_cons_of_mem _ hk), allSymbols_symleaf h (List.mem_cons_self ..)]
  | const c c' h1 h2 _ => intro x; rw [h1, h2]
  | logic k' l r l' r' _ _ _ ihl ihr =>
    intro x
    simp only [bin, allSymbols, allSymbolsKids, ownSymbols_nil, List.nil_append, List.append_nil, List.mem_append, ihl x, ihr x]
  | neg k e e' _ _ ih =>
    intro x
    simp only [un, allSymbols, allSymbolsKids, ownSymbols_nil, List.nil_append, List.append_nil, ih x]
  | query p p' sb sb' sk li sk' li' _ hs h1 h2 h3 h4 _ _ ih =>
    intro x
    simp only [allSymbols, allSymbolsKids, ownSymbols_nil, List.nil_append, List.append_nil, List.mem_append, ih x,
      sort_symbols h hs, h1, h2, h3, h4]
  | count k' s k _ hk =>
    intro x
    have h1 := ownSymbols_sym h (List.mem_cons_of_mem _ hk) s
    have h2 := ownSymbols_sym h (List.mem_cons_self (a := "UntypedSymbolNode") (l := typedSymbolKinds)) s
    simp [bin, un, tsym, usym, leaf, allSymbols, allSymbolsKids, ownSymbols_nil, h1, h2]
  | countSub k' s k q q' _ hk _ ih =>
    intro x
    have h1 := ownSymbols_sym h (List.mem_cons_of_mem _ hk) s
    have h2 := ownSymbols_sym h (List.mem_cons_self (a := "UntypedSymbolNode") (l := typedSymbolKinds)) s
    simp [bin, un, tsym, usym, leaf, allSymbols, allSymbolsKids, ownSymbols_nil, h1, h2, ih x]
  | cmp ku kt lf L L' Lw restU restT _ _ _ w hu ht _ ih =>
    intro x
    simp only [allSymbols, allSymbolsKids, ownSymbols_nil, List.nil_append, List.mem_append, hu, ht, wrap_symbols h w, ih x]
  | hoist kh ku kt lf s k Lw restU restT _ _ _ hk w hu ht _ =>
    intro x
    have h1 := ownSymbols_sym h (List.mem_cons_of_mem _ hk) s
    have h2 := ownSymbols_sym h (List.mem_cons_self (a := "UntypedSymbolNode") (l := typedSymbolKinds)) s
    have hw := wrap_symbols h w
    simp only [tsym, leaf, allSymbols, allSymbolsKids, h1, List.append_nil] at hw
    simp only [allSymbols, allSymbolsKids, ownSymbols_nil, List.nil_append, List.mem_append, usym, leaf, h2, un,
      List.append_nil, hu, ht, hw]
    have hname : x ∈ ownSymbols T kh [("name", s)] → x = s := by
      intro hx
      unfold ownSymbols at hx
      cases hl : T.lookup kh with
      | none => simp [hl] at hx
      | some ki =>
        simp only [hl, List.mem_map, List.mem_filter, List.mem_cons, List.mem_nil_iff, or_false] at hx
        obtain ⟨p, ⟨rfl, _⟩, rfl⟩ := hx
        rfl
    constructor
    · rintro (hx | hx)
      · simp [hname hx]
      · simpa using hx
    · intro hx
      right; simpa using hx

/- ------------------------------------------------------------------ hoisted names are covered -/

theorem namesCovered_nil_strs (T : Table) (k : String) (kids : Kids) :
    namesCovered T (.node k [] kids) = namesCoveredKids T kids := by
  rw [namesCovered]
  cases T.lookup k <;> simp [fieldValues]

theorem shaped_node {T : Table} {k : String} {strs : List (String × Bytes)} {kids : Kids}
    (h : shaped T (.node k strs kids) = true) : ∃ ki, T.lookup k = some ki ∧ shapedKids T ki kids = true := by
  rw [shaped] at h
  cases hl : T.lookup k with
  | none => simp [hl] at h
  | some ki =>
    simp only [hl, Bool.and_eq_true] at h
    exact ⟨ki, rfl, h.2⟩

theorem namesCovered_symleaf {T : Table} (h : typingFacts T = true) {k : String}
    (hk : k ∈ "UntypedSymbolNode" :: typedSymbolKinds) (s : Bytes) :
    namesCovered T (leaf k [("symbol", s)]) = true := by
  obtain ⟨ki, hl, hs, ha⟩ := typingFacts_sym h hk
  have : silentSyms ki = [] := by
    simp [silentSyms, hs, ha]
  simp [leaf, namesCovered, namesCoveredKids, hl, this]

theorem visit_symleaf {T : Table} (h : typingFacts T = true) {k : String}
    (hk : k ∈ "UntypedSymbolNode" :: typedSymbolKinds) (s : Bytes) : s ∈ visit T (leaf k [("symbol", s)]) := by
  obtain ⟨ki, hl, _, ha⟩ := typingFacts_sym h hk
  exact mem_visit_node.mpr ⟨ki, hl, Or.inl ⟨"symbol", ha, by simp⟩⟩

theorem wrap_namesCovered {T : Table} (h : typingFacts T = true) {x y : Tree} (w : Wrap x y)
    (hx : namesCovered T x = true) : namesCovered T y = true := by
  cases w with
  | id => exact hx
  | toFloat => simp [un, namesCovered_nil_strs, namesCoveredKids, hx]
  | toUpper l =>
    simp only [typingFacts, Bool.and_eq_true] at h
    cases hl : T.lookup "StringFuncNode" with
    | none => simp [hl] at h
    | some ki =>
      have hs : ki.symFields = [] := by simpa [hl] using h.2
      simp [namesCovered, namesCoveredKids, hl, silentSyms, hs, hx]

/-- what a wrapped operand announces, its wrapper passes on (given the table forwards it) -/
theorem wrap_visit {T : Table} (hT : tableComplete T = true) {x y : Tree} (w : Wrap x y)
    (hsh : shaped T y = true) {s : Bytes} (hs : s ∈ visit T x) : s ∈ visit T y := by
  cases w with
  | id => exact hs
  | toFloat =>
    obtain ⟨ki, hl, hk⟩ := shaped_node hsh
    exact kid_visited hT hl hk (g := "wrapped") (t := x) (by simp [Kids.toList]) hs
  | toUpper l =>
    obtain ⟨ki, hl, hk⟩ := shaped_node hsh
    exact kid_visited hT hl hk (g := "expr") (t := x) (by simp [Kids.toList]) hs

theorem sortFields_namesCovered {T : Table} (h : typingFacts T = true) {us ts : Kids} (st : SortFieldsTyping us ts) :
    namesCoveredKids T ts = true := by
  induction st with
  | nil => rfl
  | cons s k us ts hk _ ih =>
    have := namesCovered_symleaf h (List.mem_cons_of_mem _ hk) s
    simp [namesCoveredKids, un, tsym, namesCovered_nil_strs, this, ih]

theorem sort_namesCovered {T : Table} (h : typingFacts T = true) {sb sb' : Tree} (st : SortTyping sb sb') :
    namesCovered T sb' = true := by
  cases st with
  | absent => rfl
  | fields us ts hf => rw [namesCovered_nil_strs]; exact sortFields_namesCovered h hf

/-- **Every set-function name hoisted above its comparison is announced below it**: the typed
    tree satisfies the `namesCovered` hypothesis of the traversal theorems. -/
theorem typing_namesCovered {T : Table} (hT : tableComplete T = true) (h : typingFacts T = true) {u t : Tree}
    (ty : Typing T u t) : shaped T t = true → namesCovered T t = true := by
  induction ty with
  | sym s k hk => intro _; exact namesCovered_symleaf h (List.mem_cons_of_mem _ hk) s
  | const c c' _ _ hc => intro _; exact hc
  | logic k' l r l' r' _ _ _ ihl ihr =>
    intro hsh
    obtain ⟨ki, hl, hk⟩ := shaped_node hsh
    have h1 := (shapedKids_mem hk (g := "left") (t := l') (by simp [Kids.toList])).2
    have h2 := (shapedKids_mem hk (g := "right") (t := r') (by simp [Kids.toList])).2
    simp [bin, namesCovered_nil_strs, namesCoveredKids, ihl h1, ihr h2]
  | neg k e e' _ _ ih =>
    intro hsh
    obtain ⟨ki, hl, hk⟩ := shaped_node hsh
    have h1 := (shapedKids_mem hk (g := "expr") (t := e') (by simp [Kids.toList])).2
    simp [un, namesCovered_nil_strs, namesCoveredKids, ih h1]
  | query p p' sb sb' sk li sk' li' _ hs _ _ _ _ hsk hli ih =>
    intro hsh
    obtain ⟨ki, hl, hk⟩ := shaped_node hsh
    have h1 := (shapedKids_mem hk (g := "Predicate") (t := p') (by simp [Kids.toList])).2
    simp [namesCovered_nil_strs, namesCoveredKids, ih h1, sort_namesCovered h hs, hsk, hli]
  | count k' s k _ hk =>
    intro _
    have := namesCovered_symleaf h (List.mem_cons_of_mem _ hk) s
    simp [bin, tsym, namesCovered_nil_strs, namesCoveredKids, this, namesCovered]
  | countSub k' s k q q' _ hk _ ih =>
    intro hsh
    obtain ⟨ki, hl, hkk⟩ := shaped_node hsh
    have h1 := (shapedKids_mem hkk (g := "query") (t := q') (by simp [Kids.toList])).2
    have := namesCovered_symleaf h (List.mem_cons_of_mem _ hk) s
    simp [bin, tsym, namesCovered_nil_strs, namesCoveredKids, this, ih h1]
  | cmp ku kt lf L L' Lw restU restT _ _ _ w _ _ hr ih =>
    intro hsh
    obtain ⟨ki, hl, hk⟩ := shaped_node hsh
    have h1 := (shapedKids_mem hk (g := lf) (t := Lw) (by simp [Kids.toList])).2
    have hL' : shaped T L' = true := by
      cases w with
      | id => exact h1
      | toFloat =>
        obtain ⟨_, _, hk'⟩ := shaped_node h1
        exact (shapedKids_mem hk' (g := "wrapped") (t := L') (by simp [Kids.toList])).2
      | toUpper l =>
        obtain ⟨_, _, hk'⟩ := shaped_node h1
        exact (shapedKids_mem hk' (g := "expr") (t := L') (by simp [Kids.toList])).2
    simp [namesCovered_nil_strs, namesCoveredKids, wrap_namesCovered h w (ih hL'), hr]
  | hoist kh ku kt lf s k Lw restU restT _ _ _ hk w _ _ hr =>
    intro hsh
    obtain ⟨ki, hl, hkk⟩ := shaped_node hsh
    have hE := (shapedKids_mem hkk (g := "predicate") (t := .node kt [] (.cons lf Lw restT)) (by simp [Kids.toList])).2
    obtain ⟨kiE, hlE, hkE⟩ := shaped_node hE
    have hLw := (shapedKids_mem hkE (g := lf) (t := Lw) (by simp [Kids.toList])).2
    -- the set symbol is announced by the left operand of the comparison …
    have hs1 : s ∈ visit T Lw := wrap_visit hT w hLw (visit_symleaf h (List.mem_cons_of_mem _ hk) s)
    have hs2 : s ∈ visit T (.node kt [] (.cons lf Lw restT)) :=
      kid_visited hT hlE hkE (g := lf) (t := Lw) (by simp [Kids.toList]) hs1
    -- … and the comparison below the hoisted node is itself well covered
    have hcovE : namesCovered T (.node kt [] (.cons lf Lw restT)) = true := by
      have := namesCovered_symleaf h (List.mem_cons_of_mem _ hk) s
      simp [namesCovered_nil_strs, namesCoveredKids, wrap_namesCovered h w (by simpa [tsym] using this), hr]
    rw [namesCovered]
    simp only [hl, Bool.and_eq_true, List.all_eq_true, namesCoveredKids, hcovE, and_true, List.contains_iff_mem]
    intro f _ v hv
    have : v = s := by
      have := mem_fieldValues.mp hv
      simp at this
      exact this.2
    subst this
    simp [visitKids, hs2]

end StorageModel.C20
