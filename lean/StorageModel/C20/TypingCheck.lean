import StorageModel.C20.Typing
/-
  C20 — decidable checker for `Typing` (run by the driver on the real untyped / typed trees of
  every parsed case) and its soundness: `isTyping T n u t = true → Typing T u t`.
-/
namespace StorageModel.C20
open StorageModel

def isSymKind (k : String) : Bool := typedSymbolKinds.contains k

/-- strip one `Int64ToFloat64Node{wrapped}` / `StringFuncNode{expr}` layer -/
def unwrap : Tree → Tree
  | .node "Int64ToFloat64Node" [] (.cons "wrapped" x .none) => x
  | .node "StringFuncNode" [("label", _)] (.cons "expr" x .none) => x
  | t => t

theorem unwrap_wrap (y : Tree) : Wrap (unwrap y) y := by
  unfold unwrap
  split
  · exact .toFloat _
  · exact .toUpper _ _
  · exact .id _

def tryConst (T : Table) (u t : Tree) : Bool :=
  (allSymbols T u).isEmpty && (allSymbols T t).isEmpty && namesCovered T t

def trySym (u t : Tree) : Bool :=
  match u, t with
  | .node "UntypedSymbolNode" [("symbol", s)] .none, .node k [("symbol", s')] .none => s == s' && isSymKind k
  | _, _ => false

def tryLogic (rec : Tree → Tree → Bool) (u t : Tree) : Bool :=
  match u, t with
  | .node "BooleanLogicExprNode" [] (.cons "left" l (.cons "right" r .none)),
    .node k' [] (.cons "left" l' (.cons "right" r' .none)) =>
    (k' == "AndExprNode" || k' == "OrExprNode") && rec l l' && rec r r'
  | _, _ => false

def tryNeg (rec : Tree → Tree → Bool) (u t : Tree) : Bool :=
  match u, t with
  | .node k [] (.cons "expr" e .none), .node "NotExprNode" [] (.cons "expr" e' .none) =>
    (k == "UntypedNotExprNode" || k == "NotExprNode") && rec e e'
  | _, _ => false

def isSortField (a a' : Tree) : Bool :=
  match a, a' with
  | .node "SortFieldNode" [] (.cons "symbol" (.node "UntypedSymbolNode" [("symbol", s)] .none) .none),
    .node "SortFieldNode" [] (.cons "symbol" (.node k [("symbol", s')] .none) .none) => s == s' && isSymKind k
  | _, _ => false

def isSortFields : Kids → Kids → Bool
  | .none, .none => true
  | .cons g a us, .cons g' a' ts => g == "SortFields" && g' == "SortFields" && isSortField a a' && isSortFields us ts
  | .none, .cons _ _ _ => false
  | .cons _ _ _, .none => false

def isSort (sb sb' : Tree) : Bool :=
  match sb, sb' with
  | .nil, .nil => true
  | .node "SortByNode" [] us, .node "SortByNode" [] ts => isSortFields us ts
  | _, _ => false

def tryQuery (T : Table) (rec : Tree → Tree → Bool) (u t : Tree) : Bool :=
  match u, t with
  | .node "untypedQueryNode" [] (.cons "predicate" p (.cons "sortBy" sb (.cons "skip" sk (.cons "limit" li .none)))),
    .node "queryNode" [] (.cons "Predicate" p' (.cons "SortBy" sb' (.cons "Skip" sk' (.cons "Limit" li' .none)))) =>
    rec p p' && isSort sb sb' && (allSymbols T sk).isEmpty && (allSymbols T li).isEmpty &&
      (allSymbols T sk').isEmpty && (allSymbols T li').isEmpty && namesCovered T sk' && namesCovered T li'
  | _, _ => false

def tryCount (rec : Tree → Tree → Bool) (u t : Tree) : Bool :=
  match u, t with
  | .node "SetFunctionNode" [] (.cons "symbol" (.node "UntypedSymbolNode" [("symbol", s)] .none) .none),
    .node k' [] (.cons "symbol" (.node k [("symbol", s')] .none) (.cons "query" .nil .none)) =>
    (k' == "CountSetExprNode" || k' == "IsEmptySetExprNode") && isSymKind k && s == s'
  | .node "SetFunctionNode" [] (.cons "symbol"
      (.node "UntypedSubQueryNode" [] (.cons "symbol" (.node "UntypedSymbolNode" [("symbol", s)] .none) (.cons "query" q .none))) .none),
    .node k' [] (.cons "symbol" (.node k [("symbol", s')] .none) (.cons "query" q' .none)) =>
    (k' == "CountSetExprNode" || k' == "IsEmptySetExprNode") && isSymKind k && s == s' && rec q q'
  | _, _ => false

def isCmpKind (ku : String) : Bool := ku == "BinaryExprNode" || ku == "InArrayExprNode" || ku == "BetweenExprNode"

def tryHoist (T : Table) (u t : Tree) : Bool :=
  match u, t with
  | .node ku [] (.cons "left" (.node "SetFunctionNode" [] (.cons "symbol" (.node "UntypedSymbolNode" [("symbol", s)] .none) .none)) restU),
    .node kh [("name", s')] (.cons "predicate" (.node _kt [] (.cons lf Lw restT)) .none) =>
    (kh == "AllOfSetExprNode" || kh == "AnyOfSetExprNode") && isCmpKind ku && (lf == "left" || lf == "symbol") && s == s' &&
      (match unwrap Lw with
       | .node k [("symbol", s'')] .none => isSymKind k && s == s''
       | _ => false) &&
      (allSymbolsKids T restU).isEmpty && (allSymbolsKids T restT).isEmpty && namesCoveredKids T restT
  | _, _ => false

def tryCmp (T : Table) (rec : Tree → Tree → Bool) (u t : Tree) : Bool :=
  match u, t with
  | .node ku [] (.cons "left" L restU), .node _kt [] (.cons lf Lw restT) =>
    isCmpKind ku && (lf == "left" || lf == "symbol") && rec L (unwrap Lw) &&
      (allSymbolsKids T restU).isEmpty && (allSymbolsKids T restT).isEmpty && namesCoveredKids T restT
  | _, _ => false

/-- `n` bounds the nesting depth (the driver passes the size of the line) -/
def isTyping (T : Table) : Nat → Tree → Tree → Bool
  | 0, _, _ => false
  | n + 1, u, t =>
    tryConst T u t || trySym u t || tryLogic (isTyping T n) u t || tryNeg (isTyping T n) u t ||
      tryQuery T (isTyping T n) u t || tryCount (isTyping T n) u t || tryHoist T u t || tryCmp T (isTyping T n) u t

/- ------------------------------------------------------------------------------- soundness -/

theorem isSymKind_mem {k : String} (h : isSymKind k = true) : k ∈ typedSymbolKinds :=
  List.contains_iff_mem.mp h

theorem isEmpty_eq_nil {α : Type} {l : List α} (h : l.isEmpty = true) : l = [] := List.isEmpty_iff.mp h

theorem tryConst_sound {T : Table} {u t : Tree} (h : tryConst T u t = true) : Typing T u t := by
  simp only [tryConst, Bool.and_eq_true] at h
  exact .const u t (isEmpty_eq_nil h.1.1) (isEmpty_eq_nil h.1.2) h.2

theorem trySym_sound {T : Table} {u t : Tree} (h : trySym u t = true) : Typing T u t := by
  unfold trySym at h
  split at h
  · simp only [Bool.and_eq_true, beq_iff_eq] at h
    obtain ⟨rfl, hk⟩ := h
    exact .sym _ _ (isSymKind_mem hk)
  · cases h

theorem tryLogic_sound {T : Table} {rec : Tree → Tree → Bool} (hrec : ∀ a b, rec a b = true → Typing T a b)
    {u t : Tree} (h : tryLogic rec u t = true) : Typing T u t := by
  unfold tryLogic at h
  split at h
  · simp only [Bool.and_eq_true, Bool.or_eq_true, beq_iff_eq] at h
    exact .logic _ _ _ _ _ (by rcases h.1.1 with rfl | rfl <;> simp) (hrec _ _ h.1.2) (hrec _ _ h.2)
  · cases h

theorem tryNeg_sound {T : Table} {rec : Tree → Tree → Bool} (hrec : ∀ a b, rec a b = true → Typing T a b)
    {u t : Tree} (h : tryNeg rec u t = true) : Typing T u t := by
  unfold tryNeg at h
  split at h
  · simp only [Bool.and_eq_true, Bool.or_eq_true, beq_iff_eq] at h
    exact .neg _ _ _ (by rcases h.1 with rfl | rfl <;> simp) (hrec _ _ h.2)
  · cases h

theorem isSortField_sound {a a' : Tree} (h : isSortField a a' = true) :
    ∃ s k, k ∈ typedSymbolKinds ∧ a = un "SortFieldNode" "symbol" (usym s) ∧ a' = un "SortFieldNode" "symbol" (tsym k s) := by
  unfold isSortField at h
  split at h
  · simp only [Bool.and_eq_true, beq_iff_eq] at h
    obtain ⟨rfl, hk⟩ := h
    exact ⟨_, _, isSymKind_mem hk, rfl, rfl⟩
  · cases h

theorem isSortFields_sound : ∀ (us ts : Kids), isSortFields us ts = true → SortFieldsTyping us ts
  | .none, .none, _ => .nil
  | .none, .cons _ _ _, h => by simp [isSortFields] at h
  | .cons _ _ _, .none, h => by simp [isSortFields] at h
  | .cons g a us, .cons g' a' ts, h => by
    simp only [isSortFields, Bool.and_eq_true, beq_iff_eq] at h
    obtain ⟨⟨⟨rfl, rfl⟩, ha⟩, hrest⟩ := h
    obtain ⟨s, k, hk, rfl, rfl⟩ := isSortField_sound ha
    exact .cons _ _ _ _ hk (isSortFields_sound us ts hrest)

theorem isSort_sound {sb sb' : Tree} (h : isSort sb sb' = true) : SortTyping sb sb' := by
  unfold isSort at h
  split at h
  · exact .absent
  · exact .fields _ _ (isSortFields_sound _ _ h)
  · cases h

theorem tryQuery_sound {T : Table} {rec : Tree → Tree → Bool} (hrec : ∀ a b, rec a b = true → Typing T a b)
    {u t : Tree} (h : tryQuery T rec u t = true) : Typing T u t := by
  unfold tryQuery at h
  split at h
  · simp only [Bool.and_eq_true] at h
    obtain ⟨⟨⟨⟨⟨⟨⟨hp, hs⟩, h1⟩, h2⟩, h3⟩, h4⟩, h5⟩, h6⟩ := h
    exact .query _ _ _ _ _ _ _ _ (hrec _ _ hp) (isSort_sound hs) (isEmpty_eq_nil h1) (isEmpty_eq_nil h2)
      (isEmpty_eq_nil h3) (isEmpty_eq_nil h4) h5 h6
  · cases h

theorem tryCount_sound {T : Table} {rec : Tree → Tree → Bool} (hrec : ∀ a b, rec a b = true → Typing T a b)
    {u t : Tree} (h : tryCount rec u t = true) : Typing T u t := by
  unfold tryCount at h
  split at h
  · simp only [Bool.and_eq_true, Bool.or_eq_true, beq_iff_eq] at h
    obtain ⟨⟨hk', hk⟩, rfl⟩ := h
    exact .count _ _ _ (by rcases hk' with rfl | rfl <;> simp) (isSymKind_mem hk)
  · simp only [Bool.and_eq_true, Bool.or_eq_true, beq_iff_eq] at h
    obtain ⟨⟨⟨hk', hk⟩, rfl⟩, hq⟩ := h
    exact .countSub _ _ _ _ _ (by rcases hk' with rfl | rfl <;> simp) (isSymKind_mem hk) (hrec _ _ hq)
  · cases h

theorem isCmpKind_mem {ku : String} (h : isCmpKind ku = true) : ku ∈ ["BinaryExprNode", "InArrayExprNode", "BetweenExprNode"] := by
  simp only [isCmpKind, Bool.or_eq_true, beq_iff_eq] at h
  rcases h with (rfl | rfl) | rfl <;> simp

theorem tryHoist_sound {T : Table} {u t : Tree} (h : tryHoist T u t = true) : Typing T u t := by
  unfold tryHoist at h
  split at h
  · next ku s restU kh s' kt lf Lw restT =>
    simp only [Bool.and_eq_true, Bool.or_eq_true, beq_iff_eq] at h
    obtain ⟨⟨⟨⟨⟨⟨⟨hkh, hku⟩, hlf⟩, rfl⟩, hw⟩, h1⟩, h2⟩, h3⟩ := h
    have hwrap := unwrap_wrap Lw
    split at hw
    · next k s'' heq =>
      simp only [Bool.and_eq_true, beq_iff_eq] at hw
      obtain ⟨hk, rfl⟩ := hw
      rw [heq] at hwrap
      exact .hoist _ _ _ _ _ k _ _ _ (by rcases hkh with rfl | rfl <;> simp) (isCmpKind_mem hku)
        (by rcases hlf with rfl | rfl <;> simp) (isSymKind_mem hk) hwrap (isEmpty_eq_nil h1) (isEmpty_eq_nil h2) h3
    · cases hw
  · cases h

theorem tryCmp_sound {T : Table} {rec : Tree → Tree → Bool} (hrec : ∀ a b, rec a b = true → Typing T a b)
    {u t : Tree} (h : tryCmp T rec u t = true) : Typing T u t := by
  unfold tryCmp at h
  split at h
  · simp only [Bool.and_eq_true, Bool.or_eq_true, beq_iff_eq] at h
    obtain ⟨⟨⟨⟨⟨hku, hlf⟩, hL⟩, h1⟩, h2⟩, h3⟩ := h
    exact .cmp _ _ _ _ _ _ _ _ (isCmpKind_mem hku) (by rcases hlf with rfl | rfl <;> simp) (hrec _ _ hL) (unwrap_wrap _)
      (isEmpty_eq_nil h1) (isEmpty_eq_nil h2) h3
  · cases h

/-- the checker only accepts pairs related by `Typing` -/
theorem isTyping_sound {T : Table} : ∀ (n : Nat) (u t : Tree), isTyping T n u t = true → Typing T u t
  | 0, _, _, h => by simp [isTyping] at h
  | n + 1, u, t, h => by
    have ih := isTyping_sound (T := T) n
    simp only [isTyping, Bool.or_eq_true] at h
    rcases h with ((((((h | h) | h) | h) | h) | h) | h) | h
    · exact tryConst_sound h
    · exact trySym_sound h
    · exact tryLogic_sound ih h
    · exact tryNeg_sound ih h
    · exact tryQuery_sound ih h
    · exact tryCount_sound ih h
    · exact tryHoist_sound h
    · exact tryCmp_sound ih h

end StorageModel.C20
