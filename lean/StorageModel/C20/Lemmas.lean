import StorageModel.C20.Spec
/- C20 — helper lemmas (the property theorems are in Properties/C20.lean). -/
namespace StorageModel.C20
open StorageModel

theorem lookup_mem {T : Table} {k : String} {ki : KindInfo} (h : T.lookup k = some ki) : ki ∈ T :=
  List.mem_of_find?_eq_some h

theorem mem_fieldValues {strs : List (String × Bytes)} {f : String} {v : Bytes} :
    v ∈ fieldValues strs f ↔ (f, v) ∈ strs := by
  simp only [fieldValues, List.mem_map, List.mem_filter, beq_iff_eq]
  constructor
  · rintro ⟨⟨a, b⟩, ⟨hm, rfl⟩, rfl⟩; exact hm
  · intro h; exact ⟨(f, v), ⟨h, rfl⟩, rfl⟩

theorem mem_ownSymbols {T : Table} {k : String} {strs : List (String × Bytes)} {v : Bytes} :
    v ∈ ownSymbols T k strs ↔ ∃ ki, T.lookup k = some ki ∧ ∃ f, f ∈ ki.symFields ∧ (f, v) ∈ strs := by
  unfold ownSymbols
  cases h : T.lookup k with
  | none => simp
  | some ki =>
    simp only [List.mem_map, List.mem_filter, List.contains_iff_mem, Option.some.injEq, exists_eq_left']
    constructor
    · rintro ⟨⟨a, b⟩, ⟨hm, hs⟩, rfl⟩; exact ⟨a, hs, hm⟩
    · rintro ⟨f, hf, hm⟩; exact ⟨(f, v), ⟨hm, hf⟩, rfl⟩

/-- the labelled children as a list -/
def Kids.toList : Kids → List (String × Tree)
  | .none => []
  | .cons g t rest => (g, t) :: Kids.toList rest

theorem mem_visitField {T : Table} {f : String} {s : Bytes} :
    ∀ {kids : Kids}, s ∈ visitField T f kids ↔ ∃ t, (f, t) ∈ kids.toList ∧ s ∈ visit T t
  | .none => by simp [visitField, Kids.toList]
  | .cons g t rest => by
    simp only [visitField, Kids.toList, List.mem_append, List.mem_cons, Prod.mk.injEq,
      mem_visitField (kids := rest)]
    constructor
    · rintro (h | ⟨t', hm, hs⟩)
      · by_cases hg : (g == f) = true
        · simp only [hg, if_true] at h
          exact ⟨t, Or.inl ⟨(beq_iff_eq.mp hg).symm, rfl⟩, h⟩
        · simp [hg] at h
      · exact ⟨t', Or.inr hm, hs⟩
    · rintro ⟨t', (⟨rfl, rfl⟩ | hm), hs⟩
      · left; simpa using hs
      · exact Or.inr ⟨t', hm, hs⟩

theorem mem_visitKids {T : Table} {s : Bytes} :
    ∀ {kids : Kids}, s ∈ visitKids T kids ↔ ∃ g t, (g, t) ∈ kids.toList ∧ s ∈ visit T t
  | .none => by simp [visitKids, Kids.toList]
  | .cons g t rest => by
    simp only [visitKids, Kids.toList, List.mem_append, List.mem_cons, Prod.mk.injEq,
      mem_visitKids (kids := rest)]
    constructor
    · rintro (h | ⟨g', t', hm, hs⟩)
      · exact ⟨g, t, Or.inl ⟨rfl, rfl⟩, h⟩
      · exact ⟨g', t', Or.inr hm, hs⟩
    · rintro ⟨g', t', (⟨rfl, rfl⟩ | hm), hs⟩
      · exact Or.inl hs
      · exact Or.inr ⟨g', t', hm, hs⟩

theorem mem_allSymbolsKids {T : Table} {s : Bytes} :
    ∀ {kids : Kids}, s ∈ allSymbolsKids T kids ↔ ∃ g t, (g, t) ∈ kids.toList ∧ s ∈ allSymbols T t
  | .none => by simp [allSymbolsKids, Kids.toList]
  | .cons g t rest => by
    simp only [allSymbolsKids, Kids.toList, List.mem_append, List.mem_cons, Prod.mk.injEq,
      mem_allSymbolsKids (kids := rest)]
    constructor
    · rintro (h | ⟨g', t', hm, hs⟩)
      · exact ⟨g, t, Or.inl ⟨rfl, rfl⟩, h⟩
      · exact ⟨g', t', Or.inr hm, hs⟩
    · rintro ⟨g', t', (⟨rfl, rfl⟩ | hm), hs⟩
      · exact Or.inl hs
      · exact Or.inr ⟨g', t', hm, hs⟩

theorem shapedKids_mem {T : Table} {ki : KindInfo} {g : String} {t : Tree} :
    ∀ {kids : Kids}, shapedKids T ki kids = true → (g, t) ∈ kids.toList →
      (∃ c ∈ ki.children, c.field = g) ∧ shaped T t = true
  | .none, _, hm => by simp [Kids.toList] at hm
  | .cons g' t' rest, h, hm => by
    simp only [shapedKids, Bool.and_eq_true, List.any_eq_true, beq_iff_eq] at h
    simp only [Kids.toList, List.mem_cons, Prod.mk.injEq] at hm
    rcases hm with ⟨rfl, rfl⟩ | hm
    · exact ⟨h.1.1, h.1.2⟩
    · exact shapedKids_mem h.2 hm

theorem namesCoveredKids_mem {T : Table} {g : String} {t : Tree} :
    ∀ {kids : Kids}, namesCoveredKids T kids = true → (g, t) ∈ kids.toList → namesCovered T t = true
  | .none, _, hm => by simp [Kids.toList] at hm
  | .cons g' t' rest, h, hm => by
    simp only [namesCoveredKids, Bool.and_eq_true] at h
    simp only [Kids.toList, List.mem_cons, Prod.mk.injEq] at hm
    rcases hm with ⟨rfl, rfl⟩ | hm
    · exact h.1
    · exact namesCoveredKids_mem h.2 hm

/-- events of a node, unfolded -/
theorem mem_visit_node {T : Table} {k : String} {strs : List (String × Bytes)} {kids : Kids} {s : Bytes} :
    s ∈ visit T (.node k strs kids) ↔
      ∃ ki, T.lookup k = some ki ∧
        ((∃ f, Step.announce f ∈ ki.steps ∧ (f, s) ∈ strs) ∨
         (∃ f g, Step.forward f g ∈ ki.steps ∧ ∃ t, (f, t) ∈ kids.toList ∧ s ∈ visit T t)) := by
  rw [visit]
  cases h : T.lookup k with
  | none => simp
  | some ki =>
    simp only [List.mem_flatMap, Option.some.injEq, exists_eq_left']
    constructor
    · rintro ⟨st, hst, hs⟩
      cases st with
      | announce f => exact Or.inl ⟨f, hst, mem_fieldValues.mp hs⟩
      | forward f g => exact Or.inr ⟨f, g, hst, mem_visitField.mp hs⟩
      | hook m => simp [stepEvents] at hs
      | unknown w => simp [stepEvents] at hs
    · rintro (⟨f, hst, hm⟩ | ⟨f, g, hst, hm⟩)
      · exact ⟨_, hst, mem_fieldValues.mpr hm⟩
      · exact ⟨_, hst, mem_visitField.mpr hm⟩

theorem kindComplete_of_mem {T : Table} (hT : tableComplete T = true) {ki : KindInfo} (h : ki ∈ T) :
    kindComplete ki = true := by
  simp only [tableComplete, List.all_eq_true] at hT
  exact hT ki h

theorem forwards_iff {ki : KindInfo} {f : String} : forwards ki f = true ↔ ∃ g, Step.forward f g ∈ ki.steps := by
  simp only [forwards, List.any_eq_true]
  constructor
  · rintro ⟨st, hst, h⟩
    cases st with
    | forward f' g => exact ⟨g, by rw [← beq_iff_eq.mp h]; exact hst⟩
    | announce _ => simp at h
    | hook _ => simp at h
    | unknown _ => simp at h
  · rintro ⟨g, hst⟩; exact ⟨_, hst, by simp⟩

/- ------------------------------------------------------------------ soundness of the traversal -/

mutual
theorem visit_sub_all {T : Table} (hT : tableComplete T = true) :
    ∀ (t : Tree) (s : Bytes), s ∈ visit T t → s ∈ allSymbols T t
  | .nil, s, h => by simp [visit] at h
  | .node k strs kids, s, h => by
    rw [allSymbols, List.mem_append]
    obtain ⟨ki, hk, h⟩ := mem_visit_node.mp h
    rcases h with ⟨f, hst, hm⟩ | ⟨f, g, _, t, hm, hs⟩
    · left
      refine mem_ownSymbols.mpr ⟨ki, hk, f, ?_, hm⟩
      have hc := kindComplete_of_mem hT (lookup_mem hk)
      simp only [kindComplete, Bool.and_eq_true, List.all_eq_true] at hc
      have := hc.1.2 _ hst
      simpa [stepOk] using this
    · right
      exact visitKids_sub_all hT kids f t s hm hs
theorem visitKids_sub_all {T : Table} (hT : tableComplete T = true) :
    ∀ (kids : Kids) (f : String) (t : Tree) (s : Bytes), (f, t) ∈ kids.toList → s ∈ visit T t → s ∈ allSymbolsKids T kids
  | .none, _, _, _, hm, _ => by simp [Kids.toList] at hm
  | .cons g t' rest, f, t, s, hm, hs => by
    rw [allSymbolsKids, List.mem_append]
    simp only [Kids.toList, List.mem_cons, Prod.mk.injEq] at hm
    rcases hm with ⟨rfl, rfl⟩ | hm
    · exact Or.inl (visit_sub_all hT t s hs)
    · exact Or.inr (visitKids_sub_all hT rest f t s hm hs)
end

/- --------------------------------------------------------------- completeness of the traversal -/

/-- whatever a child announces, its parent's Accept passes on — provided the child's field is
    one the table lists and every listed child field is forwarded -/
theorem kid_visited {T : Table} (hT : tableComplete T = true) {k : String} {strs : List (String × Bytes)}
    {kids : Kids} {ki : KindInfo} (hk : T.lookup k = some ki) (hsh : shapedKids T ki kids = true)
    {g : String} {t : Tree} (hm : (g, t) ∈ kids.toList) {s : Bytes} (hs : s ∈ visit T t) :
    s ∈ visit T (.node k strs kids) := by
  obtain ⟨⟨c, hc, rfl⟩, _⟩ := shapedKids_mem hsh hm
  have hkc := kindComplete_of_mem hT (lookup_mem hk)
  simp only [kindComplete, Bool.and_eq_true, List.all_eq_true] at hkc
  obtain ⟨gd, hst⟩ := forwards_iff.mp (hkc.1.1.1 c hc)
  exact mem_visit_node.mpr ⟨ki, hk, Or.inr ⟨_, gd, hst, t, hm, hs⟩⟩

mutual
theorem all_sub_visit {T : Table} (hT : tableComplete T = true) :
    ∀ (t : Tree) (s : Bytes), shaped T t = true → namesCovered T t = true → s ∈ allSymbols T t → s ∈ visit T t
  | .nil, s, _, _, h => by simp [allSymbols] at h
  | .node k strs kids, s, hsh, hnc, h => by
    rw [allSymbols, List.mem_append] at h
    rw [shaped] at hsh
    rw [namesCovered] at hnc
    cases hk : T.lookup k with
    | none => simp [hk] at hsh
    | some ki =>
      simp only [hk, Bool.and_eq_true] at hsh hnc
      rcases h with h | h
      · obtain ⟨ki', hk', f, hf, hm⟩ := mem_ownSymbols.mp h
        rw [hk] at hk'; cases hk'
        by_cases ha : Step.announce f ∈ ki.steps
        · exact mem_visit_node.mpr ⟨ki, hk, Or.inl ⟨f, ha, hm⟩⟩
        · -- held only as a string: some node below announces it
          have hsil : f ∈ silentSyms ki := by
            simp only [silentSyms, List.mem_filter, List.contains_iff_mem, Bool.not_eq_eq_eq_not, Bool.not_true,
              ← Bool.not_eq_true]
            exact ⟨hf, ha⟩
          have hcov := hnc.1
          simp only [List.all_eq_true, List.contains_iff_mem] at hcov
          have hv := hcov f hsil s (mem_fieldValues.mpr hm)
          obtain ⟨g, t, hmem, hs⟩ := mem_visitKids.mp hv
          exact kid_visited hT hk hsh.2 hmem hs
      · obtain ⟨g, t, hmem, hs⟩ := mem_allSymbolsKids.mp h
        have hsub := (shapedKids_mem hsh.2 hmem).2
        have hncs := namesCoveredKids_mem hnc.2 hmem
        exact kid_visited hT hk hsh.2 hmem (all_sub_visit_kids hT kids g t s hmem hsub hncs hs)
theorem all_sub_visit_kids {T : Table} (hT : tableComplete T = true) :
    ∀ (kids : Kids) (g : String) (t : Tree) (s : Bytes), (g, t) ∈ kids.toList → shaped T t = true →
      namesCovered T t = true → s ∈ allSymbols T t → s ∈ visit T t
  | .none, _, _, _, hm, _, _, _ => by simp [Kids.toList] at hm
  | .cons g' t' rest, g, t, s, hm, hsh, hnc, hs => by
    simp only [Kids.toList, List.mem_cons, Prod.mk.injEq] at hm
    rcases hm with ⟨rfl, rfl⟩ | hm
    · exact all_sub_visit hT t s hsh hnc hs
    · exact all_sub_visit_kids hT rest g t s hm hsh hnc hs
end

/- -------------------------------------------------------------------------------- the validator -/

theorem foldl_visitSymbol_some (c : PubCfg) (e : Bytes) (l : List Bytes) :
    l.foldl (visitSymbol c) (some e) = some e := by
  induction l with
  | nil => rfl
  | cons x xs ih => simpa [List.foldl, visitSymbol] using ih

/-- the validator's final state is the first non-public symbol announced -/
theorem foldl_visitSymbol (c : PubCfg) (l : List Bytes) :
    l.foldl (visitSymbol c) none = l.find? (fun s => !isPublicSymbol c s) := by
  induction l with
  | nil => rfl
  | cons x xs ih =>
    by_cases hx : isPublicSymbol c x = true
    · simp [List.foldl, visitSymbol, hx, ih]
    · simp only [Bool.not_eq_true] at hx
      simp [List.foldl, visitSymbol, hx, foldl_visitSymbol_some]

/-- IsPublicSymbol agrees with the specification on assignments to the store's symbols -/
theorem isPublicSymbol_eq_spec {c : PubCfg} (hc : pubWF c = true) (s : Bytes) :
    isPublicSymbol c s = specIsPublic c s := by
  have hwf : ∀ base x r, splitDot s = base :: x :: r → c.pub.contains s = true →
      c.maps.contains base = true → c.pub.contains base = true := by
    intro base x r heq hs hm
    simp only [pubWF, List.all_eq_true] at hc
    have h := hc s (List.contains_iff_mem.mp hs)
    rw [heq] at h
    simp only [hm, Bool.not_true, Bool.false_or] at h
    exact h
  unfold isPublicSymbol specIsPublic
  rcases h : splitDot s with _ | ⟨base, _ | ⟨x, r⟩⟩
  · cases c.pub.contains s <;> rfl
  · cases c.pub.contains s <;> rfl
  · have hw := hwf base x r h
    cases hs : c.pub.contains s <;> cases hm : c.maps.contains base <;> simp_all

/- --------------------------------------------------------------------------- no nil dereference -/

theorem optionalTolerated_use {T : Table} (hO : optionalTolerated T = true) {k g : String} {ki : KindInfo}
    (hk : T.lookup k = some ki) (hopt : optionalSlots.contains (k, g) = true) {gd : Bool}
    (hst : Step.forward g gd ∈ ki.steps) : tolerant T ki g gd = true := by
  simp only [optionalTolerated, List.all_eq_true] at hO
  have h1 := hO (k, g) (List.contains_iff_mem.mp hopt)
  simp only [hk, List.all_eq_true] at h1
  have h2 := h1 _ hst
  simpa using h2

mutual
theorem nilOk_no_panic {T : Table} (hO : optionalTolerated T = true) :
    ∀ (t : Tree), nilOk t = true → panics T t = false
  | .nil, _ => by simp [panics]
  | .node k strs kids, h => by
    rw [panics]
    cases hk : T.lookup k with
    | none => rfl
    | some ki =>
      simp only [List.any_eq_false, Bool.not_eq_true]
      intro st hst
      cases st with
      | forward f gd =>
        simp only
        rw [nilOk] at h
        exact nilOkKids_no_panic hO k ki hk f gd hst kids h
      | announce _ => simp
      | hook _ => simp
      | unknown _ => simp
theorem nilOkKids_no_panic {T : Table} (hO : optionalTolerated T = true) (k : String) (ki : KindInfo)
    (hk : T.lookup k = some ki) (f : String) (gd : Bool) (hst : Step.forward f gd ∈ ki.steps) :
    ∀ (kids : Kids), nilOkKids k kids = true → panicsField T (tolerant T ki f gd) f kids = false
  | .none, _ => by simp [panicsField]
  | .cons g t rest, h => by
    simp only [nilOkKids, Bool.and_eq_true, Bool.or_eq_true, Bool.not_eq_true'] at h
    simp only [panicsField, Bool.or_eq_false_iff, Bool.and_eq_false_iff]
    refine ⟨?_, nilOkKids_no_panic hO k ki hk f gd hst rest h.2⟩
    by_cases hg : (g == f) = true
    · right
      have hgf : g = f := beq_iff_eq.mp hg
      subst hgf
      refine ⟨?_, nilOk_no_panic hO t h.1.2⟩
      rcases h.1.1 with hn | hopt
      · left; exact hn
      · right; simp [optionalTolerated_use hO hk hopt hst]
    · left; simpa using hg
end

/- ------------------------------------------------------------------------------ dotted names -/

theorem splitDot_ne_nil (s : Bytes) : splitDot s ≠ [] := by
  induction s with
  | nil => simp [splitDot]
  | cons c rest ih =>
    unfold splitDot
    split
    · simp
    · split <;> simp

/-- the name `base.rest` (no dot in `base`) splits into `base` and at least one more segment -/
theorem splitDot_elem (base rest : Bytes) (hb : (46 : UInt8) ∉ base) :
    ∃ x r, splitDot (base ++ 46 :: rest) = base :: x :: r := by
  induction base with
  | nil =>
    cases h : splitDot rest with
    | nil => exact absurd h (splitDot_ne_nil rest)
    | cons x r => exact ⟨x, r, by simp [splitDot, h]⟩
  | cons c cs ih =>
    have hc : (c == 46) = false := by
      simp only [List.mem_cons, not_or] at hb
      simpa using fun h => hb.1 h.symm
    obtain ⟨x, r, h⟩ := ih (fun h => hb (List.mem_cons_of_mem _ h))
    exact ⟨x, r, by simp [splitDot, hc, h]⟩

end StorageModel.C20
