import StorageModel.C20.Run
/-
  C20 — the validator interpreted from regenerated data.

  `ValidatorShape` (C20/Table.lean) holds the decision structure of
    BaseStore.IsPublicSymbol                  as a decision tree `DTree` over lookups in the store's key sets,
    publicSymbolValidator.VisitSymbol         as a list of guarded statements `VStmt`,
    ValidateSymbolsArePublic                  as a list of statements `WStmt`,
  written by /verif/extract/accept.go from the Go source on every run.  Here:

  * the interpreters (`DTree.eval`, `visitSymbolS`, `validateS`) — the executable model the
    driver runs against the real code;
  * `GoodShape`: a decidable predicate on shapes.  For IsPublicSymbol and VisitSymbol it is a
    truth-table check of the program over the finitely many facts it can observe (exact name
    listed / name dotted / first segment a map / first segment listed; err nil / symbol public),
    so every program that *decides the same way* is good, not just the one in the repository
    today;
  * `validateS_good`: a good shape validates exactly like the reference validator `validate`
    (C20/Model.lean), about which traversal completeness and accept-iff are proved.
-/
namespace StorageModel.C20
open StorageModel

/- ---------------------------------------------------------------------------- IsPublicSymbol -/

/-- first segment of `strings.Split(s, ".")` -/
def firstSeg (s : Bytes) : Bytes :=
  match splitDot s with
  | base :: _ => base
  | [] => []

/-- `s[:strings.LastIndex(s, ".")]` (the whole name if there is no dot) -/
def uptoLastDot : Bytes → Bytes
  | [] => []
  | c :: rest => if rest.contains 46 then c :: uptoLastDot rest else if c == 46 then [] else c :: rest

def NameE.eval (c : PubCfg) : NameE → Bytes → Bytes
  | .sym, s => s
  | .firstSeg, s => C20.firstSeg s
  | .uptoLastDot, s => C20.uptoLastDot s
  | .other _, s => s
  | .mapKey n, s => c.mapKey (n.eval c s)
  | .symKey n, s => c.symKey (n.eval c s)

def StoreTbl.keys (c : PubCfg) : StoreTbl → List Bytes
  | .pub => c.pub
  | .maps => c.maps
  | .other _ => []

/-- a condition of IsPublicSymbol; `par` is the parent store's IsPublicSymbol (`none`: no parent).
    `parentPublic` without a parent is a call on a nil interface in Go; no program the extractor has met
    makes it unguarded, the interpretation answers `false` there. -/
def CondE.eval (par : Option (Bytes → Bool)) (c : PubCfg) (s : Bytes) : CondE → Bool
  | .const b => b
  | .lookup t n => (t.keys c).contains (n.eval c s)
  | .segsMoreThan n => decide ((splitDot s).length > n)
  | .dotNotFirst => s.contains 46 && s.head? != some 46
  | .lastDotNotFirst => (s.drop 1).contains 46
  | .hasParent => par.isSome
  | .parentPublic n => match par with
    | some f => f (n.eval c s)
    | none => false
  | .not a => !a.eval par c s
  | .and a b => a.eval par c s && b.eval par c s
  | .or a b => a.eval par c s || b.eval par c s
  | .other _ => false

/-- the body of IsPublicSymbol run on one store, given its parent's answer function -/
def DTree.evalWith (par : Option (Bytes → Bool)) (c : PubCfg) (s : Bytes) : DTree → Bool
  | .ret e => e.eval par c s
  | .ite e t f => if e.eval par c s then t.evalWith par c s else f.evalWith par c s
  | .unknown _ => false

/-- `store.parent.IsPublicSymbol`: the same program on the parent's key sets, whose own parent is the next
    store up the chain -/
def DTree.ancestors (d : DTree) : List (List Bytes × List Bytes) → Option (Bytes → Bool)
  | [] => none
  | (m, p) :: rest => some fun s => d.evalWith (d.ancestors rest) { maps := m, pub := p, parents := rest } s

/-- IsPublicSymbol, interpreted (on a store with its parent chain) -/
def DTree.eval (c : PubCfg) (s : Bytes) (d : DTree) : Bool := d.evalWith (d.ancestors c.parents) c s

/- ------------------------------------------------------------------------------- VisitSymbol -/

def VLit.eval (err : Option Bytes) (isPub : Bool) (l : VLit) : Bool :=
  match l.atom with
  | .errNil => err.isNone == l.pos
  | .isPublic => isPub == l.pos
  | .other _ => false

/-- run the statements of VisitSymbol; `none` = returned early, state final -/
def runVisit (isPub : Bool) (s : Bytes) : List VStmt → Option Bytes → Option Bytes
  | [], err => err
  | .setErrIf conds arg :: rest, err =>
    if conds.all (VLit.eval err isPub) then
      runVisit isPub s rest (match arg with | .symbol => some s | .other _ => some [])
    else runVisit isPub s rest err
  | .returnIf conds :: rest, err =>
    if conds.all (VLit.eval err isPub) then err else runVisit isPub s rest err
  | .other _ :: rest, err => runVisit isPub s rest err

/-- publicSymbolValidator.VisitSymbol, interpreted: `err` is the validator's state -/
def visitSymbolS (sh : ValidatorShape) (c : PubCfg) (err : Option Bytes) (s : Bytes) : Option Bytes :=
  runVisit (sh.isPublic.eval c s) s sh.visitSymbol err

/- ------------------------------------------------------------------ ValidateSymbolsArePublic -/

def childOf (f : String) : Kids → Option Tree
  | .none => none
  | .cons g t rest => if g == f then some t else childOf f rest

/-- run the statements of ValidateSymbolsArePublic on query `q`; `err` is `visitor.err` -/
def runWalk (T : Table) (vs : Option Bytes → Bytes → Option Bytes) (getters : List (String × String)) (q : Tree) :
    List WStmt → Option Bytes → Outcome (Option Bytes)
  | [], _ => .ok none
  | .newVisitor _ :: rest, _ => runWalk T vs getters q rest none
  | .acceptQuery :: rest, err =>
    if panics T q then .panic else runWalk T vs getters q rest (accept T vs q err)
  | .acceptGetter g :: rest, err =>
    match q, getters.lookup g with
    | .node _ _ kids, some f =>
      (match childOf f kids with
       | some t => if t.isNil || panics T t then .panic else runWalk T vs getters q rest (accept T vs t err)
       | none => .panic)
    | _, _ => .panic
  | .returnErr :: _, err => .ok err
  | .returnNilIf _ :: rest, err => runWalk T vs getters q rest err
  | .other _ :: rest, err => runWalk T vs getters q rest err

/-- ValidateSymbolsArePublic, interpreted from the regenerated shape -/
def validateS (T : Table) (sh : ValidatorShape) (c : PubCfg) (q : Tree) : Outcome (Option Bytes) :=
  runWalk T (visitSymbolS sh c) sh.getters q sh.walk none

/- ------------------------------------------------------------------------------- good shapes -/

/-- what IsPublicSymbol can observe of (store, name), for a program that only looks at the whole
    name and at its first segment -/
structure Atoms where
  exact : Bool        -- the name is listed in publicSymbols
  exactMap : Bool     -- the name is a key of mapSymbols
  dotted : Bool       -- the name contains a dot
  baseMap : Bool      -- its first segment is a key of mapSymbols
  basePub : Bool      -- its first segment is listed in publicSymbols
  deriving DecidableEq, Repr

def atomsOf (c : PubCfg) (s : Bytes) : Atoms :=
  { exact := c.pub.contains s, exactMap := c.maps.contains s, dotted := decide ((splitDot s).length > 1),
    baseMap := c.maps.contains (firstSeg s), basePub := c.pub.contains (firstSeg s) }

/-- an undotted name is its own first segment -/
def Atoms.consistent (a : Atoms) : Bool :=
  a.dotted || (a.exact == a.basePub && a.exactMap == a.baseMap)

def bools : List Bool := [false, true]

def allAtoms : List Atoms :=
  bools.flatMap fun a => bools.flatMap fun b => bools.flatMap fun d => bools.flatMap fun m => bools.map fun p =>
    { exact := a, exactMap := b, dotted := d, baseMap := m, basePub := p }

/-- the value of a condition as a function of the atoms; `none`: it looks at something else -/
def CondE.abs (a : Atoms) : CondE → Option Bool
  | .const b => some b
  | .lookup .pub .sym => some a.exact
  | .lookup .maps .sym => some a.exactMap
  | .lookup .pub .firstSeg => some a.basePub
  | .lookup .maps .firstSeg => some a.baseMap
  | .lookup _ _ => none
  | .segsMoreThan n => if n == 1 then some a.dotted else none
  | .dotNotFirst => none
  | .lastDotNotFirst => none
  | .hasParent => none          -- "public for the store": nothing about the parent store may decide
  | .parentPublic _ => none
  | .not x => (x.abs a).map (!·)
  | .and x y => match x.abs a, y.abs a with
    | some u, some v => some (u && v)
    | _, _ => none
  | .or x y => match x.abs a, y.abs a with
    | some u, some v => some (u || v)
    | _, _ => none
  | .other _ => none

def DTree.abs (a : Atoms) : DTree → Option Bool
  | .ret e => e.abs a
  | .ite e t f => match e.abs a with
    | some true => t.abs a
    | some false => f.abs a
    | none => none
  | .unknown _ => none

/-- the decision the property demands: listed itself, or an element (dotted name) of a listed map -/
def Atoms.reference (a : Atoms) : Bool := a.exact || (a.dotted && a.baseMap && a.basePub)

/-- IsPublicSymbol decides like the reference on every consistent valuation of the atoms -/
def goodPub (d : DTree) : Bool :=
  allAtoms.all fun a => !a.consistent || d.abs a == some a.reference

/-- abstract validator state: nil, non-nil as it was, set to the symbol by this call -/
inductive AErr | nil | orig | set
  deriving DecidableEq, Repr

def VLit.absEval (e : AErr) (isPub : Bool) (l : VLit) : Option Bool :=
  match l.atom with
  | .errNil => some ((e == .nil) == l.pos)
  | .isPublic => some (isPub == l.pos)
  | .other _ => none

def allSome : List (Option Bool) → Option Bool
  | [] => some true
  | none :: _ => none
  | some b :: rest => (allSome rest).map (b && ·)

def absVisit (isPub : Bool) : List VStmt → AErr → Option AErr
  | [], e => some e
  | .setErrIf conds arg :: rest, e =>
    match allSome (conds.map (VLit.absEval e isPub)), arg with
    | some true, .symbol => absVisit isPub rest .set
    | some true, .other _ => none
    | some false, _ => absVisit isPub rest e
    | none, _ => none
  | .returnIf conds :: rest, e =>
    match allSome (conds.map (VLit.absEval e isPub)) with
    | some true => some e
    | some false => absVisit isPub rest e
    | none => none
  | .other _ :: _, _ => none

/-- VisitSymbol keeps the first error: sets it to the symbol iff it was nil and the symbol is not public -/
def goodVisit (p : List VStmt) : Bool :=
  absVisit true p .nil == some .nil && absVisit true p .orig == some .orig &&
  absVisit false p .nil == some .set && absVisit false p .orig == some .orig

/-- a fresh validator, one walk of the whole query through Accept, the validator's error returned -/
def goodWalk : List WStmt → Bool
  | [.newVisitor fs, .acceptQuery, .returnErr] => !fs.contains "err"
  | _ => false

def GoodShape (sh : ValidatorShape) : Bool := goodPub sh.isPublic && goodVisit sh.visitSymbol && goodWalk sh.walk

/- --------------------------------------------------------------------------------- soundness -/

theorem firstSeg_of_split {s base : Bytes} {r : List Bytes} (h : splitDot s = base :: r) : firstSeg s = base := by
  simp [firstSeg, h]

theorem splitDot_single : ∀ (s base : Bytes), splitDot s = [base] → base = s
  | [], base, h => by simp [splitDot] at h; first | exact h | exact h.symm
  | ch :: rest, base, h => by
    unfold splitDot at h
    split at h
    · simp only [List.cons.injEq] at h
      exact absurd h.2 (splitDot_ne_nil rest)
    · split at h
      · next hnil => exact absurd hnil (splitDot_ne_nil rest)
      · next hd tl heq =>
        simp only [List.cons.injEq] at h
        obtain ⟨rfl, rfl⟩ := h
        rw [splitDot_single rest hd heq]

theorem atomsOf_consistent (c : PubCfg) (s : Bytes) : (atomsOf c s).consistent = true := by
  unfold Atoms.consistent atomsOf
  rcases h : splitDot s with _ | ⟨base, _ | ⟨x, r⟩⟩
  · exact absurd h (splitDot_ne_nil s)
  · -- one segment: the name has no dot and is its own first segment
    have hb : firstSeg s = s := by rw [firstSeg_of_split h]; exact splitDot_single s base h
    simp [hb]
  · simp

theorem allAtoms_complete (a : Atoms) : a ∈ allAtoms := by
  rcases a with ⟨a, b, d, m, p⟩
  cases a <;> cases b <;> cases d <;> cases m <;> cases p <;> decide

theorem CondE.abs_sound (par : Option (Bytes → Bool)) (c : PubCfg) (s : Bytes) :
    ∀ (e : CondE) (b : Bool), e.abs (atomsOf c s) = some b → e.eval par c s = b
  | .const _, b, h => by simpa [CondE.abs, CondE.eval] using h
  | .lookup t n, b, h => by
    cases t <;> cases n <;> simp_all [CondE.abs, CondE.eval, atomsOf, StoreTbl.keys, NameE.eval]
  | .segsMoreThan n, b, h => by
    simp only [CondE.abs] at h
    split at h
    · next hn => simp only [beq_iff_eq] at hn; subst hn; simpa [CondE.eval, atomsOf] using h
    · cases h
  | .dotNotFirst, _, h => by simp [CondE.abs] at h
  | .lastDotNotFirst, _, h => by simp [CondE.abs] at h
  | .hasParent, _, h => by simp [CondE.abs] at h
  | .parentPublic _, _, h => by simp [CondE.abs] at h
  | .not x, b, h => by
    simp only [CondE.abs, Option.map_eq_some_iff] at h
    obtain ⟨u, hu, rfl⟩ := h
    simp [CondE.eval, CondE.abs_sound par c s x u hu]
  | .and x y, b, h => by
    simp only [CondE.abs] at h
    split at h
    · next u v hu hv =>
      simp only [Option.some.injEq] at h
      simp [CondE.eval, CondE.abs_sound par c s x u hu, CondE.abs_sound par c s y v hv, h]
    · cases h
  | .or x y, b, h => by
    simp only [CondE.abs] at h
    split at h
    · next u v hu hv =>
      simp only [Option.some.injEq] at h
      simp [CondE.eval, CondE.abs_sound par c s x u hu, CondE.abs_sound par c s y v hv, h]
    · cases h
  | .other _, _, h => by simp [CondE.abs] at h

/-- whatever the parent store answers: a tree whose abstract value is defined never asks it -/
theorem DTree.absWith_sound (par : Option (Bytes → Bool)) (c : PubCfg) (s : Bytes) :
    ∀ (d : DTree) (b : Bool), d.abs (atomsOf c s) = some b → d.evalWith par c s = b
  | .ret e, b, h => CondE.abs_sound par c s e b h
  | .ite e t f, b, h => by
    simp only [DTree.abs] at h
    split at h
    · next he => simp [DTree.evalWith, CondE.abs_sound par c s e true he, DTree.absWith_sound par c s t b h]
    · next he => simp [DTree.evalWith, CondE.abs_sound par c s e false he, DTree.absWith_sound par c s f b h]
    · cases h
  | .unknown _, _, h => by simp [DTree.abs] at h

theorem DTree.abs_sound (c : PubCfg) (s : Bytes) (d : DTree) (b : Bool) (h : d.abs (atomsOf c s) = some b) :
    d.eval c s = b :=
  DTree.absWith_sound _ c s d b h

theorem reference_eq (c : PubCfg) (s : Bytes) : (atomsOf c s).reference = isPublicSymbol c s := by
  unfold Atoms.reference atomsOf isPublicSymbol
  rcases h : splitDot s with _ | ⟨base, _ | ⟨x, r⟩⟩
  · exact absurd h (splitDot_ne_nil s)
  · cases c.pub.contains s <;> simp
  · simp only [firstSeg_of_split h]
    cases c.pub.contains s <;> cases c.maps.contains base <;> simp

/-- **a good decision tree is IsPublicSymbol** -/
theorem goodPub_sound {d : DTree} (h : goodPub d = true) (c : PubCfg) (s : Bytes) : d.eval c s = isPublicSymbol c s := by
  simp only [goodPub, List.all_eq_true] at h
  have := h (atomsOf c s) (allAtoms_complete _)
  simp only [atomsOf_consistent, Bool.not_true, Bool.false_or, beq_iff_eq] at this
  rw [DTree.abs_sound c s d _ this, reference_eq]

/-- concretisation of the abstract validator state -/
def AErr.conc (err0 : Option Bytes) (s : Bytes) : AErr → Option Bytes
  | .nil => none
  | .orig => err0
  | .set => some s

def AErr.wf (err0 : Option Bytes) : AErr → Prop
  | .nil => True
  | .orig => err0.isSome = true
  | .set => True

theorem conc_isNone {e : AErr} {err0 : Option Bytes} (s : Bytes) (hwf : e.wf err0) :
    (e.conc err0 s).isNone = (e == AErr.nil) := by
  cases e with
  | nil => rfl
  | orig =>
    cases err0 with
    | none => simp [AErr.wf] at hwf
    | some _ => rfl
  | set => rfl

theorem absEval_sound {x : VLit} {e : AErr} {err0 : Option Bytes} {s : Bytes} {isPub : Bool} (hwf : e.wf err0)
    {v : Bool} (hv : VLit.absEval e isPub x = some v) : VLit.eval (e.conc err0 s) isPub x = v := by
  unfold VLit.absEval at hv
  unfold VLit.eval
  cases ha : x.atom with
  | errNil => simp only [ha, Option.some.injEq] at hv; simp only [conc_isNone s hwf]; exact hv
  | isPublic => simp only [ha, Option.some.injEq] at hv; exact hv
  | other src => simp [ha] at hv

theorem allSome_sound {l : List VLit} {e : AErr} {err0 : Option Bytes} {s : Bytes} {isPub : Bool} (hwf : e.wf err0) :
    ∀ {b : Bool}, allSome (l.map (VLit.absEval e isPub)) = some b → l.all (VLit.eval (e.conc err0 s) isPub) = b := by
  induction l with
  | nil => intro b h; simpa [allSome] using h
  | cons x xs ih =>
    intro b h
    simp only [List.map_cons] at h
    cases hv : VLit.absEval e isPub x with
    | none => simp [hv, allSome] at h
    | some v =>
      simp only [hv, allSome, Option.map_eq_some_iff] at h
      obtain ⟨w, hw, rfl⟩ := h
      simp [List.all_cons, absEval_sound (s := s) hwf hv, ih hw]

theorem absVisit_sound (isPub : Bool) (s : Bytes) (err0 : Option Bytes) :
    ∀ (p : List VStmt) (e e' : AErr), e.wf err0 → absVisit isPub p e = some e' →
      runVisit isPub s p (e.conc err0 s) = e'.conc err0 s ∧ e'.wf err0 := by
  intro p
  induction p with
  | nil => intro e e' hwf h; simp only [absVisit, Option.some.injEq] at h; subst h; exact ⟨rfl, hwf⟩
  | cons st rest ih =>
    intro e e' hwf h
    cases st with
    | setErrIf conds arg =>
      simp only [absVisit] at h
      cases hc : allSome (conds.map (VLit.absEval e isPub)) with
      | none => simp [hc] at h
      | some b =>
        have hb := allSome_sound (s := s) hwf hc
        cases b with
        | true =>
          cases arg with
          | symbol =>
            simp only [hc] at h
            simp only [runVisit, hb, if_true]
            exact ih .set e' trivial h
          | other src => simp [hc] at h
        | false =>
          simp only [hc] at h
          simp only [runVisit, hb]
          exact ih e e' hwf h
    | returnIf conds =>
      simp only [absVisit] at h
      cases hc : allSome (conds.map (VLit.absEval e isPub)) with
      | none => simp [hc] at h
      | some b =>
        have hb := allSome_sound (s := s) hwf hc
        cases b with
        | true =>
          simp only [hc, Option.some.injEq] at h; subst h
          simp only [runVisit, hb, if_true, true_and]
          exact hwf
        | false =>
          simp only [hc] at h
          simp only [runVisit, hb]
          exact ih e e' hwf h
    | other src => simp [absVisit] at h

/-- **a good VisitSymbol keeps the first offending symbol** -/
theorem goodVisit_sound {p : List VStmt} (h : goodVisit p = true) (isPub : Bool) (err : Option Bytes) (s : Bytes) :
    runVisit isPub s p err = if err.isNone && !isPub then some s else err := by
  simp only [goodVisit, Bool.and_eq_true, beq_iff_eq] at h
  obtain ⟨⟨⟨h1, h2⟩, h3⟩, h4⟩ := h
  cases err with
  | none =>
    cases isPub with
    | true => simpa [AErr.conc] using (absVisit_sound true s none p .nil .nil trivial h1).1
    | false => simpa [AErr.conc] using (absVisit_sound false s none p .nil .set trivial h3).1
  | some e =>
    cases isPub with
    | true => simpa [AErr.conc] using (absVisit_sound true s (some e) p .orig .orig (by simp [AErr.wf]) h2).1
    | false => simpa [AErr.conc] using (absVisit_sound false s (some e) p .orig .orig (by simp [AErr.wf]) h4).1

theorem visitSymbolS_good {sh : ValidatorShape} (h : GoodShape sh = true) (c : PubCfg) :
    visitSymbolS sh c = visitSymbol c := by
  simp only [GoodShape, Bool.and_eq_true] at h
  funext err s
  rw [visitSymbolS, goodVisit_sound h.1.2, goodPub_sound h.1.1, visitSymbol]

/-- **a good shape validates like the reference validator**: the interpreted
    ValidateSymbolsArePublic of any good shape is `validate` -/
theorem validateS_good (T : Table) {sh : ValidatorShape} (h : GoodShape sh = true) (c : PubCfg) (q : Tree) :
    validateS T sh c q = validate T c q := by
  have hv := visitSymbolS_good h c
  simp only [GoodShape, Bool.and_eq_true] at h
  have hw := h.2
  unfold goodWalk at hw
  split at hw
  · next fs heq =>
    rw [validateS, heq, hv, validate_eq_run, validateRun]
    simp [runWalk]
  · cases hw

end StorageModel.C20
