import StorageModel.C20.Model
/-
  C20 — specification side: what a query references, what "public" means, which table
  facts make the traversal complete.  Nothing here looks at `steps` of the table except
  `tableComplete`, which is the obligation on the regenerated table itself.
-/
namespace StorageModel.C20
open StorageModel

/-- the symbol names a node holds in its own string fields -/
def ownSymbols (T : Table) (k : String) (strs : List (String × Bytes)) : List Bytes :=
  match T.lookup k with
  | none => []
  | some ki => (strs.filter (fun p => ki.symFields.contains p.1)).map (fun p => p.2)

mutual
/-- every symbol the query references: all symbol-holding strings of all nodes, at any depth,
    through every node-valued field (no reference to what Accept does) -/
def allSymbols (T : Table) : Tree → List Bytes
  | .nil => []
  | .tnil _ => []
  | .node k strs kids => ownSymbols T k strs ++ allSymbolsKids T kids
def allSymbolsKids (T : Table) : Kids → List Bytes
  | .none => []
  | .cons _ t rest => allSymbols T t ++ allSymbolsKids T rest
end

/-- "public for the store, where an element of a map symbol is public exactly when the map is":
    a dotted name whose first segment is a map symbol is an element of that map -/
def specIsPublic (c : PubCfg) (s : Bytes) : Bool :=
  match splitDot s with
  | base :: _ :: _ => if c.maps.contains base then c.pub.contains base else c.pub.contains s
  | _ => c.pub.contains s

/-- a public/non-public assignment *to the store's symbols*: no element of a map is listed as
    public on its own while its map is not (MakeSymbolPublic("tags.k") with `tags` non-public
    would do that; an assignment to the store's symbols never does) -/
def pubWF (c : PubCfg) : Bool :=
  c.pub.all fun s =>
    match splitDot s with
    | base :: _ :: _ => !c.maps.contains base || c.pub.contains base
    | _ => true

/-- where the parser leaves a nil child (no sort / skip / limit clause, count(sym) without a
    sub-query): validation must not panic on these -/
def optionalSlots : List (String × String) :=
  [("queryNode", "SortBy"), ("queryNode", "Skip"), ("queryNode", "Limit"),
   ("untypedQueryNode", "sortBy"), ("untypedQueryNode", "skip"), ("untypedQueryNode", "limit"),
   ("CountSetExprNode", "query"), ("IsEmptySetExprNode", "query")]

mutual
/-- nil children occur only in optional slots -/
def nilOk : Tree → Bool
  | .nil => true
  | .tnil _ => false     -- the parser never stores a typed nil pointer in an interface
  | .node k _ kids => nilOkKids k kids
def nilOkKids (k : String) : Kids → Bool
  | .none => true
  | .cons g t rest =>
    (!t.isNil || optionalSlots.contains (k, g)) && nilOk t && nilOkKids k rest
end

/- ------------------------------------------------------- obligations on the regenerated table -/

/-- symbol strings that a kind may hold without announcing them: the set functions hoisted
    above their comparison keep the set symbol's name for evaluation (`OpenSetCursor(name)`),
    the symbol node itself stays the left operand inside `predicate` -/
def hoistedNames : List (String × String) :=
  [("AllOfSetExprNode", "name"), ("AnyOfSetExprNode", "name")]

/-- non-node interface fields that alias a node-valued field of the same struct
    (AnyOfSetExprNode.seekablePredicate is `predicate` seen as SeekOptimizableBoolNode) -/
def aliasFields : List (String × String) :=
  [("AnyOfSetExprNode", "seekablePredicate")]

def forwards (ki : KindInfo) (f : String) : Bool :=
  ki.steps.any fun
    | .forward g _ => g == f
    | _ => false

def stepOk (ki : KindInfo) : Step → Bool
  | .announce f => ki.symFields.contains f
  | .forward f _ => ki.children.any (fun c => c.field == f)
  | .hook _ => true
  | .unknown _ => false

/-- every node-valued field is forwarded; every symbol-holding string is announced (or is a
    hoisted set-function name); the body contains nothing the extractor does not understand;
    no field could hide a node -/
def kindComplete (ki : KindInfo) : Bool :=
  ki.children.all (fun c => forwards ki c.field) &&
  ki.symFields.all (fun f => ki.steps.contains (.announce f) || hoistedNames.contains (ki.name, f)) &&
  ki.steps.all (stepOk ki) &&
  ki.opaqueFields.all (fun f => aliasFields.contains (ki.name, f))

def tableComplete (T : Table) : Bool := T.all kindComplete

/-- the nil children the parser produces are tolerated by the Accept methods -/
def optionalTolerated (T : Table) : Bool :=
  optionalSlots.all fun (k, f) =>
    match T.lookup k with
    | none => false
    | some ki => ki.steps.all fun
        | .forward g gd => g != f || tolerant T ki g gd
        | _ => true

end StorageModel.C20
