import StorageModel.C20.Shape
/-
  C20 — symbols reached through the Query API rather than through Accept: `GetPredicate()`,
  `GetSortFields()[i].Symbol()`, and what `SetPredicate` / `AdoptSortFields` / `SetSkip` /
  `SetLimit` store.  The accessor table (`Generated.queryApi`, `Generated.symbolVia`) is
  regenerated from ast/node_query.go and the `Symbol()` methods; here it is interpreted, and

  * `apiOk`: every field an API method reads or writes is a node-valued field that the owning
    kind's Accept forwards (obligation on the regenerated data);
  * `symViaOk`: the string field a `Symbol()` method returns is one the table lists as holding a symbol;
  * `api_symbols_referenced`: every symbol the API hands out is referenced by the query in the
    sense of `allSymbols` — hence announced to the validator by `visit_sees_all`.
-/
namespace StorageModel.C20
open StorageModel

/-- the children in field `f` -/
def childrenOf (f : String) : Kids → List Tree
  | .none => []
  | .cons g t rest => (if g == f then [t] else []) ++ childrenOf f rest

/-- the nodes at the end of a field path (a slice field contributes every element) -/
def followPath : List String → Tree → List Tree
  | [], t => [t]
  | f :: rest, .node _ _ kids => (childrenOf f kids).flatMap (followPath rest)
  | _ :: _, _ => []

/-- `n.Symbol()`; `none`: the call dereferences nil (nil interface, typed nil pointer) or is not modelled -/
def symbolFn (V : List (String × SymVia)) : Nat → Tree → Option Bytes
  | 0, _ => none
  | n + 1, .node k strs kids =>
    match V.lookup k with
    | some (.field f) => (fieldValues strs f).head?
    | some (.child c) =>
      match childOf c kids with
      | some t => symbolFn V n t
      | none => none
    | _ => none
  | _ + 1, _ => none

def getPath (api : List ApiMethod) (m : String) : Option (List String) :=
  api.findSome? fun
    | .get m' p => if m' == m then some p else none
    | _ => none

/-- `for _, sf := range query.GetSortFields() { sf.Symbol() }` -/
def sortFieldSymbols (V : List (String × SymVia)) (api : List ApiMethod) (n : Nat) (q : Tree) : List (Option Bytes) :=
  match getPath api "GetSortFields" with
  | some p => (followPath p q).map (symbolFn V n)
  | none => []

/-- `query.GetPredicate()` -/
def getPredicate (api : List ApiMethod) (q : Tree) : List Tree :=
  match getPath api "GetPredicate" with
  | some p => followPath p q
  | none => []

/- -------------------------------------------------------------------------------- obligations -/

/-- every field on the path is a node-valued field of the kind reached so far, forwarded by its Accept -/
def pathOk (T : Table) : Nat → String → List String → Bool
  | _, _, [] => true
  | 0, _, _ => false
  | n + 1, k, f :: rest =>
    match T.lookup k with
    | none => false
    | some ki =>
      match ki.children.find? (fun c => c.field == f) with
      | none => false
      | some c =>
        forwards ki f &&
          (match c.static with
           | .ptr k' => pathOk T n k' rest
           | .val k' => pathOk T n k' rest
           | .iface => rest.isEmpty)

def apiOk (T : Table) (api : List ApiMethod) : Bool :=
  api.all fun
    | .get _ p => pathOk T 4 "queryNode" p
    | .set _ f => pathOk T 4 "queryNode" [f]
    | .adopt _ f => pathOk T 4 "queryNode" [f]
    | .build _ f _ => pathOk T 4 "queryNode" [f]
    | .scalar _ f => pathOk T 4 "queryNode" [f]
    | .eval _ f => pathOk T 4 "queryNode" [f]
    | .unknown _ _ => false

/-- a `Symbol()` that returns a string field returns one the table counts as a symbol; one that
    delegates, delegates to a node-valued field -/
def symViaEntryOk (T : Table) (k : String) (v : SymVia) : Bool :=
  match T.lookup k, v with
  | some ki, .field f => ki.symFields.contains f
  | some ki, .child c => ki.children.any (fun ch => ch.field == c)
  | _, _ => false

def symViaOk (T : Table) (V : List (String × SymVia)) : Bool := V.all fun p => symViaEntryOk T p.1 p.2

/- ------------------------------------------------------------------------------------ theorems -/

theorem mem_childrenOf {f : String} {t : Tree} : ∀ {kids : Kids}, t ∈ childrenOf f kids → (f, t) ∈ kids.toList
  | .none, h => by simp [childrenOf] at h
  | .cons g t' rest, h => by
    simp only [childrenOf, List.mem_append] at h
    rcases h with h | h
    · by_cases hg : (g == f) = true
      · simp only [hg, if_true, List.mem_singleton] at h
        subst h
        simp [Kids.toList, beq_iff_eq.mp hg]
      · simp [hg] at h
    · simp [Kids.toList, mem_childrenOf h]

theorem childOf_mem {f : String} {t : Tree} : ∀ {kids : Kids}, childOf f kids = some t → (f, t) ∈ kids.toList
  | .none, h => by simp [childOf] at h
  | .cons g t' rest, h => by
    simp only [childOf] at h
    by_cases hg : (g == f) = true
    · simp only [hg, if_true, Option.some.injEq] at h
      subst h
      simp [Kids.toList, beq_iff_eq.mp hg]
    · simp only [hg] at h
      simp [Kids.toList, childOf_mem h]

/-- whatever a node at the end of a field path references, the query references -/
theorem followPath_symbols {T : Table} : ∀ (p : List String) (q t : Tree), t ∈ followPath p q →
    ∀ s, s ∈ allSymbols T t → s ∈ allSymbols T q
  | [], q, t, h, s, hs => by simp only [followPath, List.mem_singleton] at h; subst h; exact hs
  | f :: rest, .nil, t, h, _, _ => by simp [followPath] at h
  | f :: rest, .tnil _, t, h, _, _ => by simp [followPath] at h
  | f :: rest, .node k strs kids, t, h, s, hs => by
    simp only [followPath, List.mem_flatMap] at h
    obtain ⟨c, hc, ht⟩ := h
    have := followPath_symbols rest c t ht s hs
    rw [allSymbols, List.mem_append]
    exact Or.inr (mem_allSymbolsKids.mpr ⟨f, c, mem_childrenOf hc, this⟩)

/-- the result of `Symbol()` is a symbol the node references -/
theorem symbolFn_symbols {T : Table} {V : List (String × SymVia)} (hV : symViaOk T V = true) :
    ∀ (n : Nat) (t : Tree) (s : Bytes), symbolFn V n t = some s → s ∈ allSymbols T t
  | 0, _, _, h => by simp [symbolFn] at h
  | n + 1, .nil, _, h => by simp [symbolFn] at h
  | n + 1, .tnil _, _, h => by simp [symbolFn] at h
  | n + 1, .node k strs kids, s, h => by
    simp only [symbolFn] at h
    cases hv : V.lookup k with
    | none => simp [hv] at h
    | some v =>
      have hmem : (k, v) ∈ V := by
        have := List.lookup_eq_some_iff.mp hv
        obtain ⟨l1, l2, heq, _⟩ := this
        rw [heq]; simp
      have hok : symViaEntryOk T k v = true := by
        have hV' := hV
        simp only [symViaOk, List.all_eq_true] at hV'
        exact hV' (k, v) hmem
      rw [allSymbols, List.mem_append]
      cases v with
      | field f =>
        simp only [hv] at h
        cases hl : T.lookup k with
        | none => simp [symViaEntryOk, hl] at hok
        | some ki =>
          simp only [symViaEntryOk, hl, List.contains_iff_mem] at hok
          left
          refine mem_ownSymbols.mpr ⟨ki, hl, f, hok, ?_⟩
          exact mem_fieldValues.mp (List.mem_of_mem_head? (by rw [h]; rfl))
      | child c =>
        simp only [hv] at h
        cases hc : childOf c kids with
        | none => simp [hc] at h
        | some t =>
          simp only [hc] at h
          right
          exact mem_allSymbolsKids.mpr ⟨c, t, childOf_mem hc, symbolFn_symbols hV n t s h⟩
      | other src => simp [hv] at h

/-- **Every symbol the Query API hands out is referenced by the query** (and therefore, by
    `visit_sees_all`, announced to the validator): the symbols of the sort fields returned by
    `GetSortFields()` and everything below the node returned by `GetPredicate()`. -/
theorem api_symbols_referenced {T : Table} {V : List (String × SymVia)} (hV : symViaOk T V = true)
    (api : List ApiMethod) (n : Nat) (q : Tree) :
    (∀ s, some s ∈ sortFieldSymbols V api n q → s ∈ allSymbols T q) ∧
    (∀ t ∈ getPredicate api q, ∀ s ∈ allSymbols T t, s ∈ allSymbols T q) := by
  constructor
  · intro s hs
    unfold sortFieldSymbols at hs
    cases hp : getPath api "GetSortFields" with
    | none => simp [hp] at hs
    | some p =>
      simp only [hp, List.mem_map] at hs
      obtain ⟨t, ht, hsym⟩ := hs
      exact followPath_symbols p q t ht s (symbolFn_symbols hV n t s hsym)
  · intro t ht s hs
    unfold getPredicate at ht
    cases hp : getPath api "GetPredicate" with
    | none => simp [hp] at ht
    | some p =>
      simp only [hp] at ht
      exact followPath_symbols p q t ht s hs

end StorageModel.C20
