import StorageModel.C10.Build
/-
  C10 — soundness of the reference recogniser: what `parseStart` accepts is the yield of a
  well-formed derivation.
-/
namespace StorageModel.C10

theorem allWS_cons (t : Token) (w : WSs) : allWS (t :: w) = (isWS t && allWS w) := by
  simp [allWS]

theorem spanWS_spec : ∀ (ts : List Token) (w r : List Token), spanWS ts = (w, r) → ts = w ++ r ∧ allWS w = true := by
  intro ts
  induction ts with
  | nil => intro w r h; simp [spanWS] at h; obtain ⟨rfl, rfl⟩ := h; exact ⟨rfl, rfl⟩
  | cons t rest ih =>
    intro w r h
    simp only [spanWS] at h
    split at h
    · next hws =>
      cases hr : spanWS rest with
      | mk w' r' =>
        rw [hr] at h
        simp only [Prod.mk.injEq] at h
        obtain ⟨rfl, rfl⟩ := h
        obtain ⟨h1, h2⟩ := ih w' r' hr
        exact ⟨by rw [h1]; rfl, by rw [allWS_cons, hws, h2]; rfl⟩
    · simp only [Prod.mk.injEq] at h
      obtain ⟨rfl, rfl⟩ := h
      exact ⟨rfl, rfl⟩

/-- result of a sub-parser: the input is the yield followed by the rest, and the tree is well formed -/
def Sound {α} (yield : α → List Token) (wf : α → Bool) (ts : List Token) (res : Option (α × List Token)) : Prop :=
  ∀ a r, res = some (a, r) → ts = yield a ++ r ∧ wf a = true

theorem sound_none {α} (y : α → List Token) (wf : α → Bool) (ts : List Token) : Sound y wf ts none := by
  intro a r h; cases h

theorem parseArrMore_spec (k : TK) : ∀ (n : Nat) (ts : List Token) (more : List (WSs × Token × WSs × Token)) (r : List Token),
    parseArrMore k n ts = (more, r) →
    ts = (more.flatMap fun m => m.1 ++ m.2.1 :: m.2.2.1 ++ [m.2.2.2]) ++ r ∧
    more.all (fun m => allWS m.1 && kindIs m.2.1 .COMMA && allWS m.2.2.1 && kindIs m.2.2.2 k) = true := by
  intro n
  induction n with
  | zero => intro ts more r h; simp [parseArrMore] at h; obtain ⟨rfl, rfl⟩ := h; simp
  | succ n ih =>
    intro ts more r h
    simp only [parseArrMore] at h
    cases hs : spanWS ts with
    | mk wa r0 =>
      obtain ⟨e1, a1⟩ := spanWS_spec ts wa r0 hs
      rw [hs] at h
      simp only at h
      cases r0 with
      | nil => simp only [Prod.mk.injEq] at h; obtain ⟨rfl, rfl⟩ := h; simp
      | cons c r1 =>
        simp only at h
        split at h
        · next hc =>
          cases hs2 : spanWS r1 with
          | mk wb r2 =>
            obtain ⟨e2, a2⟩ := spanWS_spec r1 wb r2 hs2
            rw [hs2] at h
            simp only at h
            cases r2 with
            | nil => simp only [Prod.mk.injEq] at h; obtain ⟨rfl, rfl⟩ := h; simp
            | cons x r3 =>
              simp only at h
              split at h
              · next hx =>
                cases hm : parseArrMore k n r3 with
                | mk more' r4 =>
                  rw [hm] at h
                  simp only [Prod.mk.injEq] at h
                  obtain ⟨rfl, rfl⟩ := h
                  obtain ⟨e3, a3⟩ := ih r3 more' r4 hm
                  refine ⟨?_, ?_⟩
                  · rw [e1, e2, e3]; simp [List.append_assoc]
                  · rw [List.all_cons, a3]; simp only [a1, a2, kindIs, hc, hx, Bool.and_self]
              · simp only [Prod.mk.injEq] at h; obtain ⟨rfl, rfl⟩ := h; simp
        · simp only [Prod.mk.injEq] at h; obtain ⟨rfl, rfl⟩ := h; simp

theorem parseArr_sound (ts : List Token) (a : ArrTree) (r : List Token) (h : parseArr ts = some (a, r)) :
    ts = a.yield ++ r ∧ a.wf = true := by
  unfold parseArr at h
  cases ts with
  | nil => simp at h
  | cons lb r0 =>
    simp only at h
    split at h
    · cases h
    · next hlb =>
      cases hs : spanWS r0 with
      | mk w0 r1 =>
        obtain ⟨e1, a1⟩ := spanWS_spec r0 w0 r1 hs
        rw [hs] at h
        simp only at h
        cases r1 with
        | nil => simp at h
        | cons x r2 =>
          simp only at h
          split at h
          · cases h
          · next kind hk =>
            cases hm : parseArrMore kind.tk r2.length r2 with
            | mk more r3 =>
              obtain ⟨e2, a2⟩ := parseArrMore_spec kind.tk _ r2 more r3 hm
              rw [hm] at h
              simp only at h
              cases hs2 : spanWS r3 with
              | mk w1 r4 =>
                obtain ⟨e3, a3⟩ := spanWS_spec r3 w1 r4 hs2
                rw [hs2] at h
                simp only at h
                cases r4 with
                | nil => simp at h
                | cons rb r5 =>
                  simp only at h
                  split at h
                  · next hrb =>
                    simp only [Option.some.injEq, Prod.mk.injEq] at h
                    obtain ⟨rfl, rfl⟩ := h
                    have hxk : kindIs x kind.tk = true := by
                      simp only [kindIs]
                      split at hk
                      · next h1 => cases hk; simpa [ArrKind.tk] using h1
                      · split at hk
                        · next h2 => cases hk; simpa [ArrKind.tk] using h2
                        · split at hk
                          · next h3 => cases hk; simpa [ArrKind.tk] using h3
                          · cases hk
                    have hlb' : kindIs lb .LBRACKET = true := by simpa [kindIs] using hlb
                    refine ⟨?_, ?_⟩
                    · simp only [ArrTree.yield]
                      rw [e1, e2, e3]; simp [List.append_assoc]
                    · have hrb' : kindIs rb .RBRACKET = true := hrb
                      simp only [ArrTree.wf, hlb', a1, hxk, a2, a3, hrb', Bool.and_self]
                  · cases h

theorem parseSortField_sound (ts : List Token) (a : SortFieldTree) (r : List Token) (h : parseSortField ts = some (a, r)) :
    ts = a.yield ++ r ∧ a.wf = true := by
  unfold parseSortField at h
  cases ts with
  | nil => simp at h
  | cons id r0 =>
    simp only at h
    split at h
    · cases h
    · next hid =>
      have hid' : kindIs id .IDENTIFIER = true := by simpa [kindIs] using hid
      cases hs : spanWS r0 with
      | mk w r1 =>
        obtain ⟨e1, a1⟩ := spanWS_spec r0 w r1 hs
        rw [hs] at h
        simp only at h
        cases r1 with
        | nil =>
          simp only [Option.some.injEq, Prod.mk.injEq] at h
          obtain ⟨rfl, rfl⟩ := h
          exact ⟨by simp [SortFieldTree.yield], by simp [SortFieldTree.wf, hid']⟩
        | cons d r2 =>
          simp only at h
          split at h
          · next hc =>
            simp only [Option.some.injEq, Prod.mk.injEq] at h
            obtain ⟨rfl, rfl⟩ := h
            simp only [Bool.and_eq_true, Bool.not_eq_true', Bool.or_eq_true] at hc
            refine ⟨by simp [SortFieldTree.yield, e1], ?_⟩
            have hd : (kindIs d .ASC || kindIs d .DESC) = true := by simpa [kindIs] using hc.2
            simp only [SortFieldTree.wf, hid', a1, hc.1, hd, Bool.true_and, Bool.not_false]
          · simp only [Option.some.injEq, Prod.mk.injEq] at h
            obtain ⟨rfl, rfl⟩ := h
            exact ⟨by simp [SortFieldTree.yield], by simp [SortFieldTree.wf, hid']⟩

theorem parseSortMore_spec : ∀ (n : Nat) (ts : List Token) (more : List (WSs × Token × WSs × SortFieldTree)) (r : List Token),
    parseSortMore n ts = (more, r) →
    ts = (more.flatMap fun m => m.1 ++ m.2.1 :: m.2.2.1 ++ m.2.2.2.yield) ++ r ∧
    more.all (fun m => allWS m.1 && kindIs m.2.1 .COMMA && allWS m.2.2.1 && m.2.2.2.wf) = true := by
  intro n
  induction n with
  | zero => intro ts more r h; simp [parseSortMore] at h; obtain ⟨rfl, rfl⟩ := h; simp
  | succ n ih =>
    intro ts more r h
    simp only [parseSortMore] at h
    cases hs : spanWS ts with
    | mk wa r0 =>
      obtain ⟨e1, a1⟩ := spanWS_spec ts wa r0 hs
      rw [hs] at h
      simp only at h
      cases r0 with
      | nil => simp only [Prod.mk.injEq] at h; obtain ⟨rfl, rfl⟩ := h; simp
      | cons c r1 =>
        simp only at h
        split at h
        · next hc =>
          cases hs2 : spanWS r1 with
          | mk wb r2 =>
            obtain ⟨e2, a2⟩ := spanWS_spec r1 wb r2 hs2
            rw [hs2] at h
            simp only at h
            cases hf : parseSortField r2 with
            | none => rw [hf] at h; simp only [Prod.mk.injEq] at h; obtain ⟨rfl, rfl⟩ := h; simp
            | some fr =>
              obtain ⟨f, r3⟩ := fr
              obtain ⟨e3, a3⟩ := parseSortField_sound r2 f r3 hf
              rw [hf] at h
              simp only at h
              cases hm : parseSortMore n r3 with
              | mk more' r4 =>
                rw [hm] at h
                simp only [Prod.mk.injEq] at h
                obtain ⟨rfl, rfl⟩ := h
                obtain ⟨e4, a4⟩ := ih r3 more' r4 hm
                refine ⟨?_, ?_⟩
                · rw [e1, e2, e3, e4]; simp [List.append_assoc]
                · rw [List.all_cons, a4]; simp only [a1, a2, a3, kindIs, hc, Bool.and_self]
        · simp only [Prod.mk.injEq] at h; obtain ⟨rfl, rfl⟩ := h; simp

theorem parseSortBy_sound (ts : List Token) (a : SortByTree) (r : List Token) (h : parseSortBy ts = some (a, r)) :
    ts = a.yield ++ r ∧ a.wf = true := by
  unfold parseSortBy at h
  cases ts with
  | nil => simp at h
  | cons s r0 =>
    simp only at h
    split at h
    · cases h
    · next hsk =>
      cases hs : spanWS r0 with
      | mk w0 r1 =>
        obtain ⟨e1, a1⟩ := spanWS_spec r0 w0 r1 hs
        rw [hs] at h
        simp only at h
        split at h
        · cases h
        · next hw0 =>
          cases r1 with
          | nil => simp at h
          | cons b r2 =>
            simp only at h
            split at h
            · cases h
            · next hb =>
              cases hs2 : spanWS r2 with
              | mk w1 r3 =>
                obtain ⟨e2, a2⟩ := spanWS_spec r2 w1 r3 hs2
                rw [hs2] at h
                simp only at h
                split at h
                · cases h
                · next hw1 =>
                  cases hf : parseSortField r3 with
                  | none => rw [hf] at h; cases h
                  | some fr =>
                    obtain ⟨f, r4⟩ := fr
                    obtain ⟨e3, a3⟩ := parseSortField_sound r3 f r4 hf
                    rw [hf] at h
                    simp only at h
                    cases hm : parseSortMore r4.length r4 with
                    | mk more r5 =>
                      obtain ⟨e4, a4⟩ := parseSortMore_spec _ r4 more r5 hm
                      rw [hm] at h
                      simp only [Option.some.injEq, Prod.mk.injEq] at h
                      obtain ⟨rfl, rfl⟩ := h
                      have hsk' : kindIs s .SORT = true := by simpa [kindIs] using hsk
                      have hb' : kindIs b .BY = true := by simpa [kindIs] using hb
                      refine ⟨?_, ?_⟩
                      · simp only [SortByTree.yield]
                        rw [e1, e2, e3, e4]; simp [List.append_assoc]
                      · simp only [SortByTree.wf, hsk', hb', a1, a2, a3, a4, Bool.and_self, Bool.true_and]
                        simp [hw0, hw1]

theorem parseKwNum_sound (kw : TK) (ks : List TK) (ts : List Token) (a : KwNumTree) (r : List Token)
    (h : parseKwNum kw ks ts = some (a, r)) :
    ts = a.yield ++ r ∧ a.kw.kind = kw ∧ allWS a.w = true ∧ a.w.isEmpty = false ∧ ks.contains a.arg.kind = true := by
  unfold parseKwNum at h
  cases ts with
  | nil => simp at h
  | cons k r0 =>
    simp only at h
    split at h
    · cases h
    · next hk =>
      cases hs : spanWS r0 with
      | mk w r1 =>
        obtain ⟨e1, a1⟩ := spanWS_spec r0 w r1 hs
        rw [hs] at h
        simp only at h
        split at h
        · cases h
        · next hw =>
          cases r1 with
          | nil => simp at h
          | cons x r2 =>
            simp only at h
            split at h
            · next hx =>
              simp only [Option.some.injEq, Prod.mk.injEq] at h
              obtain ⟨rfl, rfl⟩ := h
              exact ⟨by simp [KwNumTree.yield, e1], by simpa using hk, a1, by simpa using hw, hx⟩
            · cases h

theorem parseSkip_sound (ts : List Token) (a : KwNumTree) (r : List Token) (h : parseSkip ts = some (a, r)) :
    ts = a.yield ++ r ∧ skipWf a = true := by
  obtain ⟨e, h1, h2, h3, h4⟩ := parseKwNum_sound _ _ ts a r h
  refine ⟨e, ?_⟩
  simp only [List.contains_cons, List.contains_nil, Bool.or_false, beq_iff_eq] at h4
  simp [skipWf, kindIs, h1, h2, h3, h4]

theorem parseLimit_sound (ts : List Token) (a : KwNumTree) (r : List Token) (h : parseLimit ts = some (a, r)) :
    ts = a.yield ++ r ∧ limitWf a = true := by
  obtain ⟨e, h1, h2, h3, h4⟩ := parseKwNum_sound _ _ ts a r h
  refine ⟨e, ?_⟩
  simp only [List.contains_cons, List.contains_nil, Bool.or_false, Bool.or_eq_true, beq_iff_eq] at h4
  rcases h4 with h4 | h4 <;> simp [limitWf, kindIs, h1, h2, h3, h4]

theorem parseOptWs_sound {α} (first : TK) (p : List Token → Option (α × List Token)) (y : α → List Token) (wf : α → Bool)
    (hp : ∀ ts a r, p ts = some (a, r) → ts = y a ++ r ∧ wf a = true)
    (ts : List Token) (o : Option (WSs × α)) (r : List Token) (h : parseOptWs first p ts = some (o, r)) :
    ts = optYield y o ++ r ∧ optWf wf o = true := by
  unfold parseOptWs at h
  cases hs : spanWS ts with
  | mk w r0 =>
    obtain ⟨e1, a1⟩ := spanWS_spec ts w r0 hs
    rw [hs] at h
    simp only at h
    cases r0 with
    | nil =>
      simp only [Option.some.injEq, Prod.mk.injEq] at h
      obtain ⟨rfl, rfl⟩ := h
      exact ⟨by simp [optYield], rfl⟩
    | cons t r1 =>
      simp only at h
      split at h
      · next hc =>
        simp only [Bool.and_eq_true, Bool.not_eq_true'] at hc
        cases hpp : p (t :: r1) with
        | none => rw [hpp] at h; cases h
        | some ar =>
          obtain ⟨a, r'⟩ := ar
          rw [hpp] at h
          simp only [Option.some.injEq, Prod.mk.injEq] at h
          obtain ⟨rfl, rfl⟩ := h
          obtain ⟨e2, a2⟩ := hp _ a r' hpp
          exact ⟨by simp [optYield, e1, e2], by simp [optWf, a1, hc.1, a2]⟩
      · simp only [Option.some.injEq, Prod.mk.injEq] at h
        obtain ⟨rfl, rfl⟩ := h
        exact ⟨by simp [optYield], rfl⟩

theorem parseTail_sound (ts : List Token) (a : TailTree) (r : List Token) (h : parseTail ts = some (a, r)) :
    ts = a.yield ++ r ∧ a.wf = true := by
  unfold parseTail at h
  cases h1 : parseOptWs .SORT parseSortBy ts with
  | none => rw [h1] at h; cases h
  | some x1 =>
    obtain ⟨sb, r1⟩ := x1
    obtain ⟨e1, a1⟩ := parseOptWs_sound _ _ SortByTree.yield SortByTree.wf parseSortBy_sound ts sb r1 h1
    rw [h1] at h
    simp only at h
    cases h2 : parseOptWs .SKIP_ROWS parseSkip r1 with
    | none => rw [h2] at h; cases h
    | some x2 =>
      obtain ⟨sk, r2⟩ := x2
      obtain ⟨e2, a2⟩ := parseOptWs_sound _ _ KwNumTree.yield skipWf parseSkip_sound r1 sk r2 h2
      rw [h2] at h
      simp only at h
      cases h3 : parseOptWs .LIMIT_ROWS parseLimit r2 with
      | none => rw [h3] at h; cases h
      | some x3 =>
        obtain ⟨li, r3⟩ := x3
        obtain ⟨e3, a3⟩ := parseOptWs_sound _ _ KwNumTree.yield limitWf parseLimit_sound r2 li r3 h3
        rw [h3] at h
        simp only [Option.some.injEq, Prod.mk.injEq] at h
        obtain ⟨rfl, rfl⟩ := h
        exact ⟨by simp [TailTree.yield, e1, e2, e3, List.append_assoc], by simp [TailTree.wf, a1, a2, a3]⟩

theorem parseOpRest_sound (lhs : LhsTree) (hl : lhs.wf = true) (ts : List Token) (a : BoolTree) (r : List Token)
    (h : parseOpRest lhs ts = some (a, r)) : lhs.yield ++ ts = a.yield ++ r ∧ a.wf = true := by
  unfold parseOpRest at h
  cases hs : spanWS ts with
  | mk w0 r0 =>
    obtain ⟨e1, a1⟩ := spanWS_spec ts w0 r0 hs
    rw [hs] at h
    simp only at h
    cases r0 with
    | nil => simp at h
    | cons op r1 =>
      simp only at h
      cases hs2 : spanWS r1 with
      | mk w1 r2 =>
        obtain ⟨e2, a2⟩ := spanWS_spec r1 w1 r2 hs2
        rw [hs2] at h
        simp only at h
        split at h
        · -- IN
          next hk =>
          split at h
          · cases h
          · next hw =>
            simp only [Bool.or_eq_true, not_or, Bool.not_eq_true] at hw
            cases ha : parseArr r2 with
            | none => rw [ha] at h; cases h
            | some ar =>
              obtain ⟨arr, r3⟩ := ar
              obtain ⟨e3, a3⟩ := parseArr_sound r2 arr r3 ha
              rw [ha] at h
              simp only [Option.some.injEq, Prod.mk.injEq] at h
              obtain ⟨rfl, rfl⟩ := h
              have hop : kindIs op .IN = true := by simp [kindIs, hk]
              exact ⟨by simp [BoolTree.yield, e1, e2, e3, List.append_assoc],
                by simp [BoolTree.wf, hl, a1, a2, a3, hop, hw.1, hw.2]⟩
        · -- BETWEEN
          next hk =>
          split at h
          · cases h
          · next hw =>
            simp only [Bool.or_eq_true, not_or, Bool.not_eq_true] at hw
            cases r2 with
            | nil => simp at h
            | cons lo r3 =>
              simp only at h
              split at h
              · cases h
              · next hlo =>
                cases hs3 : spanWS r3 with
                | mk w2 r4 =>
                  obtain ⟨e3, a3⟩ := spanWS_spec r3 w2 r4 hs3
                  rw [hs3] at h
                  simp only at h
                  cases r4 with
                  | nil => simp at h
                  | cons an r5 =>
                    simp only at h
                    cases hs4 : spanWS r5 with
                    | mk w3 r6 =>
                      obtain ⟨e4, a4⟩ := spanWS_spec r5 w3 r6 hs4
                      rw [hs4] at h
                      simp only at h
                      cases r6 with
                      | nil => simp at h
                      | cons hi r7 =>
                        simp only at h
                        split at h
                        · next hc =>
                          simp only [Option.some.injEq, Prod.mk.injEq] at h
                          obtain ⟨rfl, rfl⟩ := h
                          simp only [Bool.and_eq_true, Bool.not_eq_true', beq_iff_eq] at hc
                          have hop : kindIs op .BETWEEN = true := by simp [kindIs, hk]
                          have hlo' : (kindIs lo .NUMBER || kindIs lo .DATETIME) = true := by
                            simp only [Bool.and_eq_true, bne_iff_ne, ne_eq, not_and, Decidable.not_not] at hlo
                            simp only [kindIs, Bool.or_eq_true, beq_iff_eq]
                            by_cases hn : lo.kind = .NUMBER
                            · exact Or.inl hn
                            · exact Or.inr (hlo hn)
                          have han : kindIs an .AND = true := by simp [kindIs, hc.1.1.1]
                          refine ⟨by simp [BoolTree.yield, e1, e2, e3, e4, List.append_assoc], ?_⟩
                          simp only [BoolTree.wf, hl, a1, a2, a3, a4, hop, hlo', han, hw.1, hw.2, hc.1.1.2, hc.1.2, hc.2,
                            Bool.not_false, Bool.and_self, beq_self_eq_true]
                        · cases h
        · -- LT
          next hk =>
          cases r2 with
          | nil => simp at h
          | cons rhs r3 =>
            simp only at h
            split at h
            · next hr =>
              simp only [Option.some.injEq, Prod.mk.injEq] at h
              obtain ⟨rfl, rfl⟩ := h
              refine ⟨by simp [BoolTree.yield, e1, e2, List.append_assoc], ?_⟩
              rw [hk] at hr
              simp [BoolTree.wf, hl, a1, a2, hr, hk]
            · cases h
        · -- GT
          next hk =>
          cases r2 with
          | nil => simp at h
          | cons rhs r3 =>
            simp only at h
            split at h
            · next hr =>
              simp only [Option.some.injEq, Prod.mk.injEq] at h
              obtain ⟨rfl, rfl⟩ := h
              refine ⟨by simp [BoolTree.yield, e1, e2, List.append_assoc], ?_⟩
              rw [hk] at hr
              simp [BoolTree.wf, hl, a1, a2, hr, hk]
            · cases h
        · -- EQ
          next hk =>
          cases r2 with
          | nil => simp at h
          | cons rhs r3 =>
            simp only at h
            split at h
            · next hr =>
              simp only [Option.some.injEq, Prod.mk.injEq] at h
              obtain ⟨rfl, rfl⟩ := h
              refine ⟨by simp [BoolTree.yield, e1, e2, List.append_assoc], ?_⟩
              rw [hk] at hr
              simp [BoolTree.wf, hl, a1, a2, hr, hk]
            · cases h
        · -- CONTAINS
          next hk =>
          split at h
          · cases h
          · next hw =>
            cases r2 with
            | nil => simp at h
            | cons rhs r3 =>
              simp only at h
              split at h
              · next hr =>
                simp only [Option.some.injEq, Prod.mk.injEq] at h
                obtain ⟨rfl, rfl⟩ := h
                refine ⟨by simp [BoolTree.yield, e1, e2, List.append_assoc], ?_⟩
                rw [hk] at hr
                simp [BoolTree.wf, hl, a1, a2, hr, hk]
                simpa using hw
              · cases h
        · -- ICONTAINS
          next hk =>
          split at h
          · cases h
          · next hw =>
            cases r2 with
            | nil => simp at h
            | cons rhs r3 =>
              simp only at h
              split at h
              · next hr =>
                simp only [Option.some.injEq, Prod.mk.injEq] at h
                obtain ⟨rfl, rfl⟩ := h
                refine ⟨by simp [BoolTree.yield, e1, e2, List.append_assoc], ?_⟩
                rw [hk] at hr
                simp [BoolTree.wf, hl, a1, a2, hr, hk]
                simpa using hw
              · cases h
        · cases h

theorem parse_mutual_sound : ∀ (n : Nat),
    (∀ ts a r, parseBool n ts = some (a, r) → ts = a.yield ++ r ∧ a.wf = true) ∧
    (∀ ts a r, parsePrimary n ts = some (a, r) → ts = a.yield ++ r ∧ a.wf = true) ∧
    (∀ ts (a : SetExprTree) r, parseSetExpr n ts = some (a, r) → ts = a.yield ++ r ∧ a.wf = true) ∧
    (∀ ts (a : QueryTree) r, parseQuery n ts = some (a, r) → ts = a.yield ++ r ∧ a.wf = true) := by
  intro n
  induction n with
  | zero =>
    refine ⟨?_, ?_, ?_, ?_⟩ <;> intro ts a r h
    · simp [parseBool] at h
    · simp [parsePrimary] at h
    · simp [parseSetExpr] at h
    · simp [parseQuery] at h
  | succ n ih =>
    obtain ⟨ihB, ihP, ihS, ihQ⟩ := ih
    refine ⟨?_, ?_, ?_, ?_⟩
    · -- parseBool
      intro ts a r h
      simp only [parseBool] at h
      cases hp : parsePrimary n ts with
      | none => rw [hp] at h; cases h
      | some lr =>
        obtain ⟨l, r0⟩ := lr
        obtain ⟨e0, a0⟩ := ihP ts l r0 hp
        rw [hp] at h
        simp only at h
        cases hs : spanWS r0 with
        | mk w0 r1 =>
          obtain ⟨e1, a1⟩ := spanWS_spec r0 w0 r1 hs
          rw [hs] at h
          simp only at h
          cases r1 with
          | nil =>
            simp only [Option.some.injEq, Prod.mk.injEq] at h
            obtain ⟨rfl, rfl⟩ := h
            exact ⟨e0, a0⟩
          | cons op r2 =>
            simp only at h
            split at h
            · next hc =>
              simp only [Bool.and_eq_true, Bool.not_eq_true', Bool.or_eq_true, beq_iff_eq] at hc
              cases hs2 : spanWS r2 with
              | mk w1 r3 =>
                obtain ⟨e2, a2⟩ := spanWS_spec r2 w1 r3 hs2
                rw [hs2] at h
                simp only at h
                split at h
                · cases h
                · next hw1 =>
                  cases hb : parseBool n r3 with
                  | none => rw [hb] at h; cases h
                  | some rr =>
                    obtain ⟨rt, r4⟩ := rr
                    obtain ⟨e3, a3⟩ := ihB r3 rt r4 hb
                    rw [hb] at h
                    simp only at h
                    split at h
                    · next hand =>
                      simp only [Option.some.injEq, Prod.mk.injEq] at h
                      obtain ⟨rfl, rfl⟩ := h
                      refine ⟨by simp [BoolTree.yield, e0, e1, e2, e3, List.append_assoc], ?_⟩
                      have : kindIs op .AND = true := hand
                      simp [BoolTree.wf, a0, a1, a2, a3, this, hc.1]
                      simpa using hw1
                    · next hand =>
                      simp only [Option.some.injEq, Prod.mk.injEq] at h
                      obtain ⟨rfl, rfl⟩ := h
                      refine ⟨by simp [BoolTree.yield, e0, e1, e2, e3, List.append_assoc], ?_⟩
                      have hor : kindIs op .OR = true := by
                        rcases hc.2 with h' | h'
                        · exact absurd (by simp [h']) hand
                        · simp [kindIs, h']
                      simp [BoolTree.wf, a0, a1, a2, a3, hor, hc.1]
                      simpa using hw1
            · simp only [Option.some.injEq, Prod.mk.injEq] at h
              obtain ⟨rfl, rfl⟩ := h
              exact ⟨e0, a0⟩
    · -- parsePrimary
      intro ts a r h
      simp only [parsePrimary] at h
      cases ts with
      | nil => simp at h
      | cons t r0 =>
        simp only at h
        split at h
        · -- LPAREN
          next hk =>
          cases hs : spanWS r0 with
          | mk w0 r1 =>
            obtain ⟨e1, a1⟩ := spanWS_spec r0 w0 r1 hs
            rw [hs] at h
            simp only at h
            cases hb : parseBool n r1 with
            | none => rw [hb] at h; cases h
            | some er =>
              obtain ⟨e, r2⟩ := er
              obtain ⟨e2, a2⟩ := ihB r1 e r2 hb
              rw [hb] at h
              simp only at h
              cases hs2 : spanWS r2 with
              | mk w1 r3 =>
                obtain ⟨e3, a3⟩ := spanWS_spec r2 w1 r3 hs2
                rw [hs2] at h
                simp only at h
                cases r3 with
                | nil => simp at h
                | cons rp r4 =>
                  simp only at h
                  split at h
                  · next hrp =>
                    simp only [Option.some.injEq, Prod.mk.injEq] at h
                    obtain ⟨rfl, rfl⟩ := h
                    have h1 : kindIs t .LPAREN = true := by simp [kindIs, hk]
                    have h2 : kindIs rp .RPAREN = true := hrp
                    exact ⟨by simp [BoolTree.yield, e1, e2, e3, List.append_assoc], by simp [BoolTree.wf, h1, h2, a1, a2, a3]⟩
                  · cases h
        · -- BOOL
          next hk =>
          simp only [Option.some.injEq, Prod.mk.injEq] at h
          obtain ⟨rfl, rfl⟩ := h
          exact ⟨by simp [BoolTree.yield], by simp [BoolTree.wf, kindIs, hk]⟩
        · -- ISEMPTY
          next hk =>
          cases r0 with
          | nil => simp at h
          | cons lp r1 =>
            simp only at h
            split at h
            · cases h
            · next hlp =>
              cases hs : spanWS r1 with
              | mk w0 r2 =>
                obtain ⟨e1, a1⟩ := spanWS_spec r1 w0 r2 hs
                rw [hs] at h
                simp only at h
                cases hse : parseSetExpr n r2 with
                | none => rw [hse] at h; cases h
                | some sr =>
                  obtain ⟨s', r3⟩ := sr
                  obtain ⟨e2, a2⟩ := ihS r2 s' r3 hse
                  rw [hse] at h
                  simp only at h
                  cases hs2 : spanWS r3 with
                  | mk w1 r4 =>
                    obtain ⟨e3, a3⟩ := spanWS_spec r3 w1 r4 hs2
                    rw [hs2] at h
                    simp only at h
                    cases r4 with
                    | nil => simp at h
                    | cons rp r5 =>
                      simp only at h
                      split at h
                      · next hrp =>
                        simp only [Option.some.injEq, Prod.mk.injEq] at h
                        obtain ⟨rfl, rfl⟩ := h
                        have h1 : kindIs t .ISEMPTY = true := by simp [kindIs, hk]
                        have h2 : kindIs lp .LPAREN = true := by simpa [kindIs] using hlp
                        have h3 : kindIs rp .RPAREN = true := hrp
                        exact ⟨by simp [BoolTree.yield, e1, e2, e3, List.append_assoc],
                          by simp [BoolTree.wf, h1, h2, h3, a1, a2, a3]⟩
                      · cases h
        · -- NOT
          next hk =>
          cases hs : spanWS r0 with
          | mk w r1 =>
            obtain ⟨e1, a1⟩ := spanWS_spec r0 w r1 hs
            rw [hs] at h
            simp only at h
            split at h
            · cases h
            · next hw =>
              cases hb : parseBool n r1 with
              | none => rw [hb] at h; cases h
              | some er =>
                obtain ⟨e, r2⟩ := er
                obtain ⟨e2, a2⟩ := ihB r1 e r2 hb
                rw [hb] at h
                simp only [Option.some.injEq, Prod.mk.injEq] at h
                obtain ⟨rfl, rfl⟩ := h
                have h1 : kindIs t .NOT = true := by simp [kindIs, hk]
                refine ⟨by simp [BoolTree.yield, e1, e2, List.append_assoc], ?_⟩
                simp [BoolTree.wf, h1, a1, a2]
                simpa using hw
        · -- IDENTIFIER
          next hk =>
          split at h
          · have hl : (LhsTree.ident t).wf = true := by simp [LhsTree.wf, kindIs, hk]
            have := parseOpRest_sound (.ident t) hl r0 a r h
            simpa [LhsTree.yield] using this
          · simp only [Option.some.injEq, Prod.mk.injEq] at h
            obtain ⟨rfl, rfl⟩ := h
            exact ⟨by simp [BoolTree.yield], by simp [BoolTree.wf, kindIs, hk]⟩
        · -- ALL_OF
          next hk =>
          cases r0 with
          | nil => simp at h
          | cons lp r1 =>
            simp only at h
            split at h
            · cases h
            · next hlp =>
              cases hs : spanWS r1 with
              | mk w0 r2 =>
                obtain ⟨e1, a1⟩ := spanWS_spec r1 w0 r2 hs
                rw [hs] at h
                simp only at h
                cases r2 with
                | nil => simp at h
                | cons id r3 =>
                  simp only at h
                  split at h
                  · cases h
                  · next hid =>
                    cases hs2 : spanWS r3 with
                    | mk w1 r4 =>
                      obtain ⟨e2, a2⟩ := spanWS_spec r3 w1 r4 hs2
                      rw [hs2] at h
                      simp only at h
                      cases r4 with
                      | nil => simp at h
                      | cons rp r5 =>
                        simp only at h
                        split at h
                        · next hrp =>
                          have h1 : (kindIs t .ALL_OF || kindIs t .ANY_OF) = true := by
                            simp [kindIs, hk]
                          have h2 : kindIs lp .LPAREN = true := by simpa [kindIs] using hlp
                          have h3 : kindIs id .IDENTIFIER = true := by simpa [kindIs] using hid
                          have h4 : kindIs rp .RPAREN = true := hrp
                          have hl : (LhsTree.setFn t lp w0 id w1 rp).wf = true := by simp [LhsTree.wf, h1, h2, h3, h4, a1, a2]
                          have := parseOpRest_sound _ hl r5 a r h
                          refine ⟨?_, this.2⟩
                          rw [← this.1]
                          simp [LhsTree.yield, e1, e2, List.append_assoc]
                        · cases h
        · -- ANY_OF
          next hk =>
          cases r0 with
          | nil => simp at h
          | cons lp r1 =>
            simp only at h
            split at h
            · cases h
            · next hlp =>
              cases hs : spanWS r1 with
              | mk w0 r2 =>
                obtain ⟨e1, a1⟩ := spanWS_spec r1 w0 r2 hs
                rw [hs] at h
                simp only at h
                cases r2 with
                | nil => simp at h
                | cons id r3 =>
                  simp only at h
                  split at h
                  · cases h
                  · next hid =>
                    cases hs2 : spanWS r3 with
                    | mk w1 r4 =>
                      obtain ⟨e2, a2⟩ := spanWS_spec r3 w1 r4 hs2
                      rw [hs2] at h
                      simp only at h
                      cases r4 with
                      | nil => simp at h
                      | cons rp r5 =>
                        simp only at h
                        split at h
                        · next hrp =>
                          have h1 : (kindIs t .ALL_OF || kindIs t .ANY_OF) = true := by
                            simp [kindIs, hk]
                          have h2 : kindIs lp .LPAREN = true := by simpa [kindIs] using hlp
                          have h3 : kindIs id .IDENTIFIER = true := by simpa [kindIs] using hid
                          have h4 : kindIs rp .RPAREN = true := hrp
                          have hl : (LhsTree.setFn t lp w0 id w1 rp).wf = true := by simp [LhsTree.wf, h1, h2, h3, h4, a1, a2]
                          have := parseOpRest_sound _ hl r5 a r h
                          refine ⟨?_, this.2⟩
                          rw [← this.1]
                          simp [LhsTree.yield, e1, e2, List.append_assoc]
                        · cases h
        · -- COUNT
          next hk =>
          cases r0 with
          | nil => simp at h
          | cons lp r1 =>
            simp only at h
            split at h
            · cases h
            · next hlp =>
              cases hs : spanWS r1 with
              | mk w0 r2 =>
                obtain ⟨e1, a1⟩ := spanWS_spec r1 w0 r2 hs
                rw [hs] at h
                simp only at h
                cases hse : parseSetExpr n r2 with
                | none => rw [hse] at h; cases h
                | some sr =>
                  obtain ⟨s', r3⟩ := sr
                  obtain ⟨e2, a2⟩ := ihS r2 s' r3 hse
                  rw [hse] at h
                  simp only at h
                  cases hs2 : spanWS r3 with
                  | mk w1 r4 =>
                    obtain ⟨e3, a3⟩ := spanWS_spec r3 w1 r4 hs2
                    rw [hs2] at h
                    simp only at h
                    cases r4 with
                    | nil => simp at h
                    | cons rp r5 =>
                      simp only at h
                      split at h
                      · next hrp =>
                        have h1 : kindIs t .COUNT = true := by simp [kindIs, hk]
                        have h2 : kindIs lp .LPAREN = true := by simpa [kindIs] using hlp
                        have h4 : kindIs rp .RPAREN = true := hrp
                        have hl : (LhsTree.count t lp w0 s' w1 rp).wf = true := by simp [LhsTree.wf, h1, h2, h4, a1, a2, a3]
                        have := parseOpRest_sound _ hl r5 a r h
                        refine ⟨?_, this.2⟩
                        rw [← this.1]
                        simp [LhsTree.yield, e1, e2, e3, List.append_assoc]
                      · cases h
        · cases h
    · -- parseSetExpr
      intro ts a r h
      simp only [parseSetExpr] at h
      cases ts with
      | nil => simp at h
      | cons t r0 =>
        simp only at h
        split at h
        · next hk =>
          simp only [Option.some.injEq, Prod.mk.injEq] at h
          obtain ⟨rfl, rfl⟩ := h
          exact ⟨by simp [SetExprTree.yield], by simp [SetExprTree.wf, kindIs, hk]⟩
        · next hk =>
          cases hs : spanWS r0 with
          | mk w0 r1 =>
            obtain ⟨e1, a1⟩ := spanWS_spec r0 w0 r1 hs
            rw [hs] at h
            simp only at h
            split at h
            · cases h
            · next hw0 =>
              cases r1 with
              | nil => simp at h
              | cons id r2 =>
                simp only at h
                split at h
                · cases h
                · next hid =>
                  cases hs2 : spanWS r2 with
                  | mk w1 r3 =>
                    obtain ⟨e2, a2⟩ := spanWS_spec r2 w1 r3 hs2
                    rw [hs2] at h
                    simp only at h
                    split at h
                    · cases h
                    · next hw1 =>
                      cases r3 with
                      | nil => simp at h
                      | cons wh r4 =>
                        simp only at h
                        split at h
                        · cases h
                        · next hwh =>
                          cases hs3 : spanWS r4 with
                          | mk w2 r5 =>
                            obtain ⟨e3, a3⟩ := spanWS_spec r4 w2 r5 hs3
                            rw [hs3] at h
                            simp only at h
                            split at h
                            · cases h
                            · next hw2 =>
                              cases hq : parseQuery n r5 with
                              | none => rw [hq] at h; cases h
                              | some qr =>
                                obtain ⟨q, r6⟩ := qr
                                obtain ⟨e4, a4⟩ := ihQ r5 q r6 hq
                                rw [hq] at h
                                simp only [Option.some.injEq, Prod.mk.injEq] at h
                                obtain ⟨rfl, rfl⟩ := h
                                have h1 : kindIs t .FROM = true := by simp [kindIs, hk]
                                have h2 : kindIs id .IDENTIFIER = true := by simpa [kindIs] using hid
                                have h3 : kindIs wh .WHERE = true := by simpa [kindIs] using hwh
                                refine ⟨by simp [SetExprTree.yield, e1, e2, e3, e4, List.append_assoc], ?_⟩
                                simp [SetExprTree.wf, h1, h2, h3, a1, a2, a3, a4]
                                exact ⟨⟨by simpa using hw0, by simpa using hw1⟩, by simpa using hw2⟩
        · cases h
    · -- parseQuery
      intro ts a r h
      simp only [parseQuery] at h
      cases ts with
      | nil => simp at h
      | cons t r0 =>
        simp only at h
        split at h
        · next hk =>
          cases h1 : parseSortBy (t :: r0) with
          | none => rw [h1] at h; cases h
          | some x1 =>
            obtain ⟨s', r1⟩ := x1
            obtain ⟨e1, a1⟩ := parseSortBy_sound _ s' r1 h1
            rw [h1] at h
            simp only at h
            cases h2 : parseOptWs .SKIP_ROWS parseSkip r1 with
            | none => rw [h2] at h; cases h
            | some x2 =>
              obtain ⟨sk, r2⟩ := x2
              obtain ⟨e2, a2⟩ := parseOptWs_sound _ _ KwNumTree.yield skipWf parseSkip_sound r1 sk r2 h2
              rw [h2] at h
              simp only at h
              cases h3 : parseOptWs .LIMIT_ROWS parseLimit r2 with
              | none => rw [h3] at h; cases h
              | some x3 =>
                obtain ⟨li, r3⟩ := x3
                obtain ⟨e3, a3⟩ := parseOptWs_sound _ _ KwNumTree.yield limitWf parseLimit_sound r2 li r3 h3
                rw [h3] at h
                simp only [Option.some.injEq, Prod.mk.injEq] at h
                obtain ⟨rfl, rfl⟩ := h
                exact ⟨by simp [QueryTree.yield, e1, e2, e3, List.append_assoc], by simp [QueryTree.wf, a1, a2, a3]⟩
        · next hk =>
          cases h1 : parseSkip (t :: r0) with
          | none => rw [h1] at h; cases h
          | some x1 =>
            obtain ⟨s', r1⟩ := x1
            obtain ⟨e1, a1⟩ := parseSkip_sound _ s' r1 h1
            rw [h1] at h
            simp only at h
            cases h3 : parseOptWs .LIMIT_ROWS parseLimit r1 with
            | none => rw [h3] at h; cases h
            | some x3 =>
              obtain ⟨li, r3⟩ := x3
              obtain ⟨e3, a3⟩ := parseOptWs_sound _ _ KwNumTree.yield limitWf parseLimit_sound r1 li r3 h3
              rw [h3] at h
              simp only [Option.some.injEq, Prod.mk.injEq] at h
              obtain ⟨rfl, rfl⟩ := h
              exact ⟨by simp [QueryTree.yield, e1, e3, List.append_assoc], by simp [QueryTree.wf, a1, a3]⟩
        · next hk =>
          cases h1 : parseLimit (t :: r0) with
          | none => rw [h1] at h; cases h
          | some x1 =>
            obtain ⟨l', r1⟩ := x1
            obtain ⟨e1, a1⟩ := parseLimit_sound _ l' r1 h1
            rw [h1] at h
            simp only [Option.some.injEq, Prod.mk.injEq] at h
            obtain ⟨rfl, rfl⟩ := h
            exact ⟨by simp [QueryTree.yield, e1], by simp [QueryTree.wf, a1]⟩
        · cases h1 : parseBool n (t :: r0) with
          | none => rw [h1] at h; cases h
          | some x1 =>
            obtain ⟨e, r1⟩ := x1
            obtain ⟨e1, a1⟩ := ihB _ e r1 h1
            rw [h1] at h
            simp only at h
            cases h2 : parseTail r1 with
            | none => rw [h2] at h; cases h
            | some x2 =>
              obtain ⟨tail, r2⟩ := x2
              obtain ⟨e2, a2⟩ := parseTail_sound r1 tail r2 h2
              rw [h2] at h
              simp only [Option.some.injEq, Prod.mk.injEq] at h
              obtain ⟨rfl, rfl⟩ := h
              exact ⟨by simp [QueryTree.yield, e1, e2, List.append_assoc], by simp [QueryTree.wf, a1, a2]⟩

/-- **soundness of the reference recogniser**: an accepted token list is the yield of a
    well-formed derivation of `start` -/
theorem parseStart_sound (ts : List Token) (t : StartTree) (h : parseStart ts = some t) :
    t.yield = ts ∧ t.wf = true := by
  unfold parseStart at h
  cases hs : spanWS ts with
  | mk w0 r0 =>
    obtain ⟨e1, a1⟩ := spanWS_spec ts w0 r0 hs
    rw [hs] at h
    simp only at h
    cases hq : parseQuery (2 * ts.length + 4) r0 with
    | none => rw [hq] at h; cases h
    | some qr =>
      obtain ⟨q, r1⟩ := qr
      obtain ⟨e2, a2⟩ := (parse_mutual_sound _).2.2.2 r0 q r1 hq
      rw [hq] at h
      simp only at h
      cases hs2 : spanWS r1 with
      | mk w1 r2 =>
        obtain ⟨e3, a3⟩ := spanWS_spec r1 w1 r2 hs2
        rw [hs2] at h
        simp only at h
        split at h
        · next hr2 =>
          simp only [Option.some.injEq] at h
          subst h
          have : r2 = [] := by simpa using hr2
          subst this
          exact ⟨by simp [StartTree.yield, e1, e2, e3, List.append_assoc], by simp [StartTree.wf, a1, a2, a3]⟩
        · cases h

end StorageModel.C10
