import StorageModel.C10.ParseProofs
import StorageModel.C10.Expected
/-
  C10 — every well-formed derivation tree of Grammar.lean / Build.lean is a derivation in the
  parser rules of the grammar file (`G4.Derives` over `expectedParserRules`, which
  `Properties/C10.parser_rules_are_expected` proves equal to the regenerated rules).  Together
  with `parseStart_sound` this makes "accepted by the reference recogniser" imply "sentence of
  zitiql/ZitiQl.g4 as it is now".
-/
namespace StorageModel.C10
open G4

abbrev PG : List Rule := expectedParserRules

def kinds (ts : List Token) : List TK := ts.map (·.kind)

@[simp] theorem kinds_nil : kinds [] = [] := rfl
@[simp] theorem kinds_cons (t : Token) (ts : List Token) : kinds (t :: ts) = t.kind :: kinds ts := rfl
@[simp] theorem kinds_append (a b : List Token) : kinds (a ++ b) = kinds a ++ kinds b := by simp [kinds]

def bodyOf (n : String) : Rx :=
  match findRule PG n with
  | some r => r.body
  | none => .eps

theorem d_ref (n : String) {w : List TK} (hl : isLexerName n = false) (hs : (findRule PG n).isSome = true)
    (d : Derives PG (bodyOf n) w) : Derives PG (.ref n) w := by
  cases h : findRule PG n with
  | none => simp [h] at hs
  | some r => exact .rule hl h (by simpa [bodyOf, h] using d)

theorem d_tok (name : String) (k : TK) (t : Token) (hl : isLexerName name = true) (hn : TK.ofName name = some k)
    (hk : kindIs t k = true) : Derives PG (.ref name) [t.kind] := by
  have : t.kind = k := by simpa [kindIs] using hk
  rw [this]; exact .tok hl hn

theorem d_comma (t : Token) (hk : kindIs t .COMMA = true) : Derives PG (.lit [44]) [t.kind] := by
  have : t.kind = .COMMA := by simpa [kindIs] using hk
  rw [this]; exact .lit (by decide)

theorem d_wsStar (w : WSs) (h : allWS w = true) : Derives PG (.star (.ref "WS")) (kinds w) := by
  induction w with
  | nil => exact .starNil
  | cons t w ih =>
    rw [allWS_cons, Bool.and_eq_true] at h
    exact .starCons (d_tok "WS" .WS t (by decide) (by decide) h.1) (ih h.2)

theorem d_wsPlus (w : WSs) (h : allWS w = true) (hne : w.isEmpty = false) : Derives PG (.plus (.ref "WS")) (kinds w) := by
  cases w with
  | nil => simp at hne
  | cons t w =>
    rw [allWS_cons, Bool.and_eq_true] at h
    exact .plus (d_tok "WS" .WS t (by decide) (by decide) h.1) (d_wsStar w h.2)

/-- select the n-th alternative of a right-nested `alt` chain (the last one is the rest) -/
def nthAlt : Nat → Rx → Option Rx
  | 0, .alt a _ => some a
  | 0, r => some r
  | n + 1, .alt _ b => nthAlt n b
  | _ + 1, _ => none

theorem d_alt : ∀ (n : Nat) (r a : Rx) {w : List TK}, nthAlt n r = some a → Derives PG a w → Derives PG r w
  | 0, .alt x y, a, _, h, d => by simp only [nthAlt, Option.some.injEq] at h; subst h; exact .altL d
  | 0, .eps, a, _, h, d => by simp only [nthAlt, Option.some.injEq] at h; subst h; exact d
  | 0, .lit _, a, _, h, d => by simp only [nthAlt, Option.some.injEq] at h; subst h; exact d
  | 0, .set _ _, a, _, h, d => by simp only [nthAlt, Option.some.injEq] at h; subst h; exact d
  | 0, .ref _, a, _, h, d => by simp only [nthAlt, Option.some.injEq] at h; subst h; exact d
  | 0, .seq _ _, a, _, h, d => by simp only [nthAlt, Option.some.injEq] at h; subst h; exact d
  | 0, .opt _, a, _, h, d => by simp only [nthAlt, Option.some.injEq] at h; subst h; exact d
  | 0, .star _, a, _, h, d => by simp only [nthAlt, Option.some.injEq] at h; subst h; exact d
  | 0, .plus _, a, _, h, d => by simp only [nthAlt, Option.some.injEq] at h; subst h; exact d
  | n + 1, .alt x y, a, _, h, d => by simp only [nthAlt] at h; exact .altR (d_alt n y a h d)
  | _ + 1, .eps, _, _, h, _ => by simp [nthAlt] at h
  | _ + 1, .lit _, _, _, h, _ => by simp [nthAlt] at h
  | _ + 1, .set _ _, _, _, h, _ => by simp [nthAlt] at h
  | _ + 1, .ref _, _, _, h, _ => by simp [nthAlt] at h
  | _ + 1, .seq _ _, _, _, h, _ => by simp [nthAlt] at h
  | _ + 1, .opt _, _, _, h, _ => by simp [nthAlt] at h
  | _ + 1, .star _, _, _, h, _ => by simp [nthAlt] at h
  | _ + 1, .plus _, _, _, h, _ => by simp [nthAlt] at h

/-- derive a rule through its n-th alternative -/
theorem d_refAlt (name : String) (n : Nat) (a : Rx) {w : List TK} (hl : isLexerName name = false)
    (hs : (findRule PG name).isSome = true) (hn : nthAlt n (bodyOf name) = some a) (d : Derives PG a w) :
    Derives PG (.ref name) w :=
  d_ref name hl hs (d_alt n _ a hn d)

/-! ### arrays -/

def ArrKind.ruleName : ArrKind → String
  | .str => "stringArray" | .num => "numberArray" | .dt => "datetimeArray"

def ArrKind.tokName : ArrKind → String
  | .str => "STRING" | .num => "NUMBER" | .dt => "DATETIME"

theorem d_arrMore (name : String) (k : TK) (hl : isLexerName name = true) (hn : TK.ofName name = some k) :
    ∀ (more : List (WSs × Token × WSs × Token)),
      more.all (fun m => allWS m.1 && kindIs m.2.1 .COMMA && allWS m.2.2.1 && kindIs m.2.2.2 k) = true →
      Derives PG (.star (.seq (.star (.ref "WS")) (.seq (.lit [44]) (.seq (.star (.ref "WS")) (.ref name)))))
        (kinds (more.flatMap fun m => m.1 ++ m.2.1 :: m.2.2.1 ++ [m.2.2.2]))
  | [], _ => .starNil
  | m :: rest, h => by
    simp only [List.all_cons, Bool.and_eq_true] at h
    have d1 := Derives.seq (d_wsStar m.1 h.1.1.1.1) (.seq (d_comma m.2.1 h.1.1.1.2)
      (.seq (d_wsStar m.2.2.1 h.1.1.2) (d_tok name k m.2.2.2 hl hn h.1.2)))
    have := Derives.starCons d1 (d_arrMore name k hl hn rest h.2)
    simpa [List.flatMap_cons] using this

theorem d_arr (a : ArrTree) (h : a.wf = true) : Derives PG (.ref a.kind.ruleName) (kinds a.yield) := by
  simp only [ArrTree.wf, Bool.and_eq_true] at h
  obtain ⟨⟨⟨⟨⟨h1, h2⟩, h3⟩, h4⟩, h5⟩, h6⟩ := h
  have hw : kinds a.yield = [a.lb.kind] ++ (kinds a.w0 ++ ([a.first.kind] ++
      (kinds (a.more.flatMap fun m => m.1 ++ m.2.1 :: m.2.2.1 ++ [m.2.2.2]) ++ (kinds a.w1 ++ [a.rb.kind])))) := by
    simp [ArrTree.yield]
  rw [hw]
  cases hk : a.kind with
  | str =>
    rw [hk] at h3 h4
    exact d_ref "stringArray" (by decide) (by decide)
      (.seq (d_tok "LBRACKET" .LBRACKET a.lb (by decide) (by decide) h1) (.seq (d_wsStar a.w0 h2)
        (.seq (d_tok "STRING" .STRING a.first (by decide) (by decide) h3)
          (.seq (d_arrMore "STRING" .STRING (by decide) (by decide) a.more h4)
            (.seq (d_wsStar a.w1 h5) (d_tok "RBRACKET" .RBRACKET a.rb (by decide) (by decide) h6))))))
  | num =>
    rw [hk] at h3 h4
    exact d_ref "numberArray" (by decide) (by decide)
      (.seq (d_tok "LBRACKET" .LBRACKET a.lb (by decide) (by decide) h1) (.seq (d_wsStar a.w0 h2)
        (.seq (d_tok "NUMBER" .NUMBER a.first (by decide) (by decide) h3)
          (.seq (d_arrMore "NUMBER" .NUMBER (by decide) (by decide) a.more h4)
            (.seq (d_wsStar a.w1 h5) (d_tok "RBRACKET" .RBRACKET a.rb (by decide) (by decide) h6))))))
  | dt =>
    rw [hk] at h3 h4
    exact d_ref "datetimeArray" (by decide) (by decide)
      (.seq (d_tok "LBRACKET" .LBRACKET a.lb (by decide) (by decide) h1) (.seq (d_wsStar a.w0 h2)
        (.seq (d_tok "DATETIME" .DATETIME a.first (by decide) (by decide) h3)
          (.seq (d_arrMore "DATETIME" .DATETIME (by decide) (by decide) a.more h4)
            (.seq (d_wsStar a.w1 h5) (d_tok "RBRACKET" .RBRACKET a.rb (by decide) (by decide) h6))))))

theorem G4.Derives.cast {g : List Rule} {r : Rx} {w w' : List TK} (d : Derives g r w) (h : w = w') : Derives g r w' := h ▸ d

/-! ### sort / skip / limit -/

theorem d_sortField (f : SortFieldTree) (h : f.wf = true) : Derives PG (.ref "sortField") (kinds f.yield) := by
  simp only [SortFieldTree.wf, Bool.and_eq_true] at h
  have hid := d_tok "IDENTIFIER" .IDENTIFIER f.ident (by decide) (by decide) h.1
  cases hd : f.dir with
  | none =>
    exact d_ref "sortField" (by decide) (by decide)
      ((Derives.seq hid .optNone).cast (by simp [SortFieldTree.yield, hd]))
  | some wd =>
    obtain ⟨w, d⟩ := wd
    have h2 := h.2
    simp only [hd, Bool.and_eq_true, Bool.or_eq_true, Bool.not_eq_true'] at h2
    have dd : Derives PG (.alt (.ref "ASC") (.ref "DESC")) [d.kind] := by
      rcases h2.2 with ha | hb
      · exact .altL (d_tok "ASC" .ASC d (by decide) (by decide) ha)
      · exact .altR (d_tok "DESC" .DESC d (by decide) (by decide) hb)
    exact d_ref "sortField" (by decide) (by decide)
      ((Derives.seq hid (.optSome (.seq (d_wsPlus w h2.1.1 h2.1.2) dd))).cast (by simp [SortFieldTree.yield, hd]))

theorem d_sortMore : ∀ (more : List (WSs × Token × WSs × SortFieldTree)),
    more.all (fun m => allWS m.1 && kindIs m.2.1 .COMMA && allWS m.2.2.1 && m.2.2.2.wf) = true →
    Derives PG (.star (.seq (.star (.ref "WS")) (.seq (.lit [44]) (.seq (.star (.ref "WS")) (.ref "sortField")))))
      (kinds (more.flatMap fun m => m.1 ++ m.2.1 :: m.2.2.1 ++ m.2.2.2.yield))
  | [], _ => .starNil
  | m :: rest, h => by
    simp only [List.all_cons, Bool.and_eq_true] at h
    have d1 := Derives.seq (d_wsStar m.1 h.1.1.1.1) (.seq (d_comma m.2.1 h.1.1.1.2)
      (.seq (d_wsStar m.2.2.1 h.1.1.2) (d_sortField m.2.2.2 h.1.2)))
    exact (Derives.starCons d1 (d_sortMore rest h.2)).cast (by simp [List.flatMap_cons])

theorem d_sortBy (s : SortByTree) (h : s.wf = true) : Derives PG (.ref "sortBy") (kinds s.yield) := by
  simp only [SortByTree.wf, Bool.and_eq_true, Bool.not_eq_true'] at h
  obtain ⟨⟨⟨⟨⟨⟨⟨h1, h2⟩, h3⟩, h4⟩, h5⟩, h6⟩, h7⟩, h8⟩ := h
  exact d_ref "sortBy" (by decide) (by decide)
    ((Derives.seq (d_tok "SORT" .SORT s.sort (by decide) (by decide) h1) (.seq (d_wsPlus s.w0 h2 h3)
      (.seq (d_tok "BY" .BY s.by_ (by decide) (by decide) h4) (.seq (d_wsPlus s.w1 h5 h6)
        (.seq (d_sortField s.first h7) (d_sortMore s.more h8)))))).cast (by simp [SortByTree.yield]))

theorem d_skip (k : KwNumTree) (h : skipWf k = true) : Derives PG (.ref "skip") (kinds k.yield) := by
  simp only [skipWf, Bool.and_eq_true, Bool.not_eq_true'] at h
  exact d_ref "skip" (by decide) (by decide)
    ((Derives.seq (d_tok "SKIP_ROWS" .SKIP_ROWS k.kw (by decide) (by decide) h.1.1.1) (.seq (d_wsPlus k.w h.1.1.2 h.1.2)
      (d_tok "NUMBER" .NUMBER k.arg (by decide) (by decide) h.2))).cast (by simp [KwNumTree.yield]))

theorem d_limit (k : KwNumTree) (h : limitWf k = true) : Derives PG (.ref "limit") (kinds k.yield) := by
  simp only [limitWf, Bool.and_eq_true, Bool.or_eq_true, Bool.not_eq_true'] at h
  have da : Derives PG (.alt (.ref "NONE") (.ref "NUMBER")) [k.arg.kind] := by
    rcases h.2 with ha | hb
    · exact .altR (d_tok "NUMBER" .NUMBER k.arg (by decide) (by decide) ha)
    · exact .altL (d_tok "NONE" .NONE k.arg (by decide) (by decide) hb)
  exact d_ref "limit" (by decide) (by decide)
    ((Derives.seq (d_tok "LIMIT_ROWS" .LIMIT_ROWS k.kw (by decide) (by decide) h.1.1.1) (.seq (d_wsPlus k.w h.1.1.2 h.1.2) da)).cast
      (by simp [KwNumTree.yield]))

/-- `(WS+ X)?` -/
theorem d_optWs {α} (name : String) (y : α → List Token) (wf : α → Bool)
    (dx : ∀ a, wf a = true → Derives PG (.ref name) (kinds (y a))) (o : Option (WSs × α)) (h : optWf wf o = true) :
    Derives PG (.opt (.seq (.plus (.ref "WS")) (.ref name))) (kinds (optYield y o)) := by
  cases o with
  | none => exact .optNone
  | some wa =>
    obtain ⟨w, a⟩ := wa
    simp only [optWf, Bool.and_eq_true, Bool.not_eq_true'] at h
    exact (Derives.optSome (.seq (d_wsPlus w h.1.1 h.1.2) (dx a h.2))).cast (by simp [optYield])

theorem d_tail (t : TailTree) (h : t.wf = true) :
    Derives PG (.seq (.opt (.seq (.plus (.ref "WS")) (.ref "sortBy")))
      (.seq (.opt (.seq (.plus (.ref "WS")) (.ref "skip"))) (.opt (.seq (.plus (.ref "WS")) (.ref "limit")))))
      (kinds t.yield) := by
  simp only [TailTree.wf, Bool.and_eq_true] at h
  exact (Derives.seq (d_optWs "sortBy" SortByTree.yield SortByTree.wf d_sortBy t.sortBy h.1.1)
    (.seq (d_optWs "skip" KwNumTree.yield skipWf d_skip t.skip h.1.2)
      (d_optWs "limit" KwNumTree.yield limitWf d_limit t.limit h.2))).cast (by simp [TailTree.yield])

/-! ### operations -/

theorem rhsOk_cases {o r : TK} (h : rhsOk o r = true) :
    ((o = .LT ∨ o = .GT ∨ o = .EQ) ∧ (r = .STRING ∨ r = .NUMBER ∨ r = .DATETIME)) ∨
    (o = .EQ ∧ (r = .BOOL ∨ r = .NULL)) ∨ (o = .CONTAINS ∧ (r = .STRING ∨ r = .NUMBER)) ∨
    (o = .ICONTAINS ∧ r = .STRING) := by
  cases o <;> first | (simp [rhsOk] at h; done) | (cases r <;> simp [rhsOk] at h ⊢)

/-- `binaryLhs WS* OP WS* RHS` (alternatives 5–15 of `operation`) -/
theorem d_opStar (n : Nat) (opName rhsName : String) (kop krhs : TK)
    (hn : nthAlt n (bodyOf "operation") = some (.seq (.ref "binaryLhs") (.seq (.star (.ref "WS"))
      (.seq (.ref opName) (.seq (.star (.ref "WS")) (.ref rhsName))))))
    (hlo : isLexerName opName = true) (hop : TK.ofName opName = some kop)
    (hlr : isLexerName rhsName = true) (hrhs : TK.ofName rhsName = some krhs)
    {lw : List TK} (dl : Derives PG (.ref "binaryLhs") lw) (w0 w1 : WSs) (hw0 : allWS w0 = true) (hw1 : allWS w1 = true)
    (op rhs : Token) (hk1 : op.kind = kop) (hk2 : rhs.kind = krhs) :
    Derives PG (.ref "boolExpr") (lw ++ (kinds w0 ++ ([op.kind] ++ (kinds w1 ++ [rhs.kind])))) :=
  d_refAlt "boolExpr" 0 (.ref "operation") (by decide) (by decide) (by decide)
    (d_refAlt "operation" n _ (by decide) (by decide) hn
      (.seq dl (.seq (d_wsStar w0 hw0) (.seq (d_tok opName kop op hlo hop (by simp [kindIs, hk1]))
        (.seq (d_wsStar w1 hw1) (d_tok rhsName krhs rhs hlr hrhs (by simp [kindIs, hk2])))))))

mutual
theorem d_bool : ∀ (t : BoolTree), t.wf = true → Derives PG (.ref "boolExpr") (kinds t.yield)
  | .inArr lhs w0 op w1 arr, h => by
    simp only [BoolTree.wf, Bool.and_eq_true, Bool.not_eq_true'] at h
    obtain ⟨⟨⟨⟨⟨⟨h1, h2⟩, h3⟩, h4⟩, h5⟩, h6⟩, h7⟩ := h
    have dl := d_lhs lhs h1
    have da := d_arr arr h7
    have pre := Derives.seq dl (.seq (d_wsPlus w0 h2 h3) (.seq (d_tok "IN" .IN op (by decide) (by decide) h4)
      (.seq (d_wsPlus w1 h5 h6) da)))
    have hw : lhs.yield.map (·.kind) ++ (kinds w0 ++ ([op.kind] ++ (kinds w1 ++ kinds arr.yield))) =
        kinds (BoolTree.inArr lhs w0 op w1 arr).yield := by simp [BoolTree.yield, kinds]
    refine (d_refAlt "boolExpr" 0 (.ref "operation") (by decide) (by decide) (by decide) ?_).cast hw
    cases hk : arr.kind with
    | str => rw [hk] at pre; exact d_refAlt "operation" 0 _ (by decide) (by decide) (by decide) pre
    | num => rw [hk] at pre; exact d_refAlt "operation" 1 _ (by decide) (by decide) (by decide) pre
    | dt => rw [hk] at pre; exact d_refAlt "operation" 2 _ (by decide) (by decide) (by decide) pre
  | .between lhs w0 op w1 lo w2 a w3 hi, h => by
    simp only [BoolTree.wf, Bool.and_eq_true, Bool.or_eq_true, Bool.not_eq_true', beq_iff_eq] at h
    obtain ⟨⟨⟨⟨⟨⟨⟨⟨⟨⟨⟨⟨h1, h2⟩, h3⟩, h4⟩, h5⟩, h6⟩, h7⟩, h8⟩, h9⟩, h10⟩, h11⟩, h12⟩, h13⟩ := h
    have dl := d_lhs lhs h1
    have hw : kinds lhs.yield ++ (kinds w0 ++ ([op.kind] ++ (kinds w1 ++ ([lo.kind] ++ (kinds w2 ++ ([a.kind] ++ (kinds w3 ++ [hi.kind]))))))) =
        kinds (BoolTree.between lhs w0 op w1 lo w2 a w3 hi).yield := by simp [BoolTree.yield]
    refine (d_refAlt "boolExpr" 0 (.ref "operation") (by decide) (by decide) (by decide) ?_).cast hw
    rcases h7 with hn | hd
    · have hhi : kindIs hi .NUMBER = true := by simp only [kindIs, beq_iff_eq] at hn ⊢; rw [h13, hn]
      exact d_refAlt "operation" 3 _ (by decide) (by decide) (by decide)
        (.seq dl (.seq (d_wsPlus w0 h2 h3) (.seq (d_tok "BETWEEN" .BETWEEN op (by decide) (by decide) h4)
          (.seq (d_wsPlus w1 h5 h6) (.seq (d_tok "NUMBER" .NUMBER lo (by decide) (by decide) hn)
            (.seq (d_wsPlus w2 h8 h9) (.seq (d_tok "AND" .AND a (by decide) (by decide) h10)
              (.seq (d_wsPlus w3 h11 h12) (d_tok "NUMBER" .NUMBER hi (by decide) (by decide) hhi)))))))))
    · have hhi : kindIs hi .DATETIME = true := by simp only [kindIs, beq_iff_eq] at hd ⊢; rw [h13, hd]
      exact d_refAlt "operation" 4 _ (by decide) (by decide) (by decide)
        (.seq dl (.seq (d_wsPlus w0 h2 h3) (.seq (d_tok "BETWEEN" .BETWEEN op (by decide) (by decide) h4)
          (.seq (d_wsPlus w1 h5 h6) (.seq (d_tok "DATETIME" .DATETIME lo (by decide) (by decide) hd)
            (.seq (d_wsPlus w2 h8 h9) (.seq (d_tok "AND" .AND a (by decide) (by decide) h10)
              (.seq (d_wsPlus w3 h11 h12) (d_tok "DATETIME" .DATETIME hi (by decide) (by decide) hhi)))))))))
  | .binary lhs w0 op w1 rhs, h => by
    simp only [BoolTree.wf, Bool.and_eq_true] at h
    obtain ⟨⟨⟨⟨h1, h2⟩, h3⟩, h4⟩, h5⟩ := h
    have dl := d_lhs lhs h1
    have hw : kinds lhs.yield ++ (kinds w0 ++ ([op.kind] ++ (kinds w1 ++ [rhs.kind]))) =
        kinds (BoolTree.binary lhs w0 op w1 rhs).yield := by simp [BoolTree.yield]
    refine Derives.cast ?_ hw
    rcases rhsOk_cases h4 with ⟨ho, hr⟩ | ⟨ho, hr⟩ | ⟨ho, hr⟩ | ⟨ho, hr⟩
    · rcases ho with ho | ho | ho <;> rcases hr with hr | hr | hr
      · exact d_opStar 5 "LT" "STRING" .LT .STRING (by decide) (by decide) (by decide) (by decide) (by decide) dl w0 w1 h2 h3 op rhs ho hr
      · exact d_opStar 6 "LT" "NUMBER" .LT .NUMBER (by decide) (by decide) (by decide) (by decide) (by decide) dl w0 w1 h2 h3 op rhs ho hr
      · exact d_opStar 7 "LT" "DATETIME" .LT .DATETIME (by decide) (by decide) (by decide) (by decide) (by decide) dl w0 w1 h2 h3 op rhs ho hr
      · exact d_opStar 8 "GT" "STRING" .GT .STRING (by decide) (by decide) (by decide) (by decide) (by decide) dl w0 w1 h2 h3 op rhs ho hr
      · exact d_opStar 9 "GT" "NUMBER" .GT .NUMBER (by decide) (by decide) (by decide) (by decide) (by decide) dl w0 w1 h2 h3 op rhs ho hr
      · exact d_opStar 10 "GT" "DATETIME" .GT .DATETIME (by decide) (by decide) (by decide) (by decide) (by decide) dl w0 w1 h2 h3 op rhs ho hr
      · exact d_opStar 11 "EQ" "STRING" .EQ .STRING (by decide) (by decide) (by decide) (by decide) (by decide) dl w0 w1 h2 h3 op rhs ho hr
      · exact d_opStar 12 "EQ" "NUMBER" .EQ .NUMBER (by decide) (by decide) (by decide) (by decide) (by decide) dl w0 w1 h2 h3 op rhs ho hr
      · exact d_opStar 13 "EQ" "DATETIME" .EQ .DATETIME (by decide) (by decide) (by decide) (by decide) (by decide) dl w0 w1 h2 h3 op rhs ho hr
    · rcases hr with hr | hr
      · exact d_opStar 14 "EQ" "BOOL" .EQ .BOOL (by decide) (by decide) (by decide) (by decide) (by decide) dl w0 w1 h2 h3 op rhs ho hr
      · exact d_opStar 15 "EQ" "NULL" .EQ .NULL (by decide) (by decide) (by decide) (by decide) (by decide) dl w0 w1 h2 h3 op rhs ho hr
    · have hne : w1.isEmpty = false := by simpa [ho] using h5
      have dr : Derives PG (.alt (.ref "STRING") (.ref "NUMBER")) [rhs.kind] := by
        rcases hr with hr | hr
        · exact .altL (d_tok "STRING" .STRING rhs (by decide) (by decide) (by simp [kindIs, hr]))
        · exact .altR (d_tok "NUMBER" .NUMBER rhs (by decide) (by decide) (by simp [kindIs, hr]))
      exact d_refAlt "boolExpr" 0 (.ref "operation") (by decide) (by decide) (by decide)
        (d_refAlt "operation" 16 _ (by decide) (by decide) (by decide)
          (.seq dl (.seq (d_wsStar w0 h2) (.seq (d_tok "CONTAINS" .CONTAINS op (by decide) (by decide) (by simp [kindIs, ho]))
            (.seq (d_wsPlus w1 h3 hne) dr)))))
    · have hne : w1.isEmpty = false := by simpa [ho] using h5
      exact d_refAlt "boolExpr" 0 (.ref "operation") (by decide) (by decide) (by decide)
        (d_refAlt "operation" 17 _ (by decide) (by decide) (by decide)
          (.seq dl (.seq (d_wsStar w0 h2) (.seq (d_tok "ICONTAINS" .ICONTAINS op (by decide) (by decide) (by simp [kindIs, ho]))
            (.seq (d_wsPlus w1 h3 hne) (d_tok "STRING" .STRING rhs (by decide) (by decide) (by simp [kindIs, hr])))))))
  | .group lp w0 e w1 rp, h => by
    simp only [BoolTree.wf, Bool.and_eq_true] at h
    obtain ⟨⟨⟨⟨h1, h2⟩, h3⟩, h4⟩, h5⟩ := h
    exact (d_refAlt "boolExpr" 1 _ (by decide) (by decide) (by decide)
      (.seq (d_tok "LPAREN" .LPAREN lp (by decide) (by decide) h1) (.seq (d_wsStar w0 h2) (.seq (d_bool e h3)
        (.seq (d_wsStar w1 h4) (d_tok "RPAREN" .RPAREN rp (by decide) (by decide) h5)))))).cast (by simp [BoolTree.yield])
  | .and l w0 op w1 r, h => by
    simp only [BoolTree.wf, Bool.and_eq_true, Bool.not_eq_true'] at h
    obtain ⟨⟨⟨⟨⟨⟨h1, h2⟩, h3⟩, h4⟩, h5⟩, h6⟩, h7⟩ := h
    exact (d_refAlt "boolExpr" 2 _ (by decide) (by decide) (by decide)
      (.seq (d_bool l h1) (.plus (.seq (d_wsPlus w0 h2 h3) (.seq (d_tok "AND" .AND op (by decide) (by decide) h4)
        (.seq (d_wsPlus w1 h5 h6) (d_bool r h7)))) .starNil))).cast (by simp [BoolTree.yield])
  | .or l w0 op w1 r, h => by
    simp only [BoolTree.wf, Bool.and_eq_true, Bool.not_eq_true'] at h
    obtain ⟨⟨⟨⟨⟨⟨h1, h2⟩, h3⟩, h4⟩, h5⟩, h6⟩, h7⟩ := h
    exact (d_refAlt "boolExpr" 3 _ (by decide) (by decide) (by decide)
      (.seq (d_bool l h1) (.plus (.seq (d_wsPlus w0 h2 h3) (.seq (d_tok "OR" .OR op (by decide) (by decide) h4)
        (.seq (d_wsPlus w1 h5 h6) (d_bool r h7)))) .starNil))).cast (by simp [BoolTree.yield])
  | .boolConst t, h => by
    simp only [BoolTree.wf] at h
    exact (d_refAlt "boolExpr" 4 _ (by decide) (by decide) (by decide)
      (d_tok "BOOL" .BOOL t (by decide) (by decide) h)).cast (by simp [BoolTree.yield])
  | .isEmpty kw lp w0 s w1 rp, h => by
    simp only [BoolTree.wf, Bool.and_eq_true] at h
    obtain ⟨⟨⟨⟨⟨h1, h2⟩, h3⟩, h4⟩, h5⟩, h6⟩ := h
    exact (d_refAlt "boolExpr" 5 _ (by decide) (by decide) (by decide)
      (.seq (d_tok "ISEMPTY" .ISEMPTY kw (by decide) (by decide) h1) (.seq (d_tok "LPAREN" .LPAREN lp (by decide) (by decide) h2)
        (.seq (d_wsStar w0 h3) (.seq (d_setExpr s h4) (.seq (d_wsStar w1 h5)
          (d_tok "RPAREN" .RPAREN rp (by decide) (by decide) h6))))))).cast (by simp [BoolTree.yield])
  | .symbol t, h => by
    simp only [BoolTree.wf] at h
    exact (d_refAlt "boolExpr" 6 _ (by decide) (by decide) (by decide)
      (d_tok "IDENTIFIER" .IDENTIFIER t (by decide) (by decide) h)).cast (by simp [BoolTree.yield])
  | .not kw w e, h => by
    simp only [BoolTree.wf, Bool.and_eq_true, Bool.not_eq_true'] at h
    obtain ⟨⟨⟨h1, h2⟩, h3⟩, h4⟩ := h
    exact (d_refAlt "boolExpr" 7 _ (by decide) (by decide) (by decide)
      (.seq (d_tok "NOT" .NOT kw (by decide) (by decide) h1) (.seq (d_wsPlus w h2 h3) (d_bool e h4)))).cast
      (by simp [BoolTree.yield])
theorem d_lhs : ∀ (t : LhsTree), t.wf = true → Derives PG (.ref "binaryLhs") (kinds t.yield)
  | .ident t, h => by
    simp only [LhsTree.wf] at h
    exact (d_refAlt "binaryLhs" 0 _ (by decide) (by decide) (by decide)
      (d_tok "IDENTIFIER" .IDENTIFIER t (by decide) (by decide) h)).cast (by simp [LhsTree.yield])
  | .setFn fn lp w0 id w1 rp, h => by
    simp only [LhsTree.wf, Bool.and_eq_true, Bool.or_eq_true] at h
    obtain ⟨⟨⟨⟨⟨h1, h2⟩, h3⟩, h4⟩, h5⟩, h6⟩ := h
    have hw : [fn.kind] ++ ([lp.kind] ++ (kinds w0 ++ ([id.kind] ++ (kinds w1 ++ [rp.kind])))) =
        kinds (LhsTree.setFn fn lp w0 id w1 rp).yield := by simp [LhsTree.yield]
    refine (d_refAlt "binaryLhs" 1 (.ref "setFunction") (by decide) (by decide) (by decide) ?_).cast hw
    rcases h1 with ha | ha
    · exact d_refAlt "setFunction" 0 _ (by decide) (by decide) (by decide)
        (.seq (d_tok "ALL_OF" .ALL_OF fn (by decide) (by decide) ha) (.seq (d_tok "LPAREN" .LPAREN lp (by decide) (by decide) h2)
          (.seq (d_wsStar w0 h3) (.seq (d_tok "IDENTIFIER" .IDENTIFIER id (by decide) (by decide) h4) (.seq (d_wsStar w1 h5)
            (d_tok "RPAREN" .RPAREN rp (by decide) (by decide) h6))))))
    · exact d_refAlt "setFunction" 1 _ (by decide) (by decide) (by decide)
        (.seq (d_tok "ANY_OF" .ANY_OF fn (by decide) (by decide) ha) (.seq (d_tok "LPAREN" .LPAREN lp (by decide) (by decide) h2)
          (.seq (d_wsStar w0 h3) (.seq (d_tok "IDENTIFIER" .IDENTIFIER id (by decide) (by decide) h4) (.seq (d_wsStar w1 h5)
            (d_tok "RPAREN" .RPAREN rp (by decide) (by decide) h6))))))
  | .count fn lp w0 s w1 rp, h => by
    simp only [LhsTree.wf, Bool.and_eq_true] at h
    obtain ⟨⟨⟨⟨⟨h1, h2⟩, h3⟩, h4⟩, h5⟩, h6⟩ := h
    exact (d_refAlt "binaryLhs" 1 (.ref "setFunction") (by decide) (by decide) (by decide)
      (d_refAlt "setFunction" 2 _ (by decide) (by decide) (by decide)
        (.seq (d_tok "COUNT" .COUNT fn (by decide) (by decide) h1) (.seq (d_tok "LPAREN" .LPAREN lp (by decide) (by decide) h2)
          (.seq (d_wsStar w0 h3) (.seq (d_setExpr s h4) (.seq (d_wsStar w1 h5)
            (d_tok "RPAREN" .RPAREN rp (by decide) (by decide) h6)))))))).cast (by simp [LhsTree.yield])
theorem d_setExpr : ∀ (t : SetExprTree), t.wf = true → Derives PG (.ref "setExpr") (kinds t.yield)
  | .ident t, h => by
    simp only [SetExprTree.wf] at h
    exact (d_refAlt "setExpr" 0 _ (by decide) (by decide) (by decide)
      (d_tok "IDENTIFIER" .IDENTIFIER t (by decide) (by decide) h)).cast (by simp [SetExprTree.yield])
  | .subQuery f w0 id w1 wh w2 q, h => by
    simp only [SetExprTree.wf, Bool.and_eq_true, Bool.not_eq_true'] at h
    obtain ⟨⟨⟨⟨⟨⟨⟨⟨⟨h1, h2⟩, h3⟩, h4⟩, h5⟩, h6⟩, h7⟩, h8⟩, h9⟩, h10⟩ := h
    exact (d_refAlt "setExpr" 1 (.ref "subQueryExpr") (by decide) (by decide) (by decide)
      (d_ref "subQueryExpr" (by decide) (by decide)
        (.seq (d_tok "FROM" .FROM f (by decide) (by decide) h1) (.seq (d_wsPlus w0 h2 h3)
          (.seq (d_tok "IDENTIFIER" .IDENTIFIER id (by decide) (by decide) h4) (.seq (d_wsPlus w1 h5 h6)
            (.seq (d_tok "WHERE" .WHERE wh (by decide) (by decide) h7) (.seq (d_wsPlus w2 h8 h9) (d_query q h10))))))))).cast
      (by simp [SetExprTree.yield])
theorem d_query : ∀ (t : QueryTree), t.wf = true → Derives PG (.ref "query") (kinds t.yield)
  | .pred e tail, h => by
    simp only [QueryTree.wf, Bool.and_eq_true] at h
    exact (d_refAlt "query" 0 _ (by decide) (by decide) (by decide)
      (.seq (d_bool e h.1) (d_tail tail h.2))).cast (by simp [QueryTree.yield])
  | .sort s sk li, h => by
    simp only [QueryTree.wf, Bool.and_eq_true] at h
    exact (d_refAlt "query" 1 _ (by decide) (by decide) (by decide)
      (.seq (d_sortBy s h.1.1) (.seq (d_optWs "skip" KwNumTree.yield skipWf d_skip sk h.1.2)
        (d_optWs "limit" KwNumTree.yield limitWf d_limit li h.2)))).cast (by simp [QueryTree.yield])
  | .skip s li, h => by
    simp only [QueryTree.wf, Bool.and_eq_true] at h
    exact (d_refAlt "query" 2 _ (by decide) (by decide) (by decide)
      (.seq (d_skip s h.1) (d_optWs "limit" KwNumTree.yield limitWf d_limit li h.2))).cast (by simp [QueryTree.yield])
  | .limit l, h => by
    simp only [QueryTree.wf] at h
    exact (d_refAlt "query" 3 _ (by decide) (by decide) (by decide) (d_limit l h)).cast (by simp [QueryTree.yield])
end

/-- **a well-formed derivation tree is a derivation of `start` in the parser rules of the grammar
    file** -/
theorem d_start (t : StartTree) (h : t.wf = true) : Sentence PG (kinds t.yield) := by
  simp only [StartTree.wf, Bool.and_eq_true] at h
  exact (d_ref "start" (by decide) (by decide)
    (.seq (d_wsStar t.w0 h.1.1) (.seq (d_query t.q h.1.2) (.seq (d_wsStar t.w1 h.2) .eof)))).cast
    (by simp [StartTree.yield])

end StorageModel.C10
