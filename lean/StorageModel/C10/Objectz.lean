import StorageModel.C10.BoltSortProofs
/-
  C10 — objectz (the in-memory object store): the partial operations of
  objectz/object_store.go (`newRowComparator`, `setPaging`, `memSortingScanner.Scan`) and
  objectz/object_cursor.go (`ObjectCursor.eval`), with every unchecked type assertion, dereference
  and method call on a possibly-nil interface as an explicit `panic` branch.  Filter typing and
  evaluation are the shared ast code (`transform_no_panic`, `eval_no_panic`); the comparators of
  object_store_sort.go have the body modelled by `compareNillable`.
-/
namespace StorageModel.C10

/-- the five symbol classes `Add…Symbol` registers; `GetType()` is constant per class -/
inductive ObjSymClass where
  | bool | datetime | float64 | int64 | string
deriving DecidableEq, Repr

def ObjSymClass.getType : ObjSymClass → NodeType
  | .bool => .bool | .datetime => .datetime | .float64 => .float64 | .int64 => .int64 | .string => .string

/-- `symbol.(*Object<X>Symbol[T])` -/
def assertClass (site : String) (c want : ObjSymClass) : Outcome ObjSymClass :=
  if c == want then .ok c else .panic site

/-- `ObjectStore.newRowComparator` over the looked-up symbols (`none`: not in the map) -/
def objNewRowComparator : List (Option ObjSymClass × Bool) → Outcome (List (ObjSymClass × Bool))
  | [] => .ok []
  | (none, _) :: _ => .err "no such sort field"
  | (some c, fwd) :: rest => do
    let k ← match c.getType with
      | .bool => assertClass "newRowComparator: symbol.(*ObjectBoolSymbol[T])" c .bool
      | .datetime => assertClass "newRowComparator: symbol.(*ObjectDatetimeSymbol[T])" c .datetime
      | .float64 => assertClass "newRowComparator: symbol.(*ObjectFloat64Symbol[T])" c .float64
      | .int64 => assertClass "newRowComparator: symbol.(*ObjectInt64Symbol[T])" c .int64
      | .string => assertClass "newRowComparator: symbol.(*ObjectStringSymbol[T])" c .string
      | _ => .err "unsupported sort field type"
    let more ← objNewRowComparator rest
    .ok ((k, fwd) :: more)

/-- `ObjectCursor.eval(name)`: `self.store.symbols[name]` and then `symbol.Eval(…)` — a method call on
    a nil interface when the name is not registered -/
def objEval (registered : Bool) : Outcome Unit :=
  if registered then .ok () else .panic "ObjectCursor.eval: symbol.Eval on a nil ObjectSymbol"

/-- `memSortingScanner.Scan` up to its loop: paging, comparator, `cursor := store.iteratorF()`, then —
    in the order the code has them, `nilTestFirst` being regenerated from the source
    (`Generated.C10.objScanNilTestFirst`) — the `if cursor == nil` test and the first use
    `cursor.Current()`.  Returns whether the scan goes on to iterate. -/
def objScanPrologue (nilTestFirst : Bool) (skip limit : Option Int) (fields : List (Option ObjSymClass × Bool))
    (cursor : Option Unit) : Outcome Bool := do
  let _ ← setPaging skip limit
  let _ ← objNewRowComparator fields
  if nilTestFirst then
    if cursor.isNone then .ok false else do
      let _ ← deref "memSortingScanner.Scan: cursor.Current() on a nil iterator" cursor
      .ok true
  else do
    let _ ← deref "memSortingScanner.Scan: cursor.Current() on a nil iterator" cursor
    if cursor.isNone then .ok false else .ok true

theorem objNewRowComparator_np : ∀ (l : List (Option ObjSymClass × Bool)), (objNewRowComparator l).isPanic = false
  | [] => rfl
  | (none, _) :: _ => rfl
  | (some c, fwd) :: rest => by
    have ih := objNewRowComparator_np rest
    cases c <;> simp only [objNewRowComparator, ObjSymClass.getType, assertClass, beq_self_eq_true, if_true, Outcome.bind_ok] <;>
      (cases hr : objNewRowComparator rest with
       | ok a => rfl
       | err e => rfl
       | panic s => rw [hr] at ih; simp [Outcome.isPanic] at ih)

theorem objScanPrologue_np (nf : Bool) (skip limit : Option Int) (fields : List (Option ObjSymClass × Bool)) (cursor : Option Unit)
    (hc : nf = true ∨ cursor.isSome = true) : (objScanPrologue nf skip limit fields cursor).isPanic = false := by
  unfold objScanPrologue
  refine isPanic_bind _ _ (setPaging_np skip limit) fun _ _ => ?_
  refine isPanic_bind _ _ (objNewRowComparator_np fields) fun _ _ => ?_
  cases cursor with
  | none =>
    rcases hc with rfl | hc
    · rfl
    · simp at hc
  | some u => cases nf <;> rfl

end StorageModel.C10
