import StorageModel.C10.Pipeline
import StorageModel.C10.Dump
import StorageModel.C10.ClassFacts
/-
  C10 — HISTORIES of `ast.Parse` calls in one process (ast/helper.go Parse, ast/bolt_listener.go
  NewListener / getQuery, zitiql/util.go parse).

  `parseModel` is one call of ast.Parse seen in isolation.  The property speaks about every input
  string whatever was parsed before it, so this file models a sequence of calls and the one piece of
  ast-level state a call can find lying around: a ToBoltListener (its operand stacks and its error
  latch) left behind by an earlier call.

  * `listenerAtEntry perCall found`: the listener a call walks the tree with.  `perCall = true` is
    the code as it is (`listener := NewListener()` inside Parse: empty stacks, latch clear) — the flag
    is regenerated from the source as `Generated.C10.astParseListenerPerCall`.  For `false` the
    listener is whatever an earlier call left (the worst case of every policy other than
    construction per call).
  * a call on text that is NOT a sentence still walks a tree: `zitiql.parse` walks the
    error-recovered tree before the collected errors are looked at.  ANTLR's recovery is not
    modelled; the callback sequence of that walk is a parameter (`recEvs`, ANY event list), and the
    listener is left in the state that sequence drives it to.
  * a call on a sentence leaves the listener as `getQuery` leaves it (`afterGetQuery`).
-/
namespace StorageModel.C10

/-- the walk of a listener that starts in state `st0`, then `getQuery` up to PostProcess -/
def listenFrom (st0 : LState) (evs : List Ev) : Outcome U :=
  match run st0 evs with
  | .ok st => getQueryU st
  | .err e => .err e
  | .panic s => .panic s

theorem listenFrom_init (evs : List Ev) : listenFrom .init evs = listen evs := rfl

/-- the state a walk leaves the listener in (a walk that ends in an error/panic of an array exit
    leaves it where it started: those paths return before touching the stacks) -/
def stateAfterWalk (st0 : LState) (evs : List Ev) : LState :=
  match run st0 evs with
  | .ok st => st
  | _ => st0

/-- `getQuery`'s effect on the listener: nothing when the latch is set, else `popNode` -/
def afterGetQuery (st : LState) : LState := if st.err then st else (popNode st).2

/-- the listener a call of ast.Parse hands to zitiql.Parse -/
def listenerAtEntry (perCall : Bool) (found : LState) : LState := if perCall then .init else found

deriving instance DecidableEq for Outcome

/-- the front half of a call, up to PostProcess, with a listener that starts in `entry`: syntax
    error, listener error, or the untyped query -/
def untypedFrom (entry : LState) (s : List Char) : Outcome U :=
  match lex s with
  | .error _ => .err "syntax"
  | .ok ts =>
    match parseStart ts with
    | none => .err "syntax"
    | some tree =>
      match listenFrom entry tree.events with
      | .ok u => .ok u
      | .err _ => .err "listener"
      | .panic p => .panic p

/-- the state the listener is left in: after `getQuery` for a sentence, after the walk of the
    recovered tree otherwise -/
def leftover (entry : LState) (s : List Char) (recEvs : List Ev) : LState :=
  match lex s with
  | .error _ => stateAfterWalk entry recEvs
  | .ok ts =>
    match parseStart ts with
    | none => stateAfterWalk entry recEvs
    | some tree => afterGetQuery (stateAfterWalk entry tree.events)

/-- one call of `ast.Parse(symbols, s)`: `found` = the listener state earlier calls left behind,
    `recEvs` = the callback sequence of the error-recovered tree if `s` is not a sentence.
    Returns the result and the listener state this call leaves behind. -/
def parseCall (perCall : Bool) (found : LState) (st : SymTab) (s : List Char) (recEvs : List Ev) : Outcome T × LState :=
  if s.isEmpty then (.ok (.query (.boolC true) (some []) none none), found) else
  let entry := listenerAtEntry perCall found
  (match untypedFrom entry s with
    | .ok u => postProcess st u
    | .err e => .err e
    | .panic p => .panic p,
   leftover entry s recEvs)

/-- one element of a history: the symbol table of the store queried, the text, and (for text that
    is not a sentence) the callbacks of the recovered tree -/
structure Call where
  symbols : SymTab
  text : List Char
  recEvs : List Ev

/-- a sequence of calls in one process: the results, in order -/
def parseHistory (perCall : Bool) : LState → List Call → List (Outcome T)
  | _, [] => []
  | found, c :: rest =>
    (parseCall perCall found c.symbols c.text c.recEvs).1 ::
      parseHistory perCall (parseCall perCall found c.symbols c.text c.recEvs).2 rest

/-- what the property demands of a history: every call answers as if it were the only one -/
def standalone (h : List Call) : List (Outcome T) := h.map fun c => parseModel c.symbols c.text

/-! ### proofs -/

theorem parseCall_perCall (found : LState) (st : SymTab) (s : List Char) (recEvs : List Ev) :
    (parseCall true found st s recEvs).1 = parseModel st s := by
  unfold parseCall parseModel
  split
  · rfl
  · simp only [listenerAtEntry, if_true, untypedFrom]
    cases lex s with
    | error e => rfl
    | ok ts =>
      simp only
      cases parseStart ts with
      | none => rfl
      | some tree =>
        simp only [listenFrom_init]
        cases listen tree.events <;> rfl

theorem parseHistory_perCall (found : LState) (h : List Call) : parseHistory true found h = standalone h := by
  induction h generalizing found with
  | nil => rfl
  | cons c rest ih =>
    simp only [parseHistory, standalone, List.map_cons, parseCall_perCall]
    exact congrArg _ (ih _)

/-! ### a listener that is not constructed per call: the leak, on a concrete history -/

def noSymbols : SymTab := .mk (fun _ => none) (fun _ => none) (fun _ => none)

/-- `true )` is rejected (ANTLR drops the `)`; the recovered tree is walked: BOOL, ExitQueryStmt;
    getQuery is not reached) — then the predicate-less `limit 5` -/
def leakHistory : List Call :=
  [⟨noSymbols, "true )".toList, [.term .BOOL "true".toList, .xQ]⟩, ⟨noSymbols, "limit 5".toList, []⟩]

/-- what the recovered walk of `true )` leaves on the operand stack -/
def staleState : LState := ⟨[], [.node (.query (.boolC true) .noSort none none)], false⟩

theorem leak_leftover : (parseCall false .init noSymbols "true )".toList [.term .BOOL "true".toList, .xQ]).2 = staleState := by decide +kernel

theorem leak_untyped : untypedFrom staleState "limit 5".toList = .ok (.query (.query (.boolC true) .noSort none none) .noSort none (some 5)) := by
  decide +kernel

theorem alone_untyped : untypedFrom .init "limit 5".toList = .ok (.query (.boolC true) .noSort none (some 5)) := by decide +kernel

theorem postProcess_limit (st : SymTab) :
    postProcess st (.query (.boolC true) .noSort none (some 5)) = .ok (.query (.boolC true) none none (some 5)) := by
  simp [postProcess, validate, validateSort, typeTransformBool, transformTypes, keep, bind, Outcome.bind, U.cls, T.cls]

theorem postProcess_leak (st : SymTab) :
    postProcess st (.query (.query (.boolC true) .noSort none none) .noSort none (some 5))
      = .ok (.query (.query (.boolC true) none none none) none none (some 5)) := by
  simp [postProcess, validate, validateSort, typeTransformBool, transformTypes, keep, bind, Outcome.bind, U.cls, T.cls]

theorem parseCall_fst (perCall : Bool) (found : LState) (st : SymTab) (s : List Char) (recEvs : List Ev) (h : s.isEmpty = false) :
    (parseCall perCall found st s recEvs).1 =
      match untypedFrom (listenerAtEntry perCall found) s with
      | .ok u => postProcess st u
      | .err e => .err e
      | .panic p => .panic p := by
  unfold parseCall
  simp [h]

/-- the second call of `leakHistory` with a listener that outlives its call: the stale query of the
    rejected text has become the predicate of `limit 5` -/
theorem leak_second_call :
    (parseCall false staleState noSymbols "limit 5".toList []).1
      = .ok (.query (.query (.boolC true) none none none) none none (some 5)) := by
  rw [parseCall_fst _ _ _ _ _ (by decide)]
  have h : listenerAtEntry false staleState = staleState := rfl
  rw [h, leak_untyped]
  exact postProcess_leak _

theorem alone_second_call : parseModel noSymbols "limit 5".toList = .ok (.query (.boolC true) none none (some 5)) := by
  rw [← parseCall_perCall .init noSymbols "limit 5".toList [], parseCall_fst _ _ _ _ _ (by decide)]
  have h : listenerAtEntry true .init = .init := rfl
  rw [h, alone_untyped]
  exact postProcess_limit _

/-- with a listener that is reused as it was left, the history `true )`, `limit 5` is NOT answered
    call by call as the texts alone are -/
theorem leak_history : parseHistory false .init leakHistory ≠ standalone leakHistory := by
  intro h
  simp only [leakHistory, parseHistory, standalone, List.map_cons, List.map_nil, leak_leftover, leak_second_call,
    alone_second_call, List.cons.injEq] at h
  have := h.2.1
  injection this with h1
  injection h1 with h2
  cases h2

/-- the predicate of an untyped query result -/
def predOf : Outcome U → Option U
  | .ok (.query p _ _ _) => some p
  | _ => none

def traces (rs : List (Outcome T)) : List (List String) :=
  rs.map fun r => match r with
    | .ok t => t.trace
    | .err e => ["err", e]
    | .panic p => ["panic", p]

end StorageModel.C10
