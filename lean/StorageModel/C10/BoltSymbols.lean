import StorageModel.C10.Basic
/-
  C10 — how boltz/query_cursor.go `rowCursorImpl.IsNil / Eval*` reach the three kinds of
  EntitySymbol.Eval (boltz/query_symbols.go), with Go nil pointers made explicit.  Only the
  nil-ness of what Eval returns and its dereferences are modelled; values are C01's business.
-/
namespace StorageModel.C10

/-- run-time state of a symbol as `rowCursorImpl.getSymbol(name)` finds it -/
inductive BoltSym where
  /-- a plain field symbol: `Eval` reads the row's bucket; `none` = field absent / nil -/
  | field (value : Option Unit)
  /-- `entitySetSymbolRuntime`: `value` is nil until OpenCursor positions the cursor -/
  | setRuntime (value : Option Unit)
  /-- `compositeEntitySetSymbol` (dotted set symbol): `cursor` is nil until OpenCursor is called;
      an open cursor has a `key` (nil when exhausted) -/
  | composite (cursor : Option (Option Unit))
deriving DecidableEq, Repr

/-- `symbol.Eval(tx, row)` reduced to "is the result nil" -/
def BoltSym.evalIsNil : BoltSym → Outcome Bool
  | .field v => .ok v.isNone
  | .setRuntime v => .ok v.isNone            -- `if symbol.value == nil { return TypeNil, nil }`
  | .composite none => .panic "compositeEntitySetSymbol.Eval: symbol.cursor.key with symbol.cursor == nil"
  | .composite (some key) => .ok key.isNone  -- cursorLastF(tx, symbol.cursor.key)

/-- `rowCursorImpl.IsNil(name)`: an unknown symbol is logged and reported nil -/
def rowIsNil : Option BoltSym → Outcome Bool
  | none => .ok true
  | some s => s.evalIsNil

/-- a symbol on which a cursor has been opened whenever it is a dotted set symbol -/
def BoltSym.cursorOpened : BoltSym → Bool
  | .composite none => false
  | _ => true

end StorageModel.C10
