import StorageModel.C10.Eval
/-
  C10 — how boltz/query_cursor.go `rowCursorImpl.IsNil / Eval*` reach the three kinds of
  EntitySymbol.Eval (boltz/query_symbols.go), with Go nil pointers made explicit.  Only the
  nil-ness of what Eval returns and its dereferences are modelled; values are C01's business.
-/
namespace StorageModel.C10

/-- run-time state of a symbol as `rowCursorImpl.getSymbol(name)` finds it -/
inductive BoltSym where
  /-- a plain field symbol: `Eval` reads the row's bucket; `none` = field absent / nil -/
  | field (value : Option Unit)
  /-- `entitySetSymbolRuntime`: `value` is nil until OpenCursor positions the cursor -/
  | setRuntime (value : Option Unit)
  /-- `compositeEntitySetSymbol` (dotted set symbol): `cursor` is nil until OpenCursor is called;
      an open cursor has a `key` (nil when exhausted) -/
  | composite (cursor : Option (Option Unit))
deriving DecidableEq, Repr

/-- `symbol.Eval(tx, row)` reduced to "is the result nil" -/
def BoltSym.evalIsNil : BoltSym → Outcome Bool
  | .field v => .ok v.isNone
  | .setRuntime v => .ok v.isNone            -- `if symbol.value == nil { return TypeNil, nil }`
  | .composite cursor =>
    -- `if symbol.cursor == nil { return TypeNil, nil }` (fix 4e2e9ce), then symbol.cursor.key
    if cursor.isNone then .ok true else do
      let c ← deref "compositeEntitySetSymbol.Eval: symbol.cursor.key" cursor
      .ok c.isNone

/-- `rowCursorImpl.IsNil(name)`: an unknown symbol is logged and reported nil -/
def rowIsNil : Option BoltSym → Outcome Bool
  | none => .ok true
  | some s => s.evalIsNil

end StorageModel.C10
