import StorageModel.C10.Build
import StorageModel.C10.ListenerProofs
import StorageModel.C10.ClassFacts
/-
  C10 — the listener on complete derivations: the callbacks of a well-formed tree either latch an
  error (a literal is refused) or leave exactly the node `build` describes on the stack.
-/
namespace StorageModel.C10

theorem run_append (st : LState) (a b : List Ev) :
    run st (a ++ b) = (match run st a with
      | .ok st' => run st' b
      | .err x => .err x
      | .panic s => .panic s) := by
  induction a generalizing st with
  | nil => simp [run]
  | cons e es ih =>
    simp only [List.cons_append, run]
    cases step st e with
    | ok st1 => exact ih st1
    | err x => rfl
    | panic s => rfl

theorem popNode_err (st : LState) (h : st.err = true) : popNode st = (none, st) := by simp [popNode, h]
theorem popBinop_err (st : LState) (h : st.err = true) : popBinop st = (none, st) := by simp [popBinop, h]
theorem popSetFn_err (st : LState) (h : st.err = true) : popSetFn st = (none, st) := by simp [popSetFn, h]
theorem popSymbol_err (st : LState) (h : st.err = true) : popSymbol st = (none, st) := by simp [popSymbol, h]
theorem push_err (st : LState) (v : SV) (h : st.err = true) : push st v = st := by simp [push, h]
theorem peek_err (st : LState) (h : st.err = true) : peek st = none := by simp [peek, h]

/-- once the latch is set every callback keeps it set and returns -/
theorem step_err (st : LState) (e : Ev) (h : st.err = true) : ∃ st', step st e = .ok st' ∧ st'.err = true := by
  cases e with
  | term k t => exact ⟨st, by simp [step, visitTerminal, h], h⟩
  | eSA => exact ⟨_, rfl, by simpa [enterGroup] using h⟩
  | eNA => exact ⟨_, rfl, by simpa [enterGroup] using h⟩
  | eDA => exact ⟨_, rfl, by simpa [enterGroup] using h⟩
  | eSB => exact ⟨_, rfl, by simpa [enterGroup] using h⟩
  | xSA => exact ⟨st, by simp [step, exitStringArray, h], h⟩
  | xNA => exact ⟨st, by simp [step, exitNumberArray, h], h⟩
  | xDA => exact ⟨st, by simp [step, exitDatetimeArray, h], h⟩
  | xOr => exact ⟨st, by simp [step, exitLogic, popNode_err st h, h], h⟩
  | xAnd => exact ⟨st, by simp [step, exitLogic, popNode_err st h, h], h⟩
  | xIn => exact ⟨st, by simp [step, exitInArrayOp, popNode_err st h, popBinop_err st h, h], h⟩
  | xBtw => exact ⟨st, by simp [step, exitBetweenOp, popNode_err st h, popBinop_err st h, h], h⟩
  | xBin => exact ⟨st, by simp [step, exitBinaryOp, popNode_err st h, popBinop_err st h, h], h⟩
  | xSF => exact ⟨st, by simp [step, pushSetFunction, popSymbol_err st h, popSetFn_err st h, h], h⟩
  | xSB =>
    simp only [step, exitSortBy]
    split
    · exact ⟨_, rfl, rfl⟩
    · refine ⟨_, rfl, ?_⟩
      have : (exitGroup st).err = true := by unfold exitGroup; split <;> simp [setErr, h]
      rw [push_err _ _ this]; exact this
  | xSFd => exact ⟨st, by simp [step, exitSortField, peek_err st h, popSymbol_err st h, h], h⟩
  | xSk => exact ⟨st, by simp [step, exitSkip, popNode_err st h, h], h⟩
  | xLi => exact ⟨st, by simp [step, exitLimit, popNode_err st h, h], h⟩
  | xQ => exact ⟨st, by simp [step, exitQueryStmt, peek_err st h, h], h⟩
  | xSQ => exact ⟨st, by simp [step, exitSubQuery, popNode_err st h, h], h⟩
  | xNot => exact ⟨st, by simp [step, exitNot, popNode_err st h, h], h⟩
  | xGrp => exact ⟨st, by simp [step, exitGroupCtx, peek_err st h], h⟩

theorem run_err (evs : List Ev) : ∀ (st : LState), st.err = true → ∃ st', run st evs = .ok st' ∧ st'.err = true := by
  induction evs with
  | nil => intro st h; exact ⟨st, rfl, h⟩
  | cons e es ih =>
    intro st h
    obtain ⟨st1, h1, he1⟩ := step_err st e h
    obtain ⟨st2, h2, he2⟩ := ih st1 he1
    exact ⟨st2, by simp [run, h1, h2], he2⟩

/-- stack effect of a callback sequence on a state without error: the new current stack, or
    `none` for "the error latch is set" -/
def Eff (evs : List Ev) (f : List SV → Option (List SV)) : Prop :=
  ∀ st : LState, st.err = false →
    match f st.cur with
    | some c => run st evs = .ok { st with cur := c }
    | none => ∃ st', run st evs = .ok st' ∧ st'.err = true

theorem eff_nil : Eff [] some := by intro st _; rfl

theorem eff_seq {a b : List Ev} {f g : List SV → Option (List SV)} (ha : Eff a f) (hb : Eff b g) :
    Eff (a ++ b) (fun c => (f c).bind g) := by
  intro st hst
  have h1 := ha st hst
  rw [run_append]
  show match (f st.cur).bind g with
    | some c => _ = _
    | none => _
  cases hf : f st.cur with
  | none =>
    rw [hf] at h1
    obtain ⟨st', hr, he⟩ := h1
    simp only [Option.bind_none, hr]
    exact run_err b st' he
  | some c =>
    rw [hf] at h1
    simp only [Option.bind_some, h1]
    exact hb { st with cur := c } hst

theorem eff_congr {evs : List Ev} {f g : List SV → Option (List SV)} (h : Eff evs f) (hfg : ∀ c, f c = g c) :
    Eff evs g := by
  intro st hst; have := h st hst; rwa [hfg] at this

/-- a single callback that only touches the current stack -/
theorem eff_single (e : Ev) (f : List SV → Option (List SV))
    (h : ∀ st : LState, st.err = false →
      match f st.cur with
      | some c => step st e = .ok { st with cur := c }
      | none => ∃ st', step st e = .ok st' ∧ st'.err = true) : Eff [e] f := by
  intro st hst
  have := h st hst
  cases hf : f st.cur with
  | none => rw [hf] at this; obtain ⟨st', hs, he⟩ := this; exact ⟨st', by simp [run, hs], he⟩
  | some c => rw [hf] at this; simp [run, this]

/-- pushing a value -/
def pushes (v : Option SV) : List SV → Option (List SV) := fun c => v.map (· :: c)

theorem eff_term_push (k : TK) (text : List Char) (v : SV)
    (h : ∀ st : LState, st.err = false → visitTerminal st k text = push st v) : Eff [.term k text] (pushes (some v)) := by
  apply eff_single
  intro st hst
  simp [pushes, step, h st hst, push, hst]

theorem eff_term_fail (k : TK) (text : List Char)
    (h : ∀ st : LState, st.err = false → visitTerminal st k text = setErr st) : Eff [.term k text] (pushes none) := by
  apply eff_single
  intro st hst
  exact ⟨setErr st, by simp [step, h st hst], rfl⟩

theorem tokEv_of_kind (t : Token) (k : TK) (hk : t.kind = k) (hl : listenerKinds.contains k = true) :
    tokEv t = [.term k t.text] := by
  subst hk; simp only [tokEv, hl, if_true]

theorem tokEv_silent (t : Token) (k : TK) (hk : t.kind = k) (hl : listenerKinds.contains k = false) : tokEv t = [] := by
  subst hk; simp only [tokEv, hl, Bool.false_eq_true, if_false]

/-- an IDENTIFIER token pushes the untyped symbol -/
theorem eff_ident (t : Token) (h : kindIs t .IDENTIFIER = true) :
    Eff (tokEv t) (pushes (some (.node (.sym t.text)))) := by
  rw [tokEv_of_kind t .IDENTIFIER (by simpa [kindIs] using h) (by decide)]
  exact eff_term_push _ _ _ (fun st hst => by simp [visitTerminal, hst])

/-- a literal token pushes its node, or latches an error -/
theorem eff_literal (t : Token)
    (h : t.kind = .STRING ∨ t.kind = .NUMBER ∨ t.kind = .DATETIME ∨ t.kind = .BOOL ∨ t.kind = .NULL ∨ t.kind = .NONE) :
    Eff (tokEv t) (pushes ((litOfToken t).map .node)) := by
  rcases h with h | h | h | h | h | h
  · rw [tokEv_of_kind t _ h (by decide)]
    simp only [litOfToken, h, Option.map_some]
    exact eff_term_push _ _ _ (fun st hst => by simp [visitTerminal, hst])
  · rw [tokEv_of_kind t _ h (by decide)]
    simp only [litOfToken, h]
    cases hc : classifyNumber t.text with
    | int i => exact eff_term_push _ _ _ (fun st hst => by simp [visitTerminal, hst, hc])
    | float q => exact eff_term_push _ _ _ (fun st hst => by simp [visitTerminal, hst, hc])
    | bad => exact eff_term_fail _ _ (fun st hst => by simp [visitTerminal, hst, hc])
  · rw [tokEv_of_kind t _ h (by decide)]
    simp only [litOfToken, h]
    cases hc : parseDatetime t.text with
    | some ns => exact eff_term_push _ _ _ (fun st hst => by simp [visitTerminal, hst, hc])
    | none => exact eff_term_fail _ _ (fun st hst => by simp [visitTerminal, hst, hc])
  · rw [tokEv_of_kind t _ h (by decide)]
    simp only [litOfToken, h]
    cases hc : parseBoolText t.text with
    | some b => exact eff_term_push _ _ _ (fun st hst => by simp [visitTerminal, hst, hc])
    | none => exact eff_term_fail _ _ (fun st hst => by simp [visitTerminal, hst, hc])
  · rw [tokEv_of_kind t _ h (by decide)]
    simp only [litOfToken, h, Option.map_some]
    exact eff_term_push _ _ _ (fun st hst => by simp [visitTerminal, hst])
  · rw [tokEv_of_kind t _ h (by decide)]
    simp only [litOfToken, h, Option.map_some]
    exact eff_term_push _ _ _ (fun st hst => by simp [visitTerminal, hst])

/-- an operator token pushes its BinaryOp -/
theorem eff_op (t : Token)
    (h : t.kind = .EQ ∨ t.kind = .LT ∨ t.kind = .GT ∨ t.kind = .IN ∨ t.kind = .BETWEEN ∨ t.kind = .CONTAINS ∨ t.kind = .ICONTAINS) :
    Eff (tokEv t) (pushes (some (.binop (opOfToken t)))) := by
  rcases h with h | h | h | h | h | h | h <;>
    (rw [tokEv_of_kind t _ h (by decide)]
     simp only [opOfToken, h]
     exact eff_term_push _ _ _ (fun st hst => by simp [visitTerminal, hst]))

theorem eff_setfn (t : Token) (h : t.kind = .ALL_OF ∨ t.kind = .ANY_OF ∨ t.kind = .COUNT ∨ t.kind = .ISEMPTY) :
    Eff (tokEv t) (pushes (some (.setfn (setFnOfToken t)))) := by
  rcases h with h | h | h | h <;>
    (rw [tokEv_of_kind t _ h (by decide)]
     simp only [setFnOfToken, h]
     exact eff_term_push _ _ _ (fun st hst => by simp [visitTerminal, hst]))

/-! ### arrays -/

def litNodes (lits : List Lit) : List SV := lits.map fun l => .node (.lit l)

def litKindOK : ArrKind → Lit → Bool
  | .str, .str _ => true
  | .num, .int _ => true
  | .num, .flt _ => true
  | .dt, .dt _ => true
  | _, _ => false

theorem litOfToken_kind (k : ArrKind) (t : Token) (h : kindIs t k.tk = true) :
    (t.kind = .STRING ∨ t.kind = .NUMBER ∨ t.kind = .DATETIME ∨ t.kind = .BOOL ∨ t.kind = .NULL ∨ t.kind = .NONE) ∧
    (∀ u, litOfToken t = some u → ∃ l, u = .lit l ∧ litKindOK k l = true) := by
  simp only [kindIs, beq_iff_eq] at h
  cases k <;> simp only [ArrKind.tk] at h
  · refine ⟨Or.inl h, ?_⟩
    intro u hu; simp only [litOfToken, h] at hu; cases hu; exact ⟨_, rfl, rfl⟩
  · refine ⟨Or.inr (Or.inl h), ?_⟩
    intro u hu
    simp only [litOfToken, h] at hu
    cases hc : classifyNumber t.text <;> simp [hc] at hu <;> subst hu <;> exact ⟨_, rfl, rfl⟩
  · refine ⟨Or.inr (Or.inr (Or.inl h)), ?_⟩
    intro u hu
    simp only [litOfToken, h] at hu
    cases hc : parseDatetime t.text <;> simp [hc] at hu
    subst hu; exact ⟨_, rfl, rfl⟩

/-- the element tokens of an array push their literals (last element on top) -/
theorem eff_elems (k : ArrKind) : ∀ (els : List Token), els.all (fun t => kindIs t k.tk) = true →
    Eff (els.flatMap tokEv) (fun c => (litsOfTokens els).map fun lits => litNodes lits.reverse ++ c) ∧
    (∀ lits, litsOfTokens els = some lits → ∀ l ∈ lits, litKindOK k l = true) := by
  intro els
  induction els with
  | nil => intro _; exact ⟨by simpa [litsOfTokens, litNodes] using eff_nil, by intro lits h l hl; simp [litsOfTokens] at h; subst h; cases hl⟩
  | cons t rest ih =>
    intro h
    simp only [List.all_cons, Bool.and_eq_true] at h
    obtain ⟨ihe, ihk⟩ := ih h.2
    obtain ⟨hkind, hlit⟩ := litOfToken_kind k t h.1
    have e1 := eff_literal t hkind
    refine ⟨?_, ?_⟩
    · simp only [List.flatMap_cons]
      refine eff_congr (eff_seq e1 ihe) ?_
      intro c
      simp only [litsOfTokens, pushes]
      cases hl : litOfToken t with
      | none => simp
      | some u =>
        obtain ⟨l, rfl, _⟩ := hlit u hl
        simp only [Option.map_some, Option.bind_some]
        cases hr : litsOfTokens rest with
        | none => simp
        | some ls => simp [litNodes, List.reverse_cons, List.map_append, List.append_assoc]
    · intro lits hls l hl
      simp only [litsOfTokens] at hls
      cases hlt : litOfToken t with
      | none => simp [hlt] at hls
      | some u =>
        obtain ⟨l0, rfl, hk0⟩ := hlit u hlt
        cases hr : litsOfTokens rest with
        | none => simp [hlt, hr] at hls
        | some ls =>
          simp [hlt, hr] at hls
          subst hls
          rcases List.mem_cons.mp hl with rfl | hl'
          · exact hk0
          · exact ihk ls hr l hl'

theorem popArrayLoop_lits (want : Iface) (site : String) : ∀ (lits : List Lit) (n : Nat) (s : List (List SV)) (acc : List Lit),
    lits.length < n → (∀ l ∈ lits, impl l.cls want = true) →
    popArrayLoop want site n ⟨s, litNodes lits, false⟩ acc = .ok (some (acc.reverse ++ lits), ⟨s, [], false⟩) := by
  intro lits
  induction lits with
  | nil =>
    intro n s acc hn _
    cases n with
    | zero => omega
    | succ n => simp [popArrayLoop, litNodes]
  | cons l rest ih =>
    intro n s acc hn himpl
    cases n with
    | zero => omega
    | succ n =>
      have hl := himpl l (List.mem_cons_self ..)
      simp only [popArrayLoop, litNodes, List.map_cons, List.isEmpty_cons, Bool.false_eq_true, if_false, popNode,
        U.cls, hl, if_true, litOf]
      have := ih n s (l :: acc) (by simp at hn; omega) (fun x hx => himpl x (List.mem_cons_of_mem _ hx))
      simp only [litNodes] at this
      rw [this]
      simp [List.reverse_cons, List.append_assoc]

theorem popNumberLoop_lits : ∀ (lits : List Lit) (n : Nat) (s : List (List SV)) (acc : List Lit),
    lits.length < n → (∀ l ∈ lits, (impl l.cls .Int64Node || impl l.cls .Float64Node) = true) →
    popNumberLoop n ⟨s, litNodes lits, false⟩ acc = .ok (some (acc.reverse ++ lits), ⟨s, [], false⟩) := by
  intro lits
  induction lits with
  | nil =>
    intro n s acc hn _
    cases n with
    | zero => omega
    | succ n => simp [popNumberLoop, litNodes]
  | cons l rest ih =>
    intro n s acc hn himpl
    cases n with
    | zero => omega
    | succ n =>
      have hl := himpl l (List.mem_cons_self ..)
      simp only [popNumberLoop, litNodes, List.map_cons, List.isEmpty_cons, Bool.false_eq_true, if_false, popNode,
        U.cls, hl, if_true, litOf]
      have := ih n s (l :: acc) (by simp at hn; omega) (fun x hx => himpl x (List.mem_cons_of_mem _ hx))
      simp only [litNodes] at this
      rw [this]
      simp [List.reverse_cons, List.append_assoc]

theorem litKind_impl (k : ArrKind) (l : Lit) (h : litKindOK k l = true) :
    match k with
    | .str => impl l.cls .StringNode = true
    | .num => (impl l.cls .Int64Node || impl l.cls .Float64Node) = true
    | .dt => impl l.cls .DatetimeNode = true := by
  cases k <;> cases l <;> simp [litKindOK] at h <;> simp [Lit.cls]

theorem arr_events_eq (a : ArrTree) :
    a.events = (match a.kind with | .str => Ev.eSA | .num => Ev.eNA | .dt => Ev.eDA) ::
      ((a.first :: a.more.map (·.2.2.2)).flatMap tokEv ++
        [match a.kind with | .str => Ev.xSA | .num => Ev.xNA | .dt => Ev.xDA]) := by
  cases hk : a.kind <;> simp [ArrTree.events, hk, List.flatMap_cons, List.flatMap_map, List.append_assoc]

/-- **an array context** leaves exactly its array node on the stack (or latches an error) -/
theorem eff_array (a : ArrTree) (h : a.wf = true) : Eff a.events (pushes (a.build.map .node)) := by
  simp only [ArrTree.wf, Bool.and_eq_true] at h
  have hall : (a.first :: a.more.map (·.2.2.2)).all (fun t => kindIs t a.kind.tk) = true := by
    simp only [List.all_cons, Bool.and_eq_true, List.all_map]
    refine ⟨h.1.1.1.2, ?_⟩
    have := h.1.1.2
    simp only [List.all_eq_true] at this ⊢
    intro m hm
    have := this m hm
    simp only [Bool.and_eq_true] at this
    exact this.2
  obtain ⟨heff, hkinds⟩ := eff_elems a.kind _ hall
  intro st hst
  rw [arr_events_eq]
  obtain ⟨s, c, e⟩ := st
  simp only at hst; subst hst
  have hstep : step ⟨s, c, false⟩ (match a.kind with | .str => Ev.eSA | .num => Ev.eNA | .dt => Ev.eDA) = .ok ⟨c :: s, [], false⟩ := by
    cases a.kind <;> rfl
  have hrun : ∀ rest, run ⟨s, c, false⟩ ((match a.kind with | .str => Ev.eSA | .num => Ev.eNA | .dt => Ev.eDA) :: rest) =
      run ⟨c :: s, [], false⟩ rest := by
    intro rest; simp only [run, hstep]
  rw [hrun, run_append]
  have hin := heff ⟨c :: s, [], false⟩ rfl
  simp only [ArrTree.build, pushes]
  cases hl : litsOfTokens (a.first :: a.more.map (·.2.2.2)) with
  | none =>
    rw [hl] at hin
    obtain ⟨st', hr, he⟩ := hin
    simp only [Option.map_none]
    rw [hr]
    exact run_err _ st' he
  | some lits =>
    rw [hl] at hin
    simp only [Option.map_some, List.append_nil] at hin
    rw [hin]
    have hk := hkinds lits hl
    have hlen : (litNodes lits.reverse).length = lits.length := by simp [litNodes]
    have run1 : ∀ (st0 : LState) (e : Ev), run st0 [e] = (match step st0 e with
        | .ok st1 => .ok st1 | .err x => .err x | .panic p => .panic p) := by
      intro st0 e; simp only [run]; cases step st0 e <;> rfl
    cases hkind : a.kind with
    | str =>
      have himpl : ∀ l ∈ lits.reverse, impl l.cls .StringNode = true := by
        intro l hl'; have := litKind_impl .str l (by rw [← hkind]; exact hk l (List.mem_reverse.mp hl')); simpa using this
      simp only [run1, step, exitStringArray, Bool.false_eq_true, if_false]
      rw [popArrayLoop_lits .StringNode _ lits.reverse _ (c :: s) [] (by simp [hlen]) himpl]
      simp [exitGroup, push]
    | dt =>
      have himpl : ∀ l ∈ lits.reverse, impl l.cls .DatetimeNode = true := by
        intro l hl'; have := litKind_impl .dt l (by rw [← hkind]; exact hk l (List.mem_reverse.mp hl')); simpa using this
      simp only [run1, step, exitDatetimeArray, Bool.false_eq_true, if_false]
      rw [popArrayLoop_lits .DatetimeNode _ lits.reverse _ (c :: s) [] (by simp [hlen]) himpl]
      simp [exitGroup, push]
    | num =>
      have himpl : ∀ l ∈ lits.reverse, (impl l.cls .Int64Node || impl l.cls .Float64Node) = true := by
        intro l hl'; have := litKind_impl .num l (by rw [← hkind]; exact hk l (List.mem_reverse.mp hl')); simpa using this
      simp only [run1, step, exitNumberArray, Bool.false_eq_true, if_false]
      rw [popNumberLoop_lits lits.reverse _ (c :: s) [] (by simp [hlen]) himpl]
      simp only [List.reverse_nil, List.nil_append]
      by_cases hc : lits.reverse.all Lit.isInt = true
      · simp only [hc, if_true]; simp [exitGroup, push]
      · simp only [hc, Bool.false_eq_true, if_false]; simp [exitGroup, push]

/-! ### Hoare-style effects on a known top-of-stack segment (with the frame rule built in) -/

/-- the callbacks replace the top segment `pre` of the current stack by `post` (whatever lies
    below), or latch the error when `post = none` -/
def EffOn (evs : List Ev) (pre : List SV) (post : Option (List SV)) : Prop :=
  ∀ (st : LState) (c : List SV), st.err = false → st.cur = pre ++ c →
    match post with
    | some p => run st evs = .ok { st with cur := p ++ c }
    | none => ∃ st', run st evs = .ok st' ∧ st'.err = true

theorem effOn_of_eff {evs : List Ev} {v : Option SV} (h : Eff evs (pushes v)) : EffOn evs [] (v.map fun x => [x]) := by
  intro st c hst hc
  have := h st hst
  simp only [List.nil_append] at hc
  cases v with
  | none => simpa [pushes] using this
  | some x => simpa [pushes, hc] using this

theorem effOn_frame {evs : List Ev} {pre : List SV} {post : Option (List SV)} (h : EffOn evs pre post) (extra : List SV) :
    EffOn evs (pre ++ extra) (post.map (· ++ extra)) := by
  intro st c hst hc
  have := h st (extra ++ c) hst (by rw [hc, List.append_assoc])
  cases post with
  | none => simpa using this
  | some p => simpa [List.append_assoc] using this

theorem effOn_bind {a b : List Ev} {pre : List SV} {m : Option (List SV)} {k : List SV → Option (List SV)}
    (ha : EffOn a pre m) (hb : ∀ mid, m = some mid → EffOn b mid (k mid)) : EffOn (a ++ b) pre (m.bind k) := by
  intro st c hst hc
  have h1 := ha st c hst hc
  rw [run_append]
  cases m with
  | none =>
    obtain ⟨st', hr, he⟩ := h1
    simp only [Option.bind_none, hr]
    exact run_err b st' he
  | some mid =>
    simp only at h1
    simp only [Option.bind_some, h1]
    exact hb mid rfl { st with cur := mid ++ c } c hst rfl

theorem effOn_seq {a b : List Ev} {pre mid : List SV} {post : Option (List SV)}
    (ha : EffOn a pre (some mid)) (hb : EffOn b mid post) : EffOn (a ++ b) pre post := by
  have := effOn_bind (k := fun _ => post) ha (fun m hm => by cases hm; exact hb)
  simpa using this

theorem effOn_nil (pre : List SV) : EffOn [] pre (some pre) := by
  intro st c _ hc; simp [run, ← hc]

theorem effOn_congr {evs : List Ev} {pre : List SV} {p q : Option (List SV)} (h : EffOn evs pre p) (hpq : p = q) :
    EffOn evs pre q := hpq ▸ h

/-- a callback whose result on the segment is computed by `simp` -/
theorem effOn_step (e : Ev) (pre : List SV) (post : List SV)
    (h : ∀ (s : List (List SV)) (c : List SV), step ⟨s, pre ++ c, false⟩ e = .ok ⟨s, post ++ c, false⟩) :
    EffOn [e] pre (some post) := by
  intro st c hst hc
  obtain ⟨s, cur, e'⟩ := st
  simp only at hst hc; subst hst; subst hc
  simp [run, h s c]

theorem effOn_step_fail (e : Ev) (pre : List SV)
    (h : ∀ (s : List (List SV)) (c : List SV), ∃ st', step ⟨s, pre ++ c, false⟩ e = .ok st' ∧ st'.err = true) :
    EffOn [e] pre none := by
  intro st c hst hc
  obtain ⟨s, cur, e'⟩ := st
  simp only at hst hc; subst hst; subst hc
  obtain ⟨st', hs, he⟩ := h s c
  exact ⟨st', by simp [run, hs], he⟩

/-- push after a frame: `evs` pushes `v` on top of `pre` -/
theorem effOn_push {evs : List Ev} {v : Option SV} (h : Eff evs (pushes v)) (pre : List SV) :
    EffOn evs pre (v.map fun x => x :: pre) := by
  have := effOn_frame (effOn_of_eff h) pre
  cases v <;> simpa using this

end StorageModel.C10
