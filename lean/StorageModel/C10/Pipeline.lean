import StorageModel.C10.Eval
import StorageModel.C10.LexRules
/-
  C10 — the whole of `ast.Parse(symbols, text)` as one function: reference lexer, reference
  recogniser, the listener's stack machine on the derivation's callbacks, symbol validation and
  type transformation.  (ast.Parse answers the empty string with the match-all query without
  parsing.)
-/
namespace StorageModel.C10

def parseModel (st : SymTab) (s : List Char) : Outcome T :=
  if s.isEmpty then .ok (.query (.boolC true) (some []) none none) else
  match lex s with
  | .error _ => .err "syntax"
  | .ok ts =>
    match parseStart ts with
    | none => .err "syntax"
    | some tree =>
      match listen tree.events with
      | .ok u => postProcess st u
      | .err _ => .err "listener"
      | .panic p => .panic p

/-- `Query.EvalBool` of a parsed query against one row -/
def evalModel (seekable : Bool) (st : SymTab) (s : List Char) (row : Row) : Outcome Bool :=
  match parseModel st s with
  | .ok t => evalRow seekable t row
  | .err e => .err e
  | .panic p => .panic p

end StorageModel.C10
