import StorageModel.C10.TreeCursor
namespace StorageModel.C10

/-- elements still to come: the current node, its right subtree, then the remembered path -/
def stackRem : List LTree → List Bytes
  | [] => []
  | .nil :: rest => stackRem rest
  | .node _ e r :: rest => e :: r.inorder ++ stackRem rest

def TC.rem (c : TC) : List Bytes :=
  match c.current with
  | .nil => []
  | .node _ e r => e :: r.inorder ++ stackRem c.stack

/-- the path holds no nil pointer, and an invalid cursor has an empty path -/
def TC.good (c : TC) : Prop := (∀ n ∈ c.stack, n.isNil = false) ∧ (c.current.isNil = true → c.stack = [])

theorem tcNext_spec : ∀ (t : LTree) (stk : List LTree), t.isNil = false → (∀ n ∈ stk, n.isNil = false) →
    ∃ c, tcNext t stk = .ok c ∧ c.rem = t.inorder ++ stackRem stk ∧ c.good ∧ c.current.isNil = false := by
  intro t
  induction t with
  | nil => intro stk h; simp [LTree.isNil] at h
  | node l e r ihl _ =>
    intro stk _ hstk
    cases l with
    | nil =>
      refine ⟨⟨stk, .node .nil e r⟩, by simp [tcNext], by simp [TC.rem, LTree.inorder], ⟨hstk, ?_⟩, by simp [LTree.isNil]⟩
      intro h; simp [LTree.isNil] at h
    | node ll le lr =>
      have hstk' : ∀ n ∈ LTree.node (.node ll le lr) e r :: stk, n.isNil = false := by
        intro n hn
        rcases List.mem_cons.mp hn with rfl | hn
        · simp [LTree.isNil]
        · exact hstk n hn
      obtain ⟨c, hc, hrem, hgood, hcur⟩ := ihl (.node (.node ll le lr) e r :: stk) (by simp [LTree.isNil]) hstk'
      refine ⟨c, by simpa [tcNext] using hc, ?_, hgood, hcur⟩
      rw [hrem]
      simp [LTree.inorder, stackRem, List.append_assoc]

theorem tcNew_spec (t : LTree) : ∃ c, tcNew t = .ok c ∧ c.rem = t.inorder ∧ c.good := by
  cases t with
  | nil => exact ⟨⟨[], .nil⟩, by simp [tcNew, LTree.isNil], by simp [TC.rem, LTree.inorder], by simp [TC.good]⟩
  | node l e r =>
    obtain ⟨c, hc, hrem, hgood, _⟩ := tcNext_spec (.node l e r) [] (by simp [LTree.isNil]) (by simp)
    exact ⟨c, by simpa [tcNew, LTree.isNil] using hc, by simpa [stackRem] using hrem, hgood⟩

theorem tcStep_spec (c : TC) (hg : c.good) : ∃ c', tcStep c = .ok c' ∧ c'.rem = c.rem.tail ∧ c'.good := by
  obtain ⟨stk, cur⟩ := c
  cases cur with
  | nil =>
    refine ⟨⟨stk, .nil⟩, by simp [tcStep], by simp [TC.rem], hg⟩
  | node l e r =>
    cases r with
    | nil =>
      cases stk with
      | nil => exact ⟨⟨[], .nil⟩, by simp [tcStep, LTree.isNil], by simp [TC.rem, LTree.inorder, stackRem], by simp [TC.good]⟩
      | cons top rest =>
        have htop : top.isNil = false := hg.1 top (List.mem_cons_self ..)
        cases top with
        | nil => simp [LTree.isNil] at htop
        | node tl te tr =>
          refine ⟨⟨rest, .node tl te tr⟩, by simp [tcStep, LTree.isNil], by simp [TC.rem, LTree.inorder, stackRem], ?_, ?_⟩
          · intro n hn; exact hg.1 n (List.mem_cons_of_mem _ hn)
          · intro h; simp [LTree.isNil] at h
    | node rl re rr =>
      obtain ⟨c', hc', hrem, hgood, _⟩ := tcNext_spec (.node rl re rr) stk (by simp [LTree.isNil]) hg.1
      exact ⟨c', by simpa [tcStep, LTree.isNil] using hc', by simpa [TC.rem] using hrem, hgood⟩

theorem rem_nil_iff (c : TC) (hg : c.good) : tcValid c = false ↔ c.rem = [] := by
  obtain ⟨stk, cur⟩ := c
  cases cur with
  | nil => simp [tcValid, TC.rem, LTree.isNil]
  | node l e r => simp [tcValid, TC.rem, LTree.isNil]

theorem tcDrain_spec : ∀ (n : Nat) (c : TC), c.good → c.rem.length < n →
    ∃ c', tcDrain n c = .ok (c.rem, c') ∧ c'.good ∧ tcValid c' = false := by
  intro n
  induction n with
  | zero => intro c _ h; omega
  | succ n ih =>
    intro c hg hlen
    by_cases hv : tcValid c = true
    · obtain ⟨stk, cur⟩ := c
      cases cur with
      | nil => simp [tcValid, LTree.isNil] at hv
      | node l e r =>
        obtain ⟨c1, hstep, hrem1, hg1⟩ := tcStep_spec ⟨stk, .node l e r⟩ hg
        have hlen1 : c1.rem.length < n := by
          rw [hrem1]; simp [TC.rem] at hlen ⊢; omega
        obtain ⟨c2, hd, hg2, hv2⟩ := ih c1 hg1 hlen1
        refine ⟨c2, ?_, hg2, hv2⟩
        simp only [tcDrain, hv, if_true, tcCurrent, hstep, hd]
        rw [hrem1]; simp [TC.rem]
    · have hv' : tcValid c = false := by simpa using hv
      have hr := (rem_nil_iff c hg).mp hv'
      exact ⟨c, by simp [tcDrain, hv', hr], hg, hv'⟩

theorem tcExtra_spec : ∀ (n : Nat) (c : TC), c.good → tcValid c = false →
    tcExtra n c = .ok (List.replicate n false) := by
  intro n
  induction n with
  | zero => intro c _ _; rfl
  | succ n ih =>
    intro c hg hv
    obtain ⟨stk, cur⟩ := c
    cases cur with
    | node l e r => simp [tcValid, LTree.isNil] at hv
    | nil =>
      have : tcStep ⟨stk, .nil⟩ = .ok ⟨stk, .nil⟩ := by simp [tcStep]
      simp only [tcExtra, this, ih ⟨stk, .nil⟩ hg hv, hv, List.replicate_succ]

theorem inorder_length (t : LTree) : t.inorder.length = t.size := by
  induction t with
  | nil => rfl
  | node l e r ihl ihr => simp [LTree.inorder, LTree.size, ihl, ihr]; omega

end StorageModel.C10
