import StorageModel.C10.Transform
/-
  C10 — the untyped trees the listener builds from derivations of the grammar ("every operand
  mix the grammar admits"): any literal on the right of any operator, any array after `in`, any
  identifier or set function on the left — no typing whatsoever.
-/
namespace StorageModel.C10

def isSymU : U → Bool | .sym _ => true | _ => false
def isRhsU : U → Bool | .lit _ | .boolC _ | .nullC => true | _ => false
def isArrU : U → Bool | .strArr _ | .intArr _ | .fltArr _ | .dtArr _ => true | _ => false

/-- the field list of a `sort by`: identifiers only -/
def shSort : U → Bool
  | .sfNil => true
  | .sfCons (.sym _) _ rest => shSort rest
  | _ => false

/-- the sort part of an untyped query: absent or a field list -/
def sortOK : U → Bool
  | .noSort => true
  | .sortBy f => shSort f
  | _ => false

mutual
/-- boolExpr -/
def shBool : U → Bool
  | .binary _ l r => shLhs l && isRhsU r
  | .inArr l r => shLhs l && isArrU r
  | .between l lo hi => shLhs l && isRhsU lo && isRhsU hi
  | .notE e => shNotArg e
  | .logic _ _ l r => shBool l && shBool r
  | .boolC _ => true
  | .setFn f s => f == .isEmpty && shSetExpr s
  | .sym _ => true
  | .unot e => shBool e
  | _ => false
/-- what the listener wraps in a *NotExprNode: `not in`, `not between` -/
def shNotArg : U → Bool
  | .inArr l r => shLhs l && isArrU r
  | .between l lo hi => shLhs l && isRhsU lo && isRhsU hi
  | _ => false
/-- binaryLhs -/
def shLhs : U → Bool
  | .sym _ => true
  | .setFn f s => ((f == .allOf || f == .anyOf) && isSymU s) || (f == .count && shSetExpr s)
  | _ => false
/-- setExpr -/
def shSetExpr : U → Bool
  | .sym _ => true
  | .subQ s q => isSymU s && shQuery q
  | _ => false
/-- query (the predicate defaults to the constant true) -/
def shQuery : U → Bool
  | .query p s _ _ => shBool p && sortOK s
  | _ => false
end

end StorageModel.C10
