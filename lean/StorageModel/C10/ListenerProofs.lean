import StorageModel.C10.Listener
/-
  C10 — the listener cannot panic on any callback sequence an ANTLR walk can produce (`clean`).
-/
namespace StorageModel.C10

/-- the group's stack holds only literal constant nodes -/
def litsOnly (l : List SV) : Prop := ∀ v ∈ l, ∃ x, v = .node (.lit x)

theorem litsOnly_nil : litsOnly [] := by intro v hv; cases hv

theorem litsOnly_cons {x : Lit} {l : List SV} (h : litsOnly l) : litsOnly (.node (.lit x) :: l) := by
  intro v hv
  rcases List.mem_cons.mp hv with rfl | hv
  · exact ⟨x, rfl⟩
  · exact h v hv

theorem litsOnly_tail {v : SV} {l : List SV} (h : litsOnly (v :: l)) : litsOnly l :=
  fun w hw => h w (List.mem_cons_of_mem _ hw)

/-- inside an array context: the latch is set, or only literals were pushed -/
def arrInv (st : LState) : Prop := st.err = true ∨ litsOnly st.cur

theorem popArrayLoop_no_panic (want : Iface) (site : String) : ∀ (n : Nat) (st : LState) (acc : List Lit),
    st.err = false → litsOnly st.cur → (popArrayLoop want site n st acc).isPanic = false := by
  intro n
  induction n with
  | zero => intro st acc _ _; rfl
  | succ n ih =>
    intro st acc herr hl
    simp only [popArrayLoop]
    split
    · rfl
    · obtain ⟨stacks, cur, err⟩ := st
      simp only at herr; subst herr
      cases cur with
      | nil => simp at *
      | cons v rest =>
        obtain ⟨x, hx⟩ := hl v (List.mem_cons_self ..)
        subst hx
        simp only [popNode, Bool.false_eq_true, if_false]
        split
        · simp only [litOf]
          exact ih _ _ rfl (litsOnly_tail hl)
        · rfl

theorem popNumberLoop_no_panic : ∀ (n : Nat) (st : LState) (acc : List Lit),
    st.err = false → litsOnly st.cur → (popNumberLoop n st acc).isPanic = false := by
  intro n
  induction n with
  | zero => intro st acc _ _; rfl
  | succ n ih =>
    intro st acc herr hl
    simp only [popNumberLoop]
    split
    · rfl
    · obtain ⟨stacks, cur, err⟩ := st
      simp only at herr; subst herr
      cases cur with
      | nil => simp at *
      | cons v rest =>
        obtain ⟨x, hx⟩ := hl v (List.mem_cons_self ..)
        subst hx
        simp only [popNode, Bool.false_eq_true, if_false]
        split
        · simp only [litOf]
          exact ih _ _ rfl (litsOnly_tail hl)
        · rfl

/-- the three array exits do not panic when the group's stack holds only literals -/
theorem exitArray_no_panic (st : LState) (h : arrInv st) :
    (exitStringArray st).isPanic = false ∧ (exitNumberArray st).isPanic = false ∧ (exitDatetimeArray st).isPanic = false := by
  by_cases herr : st.err = true
  · simp [exitStringArray, exitNumberArray, exitDatetimeArray, herr, Outcome.isPanic]
  · have herr' : st.err = false := by simpa using herr
    have hl : litsOnly st.cur := h.resolve_left herr
    refine ⟨?_, ?_, ?_⟩
    · simp only [exitStringArray, herr', Bool.false_eq_true, if_false]
      have hp := popArrayLoop_no_panic .StringNode "ExitStringArray: node.GetType() on nil" (st.cur.length + 1) st [] herr' hl
      revert hp
      generalize popArrayLoop _ _ _ _ _ = x
      intro hp
      cases x with
      | ok v => obtain ⟨o, s⟩ := v; cases o <;> rfl
      | err e => rfl
      | panic p => simp [Outcome.isPanic] at hp
    · simp only [exitNumberArray, herr', Bool.false_eq_true, if_false]
      have hp := popNumberLoop_no_panic (st.cur.length + 1) st [] herr' hl
      revert hp
      generalize popNumberLoop _ _ _ = x
      intro hp
      cases x with
      | ok v =>
        obtain ⟨o, s⟩ := v
        cases o with
        | none => rfl
        | some vals => dsimp only; split <;> rfl
      | err e => rfl
      | panic p => simp [Outcome.isPanic] at hp
    · simp only [exitDatetimeArray, herr', Bool.false_eq_true, if_false]
      have hp := popArrayLoop_no_panic .DatetimeNode "ExitDatetimeArray: node.GetType() on nil" (st.cur.length + 1) st [] herr' hl
      revert hp
      generalize popArrayLoop _ _ _ _ _ = x
      intro hp
      cases x with
      | ok v => obtain ⟨o, s⟩ := v; cases o <;> rfl
      | err e => rfl
      | panic p => simp [Outcome.isPanic] at hp

/-- every other callback returns a state -/
theorem step_ok_of_not_arrayExit (st : LState) (e : Ev) (h : e ≠ .xSA ∧ e ≠ .xNA ∧ e ≠ .xDA) :
    ∃ st', step st e = .ok st' := by
  cases e <;> simp [step] at h ⊢

/-- an element terminal keeps the array invariant -/
theorem visitTerminal_arrInv (st : LState) (k : TK) (text : List Char) (hk : arrayTerminal k = true)
    (h : arrInv st) : arrInv (visitTerminal st k text) := by
  by_cases herr : st.err = true
  · simp [visitTerminal, herr, arrInv]
  · have herr' : st.err = false := by simpa using herr
    have hl : litsOnly st.cur := h.resolve_left herr
    simp only [arrayTerminal, Bool.or_eq_true, beq_iff_eq] at hk
    rcases hk with (rfl | rfl) | rfl
    · right; simp [visitTerminal, herr', push]; exact litsOnly_cons hl
    · simp only [visitTerminal, herr', Bool.false_eq_true, if_false]
      split
      · right; simp [push, herr']; exact litsOnly_cons hl
      · right; simp [push, herr']; exact litsOnly_cons hl
      · left; simp [setErr]
    · simp only [visitTerminal, herr', Bool.false_eq_true, if_false]
      split
      · right; simp [push, herr']; exact litsOnly_cons hl
      · left; simp [setErr]

theorem run_no_panic_aux : ∀ (evs : List Ev) (b : Bool) (st : LState), clean b evs = true →
    (b = true → arrInv st) → (run st evs).isPanic = false := by
  intro evs
  induction evs with
  | nil => intro b st _ _; rfl
  | cons e es ih =>
    intro b st hc hinv
    cases b with
    | false =>
      by_cases hx : e ≠ .xSA ∧ e ≠ .xNA ∧ e ≠ .xDA
      · obtain ⟨st', hst⟩ := step_ok_of_not_arrayExit st e hx
        simp only [run, hst]
        by_cases he : e = .eSA ∨ e = .eNA ∨ e = .eDA
        · have hc' : clean true es = true := by rcases he with rfl | rfl | rfl <;> simpa [clean] using hc
          have hst' : st' = enterGroup st := by
            rcases he with rfl | rfl | rfl <;> (simp [step] at hst; exact hst.symm)
          apply ih true st' hc'
          intro _; right; rw [hst']; simp [enterGroup]; exact litsOnly_nil
        · have hc' : clean false es = true := by
            cases e <;> simp_all [clean]
          exact ih false st' hc' (by intro h; cases h)
      · exfalso
        have : e = .xSA ∨ e = .xNA ∨ e = .xDA := by
          by_cases h1 : e = .xSA; · exact Or.inl h1
          by_cases h2 : e = .xNA; · exact Or.inr (Or.inl h2)
          by_cases h3 : e = .xDA; · exact Or.inr (Or.inr h3)
          exact absurd ⟨h1, h2, h3⟩ hx
        rcases this with rfl | rfl | rfl <;> simp [clean] at hc
    | true =>
      have hinv' := hinv rfl
      cases e with
      | term k text =>
        simp only [clean, Bool.and_eq_true] at hc
        simp only [run, step]
        exact ih true _ hc.2 (fun _ => visitTerminal_arrInv st k text hc.1 hinv')
      | xSA =>
        have hp := (exitArray_no_panic st hinv').1
        simp only [clean] at hc
        simp only [run, step]
        cases hs : exitStringArray st with
        | ok st' => exact ih false st' hc (by intro h; cases h)
        | err x => rfl
        | panic s => simp [hs, Outcome.isPanic] at hp
      | xNA =>
        have hp := (exitArray_no_panic st hinv').2.1
        simp only [clean] at hc
        simp only [run, step]
        cases hs : exitNumberArray st with
        | ok st' => exact ih false st' hc (by intro h; cases h)
        | err x => rfl
        | panic s => simp [hs, Outcome.isPanic] at hp
      | xDA =>
        have hp := (exitArray_no_panic st hinv').2.2
        simp only [clean] at hc
        simp only [run, step]
        cases hs : exitDatetimeArray st with
        | ok st' => exact ih false st' hc (by intro h; cases h)
        | err x => rfl
        | panic s => simp [hs, Outcome.isPanic] at hp
      | _ => simp [clean] at hc

theorem listen_isPanic (evs : List Ev) (h : (run .init evs).isPanic = false) : (listen evs).isPanic = false := by
  simp only [listen]
  cases hr : run .init evs with
  | ok st =>
    simp only [getQueryU]
    split
    · rfl
    · split <;> rfl
  | err e => rfl
  | panic s => simp [hr, Outcome.isPanic] at h

end StorageModel.C10
