import StorageModel.C10.Eval
/-
  C10 — the partial operations on the sort / paging path of a store query
  (boltz/store_query.go NewScanner, newRowComparator; boltz/query_scanners.go setPaging;
  boltz/query_sort.go the five symbol comparators; boltz/typed_bucket.go FieldTo* / BytesTo*),
  with every pointer dereference, constant index and slice of those functions as an explicit
  `panic` branch — the sites `Generated.C10.partialSites` lists for these files.  Values are reduced
  to what decides nil-ness: the stored type tag and the payload length.
-/
namespace StorageModel.C10

/-- type tags of boltz/typed_bucket.go (`other`: any other first byte) -/
inductive FieldTag where
  | bool | int32 | int64 | float64 | string | time | nil | other
deriving DecidableEq, Repr

/-- a stored value as `EntitySymbol.Eval` returns it: tag, payload length, and (for times) whether
    `time.UnmarshalBinary` accepts the payload -/
structure Stored where
  tag : FieldTag
  len : Nat
  timeOk : Bool := true
deriving DecidableEq, Repr

/-- what the `Set*` methods of TypedBucket write (and `SetNil`, absent fields = tag nil) -/
def Stored.wellFormed (v : Stored) : Bool :=
  match v.tag with
  | .bool => v.len == 1
  | .int32 => v.len == 4
  | .int64 => v.len == 8
  | .float64 => v.len == 8
  | _ => true

/-- `BytesToBool`: `len(value) == 0 → nil`, else `value[0]` -/
def bytesToBool (len : Nat) : Outcome (Option Unit) :=
  if len == 0 then .ok none
  else if 0 < len then .ok (some ()) else .panic "BytesToBool: value[0]"

def bytesToInt64 (len : Nat) : Option Unit := if len != 8 then none else some ()
def bytesToInt32 (len : Nat) : Option Unit := if len != 4 then none else some ()
def bytesToFloat64 (len : Nat) : Option Unit := if len != 8 then none else some ()

def fieldToBool (v : Stored) : Outcome (Option Unit) :=
  if v.tag == .bool then bytesToBool v.len else .ok none

/-- `FieldToInt64`: the int32 branch dereferences after its nil test -/
def fieldToInt64 (v : Stored) : Outcome (Option Unit) :=
  match v.tag with
  | .int32 =>
    let p := bytesToInt32 v.len
    if p.isNone then .ok none else do
      let _ ← deref "FieldToInt64: *int32val" p
      .ok (some ())
  | .int64 => .ok (bytesToInt64 v.len)
  | _ => .ok none

def fieldToFloat64 (v : Stored) : Outcome (Option Unit) :=
  match v.tag with
  | .int32 | .int64 => do
    let p ← fieldToInt64 v
    if p.isNone then .ok none else do
      let _ ← deref "FieldToFloat64: *int64Result" p
      .ok (some ())
  | .float64 => .ok (bytesToFloat64 v.len)
  | _ => .ok none

def fieldToDatetime (v : Stored) : Outcome (Option Unit) :=
  if v.tag == .time then .ok (if v.timeOk then some () else none) else .ok none

/-- `FieldToString`: the bool / int / float branches dereference WITHOUT a nil test -/
def fieldToString (v : Stored) : Outcome (Option Unit) :=
  match v.tag with
  | .string => .ok (some ())
  | .bool => do
    let p ← fieldToBool v
    let _ ← deref "FieldToString: *boolVal" p
    .ok (some ())
  | .int32 | .int64 => do
    let p ← fieldToInt64 v
    let _ ← deref "FieldToString: *intVal" p
    .ok (some ())
  | .float64 => do
    let p ← fieldToFloat64 v
    let _ ← deref "FieldToString: *floatVal" p
    .ok (some ())
  | .time => do
    let p ← fieldToDatetime v
    .ok p
  | .nil => .ok none
  | .other => .ok none

/-- the shared body of the five `…SymbolComparator.Compare` methods: `lt` / `gt` stand for the two
    value comparisons, evaluated on dereferenced operands -/
def compareNillable (s1 s2 : Option Unit) (lt gt forward : Bool) : Outcome Int := do
  let result : Int ←
    if s1.isNone then
      (if s2.isSome then .ok (-1) else .ok 0)
    else if s2.isNone then .ok 1
    else do
      let _ ← deref "Compare: *s1" s1
      let _ ← deref "Compare: *s2" s2
      if lt then .ok (-1) else do
        let _ ← deref "Compare: *s1" s1
        let _ ← deref "Compare: *s2" s2
        if gt then .ok 1 else .ok 0
  if forward then .ok result else .ok (-result)

/-- the comparator `newRowComparator` picks for a symbol type -/
inductive CmpKind where
  | bool | datetime | float64 | int64 | string
deriving DecidableEq, Repr

def CmpKind.convert : CmpKind → Stored → Outcome (Option Unit)
  | .bool => fieldToBool
  | .datetime => fieldToDatetime
  | .float64 => fieldToFloat64
  | .int64 => fieldToInt64
  | .string => fieldToString

def symbolCompare (k : CmpKind) (forward : Bool) (v1 v2 : Stored) (lt gt : Bool) : Outcome Int := do
  let s1 ← k.convert v1
  let s2 ← k.convert v2
  compareNillable s1 s2 lt gt forward

/-- `rowComparatorImpl.Compare`: the first comparator that does not answer 0; `vals` are the two
    evaluated values per sort field, `ords` the outcomes of the value comparisons -/
def rowCompare : List (CmpKind × Bool × Stored × Stored × Bool × Bool) → Outcome Int
  | [] => .ok 0
  | (k, fwd, v1, v2, lt, gt) :: rest => do
    let r ← symbolCompare k fwd v1 v2 lt gt
    if r != 0 then .ok r else rowCompare rest

/-- what `store.symbols.Get(name)` finds for a sort field -/
inductive SortSym where
  | missing                       -- nil: unknown name, map element, linked symbol
  | set                           -- IsSet()
  | typed (t : NodeType)
deriving Repr

/-- `newRowComparator` (after appending `id`): error, or the comparator kinds -/
def newRowComparator : List (SortSym × Bool) → Outcome (List (CmpKind × Bool))
  | [] => .ok []
  | (sym, fwd) :: rest =>
    match sym with
    | .missing => .err "no such sort field"
    | .set => .err "invalid sort field"
    | .typed t =>
      let k : Option CmpKind := match t with
        | .bool => some .bool | .datetime => some .datetime | .float64 => some .float64
        | .int64 => some .int64 | .string => some .string | _ => none
      match k with
      | none => .err "unsupported sort field type"
      | some k => do
        let more ← newRowComparator rest
        .ok ((k, fwd) :: more)

inductive ScannerKind where
  | uniqueForward | uniqueReverse | sorting
deriving DecidableEq, Repr

/-- `sort[:SortMax]` -/
def sliceTo {α} (site : String) (l : List α) (n : Nat) : Outcome (List α) :=
  if n ≤ l.length then .ok (l.take n) else .panic site

def indexAt {α} (site : String) (l : List α) (i : Nat) : Outcome α :=
  match l[i]? with
  | some a => .ok a
  | none => .panic site

/-- `BaseStore.NewScanner` on the (symbol-is-`id`, ascending) view of the sort fields -/
def newScanner (sort : List (Bool × Bool)) : Outcome ScannerKind := do
  let sort ← if sort.length > 5 then sliceTo "NewScanner: sort[:SortMax]" sort 5 else .ok sort
  let first ← if sort.length == 0 then .ok true else do
    let f ← indexAt "NewScanner: sort[0]" sort 0
    .ok f.1
  if sort.length == 0 || first then do
    let asc ← if sort.length < 1 then .ok true else do
      let f ← indexAt "NewScanner: sort[0]" sort 0
      .ok f.2
    if asc then .ok .uniqueForward else .ok .uniqueReverse
  else .ok .sorting

/-- `scanner.setPaging`: (targetOffset, targetLimit) from the query's optional skip / limit -/
def setPaging (skip limit : Option Int) : Outcome (Int × Int) := do
  let skip := if skip.isNone then some 0 else skip               -- query.SetSkip(0)
  let off ← deref "setPaging: *query.GetSkip()" skip
  let off := if off < 0 then 0 else off
  let limNil := limit.isNone
  let neg ← if limNil then .ok true else do
    let l ← deref "setPaging: *query.GetLimit()" limit
    .ok (decide (l < 0))
  let limit := if neg then some (9223372036854775807 : Int) else limit   -- query.SetLimit(math.MaxInt64)
  let lim ← deref "setPaging: *query.GetLimit()" limit
  .ok (off, lim)

end StorageModel.C10
