import StorageModel.C10.Shapes
import StorageModel.C10.EvalProofs
import StorageModel.C10.ClassFacts
/-
  C10 — the type transformation never panics on a grammar-shaped tree, for any symbol table, and
  what it returns is well typed (so that evaluation cannot panic either).
-/
namespace StorageModel.C10

def isSymT : T → Bool | .symT _ _ => true | _ => false
def isQueryT : T → Bool | .query .. => true | _ => false

/-- leaves of typed expressions: symbols, count(...), literals -/
def leafT : T → Bool
  | .symT _ _ => true
  | .countSet s => isSymT s
  | .countSetQ s q => isSymT s && okBool q
  | .lit _ | .boolC _ | .nullC => true
  | _ => false

def rhsT : T → Bool | .lit _ | .boolC _ | .nullC => true | _ => false
def arrT : T → Bool | .strArr _ | .intArr _ | .fltArr _ | .dtArr _ => true | _ => false

/-- what `transformTypes` makes of a binaryLhs -/
def operandT : T → Bool
  | .symT _ _ => true
  | .countSet s => isSymT s
  | .countSetQ s q => isSymT s && okBool q
  | .setFnT f s => isCompare f && isSymT s
  | _ => false

/-- what `transformTypes` makes of a setExpr -/
def setExprT : T → Bool
  | .symT _ _ => true
  | .subQueryT s q => isSymT s && okBool q && isQueryT q
  | _ => false

/-- a leaf that implements an interface can be asked for the corresponding Eval method -/
theorem leaf_ok (t : T) (h : leafT t = true) :
    (impl t.cls .BoolNode = true → okBool t = true) ∧ (impl t.cls .StringNode = true → okStr t = true) ∧
    (impl t.cls .Int64Node = true → okInt t = true) ∧ (impl t.cls .Float64Node = true → okFlt t = true) ∧
    (impl t.cls .DatetimeNode = true → okDt t = true) := by
  cases t <;> simp [leafT] at h
  case boolC b => simp [T.cls, okBool]
  case nullC => simp [T.cls]
  case lit l => cases l <;> simp [T.cls, Lit.cls, okStr, okInt, okFlt, okDt]
  case symT k n => cases k <;> simp [T.cls, SymK.cls, okBool, okStr, okInt, okFlt, okDt]
  case countSet s => simp [T.cls, okStr, okInt]
  case countSetQ s q => simp [T.cls, okStr, okInt, h.2]

/-- `GetType() == X` implies the X interface, for every leaf -/
theorem leaf_getType (t : T) (h : leafT t = true) :
    (t.getType = .bool → impl t.cls .BoolNode = true) ∧ (t.getType = .datetime → impl t.cls .DatetimeNode = true) ∧
    (t.getType = .float64 → impl t.cls .Float64Node = true) ∧ (t.getType = .int64 → impl t.cls .Int64Node = true) ∧
    (t.getType = .anyType → impl t.cls .BoolNode = true ∧ impl t.cls .DatetimeNode = true ∧
        impl t.cls .Float64Node = true ∧ impl t.cls .Int64Node = true) := by
  cases t <;> simp [leafT] at h
  case boolC b => simp [T.getType, T.cls]
  case nullC => simp [T.getType, T.cls]
  case lit l => cases l <;> simp [T.getType, T.cls, Lit.cls]
  case symT k n => cases k <;> simp [T.getType, T.cls, SymK.cls]
  case countSet s => simp [T.getType, T.cls]
  case countSetQ s q => simp [T.getType, T.cls]

theorem np_assertI (site : String) (t : T) (i : Iface) (h : impl t.cls i = true) : assertI site t i = .ok () := by
  simp [assertI, h]

theorem okFlt_toFloat64 (t : T) (hl : leafT t = true) (h : okInt t = true) : okFlt (toFloat64 t) = true := by
  cases t <;> simp [leafT] at hl <;> simp [okInt] at h
  case lit l => cases l <;> simp [okInt] at h; simp [toFloat64, okFlt]
  case symT k n => cases k <;> simp at h <;> simp [toFloat64, okFlt, okInt]
  case countSet s => simp [toFloat64, okFlt, okInt]
  case countSetQ s q => simp [toFloat64, okFlt, okInt, h]

/-- the outcome is not a panic, and a returned node can be evaluated as a bool -/
def GoodB (x : Outcome T) : Prop := NP x ∧ ∀ t, x = .ok t → okBool t = true

theorem goodB_err (e : String) : GoodB (.err e) := ⟨rfl, by intro t h; cases h⟩
theorem goodB_ok {t : T} (h : okBool t = true) : GoodB (.ok t) := ⟨rfl, by intro t' h'; cases h'; exact h⟩

theorem goodB_invalid : GoodB invalidOpTypes := goodB_err _

theorem okStr_toUpperNode (t : T) (h : okStr t = true) : okStr (toUpperNode t) = true := by
  unfold toUpperNode
  split
  · simp [okStr]
  · split
    · simp [okStr]
    · simpa [okStr] using h

theorem good_handleIsNullOps (op : BinOp) (l : T) : GoodB (handleIsNullOps op l) := by
  unfold handleIsNullOps
  split
  · exact goodB_ok (by simp [okBool])
  · exact goodB_invalid

theorem good_handleStringOps (op : BinOp) (l r : T) (hl : leafT l = true) (hr : leafT r = true) :
    GoodB (handleStringOps op l r) := by
  unfold handleStringOps
  split
  · next h1 =>
    split
    · next h2 =>
      have ol := (leaf_ok l hl).2.1 h1
      have or := (leaf_ok r hr).2.1 h2
      split
      · exact goodB_ok (by simp [okBool, okStr_toUpperNode, ol, or])
      · exact goodB_ok (by simp [okBool, ol, or])
    · exact goodB_invalid
  · exact goodB_invalid

theorem good_handleBoolOps (op : BinOp) (l r : T) (hl : leafT l = true) (hr : leafT r = true)
    (hlb : impl l.cls .BoolNode = true) : GoodB (handleBoolOps op l r) := by
  unfold handleBoolOps
  split
  · next h =>
    simp only [Bool.and_eq_true, beq_iff_eq] at h
    have hrb := (leaf_getType r hr).1 h.1
    simp only [np_assertI _ l _ hlb, np_assertI _ r _ hrb, Outcome.bind_ok]
    exact goodB_ok (by simp [okBool, (leaf_ok l hl).1 hlb, (leaf_ok r hr).1 hrb])
  · exact goodB_invalid

theorem good_handleInt64Ops (op : BinOp) (l r : T) (hl : leafT l = true) (hr : leafT r = true)
    (hli : impl l.cls .Int64Node = true) : GoodB (handleInt64Ops op l r) := by
  unfold handleInt64Ops
  simp only [np_assertI _ l _ hli, Outcome.bind_ok]
  have oli := (leaf_ok l hl).2.2.1 hli
  split
  · next h =>
    have hri := (leaf_getType r hr).2.2.2.1 (by simpa using h)
    simp only [np_assertI _ r _ hri, Outcome.bind_ok]
    exact goodB_ok (by simp [okBool, oli, (leaf_ok r hr).2.2.1 hri])
  · split
    · next h =>
      have hrf := (leaf_getType r hr).2.2.1 (by simpa using h)
      simp only [np_assertI _ r _ hrf, Outcome.bind_ok]
      exact goodB_ok (by simp [okBool, okFlt_toFloat64 l hl oli, (leaf_ok r hr).2.2.2.1 hrf])
    · exact goodB_invalid

theorem good_handleFloat64Ops (op : BinOp) (l r : T) (hl : leafT l = true) (hr : leafT r = true)
    (hlf : impl l.cls .Float64Node = true) : GoodB (handleFloat64Ops op l r) := by
  unfold handleFloat64Ops
  simp only [np_assertI _ l _ hlf, Outcome.bind_ok]
  have olf := (leaf_ok l hl).2.2.2.1 hlf
  split
  · next h =>
    have hrf := (leaf_getType r hr).2.2.1 (by simpa using h)
    simp only [np_assertI _ r _ hrf, Outcome.bind_ok]
    exact goodB_ok (by simp [okBool, olf, (leaf_ok r hr).2.2.2.1 hrf])
  · split
    · next h =>
      have hri := (leaf_getType r hr).2.2.2.1 (by simpa using h)
      simp only [np_assertI _ r _ hri, Outcome.bind_ok]
      exact goodB_ok (by simp [okBool, olf, okFlt_toFloat64 r hr ((leaf_ok r hr).2.2.1 hri)])
    · exact goodB_invalid

theorem good_handleDatetimeOps (op : BinOp) (l r : T) (hl : leafT l = true) (hr : leafT r = true)
    (hld : impl l.cls .DatetimeNode = true) : GoodB (handleDatetimeOps op l r) := by
  unfold handleDatetimeOps
  simp only [np_assertI _ l _ hld, Outcome.bind_ok]
  split
  · next h =>
    have hrd := (leaf_getType r hr).2.1 (by simpa using h)
    simp only [np_assertI _ r _ hrd, Outcome.bind_ok]
    exact goodB_ok (by simp [okBool, (leaf_ok l hl).2.2.2.2 hld, (leaf_ok r hr).2.2.2.2 hrd])
  · exact goodB_invalid

/-- `BinaryExprNode.getTypedExpr` on leaves: never a panic, always a well-typed comparison -/
theorem good_binaryTypedExpr (op : BinOp) (l r : T) (hl : leafT l = true) (hr : leafT r = true) :
    GoodB (binaryTypedExpr op l r) := by
  unfold binaryTypedExpr
  split
  · exact good_handleIsNullOps op l
  · split
    · exact good_handleStringOps op l r hl hr
    · have gl := leaf_getType l hl
      have gr := leaf_getType r hr
      by_cases hany : l.getType = .anyType
      · simp only [hany, beq_self_eq_true, if_true]
        have ha := gl.2.2.2.2 hany
        split
        · exact good_handleBoolOps op l r hl hr ha.1
        · exact good_handleDatetimeOps op l r hl hr ha.2.1
        · exact good_handleFloat64Ops op l r hl hr ha.2.2.1
        · exact good_handleInt64Ops op l r hl hr ha.2.2.2
        · exact good_handleStringOps op l r hl hr
        · exact goodB_invalid
      · have hne : (l.getType == NodeType.anyType) = false := by simpa using hany
        simp only [hne, Bool.false_eq_true, if_false]
        split
        · next h => exact good_handleBoolOps op l r hl hr (gl.1 h)
        · next h => exact good_handleDatetimeOps op l r hl hr (gl.2.1 h)
        · next h => exact good_handleFloat64Ops op l r hl hr (gl.2.2.1 h)
        · next h => exact good_handleInt64Ops op l r hl hr (gl.2.2.2.1 h)
        · exact good_handleStringOps op l r hl hr
        · exact goodB_invalid

theorem good_inArrayTypedExpr (l r : T) (hl : leafT l = true) : GoodB (inArrayTypedExpr l r) := by
  have ok := leaf_ok l hl
  unfold inArrayTypedExpr
  split
  · next h => simp only [Bool.and_eq_true] at h; exact goodB_ok (by simp [okBool, ok.2.2.2.2 h.1])
  · split
    · next h => simp only [Bool.and_eq_true] at h; exact goodB_ok (by simp [okBool, ok.2.2.1 h.1])
    · split
      · next h =>
        simp only [Bool.and_eq_true] at h
        exact goodB_ok (by simp [okBool, okFlt_toFloat64 l hl (ok.2.2.1 h.1)])
      · split
        · next h => simp only [Bool.and_eq_true] at h; exact goodB_ok (by simp [okBool, ok.2.2.2.1 h.1])
        · split
          · next h => simp only [Bool.and_eq_true] at h; exact goodB_ok (by simp [okBool, ok.2.2.2.1 h.1])
          · split
            · next h => simp only [Bool.and_eq_true] at h; exact goodB_ok (by simp [okBool, ok.2.1 h.1])
            · exact goodB_err _

theorem okFlt_asFloat64Node (t a : T) (hl : leafT t = true) (h : asFloat64Node t = some a) : okFlt a = true := by
  unfold asFloat64Node at h
  split at h
  · next hi => cases h; exact okFlt_toFloat64 t hl ((leaf_ok t hl).2.2.1 hi)
  · split at h
    · next hf => cases h; exact (leaf_ok t hl).2.2.2.1 hf
    · cases h

theorem good_betweenTypedExpr (l lo hi : T) (hl : leafT l = true) (hlo : leafT lo = true) (hhi : leafT hi = true) :
    GoodB (betweenTypedExpr l lo hi) := by
  unfold betweenTypedExpr
  split
  · next h =>
    simp only [Bool.and_eq_true] at h
    exact goodB_ok (by simp [okBool, (leaf_ok l hl).2.2.2.2 h.1.1, (leaf_ok lo hlo).2.2.2.2 h.1.2, (leaf_ok hi hhi).2.2.2.2 h.2])
  · split
    · next h =>
      simp only [Bool.and_eq_true] at h
      exact goodB_ok (by simp [okBool, (leaf_ok l hl).2.2.1 h.1.1, (leaf_ok lo hlo).2.2.1 h.1.2, (leaf_ok hi hhi).2.2.1 h.2])
    · split
      · next a b c ha hb hc =>
        exact goodB_ok (by simp [okBool, okFlt_asFloat64Node l a hl ha, okFlt_asFloat64Node lo b hlo hb,
          okFlt_asFloat64Node hi c hhi hc])
      · exact goodB_err _

theorem okBool_anyOf (n : Name) (e : T) (h : okBool e = true) :
    okBool (.anyOf n e (impl e.cls .SeekOptimizableBoolNode && isSeekable e)) = true := by
  cases e <;> simp [isSeekable, okBool] at h ⊢ <;> try assumption
  case binStr op l r =>
    cases hs : (impl (T.binStr op l r).cls .SeekOptimizableBoolNode && (op == BinOp.eq && (l.isConst || r.isConst))) <;>
      simp [okBool, h]

theorem good_moveUpTree (f : SetFn) (sym e : T) (h : okBool e = true) : GoodB (moveUpTree f sym e) := by
  unfold moveUpTree
  split
  · exact goodB_ok (by simpa [okBool] using h)
  · exact goodB_ok (okBool_anyOf _ e h)
  · exact goodB_err _

theorem goodB_bind_moveUp (x : Outcome T) (f : SetFn) (sym : T) (hx : GoodB x) :
    GoodB (x >>= fun e => moveUpTree f sym e) := by
  cases x with
  | ok t => exact good_moveUpTree f sym t (hx.2 t rfl)
  | err e => exact goodB_err e
  | panic s => exact absurd hx.1 (by simp [NP, Outcome.isPanic])

/-! ### the transformation of grammar-shaped trees -/

theorem transformSymbol_spec (st : SymTab) (n : Name) :
    NP (transformSymbol st n) ∧ ∀ t, transformSymbol st n = .ok t → ∃ k, t = .symT k n := by
  unfold transformSymbol
  split
  · exact ⟨rfl, by intro t h; cases h⟩
  · split
    · next sk _ => exact ⟨rfl, by intro t h; cases h; exact ⟨sk, rfl⟩⟩
    · exact ⟨rfl, by intro t h; cases h⟩

theorem tt_sym (st : SymTab) (n : Name) : transformTypes st (.sym n) = transformSymbol st n := by
  have hs := transformSymbol_spec st n
  simp only [transformTypes, U.cls, impl_UntypedSymbolNode_TypeTransformable, if_true, typeTransform]
  cases h : transformSymbol st n with
  | ok t =>
    obtain ⟨k, rfl⟩ := hs.2 t h
    cases k <;> simp [T.cls, SymK.cls]
  | err e => rfl
  | panic p => rfl

theorem tt_rhs (st : SymTab) (r : U) (h : isRhsU r = true) :
    ∃ t, transformTypes st r = .ok t ∧ leafT t = true := by
  cases r <;> simp [isRhsU] at h
  case boolC b => exact ⟨.boolC b, by simp [transformTypes, U.cls, keep], rfl⟩
  case nullC => exact ⟨.nullC, by simp [transformTypes, U.cls, keep], rfl⟩
  case lit l => exact ⟨.lit l, by cases l <;> simp [transformTypes, U.cls, Lit.cls, keep], rfl⟩

theorem tt_arr (st : SymTab) (r : U) (h : isArrU r = true) : ∃ t, transformTypes st r = .ok t := by
  cases r <;> simp [isArrU] at h
  case strArr l => exact ⟨.strArr l, by simp [transformTypes, U.cls, keep]⟩
  case intArr l => exact ⟨.intArr l, by simp [transformTypes, U.cls, keep]⟩
  case fltArr l => exact ⟨.fltArr l, by simp [transformTypes, U.cls, keep]⟩
  case dtArr l => exact ⟨.dtArr l, by simp [transformTypes, U.cls, keep]⟩

theorem np_transformSort (st : SymTab) : ∀ (f : U), NP (transformSort st f) := by
  intro f
  induction f with
  | sfCons s asc rest _ ih =>
    cases s with
    | sym n =>
      simp only [transformSort]
      have hs := transformSymbol_spec st n
      cases h : transformSymbol st n with
      | ok t =>
        obtain ⟨k, rfl⟩ := hs.2 t h
        have : assertI "SortFieldNode.TypeTransform: symbolNode.(SymbolNode)" (.symT k n) .SymbolNode = .ok () := by
          apply np_assertI; cases k <;> simp [T.cls, SymK.cls]
        simp only [Outcome.bind_ok, this]
        apply np_bind ih
        intro more; rfl
      | err e => rfl
      | panic p => rw [h] at hs; exact absurd hs.1 (by simp [NP, Outcome.isPanic])
    | _ => rfl
  | _ => rfl

/-- an operand of a comparison after the set function (if any) has been replaced by its symbol -/
theorem operand_cases (tl : T) (h : operandT tl = true) :
    leafT tl = true ∨ ∃ f sym, tl = .setFnT f sym ∧ isCompare f = true ∧ leafT sym = true := by
  cases tl <;> simp [operandT] at h
  case symT k n => left; rfl
  case countSet s => left; simpa [leafT] using h
  case countSetQ s q => left; simpa [leafT] using h
  case setFnT f s =>
    right
    refine ⟨f, s, rfl, h.1, ?_⟩
    cases s <;> simp [isSymT] at h
    rfl

theorem goodB_weaken {x : Outcome T} (h : GoodB x) :
    NP x ∧ ∀ t, x = .ok t → impl t.cls .BoolNode = true → okBool t = true :=
  ⟨h.1, fun t ht _ => h.2 t ht⟩

/-- comparison / in / between with a transformed left operand -/
theorem good_withLhs (tl : T) (h : operandT tl = true) (g : T → Outcome T)
    (hg : ∀ l, leafT l = true → GoodB (g l)) :
    GoodB (match tl with
      | .setFnT f sym => if isCompare f = true then (g sym >>= fun e => moveUpTree f sym e) else g tl
      | _ => g tl) := by
  rcases operand_cases tl h with hl | ⟨f, sym, rfl, hf, hs⟩
  · cases tl <;> simp [leafT] at hl <;> exact hg _ (by simp [leafT, hl])
  · simp only [hf, if_true]
    exact goodB_bind_moveUp _ f sym (hg sym hs)

theorem ttb_of_tt (st : SymTab) (u : U) (h1 : impl u.cls .TypeTransformable = false)
    (h2 : impl u.cls .BoolTypeTransformable = true) : transformTypes st u = typeTransformBool st u := by
  unfold transformTypes; simp [h1, h2]

def TRes (x : Outcome T) (P : T → Prop) : Prop := NP x ∧ ∀ t, x = .ok t → P t

theorem tres_err {P : T → Prop} (e : String) : TRes (.err e) P := ⟨rfl, by intro t h; cases h⟩
theorem tres_ok {P : T → Prop} {t : T} (h : P t) : TRes (.ok t) P := ⟨rfl, by intro t' h'; cases h'; exact h⟩

theorem tres_bind {P Q : T → Prop} {x : Outcome T} {f : T → Outcome T} (hx : TRes x P)
    (hf : ∀ a, P a → TRes (f a) Q) : TRes (x >>= f) Q := by
  cases x with
  | ok a => exact hf a (hx.2 a rfl)
  | err e => exact tres_err e
  | panic s => exact absurd hx.1 (by simp [NP, Outcome.isPanic])

theorem tres_of_goodB {x : Outcome T} (h : GoodB x) : TRes x (fun t => okBool t = true) := h
theorem goodB_of_tres {x : Outcome T} (h : TRes x (fun t => okBool t = true)) : GoodB x := h

theorem tres_mono {P Q : T → Prop} {x : Outcome T} (h : TRes x P) (hpq : ∀ t, P t → Q t) : TRes x Q :=
  ⟨h.1, fun t ht => hpq t (h.2 t ht)⟩

/-- the five positions of the grammar at once (they are mutually recursive) -/
theorem transform_good (u : U) :
    (shLhs u = true → ∀ st, TRes (transformTypes st u) (fun t => operandT t = true)) ∧
    (shSetExpr u = true → ∀ st, TRes (transformTypes st u) (fun t => setExprT t = true)) ∧
    (shBool u = true → ∀ st, TRes (transformTypes st u) (fun t => impl t.cls .BoolNode = true → okBool t = true)) ∧
    (shNotArg u = true → ∀ st, TRes (typeTransformBool st u) (fun t => okBool t = true)) ∧
    (shQuery u = true → ∀ st, TRes (typeTransformBool st u) (fun t => okBool t = true ∧ isQueryT t = true)) := by
  induction u with
  | sym n =>
    refine ⟨?_, ?_, ?_, ?_, ?_⟩ <;> intro h st
    · rw [tt_sym]; have hs := transformSymbol_spec st n
      exact ⟨hs.1, fun t ht => by obtain ⟨k, rfl⟩ := hs.2 t ht; rfl⟩
    · rw [tt_sym]; have hs := transformSymbol_spec st n
      exact ⟨hs.1, fun t ht => by obtain ⟨k, rfl⟩ := hs.2 t ht; rfl⟩
    · rw [tt_sym]; have hs := transformSymbol_spec st n
      exact ⟨hs.1, fun t ht => by obtain ⟨k, rfl⟩ := hs.2 t ht; cases k <;> simp [T.cls, SymK.cls, okBool]⟩
    · simp [shNotArg] at h
    · simp [shQuery] at h
  | boolC b =>
    refine ⟨?_, ?_, ?_, ?_, ?_⟩ <;> intro h st
    · simp [shLhs] at h
    · simp [shSetExpr] at h
    · have : transformTypes st (.boolC b) = .ok (.boolC b) := by simp [transformTypes, U.cls, keep]
      rw [this]; exact tres_ok (by intro _; rfl)
    · simp [shNotArg] at h
    · simp [shQuery] at h
  | logic op g l r ihl ihr =>
    refine ⟨?_, ?_, ?_, ?_, ?_⟩ <;> intro h st
    · simp [shLhs] at h
    · simp [shSetExpr] at h
    · simp only [shBool, Bool.and_eq_true] at h
      rw [ttb_of_tt st _ (by simp [U.cls]) (by simp [U.cls])]
      simp only [typeTransformBool]
      apply tres_bind (ihl.2.2.1 h.1 st); intro tl hl
      apply tres_bind (ihr.2.2.1 h.2 st); intro tr hr
      by_cases hbl : impl tl.cls .BoolNode = true
      · by_cases hbr : impl tr.cls .BoolNode = true
        · simp only [hbl, hbr, Bool.not_true, Bool.false_eq_true, if_false]
          cases op
          · exact tres_ok (by intro _; simp [okBool, hl hbl, hr hbr])
          · exact tres_ok (by intro _; simp [okBool, hl hbl, hr hbr])
        · simp only [hbl, hbr, Bool.not_true, Bool.false_eq_true, if_false, Bool.not_false, if_true]
          exact tres_err _
      · simp only [hbl, Bool.not_false, if_true]; exact tres_err _
    · simp [shNotArg] at h
    · simp [shQuery] at h
  | binary op l r ihl _ =>
    refine ⟨?_, ?_, ?_, ?_, ?_⟩ <;> intro h st
    · simp [shLhs] at h
    · simp [shSetExpr] at h
    · simp only [shBool, Bool.and_eq_true] at h
      rw [ttb_of_tt st _ (by simp [U.cls]) (by simp [U.cls])]
      simp only [typeTransformBool]
      apply tres_bind (ihl.1 h.1 st); intro tl hl
      obtain ⟨tr, htr, hlr⟩ := tt_rhs st r h.2
      rw [htr]; simp only [Outcome.bind_ok]
      refine tres_mono (P := fun t => okBool t = true) ?_ (fun t ht _ => ht)
      rcases operand_cases tl hl with hleaf | ⟨f, sym, rfl, hf, hs⟩
      · cases tl <;> simp [leafT] at hleaf <;> exact good_binaryTypedExpr op _ tr (by simp [leafT, hleaf]) hlr
      · simp only [hf, if_true]
        exact goodB_bind_moveUp _ f sym (good_binaryTypedExpr op sym tr hs hlr)
    · simp [shNotArg] at h
    · simp [shQuery] at h
  | inArr l r ihl _ =>
    have key : shLhs l = true → isArrU r = true → ∀ st, TRes (typeTransformBool st (.inArr l r)) (fun t => okBool t = true) := by
      intro h1 h2 st
      simp only [typeTransformBool]
      apply tres_bind (ihl.1 h1 st); intro tl hl
      obtain ⟨tr, htr⟩ := tt_arr st r h2
      rw [htr]; simp only [Outcome.bind_ok]
      rcases operand_cases tl hl with hleaf | ⟨f, sym, rfl, hf, hs⟩
      · cases tl <;> simp [leafT] at hleaf <;> exact good_inArrayTypedExpr _ tr (by simp [leafT, hleaf])
      · exact goodB_bind_moveUp _ f sym (good_inArrayTypedExpr sym tr hs)
    refine ⟨?_, ?_, ?_, ?_, ?_⟩ <;> intro h st
    · simp [shLhs] at h
    · simp [shSetExpr] at h
    · simp only [shBool, Bool.and_eq_true] at h
      rw [ttb_of_tt st _ (by simp [U.cls]) (by simp [U.cls])]
      exact tres_mono (key h.1 h.2 st) (fun t ht _ => ht)
    · simp only [shNotArg, Bool.and_eq_true] at h
      exact key h.1 h.2 st
    · simp [shQuery] at h
  | between l lo hi ihl _ _ =>
    have key : shLhs l = true → isRhsU lo = true → isRhsU hi = true → ∀ st,
        TRes (typeTransformBool st (.between l lo hi)) (fun t => okBool t = true) := by
      intro h1 h2 h3 st
      simp only [typeTransformBool]
      apply tres_bind (ihl.1 h1 st); intro tl hl
      obtain ⟨tlo, htlo, hllo⟩ := tt_rhs st lo h2
      obtain ⟨thi, hthi, hlhi⟩ := tt_rhs st hi h3
      rw [htlo, hthi]; simp only [Outcome.bind_ok]
      rcases operand_cases tl hl with hleaf | ⟨f, sym, rfl, hf, hs⟩
      · cases tl <;> simp [leafT] at hleaf <;> exact good_betweenTypedExpr _ tlo thi (by simp [leafT, hleaf]) hllo hlhi
      · exact goodB_bind_moveUp _ f sym (good_betweenTypedExpr sym tlo thi hs hllo hlhi)
    refine ⟨?_, ?_, ?_, ?_, ?_⟩ <;> intro h st
    · simp [shLhs] at h
    · simp [shSetExpr] at h
    · simp only [shBool, Bool.and_eq_true] at h
      rw [ttb_of_tt st _ (by simp [U.cls]) (by simp [U.cls])]
      exact tres_mono (key h.1.1 h.1.2 h.2 st) (fun t ht _ => ht)
    · simp only [shNotArg, Bool.and_eq_true] at h
      exact key h.1.1 h.1.2 h.2 st
    · simp [shQuery] at h
  | unot e ih =>
    refine ⟨?_, ?_, ?_, ?_, ?_⟩ <;> intro h st
    · simp [shLhs] at h
    · simp [shSetExpr] at h
    · simp only [shBool] at h
      rw [ttb_of_tt st _ (by simp [U.cls]) (by simp [U.cls])]
      simp only [typeTransformBool]
      apply tres_bind (ih.2.2.1 h st); intro te hte
      by_cases hb : impl te.cls .BoolNode = true
      · simp only [hb, Bool.not_true, Bool.false_eq_true, if_false]
        exact tres_ok (by intro _; simp [okBool, hte hb])
      · simp only [hb, Bool.not_false, if_true]; exact tres_err _
    · simp [shNotArg] at h
    · simp [shQuery] at h
  | notE e ih =>
    refine ⟨?_, ?_, ?_, ?_, ?_⟩ <;> intro h st
    · simp [shLhs] at h
    · simp [shSetExpr] at h
    · simp only [shBool] at h
      rw [ttb_of_tt st _ (by simp [U.cls]) (by simp [U.cls])]
      simp only [typeTransformBool]
      have hbt : impl e.cls .BoolTypeTransformable = true := by
        cases e <;> simp [shNotArg] at h <;> simp [U.cls]
      simp only [hbt, if_true]
      apply tres_bind (ih.2.2.2.1 h st); intro te hte
      exact tres_ok (by intro _; simpa [okBool] using hte)
    · simp [shNotArg] at h
    · simp [shQuery] at h
  | setFn f s ih =>
    have tts : ∀ st, transformTypes st (.setFn f s) = (typeTransform st (.setFn f s) >>= fun t =>
        if impl t.cls .BoolTypeTransformable = true then .err "unmodelled: TypeTransform result is BoolTypeTransformable" else .ok t) := by
      intro st; simp [transformTypes, U.cls]
    refine ⟨?_, ?_, ?_, ?_, ?_⟩ <;> intro h st
    · simp only [shLhs, Bool.or_eq_true, Bool.and_eq_true, beq_iff_eq] at h
      rw [tts]
      simp only [typeTransform]
      rcases h with ⟨hf, hs⟩ | ⟨rfl, hs⟩
      · -- allOf / anyOf over an identifier
        cases s <;> simp [isSymU] at hs
        case sym n =>
          rw [tt_sym]
          have hsym := transformSymbol_spec st n
          cases hx : transformSymbol st n with
          | ok t =>
            obtain ⟨k, rfl⟩ := hsym.2 t hx
            have hsn : impl (T.symT k n).cls .SymbolNode = true := by cases k <;> simp [T.cls, SymK.cls]
            rcases hf with rfl | rfl
            · simp only [Outcome.bind_ok, hsn, isCompare, Bool.not_true, Bool.false_eq_true, if_false]
              simp only [T.cls, impl_SetFunctionNode_BoolTypeTransformable, Bool.false_eq_true, if_false]
              exact tres_ok (by simp [operandT, isCompare, isSymT])
            · simp only [Outcome.bind_ok, hsn, isCompare, Bool.not_true, Bool.false_eq_true, if_false]
              simp only [T.cls, impl_SetFunctionNode_BoolTypeTransformable, Bool.false_eq_true, if_false]
              exact tres_ok (by simp [operandT, isCompare, isSymT])
          | err e => exact tres_err e
          | panic p => rw [hx] at hsym; exact absurd hsym.1 (by simp [NP, Outcome.isPanic])
      · -- count(setExpr)
        apply tres_bind (P := fun t => operandT t = true) _ (fun a ha => by
          have : impl a.cls .BoolTypeTransformable = false := by
            cases a <;> simp [operandT] at ha <;> simp [T.cls]
            case symT k n => cases k <;> simp [SymK.cls]
          simp [this]; exact tres_ok ha)
        apply tres_bind (ih.2.1 hs st); intro ts hts
        cases ts <;> simp [setExprT] at hts
        case symT k n =>
          have hsn : impl (T.symT k n).cls .SymbolNode = true := by cases k <;> simp [T.cls, SymK.cls]
          simp [hsn, isCompare]; exact tres_ok (by simp [operandT, isSymT])
        case subQueryT sym q =>
          simp [T.cls, isCompare]
          exact tres_ok (by simp [operandT, hts.1.1, hts.1.2])
    · simp [shSetExpr] at h
    · simp only [shBool, Bool.and_eq_true, beq_iff_eq] at h
      obtain ⟨rfl, hs⟩ := h
      rw [tts]
      simp only [typeTransform]
      apply tres_bind (P := fun t => okBool t = true ∧ t.cls = .IsEmptySetExprNode) _ (fun a ha => by
        simp [ha.2]; exact tres_ok (fun _ => ha.1))
      apply tres_bind (ih.2.1 hs st); intro ts hts
      cases ts <;> simp [setExprT] at hts
      case symT k n =>
        have hsn : impl (T.symT k n).cls .SymbolNode = true := by cases k <;> simp [T.cls, SymK.cls]
        simp [hsn, isCompare]; exact tres_ok (by simp [okBool, T.cls])
      case subQueryT sym q =>
        simp [T.cls, isCompare]
        exact tres_ok (by simp [okBool, T.cls, hts.1.2])
    · simp [shNotArg] at h
    · simp [shQuery] at h
  | subQ s q ihs ihq =>
    refine ⟨?_, ?_, ?_, ?_, ?_⟩ <;> intro h st
    · simp [shLhs] at h
    · simp only [shSetExpr, Bool.and_eq_true] at h
      have tts : transformTypes st (.subQ s q) = (typeTransform st (.subQ s q) >>= fun t =>
          if impl t.cls .BoolTypeTransformable = true then .err "unmodelled: TypeTransform result is BoolTypeTransformable" else .ok t) := by
        simp [transformTypes, U.cls]
      rw [tts]
      simp only [typeTransform]
      apply tres_bind (P := fun t => setExprT t = true ∧ t.cls = .subQueryNode) _ (fun a ha => by
        simp [ha.2]; exact tres_ok ha.1)
      cases s <;> simp [isSymU] at h
      case sym n =>
        rw [tt_sym]
        have hsym := transformSymbol_spec st n
        cases hx : transformSymbol st n with
        | ok t =>
          obtain ⟨k, rfl⟩ := hsym.2 t hx
          simp only [Outcome.bind_ok]
          cases hsub : st.sub (U.sym n).symbolName with
          | none => exact tres_err _
          | some sub =>
            simp only
            have hq : transformTypes sub q = typeTransformBool sub q := by
              cases q <;> simp [shQuery] at h
              exact ttb_of_tt sub _ (by simp [U.cls]) (by simp [U.cls])
            rw [hq]
            apply tres_bind (ihq.2.2.2.2 h sub); intro tq htq
            have hsn : impl (T.symT k n).cls .SymbolNode = true := by cases k <;> simp [T.cls, SymK.cls]
            have hqq : impl tq.cls .Query = true := by
              cases tq <;> simp [isQueryT] at htq; simp [T.cls]
            simp [hsn, hqq]
            exact tres_ok ⟨by simp [setExprT, isSymT, htq.1, htq.2], rfl⟩
        | err e => exact tres_err e
        | panic p => rw [hx] at hsym; exact absurd hsym.1 (by simp [NP, Outcome.isPanic])
    · simp [shBool] at h
    · simp [shNotArg] at h
    · simp [shQuery] at h
  | query p s sk li ihp _ =>
    refine ⟨?_, ?_, ?_, ?_, ?_⟩ <;> intro h st
    · simp [shLhs] at h
    · simp [shSetExpr] at h
    · simp [shBool] at h
    · simp [shNotArg] at h
    · simp only [shQuery, Bool.and_eq_true] at h
      have hs : s = .noSort ∨ ∃ f, s = .sortBy f := by
        cases s <;> simp [sortOK] at h <;> simp
      have fin : ∀ (tp : T) (ts : Option (List (SymK × Name × Bool))),
          (impl tp.cls .BoolNode = true → okBool tp = true) →
          TRes (if (!impl tp.cls .BoolNode) = true then Outcome.err "query expr predicate must be a boolean expr"
            else Outcome.ok (T.query tp ts sk li)) (fun t => okBool t = true ∧ isQueryT t = true) := by
        intro tp ts htp
        by_cases hb : impl tp.cls .BoolNode = true
        · simp only [hb, Bool.not_true, Bool.false_eq_true, if_false]
          exact tres_ok ⟨by simpa [okBool] using htp hb, rfl⟩
        · simp only [hb, Bool.not_false, if_true]; exact tres_err _
      rcases hs with rfl | ⟨f, rfl⟩
      · simp only [typeTransformBool]
        apply tres_bind (ihp.2.2.1 h.1 st); intro tp htp
        simp only [Outcome.bind_ok]
        exact fin tp none htp
      · simp only [typeTransformBool]
        apply tres_bind (ihp.2.2.1 h.1 st); intro tp htp
        have hnp := np_transformSort st f
        cases hx : transformSort st f with
        | ok l =>
          simp only [Outcome.bind, Outcome.bind_ok]
          exact fin tp (some l) htp
        | err e => exact tres_err e
        | panic p => rw [hx] at hnp; exact absurd hnp (by simp [NP, Outcome.isPanic])
  | _ => refine ⟨?_, ?_, ?_, ?_, ?_⟩ <;> intro h <;> simp [shLhs, shSetExpr, shBool, shNotArg, shQuery] at h

end StorageModel.C10
