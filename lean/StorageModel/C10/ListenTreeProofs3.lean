import StorageModel.C10.ListenTreeProofs2
/-
  C10 — the listener on complete derivations, part 3: the mutual induction and the top level.
-/
namespace StorageModel.C10

/-- failure of the first part fails the whole sequence -/
theorem effOn_fail_left {a b : List Ev} {pre : List SV} (ha : EffOn a pre none) : EffOn (a ++ b) pre none :=
  effOn_congr (effOn_bind (k := fun _ => none) ha (fun mid hm => by cases hm)) rfl

theorem rhs_kind_literal (op rhs : TK) (h : rhsOk op rhs = true) :
    rhs = .STRING ∨ rhs = .NUMBER ∨ rhs = .DATETIME ∨ rhs = .BOOL ∨ rhs = .NULL ∨ rhs = .NONE := by
  cases op <;> simp [rhsOk] at h <;> cases rhs <;> simp_all

theorem rhsOk_op (op rhs : TK) (h : rhsOk op rhs = true) :
    op = .EQ ∨ op = .LT ∨ op = .GT ∨ op = .IN ∨ op = .BETWEEN ∨ op = .CONTAINS ∨ op = .ICONTAINS := by
  cases op <;> simp [rhsOk] at h <;> simp

mutual
theorem effOn_bool : ∀ (t : BoolTree), t.wf = true → ∀ pre, EffOn t.events pre (t.build.map fun u => .node u :: pre)
  | .inArr lhs w0 op w1 arr, h, pre => by
    simp only [BoolTree.wf, Bool.and_eq_true, kindIs, beq_iff_eq] at h
    have e1 := effOn_lhs lhs h.1.1.1.1.1.1 pre
    simp only [BoolTree.events, BoolTree.build, Option.bind_eq_bind]
    cases hl : lhs.build with
    | none =>
      rw [hl] at e1
      simp only [Option.bind_none, Option.map_none, List.append_assoc]
      exact effOn_fail_left e1
    | some l =>
      rw [hl] at e1
      simp only [Option.map_some] at e1
      have e2 := effOn_push (eff_op op (Or.inr (Or.inr (Or.inr (Or.inl h.1.1.1.2))))) (.node l :: pre)
      simp only [Option.map_some] at e2
      have e3 := effOn_push (eff_array arr h.2) (.binop (opOfToken op) :: .node l :: pre)
      simp only [Option.bind_some]
      cases ha : arr.build with
      | none =>
        rw [ha] at e3
        simp only [Option.map_none] at e3
        simp only [Option.bind_none, Option.map_none]
        have := effOn_seq e1 (effOn_seq e2 (effOn_fail_left (b := [Ev.xIn]) e3))
        simpa [List.append_assoc] using this
      | some a =>
        rw [ha] at e3
        simp only [Option.map_some] at e3
        simp only [Option.bind_some]
        have hx : EffOn [Ev.xIn] (.node a :: .binop (opOfToken op) :: .node l :: pre)
            (some ((if hasNot op.text then SV.node (.notE (.inArr l a)) else .node (.inArr l a)) :: pre)) := by
          apply effOn_step; intro s c
          by_cases hn : hasNot op.text = true <;>
            simp [step, exitInArrayOp, popNode, popBinop, push, opOfToken, h.1.1.1.2, hn]
        have := effOn_seq e1 (effOn_seq e2 (effOn_seq e3 hx))
        by_cases hn : hasNot op.text = true <;> simpa [List.append_assoc, hn] using this
  | .between lhs w0 op w1 lo w2 a w3 hi, h, pre => by
    simp only [BoolTree.wf, Bool.and_eq_true, Bool.or_eq_true, kindIs, beq_iff_eq] at h
    have e1 := effOn_lhs lhs h.1.1.1.1.1.1.1.1.1.1.1.1 pre
    have hlo : lo.kind = .NUMBER ∨ lo.kind = .DATETIME := h.1.1.1.1.1.1.2
    have hhi : hi.kind = .NUMBER ∨ hi.kind = .DATETIME := by rw [h.2]; exact hlo
    have hand : tokEv a = [] := tokEv_silent a .AND h.1.1.1.2 (by decide)
    simp only [BoolTree.events, BoolTree.build, Option.bind_eq_bind, hand, List.append_nil]
    cases hl : lhs.build with
    | none =>
      rw [hl] at e1
      simp only [Option.bind_none, Option.map_none, List.append_assoc]
      exact effOn_fail_left e1
    | some l =>
      rw [hl] at e1
      simp only [Option.map_some] at e1
      have e2 := effOn_push (eff_op op (Or.inr (Or.inr (Or.inr (Or.inr (Or.inl h.1.1.1.1.1.1.1.1.1.2)))))) (.node l :: pre)
      simp only [Option.map_some] at e2
      have e3 := effOn_push (eff_literal lo (by rcases hlo with h' | h' <;> simp [h'])) (.binop (opOfToken op) :: .node l :: pre)
      simp only [Option.bind_some]
      cases h3 : litOfToken lo with
      | none =>
        rw [h3] at e3
        simp only [Option.map_none] at e3
        simp only [Option.bind_none, Option.map_none]
        have := effOn_seq e1 (effOn_seq e2 (effOn_fail_left (b := tokEv hi ++ [Ev.xBtw]) e3))
        simpa [List.append_assoc] using this
      | some x =>
        rw [h3] at e3
        simp only [Option.map_some] at e3
        have e4 := effOn_push (eff_literal hi (by rcases hhi with h' | h' <;> simp [h'])) (.node x :: .binop (opOfToken op) :: .node l :: pre)
        simp only [Option.bind_some]
        cases h4 : litOfToken hi with
        | none =>
          rw [h4] at e4
          simp only [Option.map_none] at e4
          simp only [Option.bind_none, Option.map_none]
          have := effOn_seq e1 (effOn_seq e2 (effOn_seq e3 (effOn_fail_left (b := [Ev.xBtw]) e4)))
          simpa [List.append_assoc] using this
        | some y =>
          rw [h4] at e4
          simp only [Option.map_some] at e4
          simp only [Option.bind_some]
          have hx : EffOn [Ev.xBtw] (.node y :: .node x :: .binop (opOfToken op) :: .node l :: pre)
              (some ((if hasNot op.text then SV.node (.notE (.between l x y)) else .node (.between l x y)) :: pre)) := by
            apply effOn_step; intro s c
            by_cases hn : hasNot op.text = true <;>
              simp [step, exitBetweenOp, popNode, popBinop, push, opOfToken, h.1.1.1.1.1.1.1.1.1.2, hn]
          have := effOn_seq e1 (effOn_seq e2 (effOn_seq e3 (effOn_seq e4 hx)))
          by_cases hn : hasNot op.text = true <;> simpa [List.append_assoc, hn] using this
  | .binary lhs w0 op w1 rhs, h, pre => by
    simp only [BoolTree.wf, Bool.and_eq_true] at h
    have e1 := effOn_lhs lhs h.1.1.1.1 pre
    have hop := rhsOk_op _ _ h.1.2
    have hrk := rhs_kind_literal _ _ h.1.2
    simp only [BoolTree.events, BoolTree.build, Option.bind_eq_bind]
    cases hl : lhs.build with
    | none =>
      rw [hl] at e1
      simp only [Option.bind_none, Option.map_none, List.append_assoc]
      exact effOn_fail_left e1
    | some l =>
      rw [hl] at e1
      simp only [Option.map_some] at e1
      have e2 := effOn_push (eff_op op hop) (.node l :: pre)
      simp only [Option.map_some] at e2
      have e3 := effOn_push (eff_literal rhs hrk) (.binop (opOfToken op) :: .node l :: pre)
      simp only [Option.bind_some]
      cases h3 : litOfToken rhs with
      | none =>
        rw [h3] at e3
        simp only [Option.map_none] at e3
        simp only [Option.bind_none, Option.map_none]
        have := effOn_seq e1 (effOn_seq e2 (effOn_fail_left (b := [Ev.xBin]) e3))
        simpa [List.append_assoc] using this
      | some r =>
        rw [h3] at e3
        simp only [Option.map_some] at e3
        simp only [Option.bind_some, Option.map_some]
        have hx : EffOn [Ev.xBin] (.node r :: .binop (opOfToken op) :: .node l :: pre)
            (some (.node (.binary (opOfToken op) l r) :: pre)) := by
          apply effOn_step; intro s c
          simp [step, exitBinaryOp, popNode, popBinop, push]
        have := effOn_seq e1 (effOn_seq e2 (effOn_seq e3 hx))
        simpa [List.append_assoc] using this
  | .group lp w0 e w1 rp, h, pre => by
    simp only [BoolTree.wf, Bool.and_eq_true] at h
    have e1 := effOn_bool e h.1.1.2 pre
    simp only [BoolTree.events, BoolTree.build, Option.bind_eq_bind]
    cases he : e.build with
    | none =>
      rw [he] at e1
      simp only [Option.bind_none, Option.map_none]
      exact effOn_fail_left e1
    | some x =>
      rw [he] at e1
      simp only [Option.map_some] at e1
      simp only [Option.bind_some, Option.map_some]
      refine effOn_seq e1 (effOn_step _ _ _ ?_)
      intro s c
      cases x <;> simp [step, exitGroupCtx, peek, markGrouped]
  | .and l w0 op w1 r, h, pre => by
    simp only [BoolTree.wf, Bool.and_eq_true] at h
    have e1 := effOn_bool l h.1.1.1.1.1.1 pre
    simp only [BoolTree.events, BoolTree.build, Option.bind_eq_bind]
    cases hl : l.build with
    | none =>
      rw [hl] at e1
      simp only [Option.bind_none, Option.map_none, List.append_assoc]
      exact effOn_fail_left e1
    | some a =>
      rw [hl] at e1
      simp only [Option.map_some] at e1
      have e2 := effOn_bool r h.2 (.node a :: pre)
      simp only [Option.bind_some]
      cases hr : r.build with
      | none =>
        rw [hr] at e2
        simp only [Option.map_none] at e2
        simp only [Option.bind_none, Option.map_none]
        have := effOn_seq e1 (effOn_fail_left (b := [Ev.xAnd]) e2)
        simpa [List.append_assoc] using this
      | some b =>
        rw [hr] at e2
        simp only [Option.map_some] at e2
        simp only [Option.bind_some, Option.map_some]
        have hx : EffOn [Ev.xAnd] (.node b :: .node a :: pre) (some (.node (andNode a b) :: pre)) := by
          apply effOn_step; intro s c
          simp [step, exitLogic, popNode, push]
        have := effOn_seq e1 (effOn_seq e2 hx)
        simpa [List.append_assoc] using this
  | .or l w0 op w1 r, h, pre => by
    simp only [BoolTree.wf, Bool.and_eq_true] at h
    have e1 := effOn_bool l h.1.1.1.1.1.1 pre
    simp only [BoolTree.events, BoolTree.build, Option.bind_eq_bind]
    cases hl : l.build with
    | none =>
      rw [hl] at e1
      simp only [Option.bind_none, Option.map_none, List.append_assoc]
      exact effOn_fail_left e1
    | some a =>
      rw [hl] at e1
      simp only [Option.map_some] at e1
      have e2 := effOn_bool r h.2 (.node a :: pre)
      simp only [Option.bind_some]
      cases hr : r.build with
      | none =>
        rw [hr] at e2
        simp only [Option.map_none] at e2
        simp only [Option.bind_none, Option.map_none]
        have := effOn_seq e1 (effOn_fail_left (b := [Ev.xOr]) e2)
        simpa [List.append_assoc] using this
      | some b =>
        rw [hr] at e2
        simp only [Option.map_some] at e2
        simp only [Option.bind_some, Option.map_some]
        have hx : EffOn [Ev.xOr] (.node b :: .node a :: pre) (some (.node (.logic .or false a b) :: pre)) := by
          apply effOn_step; intro s c
          simp [step, exitLogic, popNode, push]
        have := effOn_seq e1 (effOn_seq e2 hx)
        simpa [List.append_assoc] using this
  | .boolConst t, h, pre => by
    simp only [BoolTree.wf, kindIs, beq_iff_eq] at h
    have := effOn_push (eff_literal t (Or.inr (Or.inr (Or.inr (Or.inl h))))) pre
    simp only [BoolTree.events, BoolTree.build]
    exact effOn_congr this (by cases litOfToken t <;> rfl)
  | .symbol t, h, pre => by
    simp only [BoolTree.wf] at h
    simpa [BoolTree.events, BoolTree.build] using effOn_push (eff_ident t h) pre
  | .not kw w e, h, pre => by
    simp only [BoolTree.wf, Bool.and_eq_true] at h
    have e1 := effOn_bool e h.2 pre
    simp only [BoolTree.events, BoolTree.build, Option.bind_eq_bind]
    cases he : e.build with
    | none =>
      rw [he] at e1
      simp only [Option.bind_none, Option.map_none]
      exact effOn_fail_left e1
    | some x =>
      rw [he] at e1
      simp only [Option.map_some] at e1
      simp only [Option.bind_some, Option.map_some]
      refine effOn_seq e1 (effOn_step _ _ _ ?_)
      intro s c
      simp [step, exitNot, popNode, push]
  | .isEmpty kw lp w0 (.ident t) w1 rp, h, pre => by
    simp only [BoolTree.wf, SetExprTree.wf, Bool.and_eq_true, kindIs, beq_iff_eq] at h
    have := effOn_setCall_ident kw t (Or.inr h.1.1.1.1.1) (by simpa [kindIs] using h.1.1.2) pre
    simpa [BoolTree.events, BoolTree.build, SetExprTree.events, SetExprTree.build, setFnOfToken, h.1.1.1.1.1, List.append_assoc] using this
  | .isEmpty kw lp w0 (.subQuery f w0' id w1' wh w2' (.pred e tail)) w1 rp, h, pre => by
    simp only [BoolTree.wf, Bool.and_eq_true, kindIs, beq_iff_eq] at h
    have hq : (QueryTree.pred e tail).wf = true := by
      have := h.1.1.2; simp only [SetExprTree.wf, Bool.and_eq_true] at this; exact this.2
    have he : e.wf = true := by simp only [QueryTree.wf, Bool.and_eq_true] at hq; exact hq.1
    have := effOn_setCall_pred kw (Or.inr h.1.1.1.1.1) f w0' id w1' wh w2' e tail h.1.1.2 (effOn_bool e he) pre
    simp only [BoolTree.events, BoolTree.build, Option.bind_eq_bind]
    cases hb : (SetExprTree.subQuery f w0' id w1' wh w2' (.pred e tail)).build with
    | none => rw [hb] at this; simpa [List.append_assoc] using this
    | some x => rw [hb] at this; simpa [List.append_assoc, setFnOfToken, h.1.1.1.1.1] using this
  | .isEmpty kw lp w0 (.subQuery f w0' id w1' wh w2' (.sort s sk li)) w1 rp, h, pre => by
    simp only [BoolTree.wf, Bool.and_eq_true, kindIs, beq_iff_eq] at h
    have := effOn_setCall_nopred kw (Or.inr h.1.1.1.1.1) f w0' id w1' wh w2' (.sort s sk li) h.1.1.2 (by intro e t hc; cases hc) pre
    simpa [BoolTree.events, BoolTree.build, SetExprTree.build, List.append_assoc] using this
  | .isEmpty kw lp w0 (.subQuery f w0' id w1' wh w2' (.skip s li)) w1 rp, h, pre => by
    simp only [BoolTree.wf, Bool.and_eq_true, kindIs, beq_iff_eq] at h
    have := effOn_setCall_nopred kw (Or.inr h.1.1.1.1.1) f w0' id w1' wh w2' (.skip s li) h.1.1.2 (by intro e t hc; cases hc) pre
    simpa [BoolTree.events, BoolTree.build, SetExprTree.build, List.append_assoc] using this
  | .isEmpty kw lp w0 (.subQuery f w0' id w1' wh w2' (.limit l)) w1 rp, h, pre => by
    simp only [BoolTree.wf, Bool.and_eq_true, kindIs, beq_iff_eq] at h
    have := effOn_setCall_nopred kw (Or.inr h.1.1.1.1.1) f w0' id w1' wh w2' (.limit l) h.1.1.2 (by intro e t hc; cases hc) pre
    simpa [BoolTree.events, BoolTree.build, SetExprTree.build, List.append_assoc] using this
theorem effOn_lhs : ∀ (t : LhsTree), t.wf = true → ∀ pre, EffOn t.events pre (t.build.map fun u => .node u :: pre)
  | .ident t, h, pre => by
    simp only [LhsTree.wf] at h
    simpa [LhsTree.events, LhsTree.build] using effOn_push (eff_ident t h) pre
  | .setFn fn lp w0 id w1 rp, h, pre => by
    simp only [LhsTree.wf, Bool.and_eq_true, Bool.or_eq_true, kindIs, beq_iff_eq] at h
    have hfn : fn.kind = .ALL_OF ∨ fn.kind = .ANY_OF := h.1.1.1.1.1
    have e1 := effOn_push (eff_setfn fn (by rcases hfn with h' | h' <;> simp [h'])) pre
    have e2 := effOn_push (eff_ident id (by simpa [kindIs] using h.1.1.2)) (.setfn (setFnOfToken fn) :: pre)
    simp only [Option.map_some] at e1 e2
    simp only [LhsTree.events, LhsTree.build, Option.map_some]
    rw [List.append_assoc]
    refine effOn_seq e1 (effOn_seq e2 (effOn_step _ _ _ ?_))
    intro s c
    simp [step, pushSetFunction, popSymbol, popSetFn, U.cls, push]
  | .count fn lp w0 (.ident t) w1 rp, h, pre => by
    simp only [LhsTree.wf, SetExprTree.wf, Bool.and_eq_true, kindIs, beq_iff_eq] at h
    have := effOn_setCall_ident fn t (Or.inl h.1.1.1.1.1) (by simpa [kindIs] using h.1.1.2) pre
    simpa [LhsTree.events, LhsTree.build, SetExprTree.events, SetExprTree.build, setFnOfToken, h.1.1.1.1.1, List.append_assoc] using this
  | .count fn lp w0 (.subQuery f w0' id w1' wh w2' (.pred e tail)) w1 rp, h, pre => by
    simp only [LhsTree.wf, Bool.and_eq_true, kindIs, beq_iff_eq] at h
    have hq : (QueryTree.pred e tail).wf = true := by
      have := h.1.1.2; simp only [SetExprTree.wf, Bool.and_eq_true] at this; exact this.2
    have he : e.wf = true := by simp only [QueryTree.wf, Bool.and_eq_true] at hq; exact hq.1
    have := effOn_setCall_pred fn (Or.inl h.1.1.1.1.1) f w0' id w1' wh w2' e tail h.1.1.2 (effOn_bool e he) pre
    simp only [LhsTree.events, LhsTree.build, Option.bind_eq_bind]
    cases hb : (SetExprTree.subQuery f w0' id w1' wh w2' (.pred e tail)).build with
    | none => rw [hb] at this; simpa [List.append_assoc] using this
    | some x => rw [hb] at this; simpa [List.append_assoc, setFnOfToken, h.1.1.1.1.1] using this
  | .count fn lp w0 (.subQuery f w0' id w1' wh w2' (.sort s sk li)) w1 rp, h, pre => by
    simp only [LhsTree.wf, Bool.and_eq_true, kindIs, beq_iff_eq] at h
    have := effOn_setCall_nopred fn (Or.inl h.1.1.1.1.1) f w0' id w1' wh w2' (.sort s sk li) h.1.1.2 (by intro e t hc; cases hc) pre
    simpa [LhsTree.events, LhsTree.build, SetExprTree.build, List.append_assoc] using this
  | .count fn lp w0 (.subQuery f w0' id w1' wh w2' (.skip s li)) w1 rp, h, pre => by
    simp only [LhsTree.wf, Bool.and_eq_true, kindIs, beq_iff_eq] at h
    have := effOn_setCall_nopred fn (Or.inl h.1.1.1.1.1) f w0' id w1' wh w2' (.skip s li) h.1.1.2 (by intro e t hc; cases hc) pre
    simpa [LhsTree.events, LhsTree.build, SetExprTree.build, List.append_assoc] using this
  | .count fn lp w0 (.subQuery f w0' id w1' wh w2' (.limit l)) w1 rp, h, pre => by
    simp only [LhsTree.wf, Bool.and_eq_true, kindIs, beq_iff_eq] at h
    have := effOn_setCall_nopred fn (Or.inl h.1.1.1.1.1) f w0' id w1' wh w2' (.limit l) h.1.1.2 (by intro e t hc; cases hc) pre
    simpa [LhsTree.events, LhsTree.build, SetExprTree.build, List.append_assoc] using this
end

/-- a top-level query without predicate: the constant true becomes the predicate -/
theorem nopred_top (q : QueryTree) (hq : q.wf = true) (hnp : ∀ e t, q ≠ .pred e t) :
    listen q.events = (match q.build with
      | some u => .ok u
      | none => .err "listener error") := by
  obtain ⟨sb, sk, li, h1, h2, h3, hev, hb⟩ := nopred_events q hq hnp
  have ht := effOn_tail sb sk li h1 h2 h3 [] LState.init [] rfl rfl
  rw [hev, hb]
  cases hp : tailParts sb sk li with
  | none =>
    rw [hp] at ht
    obtain ⟨st', hr, herr⟩ := ht
    obtain ⟨st2, hr2, herr2⟩ := run_err [Ev.xQ] st' herr
    simp only [listen]
    rw [run_append, hr]
    simp only [hr2, getQueryU, herr2, if_true, Option.map_none]
  | some r =>
    obtain ⟨su, a, b⟩ := r
    rw [hp] at ht
    simp only [Option.map_some, List.append_nil] at ht
    have hsu := tailParts_sort _ _ _ su a b hp
    have hx := exitQ_top (sbNode sb) (sbNode_sortBy _) a b []
    simp only [List.append_nil] at hx
    simp only [listen]
    rw [run_append, ht]
    simp [run, LState.init, hx, getQueryU, popNode, hsu]

/-- **the listener on a complete derivation**: the query `build` describes, or a latched error — never a panic -/
theorem listen_tree (t : StartTree) (h : t.wf = true) :
    listen t.events = (match t.build with
      | some u => .ok u
      | none => .err "listener error") := by
  simp only [StartTree.wf, Bool.and_eq_true] at h
  have hq := h.1.2
  simp only [StartTree.events, StartTree.build]
  cases hqt : t.q with
  | pred e tail =>
    rw [hqt] at hq
    have he : e.wf = true := by simp only [QueryTree.wf, Bool.and_eq_true] at hq; exact hq.1
    have := effOn_predQuery e tail hq (effOn_bool e he) [] LState.init [] rfl rfl
    cases hb : (QueryTree.pred e tail).build with
    | none =>
      rw [hb] at this
      obtain ⟨st', hr, herr⟩ := this
      simp [listen, hr, getQueryU, herr]
    | some u =>
      rw [hb] at this
      simp only [Option.map_some, List.append_nil] at this
      have hu := query_shaped _ hq u hb
      cases u <;> simp [shQuery] at hu
      have this' : run ⟨[], [], false⟩ (QueryTree.pred e tail).events = _ := this
      simp only [listen, LState.init, this']
      simp [getQueryU, popNode]
  | sort s sk li =>
    rw [hqt] at hq
    exact nopred_top (.sort s sk li) hq (by intro e t hc; cases hc)
  | skip s li =>
    rw [hqt] at hq
    exact nopred_top (.skip s li) hq (by intro e t hc; cases hc)
  | limit l =>
    rw [hqt] at hq
    exact nopred_top (.limit l) hq (by intro e t hc; cases hc)

end StorageModel.C10
