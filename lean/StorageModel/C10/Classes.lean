import StorageModel.C10.Basic
import StorageModel.Generated.C10Classes
/-
  C10 — the Go node classes and the `ast` interfaces.  Which class implements which interface,
  and what `GetType()` returns, is NOT written here: it is looked up in
  `Generated.C10.classTable`, which /verif/extract regenerates from ast/*.go on every run.
  A type assertion `x.(I)` in the Go code is `impl (cls x) I` here.
-/
namespace StorageModel.C10

inductive Iface where
  | AsStringArrayable | BoolNode | BoolTypeTransformable | DatetimeNode | Float64Node | Int64Node
  | Node | Query | SeekOptimizableBoolNode | SortField | StringNode | SymbolNode | TypeTransformable
deriving DecidableEq, Repr

def Iface.goName : Iface → String
  | .AsStringArrayable => "AsStringArrayable" | .BoolNode => "BoolNode"
  | .BoolTypeTransformable => "BoolTypeTransformable" | .DatetimeNode => "DatetimeNode"
  | .Float64Node => "Float64Node" | .Int64Node => "Int64Node" | .Node => "Node" | .Query => "Query"
  | .SeekOptimizableBoolNode => "SeekOptimizableBoolNode" | .SortField => "SortField"
  | .StringNode => "StringNode" | .SymbolNode => "SymbolNode" | .TypeTransformable => "TypeTransformable"

/-- Go struct types of package ast that implement `Node` -/
inductive Cls where
  | AllOfSetExprNode | AndExprNode | AnyOfSetExprNode | AnyTypeSymbolNode | BetweenExprNode
  | BinaryBoolExprNode | BinaryDatetimeExprNode | BinaryExprNode | BinaryFloat64ExprNode
  | BinaryInt64ExprNode | BinaryStringExprNode | BoolConstNode | BoolSymbolNode | BooleanLogicExprNode
  | CountSetExprNode | DatetimeArrayNode | DatetimeBetweenExprNode | DatetimeConstNode
  | DatetimeSymbolNode | Float64ArrayNode | Float64BetweenExprNode | Float64ConstNode
  | Float64SymbolNode | InArrayExprNode | InDatetimeArrayExprNode | InFloat64ArrayExprNode
  | InInt64ArrayExprNode | InStringArrayExprNode | Int64ArrayNode | Int64BetweenExprNode
  | Int64ConstNode | Int64SymbolNode | Int64ToFloat64Node | IsEmptySetExprNode | IsNilExprNode
  | LimitExprNode | NotExprNode | NullConstNode | OrExprNode | SetFunctionNode | SkipExprNode
  | SortByNode | SortFieldNode | StringArrayNode | StringConstNode | StringFuncNode | StringSymbolNode
  | UntypedNotExprNode | UntypedSubQueryNode | UntypedSymbolNode | queryNode | subQueryNode
  | untypedQueryNode
deriving DecidableEq, Repr

def Cls.all : List Cls :=
  [.AllOfSetExprNode, .AndExprNode, .AnyOfSetExprNode, .AnyTypeSymbolNode, .BetweenExprNode,
   .BinaryBoolExprNode, .BinaryDatetimeExprNode, .BinaryExprNode, .BinaryFloat64ExprNode,
   .BinaryInt64ExprNode, .BinaryStringExprNode, .BoolConstNode, .BoolSymbolNode, .BooleanLogicExprNode,
   .CountSetExprNode, .DatetimeArrayNode, .DatetimeBetweenExprNode, .DatetimeConstNode,
   .DatetimeSymbolNode, .Float64ArrayNode, .Float64BetweenExprNode, .Float64ConstNode,
   .Float64SymbolNode, .InArrayExprNode, .InDatetimeArrayExprNode, .InFloat64ArrayExprNode,
   .InInt64ArrayExprNode, .InStringArrayExprNode, .Int64ArrayNode, .Int64BetweenExprNode,
   .Int64ConstNode, .Int64SymbolNode, .Int64ToFloat64Node, .IsEmptySetExprNode, .IsNilExprNode,
   .LimitExprNode, .NotExprNode, .NullConstNode, .OrExprNode, .SetFunctionNode, .SkipExprNode,
   .SortByNode, .SortFieldNode, .StringArrayNode, .StringConstNode, .StringFuncNode, .StringSymbolNode,
   .UntypedNotExprNode, .UntypedSubQueryNode, .UntypedSymbolNode, .queryNode, .subQueryNode,
   .untypedQueryNode]

def Cls.goName : Cls → String
  | .AllOfSetExprNode => "AllOfSetExprNode" | .AndExprNode => "AndExprNode"
  | .AnyOfSetExprNode => "AnyOfSetExprNode" | .AnyTypeSymbolNode => "AnyTypeSymbolNode"
  | .BetweenExprNode => "BetweenExprNode" | .BinaryBoolExprNode => "BinaryBoolExprNode"
  | .BinaryDatetimeExprNode => "BinaryDatetimeExprNode" | .BinaryExprNode => "BinaryExprNode"
  | .BinaryFloat64ExprNode => "BinaryFloat64ExprNode" | .BinaryInt64ExprNode => "BinaryInt64ExprNode"
  | .BinaryStringExprNode => "BinaryStringExprNode" | .BoolConstNode => "BoolConstNode"
  | .BoolSymbolNode => "BoolSymbolNode" | .BooleanLogicExprNode => "BooleanLogicExprNode"
  | .CountSetExprNode => "CountSetExprNode" | .DatetimeArrayNode => "DatetimeArrayNode"
  | .DatetimeBetweenExprNode => "DatetimeBetweenExprNode" | .DatetimeConstNode => "DatetimeConstNode"
  | .DatetimeSymbolNode => "DatetimeSymbolNode" | .Float64ArrayNode => "Float64ArrayNode"
  | .Float64BetweenExprNode => "Float64BetweenExprNode" | .Float64ConstNode => "Float64ConstNode"
  | .Float64SymbolNode => "Float64SymbolNode" | .InArrayExprNode => "InArrayExprNode"
  | .InDatetimeArrayExprNode => "InDatetimeArrayExprNode" | .InFloat64ArrayExprNode => "InFloat64ArrayExprNode"
  | .InInt64ArrayExprNode => "InInt64ArrayExprNode" | .InStringArrayExprNode => "InStringArrayExprNode"
  | .Int64ArrayNode => "Int64ArrayNode" | .Int64BetweenExprNode => "Int64BetweenExprNode"
  | .Int64ConstNode => "Int64ConstNode" | .Int64SymbolNode => "Int64SymbolNode"
  | .Int64ToFloat64Node => "Int64ToFloat64Node" | .IsEmptySetExprNode => "IsEmptySetExprNode"
  | .IsNilExprNode => "IsNilExprNode" | .LimitExprNode => "LimitExprNode" | .NotExprNode => "NotExprNode"
  | .NullConstNode => "NullConstNode" | .OrExprNode => "OrExprNode" | .SetFunctionNode => "SetFunctionNode"
  | .SkipExprNode => "SkipExprNode" | .SortByNode => "SortByNode" | .SortFieldNode => "SortFieldNode"
  | .StringArrayNode => "StringArrayNode" | .StringConstNode => "StringConstNode"
  | .StringFuncNode => "StringFuncNode" | .StringSymbolNode => "StringSymbolNode"
  | .UntypedNotExprNode => "UntypedNotExprNode" | .UntypedSubQueryNode => "UntypedSubQueryNode"
  | .UntypedSymbolNode => "UntypedSymbolNode" | .queryNode => "queryNode" | .subQueryNode => "subQueryNode"
  | .untypedQueryNode => "untypedQueryNode"

/-- `ast.NodeType` -/
inductive NodeType where
  | bool | datetime | float64 | int64 | string | anyType | other
deriving DecidableEq, Repr

def NodeType.ofGoName (s : String) : Option NodeType :=
  if s == "NodeTypeBool" then some .bool else if s == "NodeTypeDatetime" then some .datetime
  else if s == "NodeTypeFloat64" then some .float64 else if s == "NodeTypeInt64" then some .int64
  else if s == "NodeTypeString" then some .string else if s == "NodeTypeAnyType" then some .anyType
  else if s == "NodeTypeOther" then some .other else none

def Iface.all : List Iface :=
  [.AsStringArrayable, .BoolNode, .BoolTypeTransformable, .DatetimeNode, .Float64Node, .Int64Node, .Node,
   .Query, .SeekOptimizableBoolNode, .SortField, .StringNode, .SymbolNode, .TypeTransformable]

def Iface.idx (i : Iface) : Nat := i.ctorIdx
def Cls.idx (c : Cls) : Nat := c.ctorIdx

def NodeType.ofCode : Nat → Option NodeType
  | 0 => some .bool | 1 => some .datetime | 2 => some .float64 | 3 => some .int64 | 4 => some .string
  | 5 => some .anyType | 6 => some .other | _ => none

/-- does Go class `c` implement interface `i`, according to the regenerated table?
    (`classRows` is the numeric form of `classTable`: row = class in sorted order, bit = interface) -/
def impl (c : Cls) (i : Iface) : Bool :=
  match Generated.C10.classRows[c.idx]? with
  | some (mask, _) => mask.testBit i.idx
  | none => false

/-- constant result of `GetType()` of class `c` (none: computed) -/
def getTypeConst (c : Cls) : Option NodeType :=
  match Generated.C10.classRows[c.idx]? with
  | some (_, code) => NodeType.ofCode code
  | none => none

/-- the numeric table is the string table: names in the order of `Cls.all`, interface bits in the
    order of `Iface.all` -/
def rowOfEntry (e : String × List String × String) : Nat × Nat :=
  ((Iface.all.foldl (fun (acc : Nat × Nat) i => (if e.2.1.contains i.goName then acc.1 + 2 ^ acc.2 else acc.1, acc.2 + 1)) (0, 0)).1,
   match NodeType.ofGoName e.2.2 with
   | some .bool => 0 | some .datetime => 1 | some .float64 => 2 | some .int64 => 3 | some .string => 4
   | some .anyType => 5 | some .other => 6 | none => 7)

def tablesAgree : Bool :=
  Generated.C10.classTable.map (·.1) == Cls.all.map Cls.goName &&
  Generated.C10.classTable.map rowOfEntry == Generated.C10.classRows &&
  Iface.all.map Iface.idx == List.range 13 && Cls.all.map Cls.idx == List.range Cls.all.length

end StorageModel.C10
